(* C07 -- shuffle invariance of file validation (for files whose onsets are numeric and whose
   effective times are pairwise distinct).  Lemmas only; the model is Model/FileValidate.v. *)
From Coq Require Import List ZArith NArith Bool Arith Lia Permutation.
From HV Require Import Base.Res Model.FileValidate Proofs.FileValidateProofs.
Import ListNotations.

(* ------------------------------------------------------------------ uniqueness of the stable sort *)

Lemma key_le_trans a b c : key_le a b = true -> key_le b c = true -> key_le a c = true.
Proof.
  destruct a as [a|], b as [b|], c as [c|]; cbn; intros H1 H2; try discriminate; try reflexivity.
  apply Z.leb_le in H1, H2. apply Z.leb_le. lia.
Qed.

Lemma key_le_total a b : key_le a b = false -> key_le b a = true.
Proof.
  destruct a as [a|], b as [b|]; cbn; intros H; try discriminate; try reflexivity.
  apply Z.leb_gt in H. apply Z.leb_le. lia.
Qed.

Lemma key_le_excl a b : a <> b -> key_le (Some a) (Some b) = true -> key_le (Some b) (Some a) = false.
Proof. cbn. intros Hne H. apply Z.leb_le in H. apply Z.leb_gt. lia. Qed.

Section SortUnique.
  Variable A : Type.
  Variable key : A -> option Z.

  Lemma insert_comm x y s :
    (exists a b, key x = Some a /\ key y = Some b /\ a <> b) ->
    insert key x (insert key y s) = insert key y (insert key x s).
  Proof.
    intros (a & b & Ha & Hb & Hab).
    assert (Hxy : key_le (key x) (key y) = true -> key_le (key y) (key x) = false).
    { rewrite Ha, Hb. now apply key_le_excl. }
    assert (Hyx : key_le (key y) (key x) = true -> key_le (key x) (key y) = false).
    { rewrite Ha, Hb. apply key_le_excl. congruence. }
    induction s as [|z s IH].
    - cbn [insert]. destruct (key_le (key x) (key y)) eqn:E1.
      + now rewrite (Hxy eq_refl).
      + now rewrite (key_le_total _ _ E1).
    - cbn [insert].
      destruct (key_le (key y) (key z)) eqn:Eyz; destruct (key_le (key x) (key z)) eqn:Exz; cbn [insert].
      + destruct (key_le (key x) (key y)) eqn:E1.
        * rewrite (Hxy eq_refl). now rewrite Eyz.
        * rewrite (key_le_total _ _ E1). now rewrite Exz.
      + (* y <= z < x *)
        destruct (key_le (key x) (key y)) eqn:E1.
        * rewrite (key_le_trans _ _ _ E1 Eyz) in Exz. discriminate.
        * now rewrite Exz, Eyz.
      + (* x <= z < y *)
        rewrite Eyz. destruct (key_le (key y) (key x)) eqn:E2.
        * rewrite (key_le_trans _ _ _ E2 Exz) in Eyz. discriminate.
        * now rewrite Exz.
      + rewrite Exz, Eyz. now rewrite IH.
  Qed.

  Lemma sort_perm_eq l l' :
    Permutation l l' -> Forall (fun x => key x <> None) l -> NoDup (map key l) ->
    sort_by key l = sort_by key l'.
  Proof.
    induction 1 as [|x l l' Hp IH|x y l|l l' l'' Hp1 IH1 Hp2 IH2]; intros Hs Hn.
    - reflexivity.
    - cbn [sort_by]. inversion Hs; subst. inversion Hn; subst. now rewrite IH.
    - cbn [sort_by]. inversion Hs as [|? ? Hy Hs']; subst. inversion Hs' as [|? ? Hx _]; subst.
      cbn in Hn. inversion Hn as [|? ? Hnotin _]; subst.
      apply insert_comm.
      destruct (key x) as [a|] eqn:Ea; [|congruence]. destruct (key y) as [b|] eqn:Eb; [|congruence].
      exists b, a. repeat split; auto. intros ->. apply Hnotin. now left.
    - rewrite IH1 by assumption. apply IH2.
      + eapply Permutation_Forall; eauto.
      + eapply Permutation_NoDup; [apply Permutation_map; exact Hp1|exact Hn].
  Qed.
End SortUnique.

Lemma insert_map {A B} (f : A -> B) (key : A -> option Z) (key' : B -> option Z) x l :
  (forall a, key' (f a) = key a) -> map f (insert key x l) = insert key' (f x) (map f l).
Proof.
  intros Hk. induction l as [|y l IH]; cbn [insert map]; [reflexivity|].
  rewrite !Hk. destruct (key_le (key x) (key y)); cbn [map]; [reflexivity|]. now rewrite IH.
Qed.

Lemma sort_by_map {A B} (f : A -> B) (key : A -> option Z) (key' : B -> option Z) l :
  (forall a, key' (f a) = key a) -> map f (sort_by key l) = sort_by key' (map f l).
Proof.
  intros Hk. induction l as [|x l IH]; cbn [sort_by map]; [reflexivity|].
  rewrite (insert_map f key key' _ _ Hk). now rewrite IH.
Qed.

(* ------------------------------------------------------------------ generic list facts *)

Lemma flat_map_ext_in {A B} (f g : A -> list B) l : (forall x, In x l -> f x = g x) -> flat_map f l = flat_map g l.
Proof.
  induction l as [|x l IH]; intros H; cbn; [reflexivity|].
  rewrite (H x) by (now left). rewrite IH; [reflexivity|]. intros y Hy. apply H. now right.
Qed.

Lemma perm_flat_map_pointwise {A B} (f g : A -> list B) l :
  (forall x, Permutation (f x) (g x)) -> Permutation (flat_map f l) (flat_map g l).
Proof. intros H. induction l as [|x l IH]; cbn; [reflexivity|]. now apply Permutation_app. Qed.

(* a function of the rows of the indexed frame that only looks at the row content *)
Lemma flat_map_indexed_rows {B} (G : drow -> list B) (H : row -> list B) i t :
  (forall j r, nth_error t j = Some r ->
               G {| dr_label := i + j; dr_onset := r_onset r; dr_body := r_body r |} = H r) ->
  flat_map G (indexed_from i t) = flat_map H t.
Proof.
  revert i; induction t as [|r t IH]; intros i Hg; cbn [indexed_from flat_map]; [reflexivity|].
  rewrite <- (Hg 0 r eq_refl). replace (i + 0) with i by lia. f_equal.
  apply IH. intros j r' Hj. replace (S i + j) with (i + S j) by lia. now apply Hg.
Qed.

Lemma map_norm_id l : Forall (fun r => s_time r <> None) l -> map norm l = l.
Proof.
  induction 1 as [|r l Hr _ IH]; cbn; [reflexivity|]. rewrite IH. unfold norm. destruct (s_time r); [reflexivity|congruence].
Qed.

Lemma times_of_some l : Forall (fun r => s_time r <> None) l -> map s_time l = map Some (times_of l).
Proof.
  induction 1 as [|r l Hr _ IH]; [reflexivity|]. unfold times_of in *. cbn [map flat_map]. rewrite IH.
  destruct (s_time r); [reflexivity|congruence].
Qed.

Lemma NoDup_map_Some {A} (l : list A) : NoDup l -> NoDup (map Some l).
Proof.
  induction 1 as [|x l Hx _ IH]; cbn; constructor; [|exact IH].
  intros Hin. apply in_map_iff in Hin as (y & Hy & Hin). inversion Hy; subst. contradiction.
Qed.

(* ------------------------------------------------------------------ the split of a row does not depend on its label *)

Lemma delay_rows_label cfg o lbl lbl' ids k ds :
  match delay_rows cfg o lbl ids k ds, delay_rows cfg o lbl' ids k ds with
  | Ok r, Ok r' => map (fun x => (s_time x, s_ann x)) (fst r) = map (fun x => (s_time x, s_ann x)) (fst r') /\ snd r = snd r'
  | Exn e, Exn e' => e = e'
  | _, _ => False
  end.
Proof.
  revert k; induction ds as [|d ds IH]; intros k; cbn [delay_rows]; [cbn; auto|].
  destruct (delay_decision cfg o d) as [dec|e]; cbn [bind]; [|reflexivity].
  specialize (IH (S k)).
  destruct (delay_rows cfg o lbl ids (S k) ds) as [r|e1], (delay_rows cfg o lbl' ids (S k) ds) as [r'|e2];
    cbn [bind]; try contradiction; [|exact IH].
  destruct IH as [Ha Hb]. destruct dec; cbn [fst snd map]; [|auto]. rewrite Ha, Hb. auto.
Qed.

Definition row_drow (k : nat) (r : row) : drow := {| dr_label := k; dr_onset := r_onset r; dr_body := r_body r |}.

Lemma split_out_label cfg k k' r :
  let x := split_out cfg (row_drow k r) in
  let x' := split_out cfg (row_drow k' r) in
  map (fun y => (s_time y, s_ann y)) (fst x :: snd x) = map (fun y => (s_time y, s_ann y)) (fst x' :: snd x').
Proof.
  cbn zeta. unfold split_out, split_row, row_drow. cbn [dr_label dr_onset dr_body].
  destruct (b_delaytext (r_body r)); [|reflexivity].
  pose proof (delay_rows_label cfg (r_onset r) k k' (ids_of (r_body r)) 0 (b_delays (r_body r))) as H.
  destruct (delay_rows cfg (r_onset r) k (ids_of (r_body r)) 0 (b_delays (r_body r))) as [dr|e],
           (delay_rows cfg (r_onset r) k' (ids_of (r_body r)) 0 (b_delays (r_body r))) as [dr'|e'];
    cbn [bind]; try contradiction; [|reflexivity].
  destruct H as [Ha Hb]. cbn [fst snd map s_time s_ann]. now rewrite Ha, Hb.
Qed.

(* ------------------------------------------------------------------ issues labelled by row CONTENT *)

Section Shuffle.
  Variable raw : Type.
  Variable raw_is_error : raw -> bool.
  Variable basic : N -> list raw.
  Variable full banned : ann -> list raw.
  Variable nonempty : ann -> bool.
  Variable tstate : Type.
  Variable temporal : tstate -> ann -> tstate * list raw.
  Variable tinit : tstate.
  Variable pre post : list raw.

  Notation issue := (issue raw).
  Notation validate := (validate raw raw_is_error basic full banned nonempty tstate temporal tinit pre post).
  Notation truthy := (truthy nonempty).
  Notation cells_loop := (cells_loop raw basic).
  Notation onset_checks := (onset_checks raw full nonempty tstate temporal).
  Notation row_issues := (row_issues raw raw_is_error basic full banned nonempty).
  Notation row_invalid := (row_invalid raw raw_is_error basic).
  Notation cell_issues := (cell_issues raw basic).
  Notation column_structure := (column_structure raw pre post).
  Notation is_unordered := (is_unordered raw).

  (* an issue whose row label is replaced by the row it points to *)
  Definition cissue : Type := (src raw * option row * option N)%type.
  Definition ident (adj : nat) (T : list row) (i : issue) : cissue :=
    (i_src i, match i_row i with Some n => nth_error T (n - adj) | None => None end, i_col i).
  (* all issues except the out-of-order warning, labelled by content *)
  Definition idents (adj : nat) (T : list row) (l : list issue) : list cissue :=
    flat_map (fun i => if is_unordered i then [] else [ident adj T i]) l.

  Lemma idents_app adj T l1 l2 : idents adj T (l1 ++ l2) = idents adj T l1 ++ idents adj T l2.
  Proof. unfold idents. apply flat_map_app. Qed.

  Lemma idents_perm adj T l l' : Permutation l l' -> Permutation (idents adj T l) (idents adj T l').
  Proof. unfold idents. apply perm_flat_map. Qed.

  Lemma idents_flat_map {A} adj T (f : A -> list issue) l :
    idents adj T (flat_map f l) = flat_map (fun a => idents adj T (f a)) l.
  Proof. unfold idents. apply flat_map_flat_map. Qed.

  Lemma idents_map adj T l :
    Forall (fun i => is_unordered i = false) l -> idents adj T l = map (ident adj T) l.
  Proof.
    unfold idents. induction 1 as [|i l Hi _ IH]; cbn; [reflexivity|]. now rewrite Hi, IH.
  Qed.

  (* ---- the content-labelled issue list, a function of the rows only ---- *)
  Definition ccells (r : row) : list cissue :=
    flat_map (fun c => if c_skip c then []
                       else map (fun x => (SBasic x, Some r, Some (c_col c))) (basic (c_id c))) (b_cells (r_body r)).
  Definition ckeys (c : N) (r : row) : list cissue :=
    if existsb (N.eqb c) (b_badkeys (r_body r)) then [(SKeyMissing, Some r, Some c)] else [].
  Definition cinv (r : row) : bool := existsb raw_is_error (snd (cells_loop 0 (b_cells (r_body r)) [])).
  Definition crow : Type := (option Z * ann * row)%type.
  Definition ctime (c : crow) : option Z := fst (fst c).
  Definition csplit (cfg : config) (r : row) : list crow :=
    let x := split_out cfg (row_drow 0 r) in map (fun y => (s_time y, s_ann y, r)) (fst x :: snd x).
  Fixpoint conset (st : tstate) (l : list crow) : list cissue :=
    match l with
    | [] => []
    | (_, a, r) :: rest =>
        if cinv r then conset st rest
        else if truthy a
        then let '(st', ti) := temporal st a in
             map (fun x => (SFull x, Some r, None)) (full a)
             ++ map (fun x => (STemporal x, Some r, None)) ti ++ conset st' rest
        else conset st rest
    end.
  Definition content (cfg : config) (t : list row) : list cissue :=
    map (fun x => (SPre x, None, None)) pre
    ++ flat_map (fun c => flat_map (ckeys c) t) (cf_cats cfg)
    ++ map (fun x => (SPost x, None, None)) post
    ++ flat_map ccells t
    ++ conset tinit (sort_by ctime (flat_map (csplit cfg) t)).

  (* ---- content is invariant under permuting the rows ---- *)
  Lemma content_perm cfg t t' :
    Permutation t t' ->
    Forall (fun c => ctime c <> None) (flat_map (csplit cfg) t) ->
    NoDup (map ctime (flat_map (csplit cfg) t)) ->
    Permutation (content cfg t) (content cfg t').
  Proof.
    intros Hp Hs Hn. unfold content.
    apply Permutation_app_head. apply Permutation_app.
    { apply perm_flat_map_pointwise. intros c. now apply perm_flat_map. }
    apply Permutation_app_head. apply Permutation_app; [now apply perm_flat_map|].
    rewrite (sort_perm_eq _ ctime _ _ (perm_flat_map (csplit cfg) _ _ Hp) Hs Hn). reflexivity.
  Qed.

  Lemma cells_loop_snd_indep rl rl' cells last :
    snd (cells_loop rl cells last) = snd (cells_loop rl' cells last).
  Proof.
    revert last; induction cells as [|c cs IH]; intros last; cbn [FileValidate.cells_loop]; [reflexivity|].
    destruct (c_skip c); [apply IH|].
    specialize (IH (basic (c_id c))).
    destruct (cells_loop rl cs (basic (c_id c))), (cells_loop rl' cs (basic (c_id c))). exact IH.
  Qed.

  Lemma row_invalid_cinv adj k r : row_invalid adj (row_drow k r) = cinv r.
  Proof. unfold FileValidateProofs.row_invalid, cinv, row_drow. cbn [dr_label dr_body]. now rewrite (cells_loop_snd_indep _ 0). Qed.

  Lemma in_indexed_row_drow t d :
    In d (indexed t) -> exists r, nth_error t (dr_label d) = Some r /\ d = row_drow (dr_label d) r.
  Proof.
    intros Hd. destruct (in_indexed t d Hd) as (r & Hr & Ho & Hb). exists r. split; [exact Hr|].
    destruct d; unfold row_drow; cbn in *. now subst.
  Qed.

  Lemma map_flat_map {A B C} (f : B -> C) (g : A -> list B) l :
    map f (flat_map g l) = flat_map (fun x => map f (g x)) l.
  Proof. induction l as [|x l IH]; cbn; [reflexivity|]. now rewrite map_app, IH. Qed.

  (* ---- column structure ---- *)
  Lemma idents_column_structure cfg adj t :
    idents adj t (column_structure cfg adj t)
    = map (fun x => (SPre x, None, None)) pre
      ++ flat_map (fun c => flat_map (ckeys c) t) (cf_cats cfg)
      ++ map (fun x => (SPost x, None, None)) post.
  Proof.
    unfold FileValidate.column_structure. rewrite !idents_app. f_equal; [|f_equal].
    - rewrite idents_map, map_map; [reflexivity|].
      apply Forall_forall. intros i Hi. apply in_map_iff in Hi as (x & <- & _). reflexivity.
    - rewrite idents_flat_map. apply flat_map_ext_in. intros c _.
      unfold key_issues. rewrite idents_flat_map. unfold indexed.
      apply flat_map_indexed_rows. intros j r Hj. unfold ckeys. cbn [dr_body dr_label].
      destruct (existsb (N.eqb c) (b_badkeys (r_body r))); [|reflexivity].
      unfold idents. cbn. unfold ident. cbn. now rewrite Nat.add_sub, Hj.
    - rewrite idents_map, map_map; [reflexivity|].
      apply Forall_forall. intros i Hi. apply in_map_iff in Hi as (x & <- & _). reflexivity.
  Qed.

  (* ---- _run_checks ---- *)
  Lemma idents_cells adj T j r cells :
    nth_error T j = Some r ->
    idents adj T (flat_map (cell_issues (j + adj)) cells)
    = flat_map (fun c => if c_skip c then []
                         else map (fun x => (SBasic x, Some r, Some (c_col c))) (basic (c_id c))) cells.
  Proof.
    intros Hj. induction cells as [|c cs IH]; cbn [flat_map]; [reflexivity|].
    rewrite idents_app, IH. f_equal. unfold FileValidateProofs.cell_issues. destruct (c_skip c); [reflexivity|].
    rewrite idents_map, map_map.
    - apply map_ext. intros x. unfold ident. cbn. now rewrite Nat.add_sub, Hj.
    - apply Forall_forall. intros i Hi. apply in_map_iff in Hi as (x & <- & _). reflexivity.
  Qed.

  Lemma idents_row_issues_numeric adj T j r :
    nth_error T j = Some r -> r_onset r <> None ->
    idents adj T (row_issues adj (fun d => is_some (dr_onset d)) (row_drow j r)) = ccells r.
  Proof.
    intros Hj Ho. unfold FileValidateProofs.row_issues, row_drow. cbn [dr_label dr_body dr_onset].
    rewrite idents_app, (idents_cells adj T j r _ Hj). unfold ccells.
    destruct (r_onset r); [|congruence]. cbn [is_some].
    destruct (FileValidateProofs.row_invalid _ _ _ _ _); [now rewrite app_nil_r|].
    destruct (ids_of (r_body r)); now rewrite app_nil_r.
  Qed.

  (* ---- _run_onset_checks ---- *)
  Definition row0 : row :=
    {| r_onset := None; r_body := {| b_cells := []; b_badkeys := []; b_delaytext := false; b_delays := [] |} |}.
  Definition cinfo (T : list row) (r0 : srow) : crow :=
    (s_time r0, s_ann r0, match nth_error T (s_orig r0) with Some r => r | None => row0 end).

  Lemma ctime_cinfo T L : map ctime (map (cinfo T) L) = map s_time L.
  Proof. rewrite map_map. apply map_ext. reflexivity. Qed.

  Lemma onset_content adj T invalid st rows :
    Forall (fun r0 => exists r, nth_error T (s_orig r0) = Some r /\
                                existsb (Nat.eqb (s_orig r0)) invalid = cinv r) rows ->
    idents adj T (onset_checks adj invalid st rows) = conset st (map (cinfo T) rows).
  Proof.
    intros H. revert st. induction H as [|r0 rows (r & Hr & Hinv) _ IH]; intros st;
      cbn [FileValidate.onset_checks map conset]; [reflexivity|].
    unfold cinfo at 1. rewrite Hr, Hinv.
    destruct (cinv r); [apply IH|].
    destruct (truthy (s_ann r0)); [|apply IH].
    destruct (temporal st (s_ann r0)) as [st' ti]. rewrite !idents_app, IH. f_equal; [|f_equal].
    - rewrite idents_map, map_map.
      + apply map_ext. intros x. unfold ident. cbn. now rewrite Nat.add_sub, Hr.
      + apply Forall_forall. intros i Hi. apply in_map_iff in Hi as (x & <- & _). reflexivity.
    - rewrite idents_map, map_map.
      + apply map_ext. intros x. unfold ident. cbn. now rewrite Nat.add_sub, Hr.
      + apply Forall_forall. intros i Hi. apply in_map_iff in Hi as (x & <- & _). reflexivity.
  Qed.

  Lemma cinfo_same T j r (L L' : list srow) :
    nth_error T j = Some r ->
    Forall (fun y => s_orig y = j) L ->
    map (fun y => (s_time y, s_ann y)) L = map (fun y => (s_time y, s_ann y)) L' ->
    map (cinfo T) L = map (fun y => (s_time y, s_ann y, r)) L'.
  Proof.
    intros Hj. revert L'. induction L as [|y L IH]; intros L' Hf Hm; destruct L' as [|y' L']; try discriminate; [reflexivity|].
    pose proof (Forall_inv Hf) as Hy. pose proof (Forall_inv_tail Hf) as Hf'. cbn in Hy. cbn in Hm. inversion Hm as [[Ht Ha Hm']].
    cbn [map]. rewrite (IH L' Hf' Hm'). unfold cinfo. now rewrite Hy, Hj, Ht, Ha.
  Qed.

  (* the rows of split_df, labelled by content, are (up to order) a function of the rows of the table *)
  Lemma split_content_perm cfg t :
    no_scramble cfg t ->
    Permutation (map (cinfo t) (split_rows (map (split_out cfg) (frame cfg t)))) (flat_map (csplit cfg) t).
  Proof.
    intros Hns. rewrite (Permutation_map (cinfo t) (split_rows_flat _)).
    rewrite flat_map_map', map_flat_map.
    rewrite (perm_flat_map _ _ _ (frame_perm cfg t Hns)). unfold indexed.
    rewrite (flat_map_indexed_rows _ (csplit cfg) 0 t); [reflexivity|].
    intros j r Hj. cbn [plus]. fold (row_drow j r). unfold csplit.
    apply (cinfo_same t j r); [exact Hj| |apply (split_out_label cfg j 0 r)].
    destruct (split_out_props cfg (row_drow j r)) as (H1 & _ & H3). constructor; [exact H1|].
    eapply Forall_impl; [|exact H3]. now intros y [Hy _].
  Qed.

  Lemma invalid_cinv adj cfg t d r :
    no_scramble cfg t -> In d (frame cfg t) -> nth_error t (dr_label d) = Some r ->
    existsb (Nat.eqb (dr_label d))
      (flat_map (fun d0 => if row_invalid adj d0 then [dr_label d0] else []) (frame cfg t)) = cinv r.
  Proof.
    intros Hns Hd Hr.
    assert (Hall : forall d', In d' (frame cfg t) -> dr_label d' = dr_label d -> row_invalid adj d' = cinv r).
    { intros d' Hd' Hl. apply (Permutation_in _ (frame_perm cfg t Hns)) in Hd'.
      destruct (in_indexed_row_drow t d' Hd') as (r' & Hr' & ->). cbn [dr_label row_drow] in *.
      rewrite Hl, Hr in Hr'. inversion Hr'; subst r'. apply row_invalid_cinv. }
    destruct (existsb _ _) eqn:E.
    - apply existsb_exists in E as (x & Hx & Heq). apply Nat.eqb_eq in Heq. subst x.
      apply in_flat_map in Hx as (d' & Hd' & Hx).
      destruct (row_invalid adj d') eqn:Ei; [|destruct Hx]. destruct Hx as [Hx|[]].
      rewrite (Hall d' Hd' Hx) in Ei. now rewrite Ei.
    - pose proof (Hall d Hd eq_refl) as Hdd.
      destruct (cinv r); [|reflexivity]. exfalso.
      assert (Hin : In (dr_label d) (flat_map (fun d0 => if row_invalid adj d0 then [dr_label d0] else []) (frame cfg t))).
      { apply in_flat_map. exists d. split; [exact Hd|]. rewrite Hdd. now left. }
      assert (existsb (Nat.eqb (dr_label d))
                (flat_map (fun d0 => if row_invalid adj d0 then [dr_label d0] else []) (frame cfg t)) = true) as Ht.
      { apply existsb_exists. exists (dr_label d). split; [exact Hin|apply Nat.eqb_refl]. }
      congruence.
  Qed.

  (* ---- the whole issue list, labelled by content ---- *)
  Lemma validate_content cfg t l :
    validate cfg t = Ok l -> cf_has_onset cfg = true -> no_scramble cfg t ->
    Forall (fun r => r_onset r <> None) t -> distinct_times cfg t ->
    Permutation (idents (row_adj cfg) t l) (content cfg t).
  Proof.
    intros H Hon Hns Hnum Hdist.
    destruct (validate_shape raw raw_is_error basic full banned nonempty tstate temporal tinit pre post
                cfg t l H Hon (or_intror Hnum) Hdist) as (Hp & _).
    set (adj := row_adj cfg) in *.
    rewrite (idents_perm adj t _ _ Hp).
    rewrite !idents_app, idents_column_structure. unfold content. rewrite <- !app_assoc.
    apply Permutation_app_head. apply Permutation_app_head. apply Permutation_app_head.
    assert (Hun : idents adj t (if needs_sorting cfg t then [mk SUnordered None None] else []) = []).
    { destruct (needs_sorting cfg t); reflexivity. }
    rewrite Hun. cbn [app]. apply Permutation_app.
    - (* _run_checks *)
      rewrite idents_flat_map. rewrite (perm_flat_map _ _ _ (frame_perm cfg t Hns)).
      unfold indexed. rewrite (flat_map_indexed_rows _ ccells 0 t); [reflexivity|].
      intros j r Hj. cbn [plus]. fold (row_drow j r).
      apply idents_row_issues_numeric; [exact Hj|]. rewrite Forall_forall in Hnum. apply Hnum. eapply nth_error_In; eauto.
    - (* _run_onset_checks *)
      set (X := split_rows (map (split_out cfg) (frame cfg t))).
      pose proof (split_rows_times_numeric cfg t Hnum) as Hall. fold X in Hall.
      pose proof (sort_by_perm s_time X) as Hsort.
      rewrite map_norm_id by (eapply Permutation_Forall; [symmetry; exact Hsort|exact Hall]).
      pose proof (split_rows_orig cfg (frame cfg t)) as Hor. subst X.
      rewrite onset_content.
      + rewrite (sort_by_map (cinfo t) s_time ctime) by reflexivity.
        rewrite (sort_perm_eq _ ctime _ _ (split_content_perm cfg t Hns)); [reflexivity| |].
        * apply Forall_forall. intros c Hc. apply in_map_iff in Hc as (r0 & <- & Hr0). cbn.
          rewrite Forall_forall in Hall. now apply Hall.
        * rewrite ctime_cinfo, (times_of_some _ Hall). apply NoDup_map_Some. exact Hdist.
      + eapply Permutation_Forall; [symmetry; exact Hsort|].
        eapply Forall_impl; [|exact Hor]. intros r0 Hin. apply in_map_iff in Hin as (d & Hl & Hd).
        pose proof (Permutation_in _ (frame_perm cfg t Hns) Hd) as Hd'.
        destruct (in_indexed_row_drow t d Hd') as (r & Hr & _).
        exists r. rewrite <- Hl. split; [exact Hr|]. now apply invalid_cinv.
  Qed.

  Lemma distinct_times_content cfg t :
    no_scramble cfg t -> Forall (fun r => r_onset r <> None) t ->
    (distinct_times cfg t <-> NoDup (map ctime (flat_map (csplit cfg) t))).
  Proof.
    intros Hns Hnum. pose proof (split_rows_times_numeric cfg t Hnum) as Hall.
    pose proof (Permutation_map ctime (split_content_perm cfg t Hns)) as Hp.
    rewrite ctime_cinfo, (times_of_some _ Hall) in Hp.
    unfold distinct_times. split; intros H.
    - eapply Permutation_NoDup; [exact Hp|]. now apply NoDup_map_Some.
    - apply (NoDup_map_inv Some). eapply Permutation_NoDup; [symmetry; exact Hp|exact H].
  Qed.

  (* Shuffling the rows of a file whose onsets are numeric and whose effective times are pairwise distinct
     changes nothing except the row labels, which follow the rows (and the out-of-order warning). *)
  Theorem validate_shuffle_invariant cfg t t' l l' :
    Permutation t t' ->
    validate cfg t = Ok l -> validate cfg t' = Ok l' ->
    cf_has_onset cfg = true -> no_scramble cfg t -> no_scramble cfg t' ->
    Forall (fun r => r_onset r <> None) t -> distinct_times cfg t ->
    Permutation (idents (row_adj cfg) t l) (idents (row_adj cfg) t' l').
  Proof.
    intros Hp H H' Hon Hns Hns' Hnum Hdist.
    assert (Hnum' : Forall (fun r => r_onset r <> None) t') by (eapply Permutation_Forall; eauto).
    pose proof (proj1 (distinct_times_content cfg t Hns Hnum) Hdist) as Hnd.
    assert (Hsome : Forall (fun c => ctime c <> None) (flat_map (csplit cfg) t)).
    { eapply Permutation_Forall; [apply (split_content_perm cfg t Hns)|].
      apply Forall_forall. intros c Hc. apply in_map_iff in Hc as (r0 & <- & Hr0). cbn.
      pose proof (split_rows_times_numeric cfg t Hnum) as Hall. rewrite Forall_forall in Hall. now apply Hall. }
    assert (Hdist' : distinct_times cfg t').
    { apply (distinct_times_content cfg t' Hns' Hnum').
      eapply Permutation_NoDup; [apply Permutation_map; apply (perm_flat_map (csplit cfg) _ _ Hp)|exact Hnd]. }
    rewrite (validate_content cfg t l H Hon Hns Hnum Hdist).
    rewrite (validate_content cfg t' l' H' Hon Hns' Hnum' Hdist').
    now apply content_perm.
  Qed.
End Shuffle.

(* non-vacuity of the shuffle theorem: an unsorted table with a moved Delay group and its reversal *)
Definition t_sh : list row :=
  [plain_row (Some 2000000%Z) 6;
   delay_row (Some 1000000%Z) 9 {| d_num := Some 3000000%Z; d_unit := UKey true |};
   plain_row (Some 500000%Z) 5].

Lemma shuffle_nonvacuous :
  exists l l', w_validate (cfg0 false true true) t_sh = Ok l /\
               w_validate (cfg0 false true true) (rev t_sh) = Ok l' /\
               no_scramble (cfg0 false true true) t_sh /\ no_scramble (cfg0 false true true) (rev t_sh) /\
               Forall (fun r => r_onset r <> None) t_sh /\ distinct_times (cfg0 false true true) t_sh /\
               length (idents nat 2 t_sh l) = 5 /\ count_unordered nat l = 1 /\ count_unordered nat l' = 0.
Proof.
  eexists. eexists. split; [vm_compute; reflexivity|]. split; [vm_compute; reflexivity|].
  split; [now left|]. split; [now left|]. split; [repeat constructor; discriminate|].
  split; [|split; [vm_compute; reflexivity|split; vm_compute; reflexivity]].
  unfold distinct_times. vm_compute.
  repeat (constructor; [cbn; intuition discriminate|]). constructor.
Qed.

(* onsets late in a recording that differ by 10 microseconds (equal as float32, distinct as exact times):
   the theorem applies -- the out-of-order file and its reversal report the same content-labelled issues *)
Definition t_close : list row :=
  [plain_row (Some 5000000020%Z) 6; plain_row (Some 5000000010%Z) 5; plain_row (Some 5000000030%Z) 7].

Lemma shuffle_close_onsets :
  exists l l', w_validate (cfg0 false true true) t_close = Ok l /\
               w_validate (cfg0 false true true) (rev t_close) = Ok l' /\
               Permutation (idents nat 2 t_close l) (idents nat 2 (rev t_close) l').
Proof.
  eexists. eexists. split; [vm_compute; reflexivity|]. split; [vm_compute; reflexivity|].
  apply (validate_shuffle_invariant nat w_err w_basic w_full w_banned w_nonempty nat w_temporal 0 [] []
           (cfg0 false true true) t_close (rev t_close)).
  - apply Permutation_rev.
  - vm_compute; reflexivity.
  - vm_compute; reflexivity.
  - reflexivity.
  - now left.
  - now left.
  - repeat constructor; discriminate.
  - unfold distinct_times. vm_compute. repeat (constructor; [cbn; intuition discriminate|]). constructor.
Qed.
