(* Lemmas about Model/Validate.v (string validator skeleton). *)
From Coq Require Import List NArith Arith Bool Lia.
From HV Require Import Base.Res Base.Str Model.Parse Model.ValKinds Model.ValStr Model.Validate.
From HV Require Import Gen.ValidationCodes Gen.UniRanges01 Proofs.ParseProofs.
Import ListNotations.

(* ---------------------------------------------------------------- induction on forests *)
Section fnode_induction.
  Variable P : fnode -> Prop.
  Hypothesis Htag : forall t, P (FTag t).
  Hypothesis Hgrp : forall ch, Forall P ch -> P (FGroup ch).
  Fixpoint fnode_ind2 (n : fnode) : P n :=
    match n with
    | FTag t => Htag t
    | FGroup ch =>
        Hgrp ch ((fix go (l : list fnode) : Forall P l :=
                    match l with
                    | [] => Forall_nil P
                    | x :: l' => Forall_cons x (fnode_ind2 x) (go l')
                    end) ch)
    end.
End fnode_induction.

(* ---------------------------------------------------------------- errors / has_error *)
Lemma has_error_app a b : has_error (a ++ b) = has_error a || has_error b.
Proof. unfold has_error. apply existsb_app. Qed.

Lemma errors_app a b : errors (a ++ b) = errors a ++ errors b.
Proof. unfold errors. apply filter_app. Qed.

Lemma has_error_false_errors l : has_error l = false <-> errors l = [].
Proof.
  unfold has_error, errors. induction l as [|x l IH]; simpl; [tauto|].
  destruct (is_err x); simpl; [split; discriminate | exact IH].
Qed.

Lemma has_error_in l i : In i l -> is_err i = true -> has_error l = true.
Proof. intros Hin He. unfold has_error. apply existsb_exists. exists i. split; assumption. Qed.

Lemma error_codes_in l i : In i l -> is_err i = true -> In (icode i) (error_codes l).
Proof.
  intros Hin He. unfold error_codes, errors. apply in_map. apply filter_In. split; assumption.
Qed.

(* ---------------------------------------------------------------- two-phase structure *)
Lemma two_phase cfg s f b :
  run_basic_checks cfg s f = Ok b -> has_error b = true -> validate cfg s f = Ok b.
Proof. intros Hb He. unfold validate. rewrite Hb. simpl. rewrite He. reflexivity. Qed.

Lemma validate_clean cfg s f b fl :
  run_basic_checks cfg s f = Ok b -> has_error b = false -> full_checks cfg f = Ok fl ->
  validate cfg s f = Ok (b ++ fl).
Proof. intros Hb He Hf. unfold validate. rewrite Hb. simpl. rewrite He, Hf. reflexivity. Qed.

(* phase 1: an error of the string checks ends validation with exactly the string-check issues *)
Lemma phase1_error cfg s f :
  has_error (string_checks cfg s f) = true -> validate cfg s f = Ok (string_checks cfg s f).
Proof.
  intros He. apply two_phase; [|exact He]. unfold run_basic_checks. rewrite He. reflexivity.
Qed.

Lemma phase1_reports cfg s f i :
  In i (string_checks cfg s f) -> is_err i = true ->
  exists r, validate cfg s f = Ok r /\ In (icode i) (error_codes r).
Proof.
  intros Hin He. exists (string_checks cfg s f). split.
  - apply phase1_error. eapply has_error_in; eassumption.
  - apply error_codes_in; assumption.
Qed.

(* phase 2: string checks clean, not "n/a", an error among tag characters / resolution *)
Lemma phase2_reports cfg s f i :
  has_error (string_checks cfg s f) = false ->
  str_eqb (forest_str f) na_text = false ->
  In i (tag_char_checks cfg f ++ resolution_issues f) -> is_err i = true ->
  exists r, validate cfg s f = Ok r /\ In (icode i) (error_codes r).
Proof.
  intros H1 Hna Hin He.
  set (i2 := string_checks cfg s f ++ tag_char_checks cfg f ++ resolution_issues f).
  assert (Hi2 : In i i2) by (unfold i2; apply in_or_app; right; exact Hin).
  assert (He2 : has_error i2 = true) by (eapply has_error_in; eassumption).
  exists i2. split.
  - apply two_phase; [|exact He2]. unfold run_basic_checks. rewrite H1, Hna. fold i2. rewrite He2. reflexivity.
  - apply error_codes_in; assumption.
Qed.

(* phase 3: earlier phases clean, an error among the individual-tag / Def issues *)
Lemma phase3_reports cfg s f i3 i4 i :
  has_error (string_checks cfg s f) = false ->
  str_eqb (forest_str f) na_text = false ->
  has_error (tag_char_checks cfg f ++ resolution_issues f) = false ->
  individual_checks cfg f = Ok i3 -> def_tag_checks f = Ok i4 ->
  In i (i3 ++ i4) -> is_err i = true ->
  exists r, validate cfg s f = Ok r /\ In (icode i) (error_codes r).
Proof.
  intros H1 Hna H2 H3 H4 Hin He.
  set (i2 := string_checks cfg s f ++ tag_char_checks cfg f ++ resolution_issues f).
  assert (He2 : has_error i2 = false) by (unfold i2; rewrite has_error_app, H1, H2; reflexivity).
  assert (Hb : run_basic_checks cfg s f = Ok (i2 ++ i3 ++ i4)).
  { unfold run_basic_checks. rewrite H1, Hna. fold i2. rewrite He2, H3, H4. reflexivity. }
  assert (Hi : In i (i2 ++ i3 ++ i4)) by (apply in_or_app; right; exact Hin).
  exists (i2 ++ i3 ++ i4). split.
  - apply two_phase; [exact Hb|]. eapply has_error_in; eassumption.
  - apply error_codes_in; assumption.
Qed.

(* phase F (phase_reach): a clean basic phase never masks an error of the full-string checks *)
Lemma phaseF_reports cfg s f b fl i :
  run_basic_checks cfg s f = Ok b -> has_error b = false -> full_checks cfg f = Ok fl ->
  In i fl -> is_err i = true ->
  exists r, validate cfg s f = Ok r /\ In (icode i) (error_codes r).
Proof.
  intros Hb He Hf Hin Hi. exists (b ++ fl). split.
  - apply validate_clean; assumption.
  - apply error_codes_in; [apply in_or_app; right; exact Hin | exact Hi].
Qed.

(* ---------------------------------------------------------------- the delimiter state machine *)
Lemma drun_app st a b : drun st (a ++ b) = drun (drun st a) b.
Proof. unfold drun. apply fold_left_app. Qed.

Lemma drun_cons st c s : drun st (c :: s) = drun (dstep st c) s.
Proof. reflexivity. Qed.

Lemma drun_single st c : drun st [c] = dstep st c.
Proof. reflexivity. Qed.

(* issues are only ever added *)
Lemma dstep_mono st c i : In i (d_iss st) -> In i (d_iss (dstep st c)).
Proof.
  intros Hin. unfold dstep.
  repeat match goal with
         | |- context [if ?b then _ else _] => destruct b
         end; simpl; auto.
Qed.

Lemma drun_mono s : forall st i, In i (d_iss st) -> In i (d_iss (drun st s)).
Proof.
  induction s as [|c s IH]; intros st i Hin; [exact Hin|].
  rewrite drun_cons. apply IH. apply dstep_mono. exact Hin.
Qed.

Lemma dfinish_in st i : In i (d_iss st) -> In i (dfinish st).
Proof.
  intros Hin. unfold dfinish. apply -> in_rev.
  destruct (opt_is (d_last st) ch_comma); simpl; auto.
Qed.

(* states between items *)
Definition fresh (st : dst) : Prop :=
  d_stop st = false /\ d_iss st = [] /\ forallb isspace (d_cur st) = true /\ opt_is (d_last st) ch_close = false.
Definition closed (st : dst) : Prop :=
  d_stop st = false /\ d_iss st = [] /\ forallb isspace (d_cur st) = false /\ opt_is (d_last st) ch_comma = false.
Definition inword (st : dst) : Prop :=
  d_stop st = false /\ d_iss st = [] /\ opt_is (d_last st) ch_close = false.

(* characters of a tag text: no delimiter *)
Definition plain_char (c : N) : bool :=
  negb (N.eqb c ch_comma) && negb (N.eqb c ch_open) && negb (N.eqb c ch_close).

Lemma fresh_inword st : fresh st -> inword st.
Proof. intros (A & B & _ & D). repeat split; assumption. Qed.

Lemma dstep_inword st c : inword st -> plain_char c = true -> inword (dstep st c).
Proof.
  intros (A & B & D) Hp. unfold plain_char in Hp.
  apply andb_true_iff in Hp as [Hp H3]. apply andb_true_iff in Hp as [H1 H2].
  apply negb_true_iff in H1, H2, H3.
  unfold dstep. rewrite A. destruct (isspace c) eqn:Hsp.
  - repeat split; assumption.
  - rewrite H1, H2, H3. rewrite andb_false_r. rewrite D. simpl.
    repeat split; simpl; try assumption; try (unfold ch_close; rewrite H3; reflexivity).
Qed.

Lemma drun_inword w : forall st, inword st -> forallb plain_char w = true -> inword (drun st w).
Proof.
  induction w as [|c w IH]; intros st Hst Hw; [exact Hst|].
  simpl in Hw. apply andb_true_iff in Hw as [Hc Hw]. rewrite drun_cons. apply IH; [|exact Hw].
  apply dstep_inword; assumption.
Qed.

Lemma dstep_inword_closed st c :
  inword st -> plain_char c = true -> isspace c = false -> closed (dstep st c).
Proof.
  intros (A & B & D) Hp Hsp. unfold plain_char in Hp.
  apply andb_true_iff in Hp as [Hp H3]. apply andb_true_iff in Hp as [H1 H2].
  apply negb_true_iff in H1, H2, H3.
  unfold dstep. rewrite A, Hsp, H1, H2, H3. rewrite andb_false_r. rewrite D. simpl.
  repeat split; simpl; try assumption;
    try (rewrite Hsp; reflexivity); try (unfold ch_comma; rewrite H1; reflexivity).
Qed.

(* a tag text: non-empty, no delimiter, last character not white space *)
Definition word_shape (w : str) : Prop :=
  exists w' c, w = w' ++ [c] /\ forallb plain_char w' = true /\ plain_char c = true /\ isspace c = false.

Lemma drun_word st w : fresh st -> word_shape w -> closed (drun st w).
Proof.
  intros Hst (w' & c & -> & Hw' & Hc & Hsp). rewrite drun_app. simpl.
  apply dstep_inword_closed; try assumption.
  apply drun_inword; [apply fresh_inword; exact Hst | exact Hw'].
Qed.

Lemma isspace_delims : isspace ch_comma = false /\ isspace ch_open = false /\ isspace ch_close = false.
Proof. repeat split; reflexivity. Qed.

Lemma dstep_open st : fresh st -> fresh (dstep st ch_open).
Proof.
  intros (A & B & Cc & D). unfold dstep. rewrite A. simpl. rewrite Cc. repeat split; simpl; auto.
Qed.

Lemma dstep_comma st : closed st -> fresh (dstep st ch_comma).
Proof.
  intros (A & B & Cc & D). unfold dstep. rewrite A. simpl. rewrite Cc. repeat split; simpl; auto.
Qed.

Lemma dstep_close st : closed st -> closed (dstep st ch_close).
Proof.
  intros (A & B & Cc & D). unfold dstep. rewrite A. simpl. rewrite D. simpl.
  destruct (opt_is (d_last st) ch_close); simpl; repeat split; simpl; auto.
Qed.

(* well-formed text of a forest: tag texts are words, groups are not empty *)
(* [wfg_n e Q]: every tag satisfies Q; with e = false every parenthesised group has a member, with e = true
   empty groups "()" are allowed.  [wf_n] is the e = false instance (the conforming grammar). *)
Inductive wfg_n (e : bool) (Q : tagfacts -> Prop) : fnode -> Prop :=
| wf_tag t : Q t -> wfg_n e Q (FTag t)
| wf_grp ch : (e = false -> ch <> []) -> Forall (wfg_n e Q) ch -> wfg_n e Q (FGroup ch).
Notation wf_n := (wfg_n false).

Lemma wf_n_weaken {e : bool} (Q R : tagfacts -> Prop) : (forall t, Q t -> R t) -> forall n, wfg_n e Q n -> wfg_n e R n.
Proof.
  intros HQR. apply (fnode_ind2 (fun n => wfg_n e Q n -> wfg_n e R n)).
  - intros t H. inversion H; subst. constructor. auto.
  - intros ch IH H. inversion H as [|ch' Hne Hall]; subst. constructor; [exact Hne|].
    rewrite Forall_forall in *. intros x Hx. apply IH; [exact Hx | apply Hall; exact Hx].
Qed.

Lemma wf_all_tags {e : bool} Q : forall n, wfg_n e Q n -> Forall Q (all_tags_n n).
Proof.
  apply (fnode_ind2 (fun n => wfg_n e Q n -> Forall Q (all_tags_n n))).
  - intros t H. inversion H; subst. simpl. constructor; [assumption | constructor].
  - intros ch IH H. inversion H as [|ch' Hne Hall]; subst. simpl.
    clear Hne H. induction ch as [|x ch IHch]; simpl; [constructor|].
    inversion IH; subst. inversion Hall; subst. apply Forall_app. split; auto.
Qed.

Lemma wf_forest_tags {e : bool} Q f : Forall (wfg_n e Q) f -> Forall Q (all_tags f).
Proof.
  intros H. unfold all_tags. induction f as [|x f IH]; simpl; [constructor|].
  inversion H; subst. apply Forall_app. split; [apply (wf_all_tags (e:=e)); assumption | auto].
Qed.

Definition Qword (t : tagfacts) : Prop := word_shape (tf_org t).

Lemma drun_join (P : fnode -> Prop) (l : list fnode) :
  (forall n, P n -> forall st, fresh st -> closed (drun st (fprint_n n))) ->
  l <> [] -> Forall P l ->
  forall st, fresh st -> closed (drun st (join [ch_comma] (map fprint_n l))).
Proof.
  intros HP Hne Hall. induction l as [|x l IH]; [congruence|].
  intros st Hst. inversion Hall as [|x' l' Hx Hl]; subst.
  destruct l as [|y l].
  - simpl. apply HP; assumption.
  - change (join [ch_comma] (map fprint_n (x :: y :: l)))
      with (fprint_n x ++ [ch_comma] ++ join [ch_comma] (map fprint_n (y :: l))).
    rewrite drun_app, drun_app, drun_single. apply IH; [discriminate | exact Hl |].
    apply dstep_comma. apply HP; assumption.
Qed.

Lemma dstep_open_close st : fresh st -> closed (dstep (dstep st ch_open) ch_close).
Proof.
  intros (A & B & Cc & D). unfold dstep at 2. rewrite A. simpl. rewrite Cc. unfold dstep. simpl.
  repeat split; simpl; auto.
Qed.

Lemma drun_node {e : bool} : forall n, wfg_n e Qword n -> forall st, fresh st -> closed (drun st (fprint_n n)).
Proof.
  apply (fnode_ind2 (fun n => wfg_n e Qword n -> forall st, fresh st -> closed (drun st (fprint_n n)))).
  - intros t H st Hst. inversion H; subst. simpl. apply drun_word; assumption.
  - intros ch IH H st Hst. inversion H as [|ch' Hne Hall]; subst.
    change (fprint_n (FGroup ch)) with ([ch_open] ++ join [ch_comma] (map fprint_n ch) ++ [ch_close]).
    rewrite drun_app, drun_app, !drun_single.
    destruct ch as [|c0 ch0].
    + simpl. apply dstep_open_close. exact Hst.
    + apply dstep_close.
      apply (drun_join (fun n => wfg_n e Qword n /\ (wfg_n e Qword n -> forall st, fresh st -> closed (drun st (fprint_n n))))).
      * intros n [Hw Hn]. apply Hn. exact Hw.
      * discriminate.
      * rewrite Forall_forall in *. intros x Hx. split; [apply Hall; exact Hx | apply IH; exact Hx].
      * apply dstep_open. exact Hst.
Qed.

Lemma fresh_d0 : fresh d0.
Proof. repeat split. Qed.

(* printing a well-formed forest: the delimiter scan reports nothing *)
Lemma delims_clean {e : bool} f : Forall (wfg_n e Qword) f -> check_delims (fprint f) = [].
Proof.
  intros H. unfold check_delims, fprint. destruct f as [|x f].
  - reflexivity.
  - assert (Hc : closed (drun d0 (join [ch_comma] (map fprint_n (x :: f))))).
    { apply (drun_join (wfg_n e Qword)); [intros n Hn; eapply drun_node; exact Hn | discriminate | exact H | exact fresh_d0]. }
    destruct Hc as (A & B & Cc & D). unfold dfinish. rewrite D, B. reflexivity.
Qed.

(* ---------------------------------------------------------------- parentheses of a printed forest *)
Lemma plain_char_split c : plain_char c = true ->
  N.eqb c ch_comma = false /\ N.eqb c ch_open = false /\ N.eqb c ch_close = false.
Proof.
  unfold plain_char. intros H. apply andb_true_iff in H as [H H3]. apply andb_true_iff in H as [H1 H2].
  apply negb_true_iff in H1, H2, H3. auto.
Qed.

Lemma balanced_from_plain w : forall d rest,
  forallb plain_char w = true -> balanced_from d (w ++ rest) = balanced_from d rest.
Proof.
  induction w as [|c w IH]; intros d rest H; [reflexivity|].
  simpl in H. apply andb_true_iff in H as [Hc Hw]. apply plain_char_split in Hc as (_ & H2 & H3).
  simpl. rewrite H2, H3. apply IH. exact Hw.
Qed.

Lemma word_shape_plain w : word_shape w -> forallb plain_char w = true.
Proof.
  intros (w' & c & -> & Hw' & Hc & _). rewrite forallb_app, Hw'. simpl. rewrite Hc. reflexivity.
Qed.

Lemma balanced_join (P : fnode -> Prop) (l : list fnode) :
  (forall n, P n -> forall d rest, balanced_from d (fprint_n n ++ rest) = balanced_from d rest) ->
  Forall P l ->
  forall d rest, balanced_from d (join [ch_comma] (map fprint_n l) ++ rest) = balanced_from d rest.
Proof.
  intros HP Hall. induction l as [|x l IH]; intros d rest; [reflexivity|].
  inversion Hall as [|x' l' Hx Hl]; subst. destruct l as [|y l].
  - simpl. apply HP. exact Hx.
  - change (join [ch_comma] (map fprint_n (x :: y :: l)))
      with (fprint_n x ++ [ch_comma] ++ join [ch_comma] (map fprint_n (y :: l))).
    rewrite <- !app_assoc. rewrite HP by exact Hx. simpl. apply IH. exact Hl.
Qed.

Lemma balanced_node {e : bool} : forall n, wfg_n e Qword n ->
  forall d rest, balanced_from d (fprint_n n ++ rest) = balanced_from d rest.
Proof.
  apply (fnode_ind2 (fun n => wfg_n e Qword n ->
           forall d rest, balanced_from d (fprint_n n ++ rest) = balanced_from d rest)).
  - intros t H d rest. inversion H; subst. simpl. apply balanced_from_plain. apply word_shape_plain. assumption.
  - intros ch IH H d rest. inversion H as [|ch' Hne Hall]; subst.
    change (fprint_n (FGroup ch)) with ([ch_open] ++ join [ch_comma] (map fprint_n ch) ++ [ch_close]).
    rewrite <- !app_assoc. simpl.
    rewrite (balanced_join (fun n => wfg_n e Qword n /\ (wfg_n e Qword n ->
               forall d rest, balanced_from d (fprint_n n ++ rest) = balanced_from d rest))).
    + reflexivity.
    + intros n [Hw Hn]. apply Hn. exact Hw.
    + rewrite Forall_forall in *. intros x Hx. split; [apply Hall; exact Hx | apply IH; exact Hx].
Qed.

Lemma parens_clean {e : bool} f : Forall (wfg_n e Qword) f -> check_parens (fprint f) = [].
Proof.
  intros H. unfold check_parens.
  assert (Hb : balanced (fprint f) = true).
  { unfold balanced, fprint. rewrite <- (app_nil_r (join [ch_comma] (map fprint_n f))).
    rewrite (balanced_join (wfg_n e Qword)); [reflexivity | intros n Hn; eapply balanced_node; exact Hn | exact H]. }
  destruct (paren_mismatch (fprint f)) eqn:Hm; [|reflexivity].
  apply unbalanced_iff_mismatch in Hm. congruence.
Qed.

(* ---------------------------------------------------------------- characters of a printed forest *)
Section chars.
  Variable okc : N -> bool.
  Hypothesis ok_comma : okc ch_comma = true.
  Hypothesis ok_open : okc ch_open = true.
  Hypothesis ok_close : okc ch_close = true.
  Definition Qokc (t : tagfacts) : Prop := forallb okc (tf_org t) = true.

  Lemma okc_join (P : fnode -> Prop) (l : list fnode) :
    (forall n, P n -> forallb okc (fprint_n n) = true) -> Forall P l ->
    forallb okc (join [ch_comma] (map fprint_n l)) = true.
  Proof.
    intros HP Hall. induction l as [|x l IH]; [reflexivity|].
    inversion Hall as [|x' l' Hx Hl]; subst. destruct l as [|y l].
    - simpl. apply HP. exact Hx.
    - change (join [ch_comma] (map fprint_n (x :: y :: l)))
        with (fprint_n x ++ [ch_comma] ++ join [ch_comma] (map fprint_n (y :: l))).
      rewrite !forallb_app. rewrite HP by exact Hx. simpl. rewrite ok_comma. simpl. apply IH. exact Hl.
  Qed.

  Lemma okc_node {e : bool} : forall n, wfg_n e Qokc n -> forallb okc (fprint_n n) = true.
  Proof.
    apply (fnode_ind2 (fun n => wfg_n e Qokc n -> forallb okc (fprint_n n) = true)).
    - intros t H. inversion H; subst. assumption.
    - intros ch IH H. inversion H as [|ch' Hne Hall]; subst.
      change (fprint_n (FGroup ch)) with ([ch_open] ++ join [ch_comma] (map fprint_n ch) ++ [ch_close]).
      rewrite !forallb_app. simpl. rewrite ok_open, ok_close. simpl. rewrite andb_true_r.
      apply (okc_join (fun n => wfg_n e Qokc n /\ (wfg_n e Qokc n -> forallb okc (fprint_n n) = true))).
      + intros n [Hw Hn]. apply Hn. exact Hw.
      + rewrite Forall_forall in *. intros x Hx. split; [apply Hall; exact Hx | apply IH; exact Hx].
  Qed.

  Lemma okc_forest {e : bool} f : Forall (wfg_n e Qokc) f -> forallb okc (fprint f) = true.
  Proof. intros H. unfold fprint. apply (okc_join (wfg_n e Qokc)); [apply okc_node | exact H]. Qed.
End chars.

Lemma delims_not_invalid cfg :
  negb (char_invalid cfg ch_comma) = true /\ negb (char_invalid cfg ch_open) = true
  /\ negb (char_invalid cfg ch_close) = true.
Proof.
  destruct cfg as [ph modern da rq un]. unfold char_invalid. simpl.
  destruct ph, modern; vm_compute; repeat split; reflexivity.
Qed.

Lemma check_chars_nil cfg s : forallb (fun c => negb (char_invalid cfg c)) s = true -> check_chars cfg s = [].
Proof.
  unfold check_chars. induction s as [|c s IH]; intros H; [reflexivity|].
  simpl in H. apply andb_true_iff in H as [Hc Hs]. apply negb_true_iff in Hc. simpl. rewrite Hc. simpl.
  apply IH. exact Hs.
Qed.

(* text-level conditions on one tag: a word, only permitted characters, no slash fault *)
Definition text_ok (cfg : config) (t : tagfacts) : Prop :=
  word_shape (tf_org t)
  /\ forallb (fun c => negb (char_invalid cfg c)) (tf_org t) = true
  /\ fmt_scan 0 true (tf_org t) = 0.

Lemma formatting_clean l : Forall (fun t => fmt_scan 0 true (tf_org t) = 0) l ->
  flat_map check_tag_formatting l = [].
Proof.
  induction 1 as [|t l Ht Hl IH]; [reflexivity|]. simpl. unfold check_tag_formatting at 1. rewrite Ht. exact IH.
Qed.

(* STRING LEVEL: printing any well-formed forest yields no CHARACTER_INVALID / TILDES /
   PARENTHESES_MISMATCH / TAG_EMPTY / COMMA_MISSING / NODE_NAME_EMPTY issue *)
Theorem string_checks_clean {e : bool} cfg f :
  Forall (wfg_n e (text_ok cfg)) f -> string_checks cfg (fprint f) f = [].
Proof.
  intros H. unfold string_checks.
  assert (Hw : Forall (wfg_n e Qword) f).
  { eapply Forall_impl; [|exact H]. apply wf_n_weaken. intros t (A & _). exact A. }
  destruct (delims_not_invalid cfg) as (D1 & D2 & D3).
  rewrite check_chars_nil.
  2:{ eapply okc_forest; try assumption. eapply Forall_impl; [|exact H]. apply wf_n_weaken.
      intros t (_ & A & _). exact A. }
  rewrite (parens_clean (e:=e)) by exact Hw. rewrite (delims_clean (e:=e)) by exact Hw.
  rewrite formatting_clean; [reflexivity|].
  eapply wf_forest_tags. eapply Forall_impl; [|exact H]. apply wf_n_weaken. intros t (_ & _ & A). exact A.
Qed.

(* ---------------------------------------------------------------- where the tags of a forest live *)
Lemma tags_of_in_all ch t : In t (tags_of ch) -> In t (all_tags ch).
Proof.
  unfold tags_of, all_tags. intros H. apply in_flat_map in H as (n & Hn & Ht).
  apply in_flat_map. exists n. split; [exact Hn|]. destruct n; simpl in *; [exact Ht | contradiction].
Qed.

Lemma groups_n_tags : forall n g, In g (groups_n n) -> incl (all_tags g) (all_tags_n n).
Proof.
  apply (fnode_ind2 (fun n => forall g, In g (groups_n n) -> incl (all_tags g) (all_tags_n n))).
  - intros t g H. contradiction.
  - intros ch IH g H. simpl in H. destruct H as [<- | H].
    + simpl. unfold all_tags. apply incl_refl.
    + apply in_flat_map in H as (x & Hx & Hg). rewrite Forall_forall in IH.
      intros t Ht. simpl. apply in_flat_map. exists x. split; [exact Hx|]. eapply IH; eassumption.
Qed.

Lemma sub_groups_tags f g : In g (sub_groups f) -> incl (all_tags g) (all_tags f).
Proof.
  unfold sub_groups. intros H. apply in_flat_map in H as (x & Hx & Hg).
  intros t Ht. unfold all_tags. apply in_flat_map. exists x. split; [exact Hx|].
  eapply groups_n_tags; eassumption.
Qed.

Lemma def_tags_from_in g : forall k x, In x (def_tags_from k g) -> In (fst x) (all_tags g).
Proof.
  induction g as [|c g IH]; intros k x H; [contradiction|].
  simpl in H. apply in_app_or in H as [H | H].
  - unfold all_tags. simpl. apply in_or_app. left. destruct c as [t | gch].
    + destruct (str_eqb (sbase_of t) c_DEF_KEY); [|contradiction].
      destruct H as [<- | []]. simpl. auto.
    + apply in_map_iff in H as (t & <- & Ht). apply filter_In in Ht as [Ht _]. simpl.
      apply (tags_of_in_all gch t Ht).
  - unfold all_tags. simpl. apply in_or_app. right. apply (IH (S k) x H).
Qed.

(* ---------------------------------------------------------------- mapM_cat *)
Lemma mapM_cat_ok {A} (g : A -> res (list issue)) (l : list A) :
  Forall (fun x => exists r, g x = Ok r /\ errors r = []) l ->
  exists r, mapM_cat g l = Ok r /\ errors r = [].
Proof.
  induction 1 as [|x l (r & Hr & He) Hl (rs & Hrs & Hes)]; [exists []; split; reflexivity|].
  exists (r ++ rs). simpl. rewrite Hr. simpl. rewrite Hrs. simpl. split; [reflexivity|].
  rewrite errors_app, He, Hes. reflexivity.
Qed.

Lemma mapM_cat_in {A} (g : A -> res (list issue)) (l : list A) r x rx i :
  mapM_cat g l = Ok r -> In x l -> g x = Ok rx -> In i rx -> In i r.
Proof.
  revert r. induction l as [|y l IH]; intros r Hr Hx Hg Hi; [contradiction|].
  simpl in Hr. destruct (g y) as [a|e] eqn:Hy; [|discriminate]. simpl in Hr.
  destruct (mapM_cat g l) as [b|e] eqn:Hl; [|discriminate]. simpl in Hr. inversion Hr; subst.
  apply in_or_app. destruct Hx as [-> | Hx].
  - left. rewrite Hg in Hy. inversion Hy; subst. exact Hi.
  - right. eapply IH; eauto.
Qed.

(* total when every element is *)
Lemma mapM_cat_total {A} (g : A -> res (list issue)) (l : list A) :
  Forall (fun x => exists r, g x = Ok r) l -> exists r, mapM_cat g l = Ok r.
Proof.
  induction 1 as [|x l (r & Hr) Hl (rs & Hrs)]; [exists []; reflexivity|].
  exists (r ++ rs). simpl. rewrite Hr. simpl. rewrite Hrs. reflexivity.
Qed.

(* ---------------------------------------------------------------- per-tag conditions of the basic phase *)
Definition tag_basic_ok (cfg : config) (t : tagfacts) : Prop :=
  text_ok cfg t
  /\ check_tag_invalid_chars cfg t = []
  /\ tf_res_issues t = []
  /\ (c_defs_allowed cfg = true \/ str_eqb (sbase_of t) c_DEFINITION_KEY = false)
  /\ (is_basic t = true \/ tf_takes_value t = true \/ tf_ext_allowed t = true)
  /\ (c_ph cfg = true \/ memb ch_hash (extension t) = false)
  /\ tf_require_child t = false
  /\ (exists l, units_dispatch cfg t = Ok l /\ errors l = [])
  /\ (exists l, tf_def_contents t = Ok l /\ errors l = []).

Lemma no_hash_no_placeholder d t : memb ch_hash (extension t) = false -> check_for_placeholder d t = [].
Proof.
  unfold check_for_placeholder. destruct d; [reflexivity|]. generalize (extension t). intros e.
  induction e as [|c e IH]; intros H; [reflexivity|]. simpl in H. apply orb_false_iff in H as [Hc He].
  simpl. rewrite Hc. simpl. apply IH. exact He.
Qed.

Lemma warn_kinds :
  is_err (iss K_TAG_EXTENDED) = false /\ is_err (iss K_ELEMENT_DEPRECATED) = false
  /\ is_err (iss K_STYLE_WARNING) = false.
Proof. repeat split; reflexivity. Qed.

Lemma individual_tag_ok cfg t d : tag_basic_ok cfg t ->
  exists l, individual_tag cfg d t = Ok l /\ errors l = [].
Proof.
  intros (_ & _ & _ & Hloc & Hex & Hph & Hrc & (lu & Hu & Heu) & _).
  unfold individual_tag. rewrite Hu. simpl. eexists. split; [reflexivity|].
  rewrite !errors_app, Heu, app_nil_r.
  assert (E1 : errors (definition_location cfg t) = []).
  { unfold definition_location. destruct Hloc as [-> | ->]; [reflexivity | rewrite andb_false_r; reflexivity]. }
  assert (E2 : errors (run_individual_tag_validators cfg d t) = []).
  { unfold run_individual_tag_validators. rewrite !errors_app, Hrc.
    assert (A : errors (check_tag_exists t) = []).
    { unfold check_tag_exists. destruct Hex as [-> | [-> | Hea]]; [reflexivity | rewrite orb_true_r; reflexivity |].
      destruct (is_basic t || tf_takes_value t); [reflexivity|]. rewrite Hea. reflexivity. }
    assert (B : errors (if c_ph cfg then [] else check_for_placeholder d t) = []).
    { destruct Hph as [-> | Hn]; [reflexivity|]. rewrite no_hash_no_placeholder by exact Hn.
      destruct (c_ph cfg); reflexivity. }
    rewrite A, B. simpl.
    destruct (tf_deprecated t), (cap_warn (org_base t)); reflexivity. }
  rewrite E1, E2. reflexivity.
Qed.

(* BASIC PHASE: a forest whose text is well formed and whose tags satisfy the per-tag
   conditions passes run_basic_checks without raising and without an error *)
Theorem basic_ok_no_error {e : bool} cfg f :
  Forall (wfg_n e (tag_basic_ok cfg)) f ->
  exists b, run_basic_checks cfg (fprint f) f = Ok b /\ errors b = [].
Proof.
  intros H.
  assert (Htags : Forall (tag_basic_ok cfg) (all_tags f)) by (eapply wf_forest_tags; exact H).
  assert (H1 : string_checks cfg (fprint f) f = []).
  { eapply string_checks_clean. eapply Forall_impl; [|exact H]. apply wf_n_weaken. intros t (A & _). exact A. }
  unfold run_basic_checks. rewrite H1. simpl.
  destruct (str_eqb (forest_str f) na_text); [exists []; split; reflexivity|].
  assert (H2 : tag_char_checks cfg f = []).
  { unfold tag_char_checks. induction Htags as [|t l (_ & A & _) Hl IH]; [reflexivity|]. simpl. rewrite A. exact IH. }
  assert (H3 : resolution_issues f = []).
  { unfold resolution_issues. induction Htags as [|t l (_ & _ & A & _) Hl IH]; [reflexivity|]. simpl. rewrite A. exact IH. }
  rewrite H2, H3. simpl.
  rewrite Forall_forall in Htags.
  assert (Hi : exists l, individual_checks cfg f = Ok l /\ errors l = []).
  { unfold individual_checks.
    destruct (mapM_cat_ok (individual_tag cfg false) (tags_of f)) as (r1 & Hr1 & He1).
    { apply Forall_forall. intros t Ht. apply individual_tag_ok. apply Htags. apply tags_of_in_all. exact Ht. }
    rewrite Hr1. simpl.
    match goal with |- context [mapM_cat ?g (sub_groups f)] => destruct (mapM_cat_ok g (sub_groups f)) as (r2 & Hr2 & He2) end.
    { apply Forall_forall. intros g Hg. apply mapM_cat_ok. apply Forall_forall. intros t Ht.
      apply individual_tag_ok. apply Htags. eapply sub_groups_tags; [exact Hg|]. apply tags_of_in_all. exact Ht. }
    rewrite Hr2. simpl. eexists. split; [reflexivity|]. rewrite errors_app, He1, He2. reflexivity. }
  destruct Hi as (l3 & Hl3 & He3). rewrite Hl3. simpl.
  assert (Hd : exists l, def_tag_checks f = Ok l /\ errors l = []).
  { unfold def_tag_checks. apply mapM_cat_ok. apply Forall_forall. intros g Hg.
    apply mapM_cat_ok. apply Forall_forall. intros x Hx.
    assert (Hin : In (fst x) (all_tags f)).
    { apply def_tags_from_in in Hx. destruct Hg as [<- | Hg]; [exact Hx|]. eapply sub_groups_tags; eassumption. }
    destruct (Htags _ Hin) as (_ & _ & _ & _ & _ & _ & _ & _ & A). exact A. }
  destruct Hd as (l4 & Hl4 & He4). rewrite Hl4. simpl.
  eexists. split; [reflexivity|]. rewrite !errors_app, He3, He4. reflexivity.
Qed.

(* ---------------------------------------------------------------- full phase on conforming forests *)
Lemma flat_map_nil {A B} (g : A -> list B) l : (forall x, In x l -> g x = []) -> flat_map g l = [].
Proof.
  induction l as [|x l IH]; intros H; [reflexivity|]. simpl. rewrite H by (left; reflexivity).
  apply IH. intros y Hy. apply H. right. exact Hy.
Qed.

Lemma filter_nil {A} (p : A -> bool) l : (forall x, In x l -> p x = false) -> filter p l = [].
Proof.
  induction l as [|x l IH]; intros H; [reflexivity|]. simpl. rewrite H by (left; reflexivity).
  apply IH. intros y Hy. apply H. right. exact Hy.
Qed.

(* a parenthesised group with at most one top-level-group tag, placed at the top level *)
Lemma tag_level_top tags : length (filter tf_top_level tags) <= 1 -> check_tag_level tags true true = [].
Proof.
  intros H. unfold check_tag_level.
  rewrite (flat_map_nil _ (filter tf_tag_group tags)) by reflexivity.
  rewrite (flat_map_nil _ (filter tf_top_level tags)) by reflexivity.
  simpl. destruct (Nat.ltb 1 (length (filter tf_top_level tags))) eqn:E; [|reflexivity].
  apply Nat.ltb_lt in E. lia.
Qed.

(* a nested group without top-level-group tags *)
Lemma tag_level_deep tags : Forall (fun t => tf_top_level t = false) tags -> check_tag_level tags false true = [].
Proof.
  intros H. unfold check_tag_level.
  rewrite (flat_map_nil _ (filter tf_tag_group tags)) by reflexivity.
  rewrite (filter_nil tf_top_level tags) by (rewrite Forall_forall in H; exact H). reflexivity.
Qed.

(* the annotation itself: neither tag-group nor top-level-group tags outside parentheses *)
Lemma tag_level_root tags :
  Forall (fun t => tf_tag_group t = false /\ tf_top_level t = false) tags -> check_tag_level tags false false = [].
Proof.
  intros H. rewrite Forall_forall in H. unfold check_tag_level.
  rewrite (filter_nil tf_tag_group tags) by (intros x Hx; apply H; exact Hx).
  rewrite (filter_nil tf_top_level tags) by (intros x Hx; apply H; exact Hx). reflexivity.
Qed.

Lemma wf_groups_nonempty Q : forall n, wf_n Q n -> Forall (fun g => g <> []) (groups_n n).
Proof.
  apply (fnode_ind2 (fun n => wf_n Q n -> Forall (fun g => g <> []) (groups_n n))).
  - intros t _. constructor.
  - intros ch IH H. inversion H as [|ch' Hne Hall]; subst. simpl. constructor; [apply Hne; reflexivity|].
    apply Forall_forall. intros g Hg. apply in_flat_map in Hg as (x & Hx & Hg).
    rewrite Forall_forall in IH, Hall. specialize (IH x Hx (Hall x Hx)). rewrite Forall_forall in IH. auto.
Qed.

Lemma groups_of_in f g : In g (groups_of f) <-> In (FGroup g) f.
Proof.
  unfold groups_of. rewrite in_flat_map. split.
  - intros (n & Hn & Hg). destruct n; simpl in Hg; [contradiction|]. destruct Hg as [<- | []]. exact Hn.
  - intros H. exists (FGroup g). split; [exact H | left; reflexivity].
Qed.

Record Conforming (cfg : config) (f : list fnode) : Prop := {
  cf_tags : Forall (wf_n (tag_basic_ok cfg)) f;
  cf_root : Forall (fun t => tf_tag_group t = false /\ tf_top_level t = false) (tags_of f);
  cf_top : Forall (fun g => length (filter tf_top_level (tags_of g)) <= 1) (groups_of f);
  cf_deep : Forall (fun g => Forall (fun h => Forall (fun t => tf_top_level t = false) (tags_of h))
                                    (sub_groups g)) (groups_of f);
  cf_required : Forall (fun p => existsb (fun t => prefixb p (tf_long_fold t)) (all_tags f) = true)
                       (c_required cfg);
  cf_unique : Forall (fun p => length (filter (fun t => prefixb p (tf_long_fold t)) (all_tags f)) <= 1)
                     (c_unique cfg)
}.

(* placement, required and unique checks are silent on a conforming forest *)
Lemma conforming_levels cfg f : Conforming cfg f ->
  check_required cfg (all_tags f) ++ check_unique cfg (all_tags f) = []
  /\ group_level f false false
     ++ flat_map (fun g => group_level g true true ++ flat_map (fun h => group_level h false true) (sub_groups g))
                 (groups_of f) = [].
Proof.
  intros [Ht Hr Htop Hdeep Hreq Huniq]. split.
  - unfold check_required, check_unique.
    rewrite (flat_map_nil _ (c_required cfg)).
    2:{ rewrite Forall_forall in Hreq. intros p Hp. rewrite (Hreq p Hp). reflexivity. }
    rewrite (flat_map_nil _ (c_unique cfg)); [reflexivity|].
    rewrite Forall_forall in Huniq. intros p Hp. specialize (Huniq p Hp).
    destruct (Nat.ltb 1 _) eqn:E; [apply Nat.ltb_lt in E; lia | reflexivity].
  - assert (R : group_level f false false = []).
    { unfold group_level. rewrite tag_level_root by exact Hr. destruct f; reflexivity. }
    rewrite R. simpl. apply flat_map_nil. intros g Hg.
    assert (Hwf : wf_n (tag_basic_ok cfg) (FGroup g)).
    { rewrite Forall_forall in Ht. apply Ht. apply groups_of_in. exact Hg. }
    pose proof (wf_groups_nonempty _ _ Hwf) as Hne. simpl in Hne. inversion Hne as [|g' l' Hg0 Hsub]; subst.
    rewrite Forall_forall in Htop, Hdeep.
    assert (A : group_level g true true = []).
    { unfold group_level. rewrite tag_level_top by (apply Htop; exact Hg). destruct g; [congruence | reflexivity]. }
    rewrite A. simpl. apply flat_map_nil. intros h Hh.
    specialize (Hdeep g Hg). rewrite Forall_forall in Hdeep, Hsub.
    unfold group_level. rewrite tag_level_deep by (apply Hdeep; exact Hh).
    specialize (Hsub h Hh). destruct h; [congruence | reflexivity].
Qed.

(* VALID => NO ERROR, proved for the string / character / resolution / per-tag / Def / placement /
   required / unique checks; the duplicate, Duration/Delay and Onset/Offset/Inset group checks enter
   as the three explicit hypotheses. *)
Theorem valid_no_error_partial cfg f d :
  Conforming cfg f ->
  check_duplicates f = Ok d -> errors d = [] ->
  errors (validate_duration_tags f) = [] ->
  errors (validate_onset_offset f) = [] ->
  exists r, validate_forest cfg f = Ok r /\ errors r = [].
Proof.
  intros Hc Hd Hde Hdur Hon.
  destruct (basic_ok_no_error cfg f (cf_tags _ _ Hc)) as (b & Hb & Heb).
  destruct (conforming_levels cfg f Hc) as [L1 L2].
  assert (Hf : full_checks cfg f = Ok (d ++ validate_duration_tags f ++ validate_onset_offset f)).
  { unfold full_checks. rewrite L1, L2, Hd. simpl. rewrite <- app_assoc. reflexivity. }
  eexists. split.
  - unfold validate_forest. apply validate_clean; [exact Hb | apply has_error_false_errors; exact Heb | exact Hf].
  - rewrite !errors_app, Heb, Hde, Hdur, Hon. reflexivity.
Qed.

(* ================================================================ per-rule lemmas ================ *)
Definition reports (cfg : config) (s : str) (f : list fnode) (code : str) : Prop :=
  exists r, validate cfg s f = Ok r /\ In code (error_codes r).

Lemma reports_phase1 cfg s f k :
  In (iss k) (string_checks cfg s f) -> kind_sev k = Error -> reports cfg s f (kind_code k).
Proof.
  intros Hin Hs. apply (phase1_reports cfg s f (iss k) Hin). unfold is_err, isev. simpl. rewrite Hs. reflexivity.
Qed.

(* ---- forbidden character / tilde *)
Lemma check_chars_in cfg s c : In c s -> char_invalid cfg c = true -> In (report_char c) (check_chars cfg s).
Proof.
  intros Hin Hc. unfold check_chars. apply in_flat_map. exists c. split; [exact Hin|]. rewrite Hc. left. reflexivity.
Qed.

Lemma rule_forbidden_character cfg s f c :
  In c s -> char_invalid cfg c = true -> N.eqb c 126 = false ->
  reports cfg s f (kind_code K_CHARACTER_INVALID).
Proof.
  intros Hin Hc Ht. apply reports_phase1; [|reflexivity].
  unfold string_checks. apply in_or_app. left.
  pose proof (check_chars_in cfg s c Hin Hc) as H. unfold report_char in H. rewrite Ht in H. exact H.
Qed.

Lemma tilde_invalid cfg : char_invalid cfg 126 = true.
Proof. destruct cfg as [ph modern da rq un]. unfold char_invalid. simpl. destruct ph, modern; reflexivity. Qed.

Lemma rule_tilde cfg s f : In 126%N s -> reports cfg s f (kind_code K_TILDES_UNSUPPORTED).
Proof.
  intros Hin. apply reports_phase1; [|reflexivity].
  unfold string_checks. apply in_or_app. left.
  apply (check_chars_in cfg s 126 Hin (tilde_invalid cfg)).
Qed.

Lemma curly_invalid cfg c : c_ph cfg = false -> (c = 123 \/ c = 125)%N -> char_invalid cfg c = true.
Proof.
  destruct cfg as [ph modern da rq un]. simpl. intros -> [-> | ->]; unfold char_invalid; simpl; destruct modern; reflexivity.
Qed.

Lemma rule_curly_brace cfg s f c :
  c_ph cfg = false -> (c = 123 \/ c = 125)%N -> In c s -> reports cfg s f (kind_code K_CHARACTER_INVALID).
Proof.
  intros Hph Hc Hin. apply (rule_forbidden_character cfg s f c Hin (curly_invalid cfg c Hph Hc)).
  destruct Hc as [-> | ->]; reflexivity.
Qed.

(* ---- unbalanced parentheses *)
Lemma rule_unbalanced_parentheses cfg s f :
  balanced s = false -> reports cfg s f (kind_code K_PARENTHESES_MISMATCH).
Proof.
  intros Hb. apply reports_phase1; [|reflexivity].
  unfold string_checks. apply in_or_app. right. apply in_or_app. left. apply in_or_app. left.
  unfold check_parens. apply unbalanced_iff_mismatch in Hb. rewrite Hb. left. reflexivity.
Qed.

(* ---- empty tag / extra comma, missing comma *)
Lemma delims_report cfg s f k :
  In (iss k) (check_delims s) -> kind_sev k = Error -> reports cfg s f (kind_code k).
Proof.
  intros Hin Hs. apply reports_phase1; [|exact Hs].
  unfold string_checks. apply in_or_app. right. apply in_or_app. left. apply in_or_app. right. exact Hin.
Qed.

Lemma closed_of_forest f : f <> [] -> Forall (wf_n Qword) f -> closed (drun d0 (fprint f)).
Proof.
  intros Hne H. unfold fprint.
  apply (drun_join (wf_n Qword)); [intros n Hn; eapply drun_node; exact Hn | exact Hne | exact H | exact fresh_d0].
Qed.

(* a comma at the very beginning *)
Lemma rule_empty_leading_comma cfg rest f : reports cfg (ch_comma :: rest) f (kind_code K_TAG_EMPTY).
Proof.
  apply delims_report; [|reflexivity]. unfold check_delims. apply dfinish_in. rewrite drun_cons.
  apply drun_mono. left. reflexivity.
Qed.

(* two commas in a row after a well-formed annotation *)
Lemma rule_empty_double_comma cfg f0 rest f :
  f0 <> [] -> Forall (wf_n Qword) f0 ->
  reports cfg (fprint f0 ++ [ch_comma; ch_comma] ++ rest) f (kind_code K_TAG_EMPTY).
Proof.
  intros Hne Hwf. apply delims_report; [|reflexivity]. unfold check_delims. apply dfinish_in.
  rewrite drun_app. simpl app. rewrite drun_cons, drun_cons. apply drun_mono.
  pose proof (dstep_comma _ (closed_of_forest f0 Hne Hwf)) as (A & B & Cc & D).
  unfold dstep at 1. rewrite A. simpl. rewrite Cc. left. reflexivity.
Qed.

(* a trailing comma after a well-formed annotation *)
Lemma rule_empty_trailing_comma cfg f0 f :
  f0 <> [] -> Forall (wf_n Qword) f0 ->
  reports cfg (fprint f0 ++ [ch_comma]) f (kind_code K_TAG_EMPTY).
Proof.
  intros Hne Hwf. apply delims_report; [|reflexivity]. unfold check_delims.
  rewrite drun_app, drun_single.
  pose proof (dstep_comma _ (closed_of_forest f0 Hne Hwf)) as (A & B & Cc & D).
  unfold dfinish. apply -> in_rev.
  assert (L : d_last (dstep (drun d0 (fprint f0)) ch_comma) = Some ch_comma).
  { destruct (closed_of_forest f0 Hne Hwf) as (A' & B' & C' & D'). unfold dstep. rewrite A'. simpl. rewrite C'. reflexivity. }
  rewrite L. simpl. left. reflexivity.
Qed.

Lemma closed_spaces k : forall st, closed st -> closed (drun st (repeat ch_space k)).
Proof.
  induction k as [|k IH]; intros st Hst; [exact Hst|]. simpl repeat. rewrite drun_cons. apply IH.
  destruct Hst as (A & B & Cc & D). unfold dstep. rewrite A. simpl. repeat split; simpl; auto.
Qed.

(* an opening parenthesis directly (or after blanks) behind a well-formed annotation: `A (B)` , `(A) (B)` *)
Lemma rule_missing_comma cfg f0 k rest f :
  f0 <> [] -> Forall (wf_n Qword) f0 ->
  reports cfg (fprint f0 ++ repeat ch_space k ++ [ch_open] ++ rest) f (kind_code K_COMMA_MISSING).
Proof.
  intros Hne Hwf. apply delims_report; [|reflexivity]. unfold check_delims. apply dfinish_in.
  rewrite drun_app, drun_app. simpl app. rewrite drun_cons. apply drun_mono.
  destruct (closed_spaces k _ (closed_of_forest f0 Hne Hwf)) as (A & B & Cc & D).
  unfold dstep. rewrite A. simpl. rewrite Cc. left. reflexivity.
Qed.

(* ---- repeated / outer slash *)
Lemma rule_slash cfg s f t :
  In t (all_tags f) -> fmt_scan 0 true (tf_org t) <> 0 -> reports cfg s f (kind_code K_NODE_NAME_EMPTY).
Proof.
  intros Hin Hn. apply reports_phase1; [|reflexivity].
  unfold string_checks. apply in_or_app. right. apply in_or_app. right.
  apply in_flat_map. exists t. split; [exact Hin|]. unfold check_tag_formatting.
  destruct (fmt_scan 0 true (tf_org t)); [congruence | left; reflexivity].
Qed.

(* ---- phase 2 *)
Definition phase1_clean (cfg : config) (s : str) (f : list fnode) : Prop :=
  has_error (string_checks cfg s f) = false /\ str_eqb (forest_str f) na_text = false.

Lemma reports_phase2 cfg s f k :
  phase1_clean cfg s f -> In (iss k) (tag_char_checks cfg f ++ resolution_issues f) -> kind_sev k = Error ->
  reports cfg s f (kind_code k).
Proof.
  intros [H1 Hna] Hin Hs. apply (phase2_reports cfg s f (iss k) H1 Hna Hin).
  unfold is_err, isev. simpl. rewrite Hs. reflexivity.
Qed.

Lemma rule_resolution cfg s f t k :
  phase1_clean cfg s f -> In t (all_tags f) -> In (iss k) (tf_res_issues t) -> kind_sev k = Error ->
  reports cfg s f (kind_code k).
Proof.
  intros Hc Hin Hk Hs. apply reports_phase2; [exact Hc | | exact Hs].
  apply in_or_app. right. unfold resolution_issues. apply in_flat_map. exists t. split; assumption.
Qed.

Lemma memb_app_false c a b : memb c (a ++ b) = false -> memb c a = false.
Proof.
  induction a as [|x a IH]; intros H; [reflexivity|]. simpl in *. apply orb_false_iff in H as [-> H]. simpl.
  apply IH. exact H.
Qed.

Lemma rule_invalid_tag_character cfg s f t c :
  phase1_clean cfg s f -> In t (all_tags f) -> In c (org_base t) ->
  isalnum c = false -> memb c (c_TAG_ALLOWED_CHARS ++ [ch_hash]) = false -> N.eqb c 58 = false ->
  reports cfg s f (kind_code K_INVALID_TAG_CHARACTER).
Proof.
  intros Hc Hin Hcb Ha Hm H58. apply reports_phase2; [exact Hc | | reflexivity].
  apply in_or_app. left. unfold tag_char_checks. apply in_flat_map. exists t. split; [exact Hin|].
  unfold check_tag_invalid_chars. cbv zeta. apply in_or_app. right. unfold invalid_chars.
  apply in_flat_map. exists c. split; [exact Hcb|]. rewrite Ha, H58.
  destruct (c_ph cfg).
  - rewrite Hm. left. reflexivity.
  - rewrite (memb_app_false _ _ _ Hm). left. reflexivity.
Qed.

Lemma rule_prefix_not_alphabetic cfg s f t :
  phase1_clean cfg s f -> In t (all_tags f) -> tag_namespace (tf_org t) <> [] ->
  str_isalpha (removelast (tag_namespace (tf_org t))) = false ->
  reports cfg s f (kind_code K_TAG_NAMESPACE_PREFIX_INVALID).
Proof.
  intros Hc Hin Hns Ha. apply reports_phase2; [exact Hc | | reflexivity].
  apply in_or_app. left. unfold tag_char_checks. apply in_flat_map. exists t. split; [exact Hin|].
  unfold check_tag_invalid_chars. cbv zeta. apply in_or_app. left.
  destruct (tag_namespace (tf_org t)) as [|x l] eqn:E; [congruence|]. rewrite Ha. left. reflexivity.
Qed.

(* ---- phase 3: individual tags and Def tags *)
Lemma all_tags_n_where : forall n t, In t (all_tags_n n) ->
  n = FTag t \/ exists g, In g (groups_n n) /\ In t (tags_of g).
Proof.
  apply (fnode_ind2 (fun n => forall t, In t (all_tags_n n) ->
           n = FTag t \/ exists g, In g (groups_n n) /\ In t (tags_of g))).
  - intros t0 t [<- | []]. left. reflexivity.
  - intros ch IH t H. right. simpl in H. apply in_flat_map in H as (x & Hx & Ht).
    rewrite Forall_forall in IH. destruct (IH x Hx t Ht) as [-> | (g & Hg & Htg)].
    + exists ch. split; [left; reflexivity|]. unfold tags_of. apply in_flat_map.
      exists (FTag t). split; [exact Hx | left; reflexivity].
    + exists g. split; [|exact Htg]. simpl. right. apply in_flat_map. exists x. split; assumption.
Qed.

Lemma all_tags_where f t : In t (all_tags f) ->
  In t (tags_of f) \/ exists g, In g (sub_groups f) /\ In t (tags_of g).
Proof.
  unfold all_tags. intros H. apply in_flat_map in H as (x & Hx & Ht).
  destruct (all_tags_n_where x t Ht) as [-> | (g & Hg & Htg)].
  - left. unfold tags_of. apply in_flat_map. exists (FTag t). split; [exact Hx | left; reflexivity].
  - right. exists g. split; [|exact Htg]. unfold sub_groups. apply in_flat_map. exists x. split; assumption.
Qed.

Lemma mapM_cat_inv {A} (g : A -> res (list issue)) (l : list A) r x :
  mapM_cat g l = Ok r -> In x l -> exists rx, g x = Ok rx /\ incl rx r.
Proof.
  revert r. induction l as [|y l IH]; intros r Hr Hx; [contradiction|].
  simpl in Hr. destruct (g y) as [a|e] eqn:Hy; [|discriminate]. simpl in Hr.
  destruct (mapM_cat g l) as [b|e] eqn:Hl; [|discriminate]. simpl in Hr. inversion Hr; subst.
  destruct Hx as [-> | Hx].
  - exists a. split; [exact Hy | apply incl_appl, incl_refl].
  - destruct (IH b eq_refl Hx) as (rx & Hrx & Hincl). exists rx. split; [exact Hrx | apply incl_appr; exact Hincl].
Qed.

Lemma individual_in cfg f i3 t :
  individual_checks cfg f = Ok i3 -> In t (all_tags f) ->
  exists d l, individual_tag cfg d t = Ok l /\ incl l i3
              /\ (find_top_level [c_DEFINITION_KEY] f = [] -> d = false).
Proof.
  unfold individual_checks. intros H Hin.
  destruct (mapM_cat (individual_tag cfg false) (tags_of f)) as [r1|e] eqn:H1; [|discriminate]. simpl in H.
  match type of H with context [mapM_cat ?g (sub_groups f)] =>
    destruct (mapM_cat g (sub_groups f)) as [r2|e] eqn:H2; [|discriminate] end.
  simpl in H. inversion H; subst. clear H.
  destruct (all_tags_where f t Hin) as [Hr | (g & Hg & Htg)].
  - destruct (mapM_cat_inv _ _ _ _ H1 Hr) as (l & Hl & Hincl).
    exists false, l. split; [exact Hl|]. split; [apply incl_appl; exact Hincl | reflexivity].
  - destruct (mapM_cat_inv _ _ _ _ H2 Hg) as (rg & Hrg & Hincl).
    destruct (mapM_cat_inv _ _ _ _ Hrg Htg) as (l & Hl & Hincl2).
    eexists _, l. split; [exact Hl|]. split.
    + apply incl_appr. eapply incl_tran; eassumption.
    + intros ->. reflexivity.
Qed.

Definition phase2_clean (cfg : config) (s : str) (f : list fnode) : Prop :=
  phase1_clean cfg s f /\ has_error (tag_char_checks cfg f ++ resolution_issues f) = false.
Definition phase3_total (cfg : config) (f : list fnode) : Prop :=
  (exists i3, individual_checks cfg f = Ok i3) /\ (exists i4, def_tag_checks f = Ok i4).

(* generic: an error issued for one tag by the individual-tag validators is reported *)
Lemma reports_individual cfg s f t i :
  phase2_clean cfg s f -> phase3_total cfg f -> In t (all_tags f) ->
  (forall d l, (find_top_level [c_DEFINITION_KEY] f = [] -> d = false) ->
               individual_tag cfg d t = Ok l -> In i l) ->
  is_err i = true -> reports cfg s f (icode i).
Proof.
  intros [[H1 Hna] H2] [(i3 & H3) (i4 & H4)] Hin Hiss He.
  destruct (individual_in cfg f i3 t H3 Hin) as (d & l & Hl & Hincl & Hd).
  apply (phase3_reports cfg s f i3 i4 i H1 Hna H2 H3 H4); [|exact He].
  apply in_or_app. left. apply Hincl. eapply Hiss; eassumption.
Qed.

Lemma individual_tag_parts cfg d t l :
  individual_tag cfg d t = Ok l ->
  exists lu, units_dispatch cfg t = Ok lu
             /\ l = definition_location cfg t ++ run_individual_tag_validators cfg d t ++ lu.
Proof.
  unfold individual_tag. destruct (units_dispatch cfg t) as [lu|e]; [|discriminate]. simpl.
  intros H. inversion H. exists lu. split; reflexivity.
Qed.

Lemma rule_forbidden_extension cfg s f t :
  phase2_clean cfg s f -> phase3_total cfg f -> In t (all_tags f) ->
  is_basic t = false -> tf_takes_value t = false -> tf_ext_allowed t = false ->
  memb ch_hash (extension t) = false ->
  reports cfg s f (kind_code K_TAG_EXTENSION_INVALID).
Proof.
  intros Hc Ht Hin Hb Htv Hea Hh.
  apply (reports_individual cfg s f t (iss K_TAG_EXTENSION_INVALID) Hc Ht Hin); [|reflexivity].
  intros d l _ Hl. destruct (individual_tag_parts _ _ _ _ Hl) as (lu & _ & ->).
  apply in_or_app. right. apply in_or_app. left. unfold run_individual_tag_validators.
  apply in_or_app. left. unfold check_tag_exists. rewrite Hb, Htv, Hea, Hh. left. reflexivity.
Qed.

Lemma rule_stray_placeholder cfg s f t :
  phase2_clean cfg s f -> phase3_total cfg f -> In t (all_tags f) ->
  c_ph cfg = false -> find_top_level [c_DEFINITION_KEY] f = [] -> memb ch_hash (extension t) = true ->
  reports cfg s f (ocode_str O_PLACEHOLDER_INVALID).
Proof.
  intros Hc Ht Hin Hph Hnd Hh.
  apply (reports_individual cfg s f t (isso K_INVALID_TAG_CHARACTER O_PLACEHOLDER_INVALID) Hc Ht Hin); [|reflexivity].
  intros d l Hd Hl. rewrite (Hd Hnd) in Hl. destruct (individual_tag_parts _ _ _ _ Hl) as (lu & _ & ->).
  apply in_or_app. right. apply in_or_app. left. unfold run_individual_tag_validators.
  apply in_or_app. right. apply in_or_app. left. rewrite Hph. unfold check_for_placeholder.
  generalize (extension t) Hh. intros e. induction e as [|c e IH]; intros H; [discriminate|].
  simpl in H. simpl. destruct (N.eqb c ch_hash) eqn:E; [left; reflexivity|]. simpl in H. apply IH. exact H.
Qed.

Lemma rule_requires_child cfg s f t :
  phase2_clean cfg s f -> phase3_total cfg f -> In t (all_tags f) -> tf_require_child t = true ->
  reports cfg s f (kind_code K_TAG_REQUIRES_CHILD).
Proof.
  intros Hc Ht Hin Hrc.
  apply (reports_individual cfg s f t (iss K_TAG_REQUIRES_CHILD) Hc Ht Hin); [|reflexivity].
  intros d l _ Hl. destruct (individual_tag_parts _ _ _ _ Hl) as (lu & _ & ->).
  apply in_or_app. right. apply in_or_app. left. unfold run_individual_tag_validators.
  apply in_or_app. right. apply in_or_app. right. apply in_or_app. left. rewrite Hrc. left. reflexivity.
Qed.

Lemma rule_definition_in_data_string cfg s f t :
  phase2_clean cfg s f -> phase3_total cfg f -> In t (all_tags f) ->
  c_defs_allowed cfg = false -> str_eqb (sbase_of t) c_DEFINITION_KEY = true ->
  reports cfg s f (kind_code K_BAD_DEFINITION_LOCATION).
Proof.
  intros Hc Ht Hin Hda Hsb.
  apply (reports_individual cfg s f t (iss K_BAD_DEFINITION_LOCATION) Hc Ht Hin); [|reflexivity].
  intros d l _ Hl. destruct (individual_tag_parts _ _ _ _ Hl) as (lu & _ & ->).
  apply in_or_app. left. unfold definition_location. rewrite Hda, Hsb. left. reflexivity.
Qed.

(* an error verdict of the unit / value-class layer for an ordinary value tag is passed on *)
Lemma units_dispatch_plain cfg t :
  str_eqb (sbase_of t) c_DEF_KEY = false -> str_eqb (sbase_of t) c_DEF_EXPAND_KEY = false ->
  str_eqb (sbase_of t) c_DEFINITION_KEY = false ->
  memb ch_hash (extension t) = false -> str_eqb (extension t) [ch_hash] = false ->
  units_dispatch cfg t =
    if tf_unit_class t then tf_units t else if tf_value_class t then tf_values t
    else match extension t with [] => Ok [] | _ => Ok (invalid_chars ext_allowed_chars (extension t)) end.
Proof.
  intros A B Cc D E. unfold units_dispatch. rewrite A, B, Cc, D. simpl. rewrite andb_false_r. simpl.
  unfold validate_units. rewrite E. reflexivity.
Qed.

Lemma rule_units_layer cfg s f t lu k :
  phase2_clean cfg s f -> phase3_total cfg f -> In t (all_tags f) ->
  units_dispatch cfg t = Ok lu -> In (iss k) lu -> kind_sev k = Error ->
  reports cfg s f (kind_code k).
Proof.
  intros Hc Ht Hin Hu Hk Hs.
  apply (reports_individual cfg s f t (iss k) Hc Ht Hin).
  - intros d l _ Hl. destruct (individual_tag_parts _ _ _ _ Hl) as (lu' & Hu' & ->).
    rewrite Hu in Hu'. inversion Hu'; subst. apply in_or_app. right. apply in_or_app. right. exact Hk.
  - unfold is_err, isev. simpl. rewrite Hs. reflexivity.
Qed.

Lemma rule_bad_unit cfg s f t lu :
  phase2_clean cfg s f -> phase3_total cfg f -> In t (all_tags f) ->
  str_eqb (sbase_of t) c_DEF_KEY = false -> str_eqb (sbase_of t) c_DEF_EXPAND_KEY = false ->
  str_eqb (sbase_of t) c_DEFINITION_KEY = false ->
  memb ch_hash (extension t) = false -> str_eqb (extension t) [ch_hash] = false ->
  tf_unit_class t = true -> tf_units t = Ok lu -> In (iss K_UNITS_INVALID) lu ->
  reports cfg s f (kind_code K_UNITS_INVALID).
Proof.
  intros Hc Ht Hin A B Cc D E Huc Hu Hk.
  apply (rule_units_layer cfg s f t lu K_UNITS_INVALID Hc Ht Hin); [|exact Hk | reflexivity].
  rewrite units_dispatch_plain by assumption. rewrite Huc. exact Hu.
Qed.

Lemma rule_bad_value cfg s f t lv :
  phase2_clean cfg s f -> phase3_total cfg f -> In t (all_tags f) ->
  str_eqb (sbase_of t) c_DEF_KEY = false -> str_eqb (sbase_of t) c_DEF_EXPAND_KEY = false ->
  str_eqb (sbase_of t) c_DEFINITION_KEY = false ->
  memb ch_hash (extension t) = false -> str_eqb (extension t) [ch_hash] = false ->
  tf_unit_class t = false -> tf_value_class t = true -> tf_values t = Ok lv ->
  In (iss K_INVALID_VALUE_CLASS_VALUE) lv ->
  reports cfg s f (kind_code K_INVALID_VALUE_CLASS_VALUE).
Proof.
  intros Hc Ht Hin A B Cc D E Huc Hvc Hv Hk.
  apply (rule_units_layer cfg s f t lv K_INVALID_VALUE_CLASS_VALUE Hc Ht Hin); [|exact Hk | reflexivity].
  rewrite units_dispatch_plain by assumption. rewrite Huc, Hvc. exact Hv.
Qed.

(* Def tags: the verdict of the definition layer for a Def tag directly inside some group is passed on *)
Lemma def_tags_from_def g t : forall k, In (FTag t) g -> str_eqb (sbase_of t) c_DEF_KEY = true ->
  exists i, In (t, i) (def_tags_from k g).
Proof.
  induction g as [|c g IH]; intros k Hin Hsb; [contradiction|]. destruct Hin as [-> | Hin].
  - exists k. simpl. rewrite Hsb. left. reflexivity.
  - destruct (IH (S k) Hin Hsb) as (i & Hi). exists i. simpl. apply in_or_app. right. exact Hi.
Qed.

Lemma def_tags_from_expand g gch t : forall k, In (FGroup gch) g -> In t (tags_of gch) ->
  str_eqb (sbase_of t) c_DEF_EXPAND_KEY = true -> exists i, In (t, i) (def_tags_from k g).
Proof.
  induction g as [|c g IH]; intros k Hin Ht Hsb; [contradiction|]. destruct Hin as [-> | Hin].
  - exists k. simpl. apply in_or_app. left. apply in_map_iff. exists t. split; [reflexivity|].
    apply filter_In. split; assumption.
  - destruct (IH (S k) Hin Ht Hsb) as (i & Hi). exists i. simpl. apply in_or_app. right. exact Hi.
Qed.

Lemma reports_def_contents cfg s f g t i ld k :
  phase2_clean cfg s f -> phase3_total cfg f ->
  In g (f :: sub_groups f) -> In (t, i) (def_tags_from 0 g) ->
  tf_def_contents t = Ok ld -> In (iss k) ld -> kind_sev k = Error ->
  reports cfg s f (kind_code k).
Proof.
  intros [[H1 Hna] H2] [(i3 & H3) (i4 & H4)] Hg Hti Hd Hk Hs.
  apply (phase3_reports cfg s f i3 i4 (iss k) H1 Hna H2 H3 H4).
  - apply in_or_app. right. unfold def_tag_checks in H4.
    destruct (mapM_cat_inv _ _ _ _ H4 Hg) as (rg & Hrg & Hincl).
    destruct (mapM_cat_inv _ _ _ _ Hrg Hti) as (rx & Hrx & Hincl2). simpl in Hrx.
    rewrite Hd in Hrx. inversion Hrx; subst. apply Hincl, Hincl2. exact Hk.
  - unfold is_err, isev. simpl. rewrite Hs. reflexivity.
Qed.

Lemma rule_undeclared_def cfg s f g t ld k :
  phase2_clean cfg s f -> phase3_total cfg f ->
  In g (f :: sub_groups f) -> In (FTag t) g -> str_eqb (sbase_of t) c_DEF_KEY = true ->
  tf_def_contents t = Ok ld -> In (iss k) ld ->
  (k = K_HED_DEF_UNMATCHED \/ k = K_HED_DEF_VALUE_MISSING \/ k = K_HED_DEF_VALUE_EXTRA) ->
  reports cfg s f (kind_code K_HED_DEF_UNMATCHED).
Proof.
  intros Hc Ht Hg Hin Hsb Hd Hk Hkind.
  destruct (def_tags_from_def g t 0 Hin Hsb) as (i & Hi).
  assert (E : kind_code k = kind_code K_HED_DEF_UNMATCHED /\ kind_sev k = Error).
  { destruct Hkind as [-> | [-> | ->]]; split; reflexivity. }
  destruct E as [E1 E2]. rewrite <- E1. eapply reports_def_contents; eassumption.
Qed.

Lemma rule_altered_def_expand cfg s f g gch t ld k :
  phase2_clean cfg s f -> phase3_total cfg f ->
  In g (f :: sub_groups f) -> In (FGroup gch) g -> In t (tags_of gch) ->
  str_eqb (sbase_of t) c_DEF_EXPAND_KEY = true ->
  tf_def_contents t = Ok ld -> In (iss k) ld ->
  (k = K_HED_DEF_EXPAND_INVALID \/ k = K_HED_DEF_EXPAND_UNMATCHED
   \/ k = K_HED_DEF_EXPAND_VALUE_MISSING \/ k = K_HED_DEF_EXPAND_VALUE_EXTRA) ->
  reports cfg s f (kind_code K_HED_DEF_EXPAND_INVALID).
Proof.
  intros Hc Ht Hg Hin Htg Hsb Hd Hk Hkind.
  destruct (def_tags_from_expand g gch t 0 Hin Htg Hsb) as (i & Hi).
  assert (E : kind_code k = kind_code K_HED_DEF_EXPAND_INVALID /\ kind_sev k = Error).
  { destruct Hkind as [-> | [-> | [-> | ->]]]; split; reflexivity. }
  destruct E as [E1 E2]. rewrite <- E1. eapply reports_def_contents; eassumption.
Qed.

(* ---- full phase *)
Definition basic_clean (cfg : config) (s : str) (f : list fnode) : Prop :=
  exists b, run_basic_checks cfg s f = Ok b /\ has_error b = false.

(* PHASE REACH, part 1: per-tag conformity + well-formed text => the basic phase is clean *)
Lemma basic_clean_of_tags {e : bool} cfg f : Forall (wfg_n e (tag_basic_ok cfg)) f -> basic_clean cfg (fprint f) f.
Proof.
  intros H. destruct (basic_ok_no_error cfg f H) as (b & Hb & He). exists b. split; [exact Hb|].
  apply has_error_false_errors. exact He.
Qed.

Lemma full_checks_parts cfg f fl : full_checks cfg f = Ok fl ->
  exists d, check_duplicates f = Ok d
    /\ fl = (check_required cfg (all_tags f) ++ check_unique cfg (all_tags f))
            ++ ((group_level f false false
                 ++ flat_map (fun g => group_level g true true
                                       ++ flat_map (fun h => group_level h false true) (sub_groups g))
                             (groups_of f))
                ++ d ++ validate_duration_tags f) ++ validate_onset_offset f.
Proof.
  unfold full_checks. destruct (check_duplicates f) as [d|e]; [|discriminate]. simpl.
  intros H. inversion H. exists d. split; reflexivity.
Qed.

(* PHASE REACH, part 2: with a clean basic phase an error of the full-string checks is reported *)
Lemma reports_full cfg s f i :
  basic_clean cfg s f -> (exists fl, full_checks cfg f = Ok fl) ->
  (forall fl, full_checks cfg f = Ok fl -> In i fl) -> is_err i = true ->
  reports cfg s f (icode i).
Proof.
  intros (b & Hb & He) (fl & Hf) Hin Hi. apply (phaseF_reports cfg s f b fl i Hb He Hf (Hin fl Hf) Hi).
Qed.

Lemma in_root_level cfg f fl i : full_checks cfg f = Ok fl -> In i (group_level f false false) -> In i fl.
Proof.
  intros Hf Hi. destruct (full_checks_parts _ _ _ Hf) as (d & _ & ->).
  apply in_or_app. right. apply in_or_app. left. apply in_or_app. left. apply in_or_app. left. exact Hi.
Qed.

Lemma in_top_level cfg f fl g i : full_checks cfg f = Ok fl -> In g (groups_of f) ->
  In i (group_level g true true ++ flat_map (fun h => group_level h false true) (sub_groups g)) -> In i fl.
Proof.
  intros Hf Hg Hi. destruct (full_checks_parts _ _ _ Hf) as (d & _ & ->).
  apply in_or_app. right. apply in_or_app. left. apply in_or_app. left. apply in_or_app. right.
  apply in_flat_map. exists g. split; assumption.
Qed.

Lemma in_all_level cfg f fl i : full_checks cfg f = Ok fl ->
  In i (check_required cfg (all_tags f) ++ check_unique cfg (all_tags f)) -> In i fl.
Proof.
  intros Hf Hi. destruct (full_checks_parts _ _ _ Hf) as (d & _ & ->).
  apply in_or_app. left. exact Hi.
Qed.

Lemma rule_tag_group_outside cfg s f t :
  basic_clean cfg s f -> (exists fl, full_checks cfg f = Ok fl) ->
  In t (tags_of f) -> tf_tag_group t = true ->
  reports cfg s f (kind_code K_HED_TAG_GROUP_TAG).
Proof.
  intros Hb Hf Hin Htg. apply (reports_full cfg s f (iss K_HED_TAG_GROUP_TAG) Hb Hf); [|reflexivity].
  intros fl Hfl. apply (in_root_level cfg f fl _ Hfl). unfold group_level. apply in_or_app. right.
  unfold check_tag_level. apply in_or_app. left. apply in_flat_map. exists t. split; [|left; reflexivity].
  apply filter_In. split; assumption.
Qed.

Lemma top_level_issue tags t is_group :
  In t tags -> tf_top_level t = true -> In (iss K_HED_TOP_LEVEL_TAG) (check_tag_level tags false is_group).
Proof.
  intros Hin Ht. unfold check_tag_level. apply in_or_app. right. apply in_or_app. left.
  apply in_flat_map. exists t. split; [apply filter_In; split; assumption|].
  apply in_or_app. right. left. reflexivity.
Qed.

Lemma rule_top_level_outside cfg s f t :
  basic_clean cfg s f -> (exists fl, full_checks cfg f = Ok fl) ->
  In t (tags_of f) -> tf_top_level t = true ->
  reports cfg s f (kind_code K_HED_TOP_LEVEL_TAG).
Proof.
  intros Hb Hf Hin Htl. apply (reports_full cfg s f (iss K_HED_TOP_LEVEL_TAG) Hb Hf); [|reflexivity].
  intros fl Hfl. apply (in_root_level cfg f fl _ Hfl). unfold group_level. apply in_or_app. right.
  apply (top_level_issue _ t); assumption.
Qed.

Lemma rule_top_level_nested cfg s f g h t :
  basic_clean cfg s f -> (exists fl, full_checks cfg f = Ok fl) ->
  In g (groups_of f) -> In h (sub_groups g) -> In t (tags_of h) -> tf_top_level t = true ->
  reports cfg s f (kind_code K_HED_TOP_LEVEL_TAG).
Proof.
  intros Hb Hf Hg Hh Hin Htl. apply (reports_full cfg s f (iss K_HED_TOP_LEVEL_TAG) Hb Hf); [|reflexivity].
  intros fl Hfl. apply (in_top_level cfg f fl g _ Hfl Hg). apply in_or_app. right.
  apply in_flat_map. exists h. split; [exact Hh|]. unfold group_level. apply in_or_app. right.
  apply (top_level_issue _ t); assumption.
Qed.

Lemma str_mem_dedup x l : str_mem x (str_dedup l) = true -> str_mem x l = true.
Proof.
  induction l as [|y l IH]; intros H; [exact H|]. simpl in H. unfold str_mem in *. simpl.
  destruct (existsb (str_eqb y) l) eqn:E.
  - rewrite (IH H). apply orb_true_r.
  - simpl in H. apply orb_true_iff in H as [H | H]; [rewrite H; reflexivity | rewrite (IH H); apply orb_true_r].
Qed.

Lemma rule_several_top_level_tags cfg s f g :
  basic_clean cfg s f -> (exists fl, full_checks cfg f = Ok fl) ->
  In g (groups_of f) -> 1 < length (filter tf_top_level (tags_of g)) ->
  str_mem c_DELAY_KEY (map sbase_of (filter tf_top_level (tags_of g))) = false ->
  reports cfg s f (kind_code K_HED_MULTIPLE_TOP_TAGS).
Proof.
  intros Hb Hf Hg Hlen Hnd. apply (reports_full cfg s f (iss K_HED_MULTIPLE_TOP_TAGS) Hb Hf); [|reflexivity].
  intros fl Hfl. apply (in_top_level cfg f fl g _ Hfl Hg). apply in_or_app. left.
  unfold group_level. apply in_or_app. right. unfold check_tag_level. apply in_or_app. right. apply in_or_app. right.
  apply Nat.ltb_lt in Hlen. rewrite Hlen. simpl.
  destruct (negb (Nat.eqb _ _)); [left; reflexivity|].
  assert (M : str_mem c_DELAY_KEY (str_dedup (map sbase_of (filter tf_top_level (tags_of g)))) = false).
  { destruct (str_mem c_DELAY_KEY (str_dedup _)) eqn:E; [|reflexivity]. apply str_mem_dedup in E. congruence. }
  rewrite M. simpl. left. reflexivity.
Qed.

Lemma rule_unique_twice cfg s f p :
  basic_clean cfg s f -> (exists fl, full_checks cfg f = Ok fl) ->
  In p (c_unique cfg) -> 1 < length (filter (fun t => prefixb p (tf_long_fold t)) (all_tags f)) ->
  reports cfg s f (kind_code K_TAG_NOT_UNIQUE).
Proof.
  intros Hb Hf Hp Hlen. apply (reports_full cfg s f (iss K_TAG_NOT_UNIQUE) Hb Hf); [|reflexivity].
  intros fl Hfl. apply (in_all_level cfg f fl _ Hfl). apply in_or_app. right. unfold check_unique.
  apply in_flat_map. exists p. split; [exact Hp|]. apply Nat.ltb_lt in Hlen. rewrite Hlen. left. reflexivity.
Qed.

Lemma rule_required_missing cfg s f p :
  basic_clean cfg s f -> (exists fl, full_checks cfg f = Ok fl) ->
  In p (c_required cfg) -> existsb (fun t => prefixb p (tf_long_fold t)) (all_tags f) = false ->
  reports cfg s f (kind_code K_REQUIRED_TAG_MISSING).
Proof.
  intros Hb Hf Hp Hno. apply (reports_full cfg s f (iss K_REQUIRED_TAG_MISSING) Hb Hf); [|reflexivity].
  intros fl Hfl. apply (in_all_level cfg f fl _ Hfl). apply in_or_app. left. unfold check_required.
  apply in_flat_map. exists p. split; [exact Hp|]. rewrite Hno. left. reflexivity.
Qed.

(* ---- sorted views keep groups non-empty; the duplicate check never raises *)
Definition Tr (t : tagfacts) : Prop := True.



Lemma insert_key_in {A} (x y : str * A) l : In y (insert_key x l) <-> y = x \/ In y l.
Proof.
  induction l as [|z l IH]; simpl; [intuition|].
  destruct (str_leb (fst x) (fst z)); simpl; [intuition|]. rewrite IH. intuition.
Qed.

Lemma sort_key_in {A} (y : str * A) l : In y (sort_key l) <-> In y l.
Proof.
  unfold sort_key. induction l as [|x l IH]; simpl; [tauto|]. rewrite insert_key_in, IH. intuition.
Qed.

Lemma sort_key_nil {A} (l : list (str * A)) : sort_key l = [] -> l = [].
Proof.
  destruct l as [|x l]; [reflexivity|]. intros E.
  assert (H : In x (sort_key (x :: l))) by (apply sort_key_in; left; reflexivity).
  rewrite E in H. contradiction.
Qed.

Lemma resort_in l x : In x (resort l) <-> In x l.
Proof.
  unfold resort. split.
  - intros H. apply in_map_iff in H as ((k & y) & <- & Hy). apply (proj1 (sort_key_in _ _)) in Hy.
    apply in_map_iff in Hy as (n & Hn & Hin). inversion Hn; subst. exact Hin.
  - intros H. apply in_map_iff. exists (canon x, x). split; [reflexivity|]. apply sort_key_in.
    apply in_map_iff. exists x. split; [reflexivity | exact H].
Qed.

Lemma resort_nil l : resort l = [] -> l = [].
Proof.
  destruct l as [|x l]; [reflexivity|]. intros E.
  assert (H : In x (resort (x :: l))) by (apply resort_in; left; reflexivity). rewrite E in H. contradiction.
Qed.





(* since fix commit 3e47c8c the duplicate check never raises, whatever the annotation (empty groups included) *)
Lemma dup_children_total_all ch :
  Forall (fun c => exists l, dup_n c = Ok l) ch -> exists l, dup_n (FGroup ch) = Ok l.
Proof.
  intros H. simpl. generalize (@None fnode). induction H as [|c ch (lc & Hlc) Hch IH]; intros prev.
  - exists []. reflexivity.
  - destruct (IH (Some c)) as (lr & Hlr).
    assert (Hh : exists lh, (if match prev with Some p => node_eqb c p | None => false end
                             then match c with
                                  | FTag _ => Ok [iss K_HED_TAG_REPEATED]
                                  | FGroup _ => Ok [iss K_HED_TAG_REPEATED_GROUP]
                                  end
                             else Ok []) = Ok lh).
    { destruct (match prev with Some p => node_eqb c p | None => false end); [|eexists; reflexivity].
      destruct c; eexists; reflexivity. }
    destruct Hh as (lh & Hlh). rewrite Hlh. simpl. rewrite Hlc. simpl. rewrite Hlr. simpl. eexists. reflexivity.
Qed.

Lemma dup_n_total_all : forall n, exists l, dup_n n = Ok l.
Proof.
  apply (fnode_ind2 (fun n => exists l, dup_n n = Ok l)).
  - intros t. exists []. reflexivity.
  - intros ch IH. apply dup_children_total_all. exact IH.
Qed.

Lemma check_duplicates_total_all f : exists d, check_duplicates f = Ok d.
Proof. unfold check_duplicates. apply dup_n_total_all. Qed.

Lemma full_checks_total_all cfg f : exists fl, full_checks cfg f = Ok fl.
Proof.
  destruct (check_duplicates_total_all f) as (d & Hd). unfold full_checks. rewrite Hd. eexists. reflexivity.
Qed.

Lemma check_duplicates_total f : Forall (wf_n Tr) f -> exists d, check_duplicates f = Ok d.
Proof. intros _. apply check_duplicates_total_all. Qed.

Lemma full_checks_total cfg Q f : Forall (wf_n Q) f -> exists fl, full_checks cfg f = Ok fl.
Proof. intros _. apply full_checks_total_all. Qed.

(* PHASE REACH: in a forest with well-formed text whose tags are individually conforming, an error of
   the full-string checks is never masked by the basic phase, and the full-string checks never raise *)
Theorem phase_reach {e : bool} cfg f fl i :
  Forall (wfg_n e (tag_basic_ok cfg)) f -> full_checks cfg f = Ok fl -> In i fl -> is_err i = true ->
  reports cfg (fprint f) f (icode i).
Proof.
  intros H Hf Hin Hi. apply reports_full; [eapply basic_clean_of_tags; exact H | exists fl; exact Hf | | exact Hi].
  intros fl' Hf'. rewrite Hf in Hf'. inversion Hf'; subst. exact Hin.
Qed.

(* ---- decision procedures used by the non-vacuity examples *)
Definition word_shapeb (w : str) : bool :=
  match rev w with
  | c :: r => forallb plain_char r && plain_char c && negb (isspace c)
  | [] => false
  end.

Lemma word_shapeb_sound w : word_shapeb w = true -> word_shape w.
Proof.
  unfold word_shapeb. destruct (rev w) as [|c r] eqn:E; [discriminate|]. intros H.
  apply andb_true_iff in H as [H H3]. apply andb_true_iff in H as [H1 H2]. apply negb_true_iff in H3.
  exists (rev r), c. split; [|split; [|split; assumption]].
  - rewrite <- (rev_involutive w), E. reflexivity.
  - apply forallb_forall. intros x Hx. rewrite forallb_forall in H1. apply H1. apply in_rev. exact Hx.
Qed.

Definition res_clean (r : res (list issue)) : bool :=
  match r with Ok l => negb (has_error l) | Exn _ => false end.

Definition tag_basic_okb (cfg : config) (t : tagfacts) : bool :=
  word_shapeb (tf_org t)
  && forallb (fun c => negb (char_invalid cfg c)) (tf_org t)
  && Nat.eqb (fmt_scan 0 true (tf_org t)) 0
  && match check_tag_invalid_chars cfg t with [] => true | _ => false end
  && match tf_res_issues t with [] => true | _ => false end
  && (c_defs_allowed cfg || negb (str_eqb (sbase_of t) c_DEFINITION_KEY))
  && (is_basic t || tf_takes_value t || tf_ext_allowed t)
  && (c_ph cfg || negb (memb ch_hash (extension t)))
  && negb (tf_require_child t)
  && res_clean (units_dispatch cfg t)
  && res_clean (tf_def_contents t).

Lemma res_clean_sound r : res_clean r = true -> exists l, r = Ok l /\ errors l = [].
Proof.
  destruct r as [l|e]; [|discriminate]. simpl. intros H. apply negb_true_iff in H. exists l. split; [reflexivity|].
  apply has_error_false_errors. exact H.
Qed.

Lemma tag_basic_okb_sound cfg t : tag_basic_okb cfg t = true -> tag_basic_ok cfg t.
Proof.
  unfold tag_basic_okb. intros H.
  repeat match type of H with (_ && _ = true) => let H' := fresh "H" in apply andb_true_iff in H as [H H'] end.
  unfold tag_basic_ok, text_ok. repeat split.
  - apply word_shapeb_sound. assumption.
  - assumption.
  - apply Nat.eqb_eq. assumption.
  - destruct (check_tag_invalid_chars cfg t); [reflexivity | discriminate].
  - destruct (tf_res_issues t); [reflexivity | discriminate].
  - match goal with Hx : c_defs_allowed cfg || _ = true |- _ => apply orb_true_iff in Hx as [Hx | Hx];
      [left; exact Hx | right; apply negb_true_iff; exact Hx] end.
  - match goal with Hx : is_basic t || _ || _ = true |- _ => apply orb_true_iff in Hx as [Hx | Hx];
      [apply orb_true_iff in Hx as [Hx | Hx]; [left; exact Hx | right; left; exact Hx] | right; right; exact Hx] end.
  - match goal with Hx : c_ph cfg || _ = true |- _ => apply orb_true_iff in Hx as [Hx | Hx];
      [left; exact Hx | right; apply negb_true_iff; exact Hx] end.
  - apply negb_true_iff. assumption.
  - apply res_clean_sound. assumption.
  - apply res_clean_sound. assumption.
Qed.

Fixpoint wfb (p : tagfacts -> bool) (n : fnode) : bool :=
  match n with
  | FTag t => p t
  | FGroup ch => match ch with [] => false | _ => forallb (wfb p) ch end
  end.

Lemma wfb_sound (p : tagfacts -> bool) (Q : tagfacts -> Prop) :
  (forall t, p t = true -> Q t) -> forall n, wfb p n = true -> wf_n Q n.
Proof.
  intros HpQ. apply (fnode_ind2 (fun n => wfb p n = true -> wf_n Q n)).
  - intros t H. constructor. apply HpQ. exact H.
  - intros ch IH H. simpl in H. destruct ch as [|c ch]; [discriminate|]. constructor; [intros _; discriminate|].
    rewrite forallb_forall in H. rewrite Forall_forall in *. intros x Hx. apply IH; [exact Hx | apply H; exact Hx].
Qed.

Lemma forest_wfb_sound cfg f :
  forallb (wfb (tag_basic_okb cfg)) f = true -> Forall (wf_n (tag_basic_ok cfg)) f.
Proof.
  intros H. rewrite forallb_forall in H. apply Forall_forall. intros n Hn.
  apply (wfb_sound _ _ (tag_basic_okb_sound cfg)). apply H. exact Hn.
Qed.

(* ---- reaching the later phases from per-tag conditions on the (mutated) annotation *)
Lemma reach_phase1 {e : bool} cfg f :
  Forall (wfg_n e (text_ok cfg)) f -> str_eqb (forest_str f) na_text = false -> phase1_clean cfg (fprint f) f.
Proof. intros H Hna. split; [rewrite (string_checks_clean (e:=e)) by exact H; reflexivity | exact Hna]. Qed.

Definition tag_pre3 (cfg : config) (t : tagfacts) : Prop :=
  text_ok cfg t /\ check_tag_invalid_chars cfg t = [] /\ tf_res_issues t = []
  /\ (exists l, units_dispatch cfg t = Ok l) /\ (exists l, tf_def_contents t = Ok l).

Lemma reach_phase3 {e : bool} cfg f :
  Forall (wfg_n e (tag_pre3 cfg)) f -> str_eqb (forest_str f) na_text = false ->
  phase2_clean cfg (fprint f) f /\ phase3_total cfg f.
Proof.
  intros H Hna.
  assert (Htags : Forall (tag_pre3 cfg) (all_tags f)) by (eapply wf_forest_tags; exact H).
  assert (H1 : phase1_clean cfg (fprint f) f).
  { eapply reach_phase1; [|exact Hna]. eapply Forall_impl; [|exact H]. apply wf_n_weaken. intros t (A & _). exact A. }
  assert (H2 : tag_char_checks cfg f = []).
  { unfold tag_char_checks. induction Htags as [|t l (_ & A & _) Hl IH]; [reflexivity|]. simpl. rewrite A. exact IH. }
  assert (H3 : resolution_issues f = []).
  { unfold resolution_issues. induction Htags as [|t l (_ & _ & A & _) Hl IH]; [reflexivity|]. simpl. rewrite A. exact IH. }
  split; [split; [exact H1 | rewrite H2, H3; reflexivity]|].
  rewrite Forall_forall in Htags.
  assert (Hind : forall d t, In t (all_tags f) -> exists r, individual_tag cfg d t = Ok r).
  { intros d t Ht. destruct (Htags t Ht) as (_ & _ & _ & (lu & Hu) & _). unfold individual_tag. rewrite Hu.
    eexists. reflexivity. }
  split.
  - unfold individual_checks.
    destruct (mapM_cat_total (individual_tag cfg false) (tags_of f)) as (r1 & Hr1).
    { apply Forall_forall. intros t Ht. apply Hind. apply tags_of_in_all. exact Ht. }
    rewrite Hr1. simpl.
    match goal with |- context [mapM_cat ?g (sub_groups f)] => destruct (mapM_cat_total g (sub_groups f)) as (r2 & Hr2) end.
    { apply Forall_forall. intros g Hg. apply mapM_cat_total. apply Forall_forall. intros t Ht.
      apply Hind. eapply sub_groups_tags; [exact Hg|]. apply tags_of_in_all. exact Ht. }
    rewrite Hr2. simpl. eexists. reflexivity.
  - unfold def_tag_checks. apply mapM_cat_total. apply Forall_forall. intros g Hg.
    apply mapM_cat_total. apply Forall_forall. intros x Hx.
    assert (Hin : In (fst x) (all_tags f)).
    { apply def_tags_from_in in Hx. destruct Hg as [<- | Hg]; [exact Hx|]. eapply sub_groups_tags; eassumption. }
    destruct (Htags _ Hin) as (_ & _ & _ & _ & A). exact A.
Qed.

Lemma tag_basic_ok_pre3 cfg t : tag_basic_ok cfg t -> tag_pre3 cfg t.
Proof.
  intros (A & B & Cc & _ & _ & _ & _ & (lu & Hu & _) & (ld & Hd & _)).
  split; [exact A|]. split; [exact B|]. split; [exact Cc|]. split; eexists; eassumption.
Qed.
