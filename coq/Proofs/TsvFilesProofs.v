(* A TSV save is a total overwrite of the section files of its location (C05). *)
From Coq Require Import List NArith Arith Bool.
From HV Require Import Base.Res Base.Str Base.StrOps Model.AttrCodec Model.TsvFiles Proofs.AttrCodecProofs.
Import ListNotations.

Lemma get_set_same {V} k (v : V) d : dict_get k (dict_set k v d) = Some v.
Proof.
  induction d as [|[k' v'] t IH]; cbn [dict_set dict_get].
  - rewrite str_eqb_refl. reflexivity.
  - destruct (str_eqb k' k) eqn:E; cbn [dict_get]; rewrite E; [reflexivity | exact IH].
Qed.

Lemma get_set_other {V} k k0 (v : V) d : str_eqb k0 k = false -> dict_get k (dict_set k0 v d) = dict_get k d.
Proof.
  intro H. induction d as [|[k' v'] t IH]; cbn [dict_set dict_get].
  - rewrite H. reflexivity.
  - destruct (str_eqb k' k0) eqn:E; cbn [dict_get].
    + apply str_eqb_spec in E. subst k'. rewrite H. reflexivity.
    + rewrite IH. reflexivity.
Qed.

Definition key_in (k : str) (ks : list str) : bool := existsb (str_eqb k) ks.

Lemma save_get (f : str -> list row) ks : forall loc k,
  dict_get k (save_dataframes false (map (fun k => (k, f k)) ks) loc)
  = if key_in k ks then Some (f k) else dict_get k loc.
Proof.
  unfold save_dataframes. induction ks as [|k0 ks IH]; intros loc k; [reflexivity|].
  cbn [map fold_left andb fst snd]. rewrite IH. cbn [key_in existsb]. fold (key_in k ks).
  destruct (key_in k ks); [rewrite orb_true_r; reflexivity|]. rewrite orb_false_r.
  unfold write_file. destruct (str_eqb k k0) eqn:E.
  - apply str_eqb_spec in E. subst k0. apply get_set_same.
  - apply get_set_other. rewrite str_eqb_sym. exact E.
Qed.

(* whatever the location held before, loading after a save gives exactly the tables that were saved:
   nothing of an earlier save at the same place survives *)
Lemma save_total_overwrite (rows_of : str -> list row) (loc : location) :
  load_dataframes (save_dataframes false (output_tables rows_of) loc) = output_tables rows_of.
Proof.
  unfold load_dataframes, output_tables. apply map_ext_in. intros k Hin.
  rewrite save_get.
  assert (H : key_in k df_suffixes = true).
  { unfold key_in. apply existsb_exists. exists k. split; [exact Hin | apply str_eqb_refl]. }
  rewrite H. reflexivity.
Qed.

(* the files written do not depend on the content: always the full set of ten section files *)
Lemma files_written_full (rows_of : str -> list row) :
  files_written false (output_tables rows_of) = df_suffixes.
Proof. vm_compute. reflexivity. Qed.

(* the variant that leaves out the file of an empty table is not an overwrite *)
Lemma skip_empty_keeps_old_files :
  exists rows_of loc,
    load_dataframes (save_dataframes true (output_tables rows_of) loc) <> output_tables rows_of.
Proof.
  exists (fun _ => []), [(sfx_Unit, [[1]])]. vm_compute. intro H. discriminate.
Qed.

(* ------------------------------------------------------------------ cells *)

(* the code (na_rep = '', no na_values): every non-empty text comes back as itself -- 'n/a', 'NA', 'nan', 'None',
   'null', '#N/A', '<NA>' included -- and a cell without a value comes back as no value *)
Lemma cell_roundtrip (c : option str) :
  c <> Some [] -> cell_value (csv_read_cell [] (csv_write_cell [] c)) = c.
Proof.
  intro H. destruct c as [[|x s]|]; [exfalso; apply H; reflexivity | reflexivity | reflexivity].
Qed.

(* not the code: with a marker for the empty cell, the text that equals the marker is lost *)
Lemma cell_marker_variant_loses_text :
  exists marker c, c <> Some [] /\ cell_value (csv_read_cell [marker] (csv_write_cell marker c)) <> c.
Proof.
  exists [110; 47; 97]%N, (Some [110; 47; 97]%N). split; [discriminate|]. vm_compute. discriminate.
Qed.

(* ------------------------------------------------------------------ the save location *)

Lemma cs_implies_ci name : is_dot_tsv_cs name = true -> is_dot_tsv_ci name = true.
Proof.
  unfold is_dot_tsv_cs, is_dot_tsv_ci. destruct (rev name) as [|v [|s [|t [|d [|x r]]]]]; try discriminate.
  intro H. apply andb_true_iff in H as [H Hv]. apply andb_true_iff in H as [H Hs]. apply andb_true_iff in H as [Hd Ht].
  rewrite Hd, Ht, Hs, Hv. reflexivity.
Qed.

(* mode false = the reader before fix commit b5f4533: reader and writer agree on the ten files of every location whose
   name does not end in .tsv written with capital
   letters -- in particular of every FOLDER name, whatever dots it holds (HED8.3.0, a.b.c, a trailing dot) *)
Lemma location_files_agree parent name :
  is_dot_tsv_ci name = is_dot_tsv_cs name -> reader_files false parent name = writer_files parent name.
Proof. intro H. unfold reader_files, writer_files. rewrite H. reflexivity. Qed.

Lemma folder_files_agree parent name :
  is_dot_tsv_ci name = false -> reader_files false parent name = writer_files parent name.
Proof.
  intro H. apply location_files_agree. rewrite H. symmetry.
  destruct (is_dot_tsv_cs name) eqn:E; [|reflexivity]. rewrite (cs_implies_ci _ E) in H. discriminate.
Qed.

(* the current code (case-insensitive test since fix commit b5f4533): reader and writer agree on every location *)
Lemma location_files_agree_fixed parent name : reader_files true parent name = writer_files parent name.
Proof. reflexivity. Qed.

(* record of the repaired finding C05-F8 (behaviour before fix commit b5f4533): the exact comparison and a suffix
   written .TSV *)
Lemma location_upper_suffix_disagrees :
  exists parent name, reader_files false parent name <> writer_files parent name.
Proof. exists [], [120; 46; 84; 83; 86]%N. vm_compute. discriminate. Qed.

(* current code: every folder name, whatever dots it holds, names <parent>/<name>/<name>_<Suffix>.tsv for both sides *)
Lemma folder_files_current parent name :
  is_dot_tsv_ci name = false ->
  reader_files true parent name = map (tsv_file (parent ++ [name]) name) df_suffixes
  /\ writer_files parent name = map (tsv_file (parent ++ [name]) name) df_suffixes.
Proof. intro H. unfold reader_files, writer_files, location_files. rewrite H. split; reflexivity. Qed.
