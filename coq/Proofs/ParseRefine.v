(* C02: unbounded refinement of the token-based parser (Model/Parse.v) to the
   character-level specification spec_parse, for ALL strings. *)
From Coq Require Import List NArith Arith Bool Lia.
From HV Require Import Base.Res Base.Str Model.Parse Proofs.ParseProofs.
Import ListNotations.

(* ---------- character facts ---------- *)

Definition spaces (k : nat) : str := repeat ch_space k.

Lemma is_delim_space : is_delim ch_space = false.
Proof. reflexivity. Qed.

Lemma spaces_S k : spaces (S k) = ch_space :: spaces k.
Proof. reflexivity. Qed.

Lemma spaces_snoc k : spaces k ++ [ch_space] = spaces (S k).
Proof. unfold spaces. induction k; simpl; [reflexivity | rewrite IHk; reflexivity]. Qed.

Lemma spaces_app a b : spaces a ++ spaces b = spaces (a + b).
Proof. unfold spaces. rewrite repeat_app. reflexivity. Qed.

Lemma spaces_length k : length (spaces k) = k.
Proof. apply repeat_length. Qed.

Lemma rev_spaces k : rev (spaces k) = spaces k.
Proof.
  induction k; [reflexivity|]. rewrite spaces_S at 1. simpl. rewrite IHk. apply spaces_snoc.
Qed.

Lemma spaces_nodelim k : Forall (fun c => is_delim c = false) (spaces k).
Proof. induction k; constructor; auto. Qed.

(* a trimmed tag body: non-empty, first and last characters are not U+0020, no delimiter inside *)
Definition tagbody (l : str) : Prop :=
  (exists c r, l = c :: r /\ N.eqb c ch_space = false) /\
  (exists r c, l = r ++ [c] /\ N.eqb c ch_space = false) /\
  Forall (fun c => is_delim c = false) l.

(* a delimiter token: blanks only, or blanks, one delimiter, blanks *)
Definition delimslice (l : str) : Prop :=
  (exists k, 0 < k /\ l = spaces k) \/
  (exists k d m, is_delim d = true /\ l = spaces k ++ d :: spaces m).

(* ---------- trimming lemmas ---------- *)

Lemma trim_left_spaces k l a : trim_left (spaces k ++ l) a = trim_left l (a + k).
Proof.
  revert a; induction k as [|k IH]; intros a; simpl.
  - rewrite Nat.add_0_r. reflexivity.
  - rewrite IH. f_equal. lia.
Qed.

Lemma trim_left_nonspace c l a : N.eqb c ch_space = false -> trim_left (c :: l) a = (a, c :: l).
Proof. intros H. simpl. rewrite H. reflexivity. Qed.

Lemma trim_left_all_spaces k a : trim_left (spaces k) a = (a + k, []).
Proof.
  rewrite <- (app_nil_r (spaces k)). rewrite trim_left_spaces. reflexivity.
Qed.

Fixpoint lead_spaces (r : str) : nat :=
  match r with
  | c :: r' => if N.eqb c ch_space then S (lead_spaces r') else 0
  | [] => 0
  end.

Lemma trim_right_len_eq s : trim_right_len s = length s - lead_spaces (rev s).
Proof. reflexivity. Qed.

Lemma lead_spaces_app m l : lead_spaces (spaces m ++ l) = m + lead_spaces l.
Proof.
  induction m as [|m IH]; [reflexivity|].
  rewrite spaces_S. cbn [app lead_spaces]. change (N.eqb ch_space ch_space) with true. cbv iota.
  rewrite IH. reflexivity.
Qed.

Lemma trim_right_len_body r c m :
  N.eqb c ch_space = false -> trim_right_len ((r ++ [c]) ++ spaces m) = length (r ++ [c]).
Proof.
  intros Hc. rewrite trim_right_len_eq. rewrite rev_app_distr, rev_spaces, rev_app_distr. simpl.
  rewrite lead_spaces_app. simpl. rewrite Hc. rewrite !app_length, spaces_length. simpl. lia.
Qed.

(* flushing a run of blanks does nothing; flushing blanks+body+blanks pushes the trimmed tag *)
Lemma flush_run_spaces ra k st : flush_run ra (rev (spaces k)) st = st.
Proof.
  unfold flush_run. rewrite rev_involutive, trim_left_all_spaces. reflexivity.
Qed.

Lemma flush_run_body ra k body m st :
  tagbody body ->
  flush_run ra (rev (spaces k ++ body ++ spaces m)) st
  = push_child (Tag (ra + k) (ra + k + length body)) st.
Proof.
  intros ((c & r & Hb & Hc) & (r' & c' & Hb' & Hc') & _).
  unfold flush_run. rewrite rev_involutive.
  assert (H1 : trim_left (spaces k ++ body ++ spaces m) ra = (ra + k, body ++ spaces m)).
  { rewrite trim_left_spaces. rewrite Hb. rewrite <- app_comm_cons. apply trim_left_nonspace. exact Hc. }
  assert (H2 : trim_right_len (body ++ spaces m) = length body).
  { rewrite Hb'. apply trim_right_len_body. exact Hc'. }
  rewrite H1. rewrite H2. destruct (body ++ spaces m) eqn:E.
  - rewrite Hb in E. discriminate.
  - reflexivity.
Qed.

(* ---------- tokens with content ---------- *)

Inductive kind := KS | KD | KT.
Definition ctok := (kind * str)%type.

Definition is_tag_kind (k : kind) : bool := match k with KT => true | _ => false end.

Definition ctok_ok (t : ctok) : Prop :=
  match fst t with
  | KT => tagbody (snd t)
  | KS => exists k, 0 < k /\ snd t = spaces k
  | KD => exists k d m, is_delim d = true /\ snd t = spaces k ++ d :: spaces m
  end.

Definition cconcat (cts : list ctok) : str := concat (map snd cts).

Fixpoint spans_of (cts : list ctok) (off : nat) : list tok :=
  match cts with
  | [] => []
  | (k, sl) :: r => (is_tag_kind k, (off, off + length sl)) :: spans_of r (off + length sl)
  end.

Lemma cconcat_app a b : cconcat (a ++ b) = cconcat a ++ cconcat b.
Proof. unfold cconcat. rewrite map_app, concat_app. reflexivity. Qed.

Lemma spans_of_snoc cts : forall off k sl,
  spans_of (cts ++ [(k, sl)]) off
  = spans_of cts off ++ [(is_tag_kind k, (off + length (cconcat cts), off + length (cconcat cts) + length sl))].
Proof.
  induction cts as [|[k' sl'] cts IH]; intros off k sl; simpl.
  - unfold cconcat. simpl. rewrite Nat.add_0_r. reflexivity.
  - rewrite IH. unfold cconcat. cbn [map snd concat]. rewrite app_length. fold (cconcat cts).
    rewrite !Nat.add_assoc. reflexivity.
Qed.

(* adjacency automaton of token kinds *)
Inductive ast := Q0 | QS0 | QD | QT | QSF.
Definition astep (q : ast) (k : kind) : option ast :=
  match q, k with
  | Q0, KS => Some QS0 | Q0, KD => Some QD | Q0, KT => Some QT
  | QS0, KD => Some QD | QS0, KT => Some QT
  | QD, KD => Some QD | QD, KT => Some QT
  | QT, KD => Some QD | QT, KS => Some QSF
  | _, _ => None
  end.
Fixpoint arun (q : ast) (ks : list kind) : option ast :=
  match ks with
  | [] => Some q
  | k :: ks' => match astep q k with Some q' => arun q' ks' | None => None end
  end.

Lemma arun_snoc ks : forall q q' k, arun q ks = Some q' -> arun q (ks ++ [k]) = astep q' k.
Proof.
  induction ks as [|k0 ks IH]; simpl; intros q q' k H.
  - inversion H; subst. destruct (astep q' k); reflexivity.
  - destruct (astep q k0) as [q1|]; [|discriminate]. apply IH. exact H.
Qed.

(* ---------- helper facts for bstep on a delimiter slice ---------- *)

Lemma is_delim_not_space d : is_delim d = true -> isspace d = false /\ N.eqb d ch_space = false.
Proof.
  unfold is_delim. intros H.
  destruct (N.eqb d ch_comma) eqn:E1; [apply N.eqb_eq in E1; subst; split; reflexivity|].
  destruct (N.eqb d ch_open) eqn:E2; [apply N.eqb_eq in E2; subst; split; reflexivity|].
  destruct (N.eqb d ch_close) eqn:E3; [apply N.eqb_eq in E3; subst; split; reflexivity|].
  discriminate.
Qed.

Lemma first_nonspace_spaces_only k : forall i, first_nonspace (spaces k) i = 0.
Proof. induction k as [|k IH]; intros i; [reflexivity|]. rewrite spaces_S. simpl. apply IH. Qed.

Lemma first_nonspace_delim k d rest : forall i,
  isspace d = false -> first_nonspace (spaces k ++ d :: rest) i = i + k.
Proof.
  induction k as [|k IH]; intros i Hd.
  - simpl. rewrite Hd. lia.
  - rewrite spaces_S. simpl. rewrite IH by exact Hd. lia.
Qed.

Lemma nth_error_spaces_delim k d rest : nth_error (spaces k ++ d :: rest) k = Some d.
Proof.
  rewrite nth_error_app2 by (rewrite spaces_length; lia).
  rewrite spaces_length, Nat.sub_diag. reflexivity.
Qed.

Lemma sub_mid (pre sl post : str) :
  sub (pre ++ sl ++ post) (length pre) (length pre + length sl) = sl.
Proof.
  unfold sub. rewrite skipn_app, skipn_all, Nat.sub_diag. simpl.
  replace (length pre + length sl - length pre) with (length sl) by lia.
  rewrite firstn_app, firstn_all, Nat.sub_diag. simpl. apply app_nil_r.
Qed.

(* spec_loop over a block of non-delimiter characters just extends the run *)
Lemma spec_loop_nodelim l : forall rest i ra run st,
  Forall (fun c => is_delim c = false) l ->
  spec_loop (l ++ rest) i ra run st = spec_loop rest (i + length l) ra (rev l ++ run) st.
Proof.
  induction l as [|c l IH]; intros rest i ra run st Hf.
  - simpl. rewrite Nat.add_0_r. reflexivity.
  - inversion Hf as [|? ? Hc Hl]; subst. simpl. rewrite Hc. rewrite IH by exact Hl.
    rewrite <- app_assoc. simpl. f_equal. lia.
Qed.

(* ---------- the effect of one delimiter, shared by both sides ---------- *)

Definition delim_effect (d : N) (pos : nat) (st : list frame) : option (list frame) :=
  if N.eqb d ch_open then Some ((pos, []) :: st)
  else if N.eqb d ch_close then
    match st with
    | (ga, gch) :: (pa, pch) :: rest => Some ((pa, Group ga (S pos) (rev gch) :: pch) :: rest)
    | _ => None
    end
  else Some st.

Lemma delim_cases d : is_delim d = true -> d = ch_comma \/ d = ch_open \/ d = ch_close.
Proof.
  unfold is_delim. intros H.
  destruct (N.eqb d ch_comma) eqn:E1; [apply N.eqb_eq in E1; auto|].
  destruct (N.eqb d ch_open) eqn:E2; [apply N.eqb_eq in E2; auto|].
  destruct (N.eqb d ch_close) eqn:E3; [apply N.eqb_eq in E3; auto|].
  discriminate.
Qed.

Lemma bstep_delim s pre post k d m st :
  is_delim d = true ->
  s = pre ++ (spaces k ++ d :: spaces m) ++ post ->
  bstep s st (false, (length pre, length pre + length (spaces k ++ d :: spaces m)))
  = match delim_effect d (length pre + k) st with Some st' => Ok st' | None => Exn ValueError end.
Proof.
  intros Hd Hs. unfold bstep. rewrite Hs, sub_mid.
  destruct (is_delim_not_space d Hd) as [Hsp _].
  rewrite first_nonspace_delim by exact Hsp. simpl (0 + k).
  rewrite nth_error_spaces_delim. unfold delim_effect.
  destruct (delim_cases d Hd) as [E|[E|E]]; subst d.
  - reflexivity.
  - reflexivity.
  - change (N.eqb ch_close ch_open) with false. change (N.eqb ch_close ch_close) with true. cbv iota.
    destruct st as [|[ga gch] [|[pa pch] rest]]; try reflexivity.
    rewrite Nat.add_1_r. reflexivity.
Qed.

Lemma bstep_spaces s pre post k st :
  0 < k -> s = pre ++ spaces k ++ post ->
  bstep s st (false, (length pre, length pre + length (spaces k))) = Ok st.
Proof.
  intros Hk Hs. unfold bstep. rewrite Hs, sub_mid. rewrite first_nonspace_spaces_only.
  destruct k as [|k]; [lia|]. rewrite spaces_S. reflexivity.
Qed.

Lemma spec_delim k d m rest off ra run stS :
  is_delim d = true ->
  spec_loop ((spaces k ++ d :: spaces m) ++ rest) off ra run stS
  = match delim_effect d (off + k) (flush_run ra (rev (spaces k) ++ run) stS) with
    | Some st' => spec_loop rest (off + k + 1 + m) (off + k + 1) (rev (spaces m)) st'
    | None => None
    end.
Proof.
  intros Hd. rewrite <- app_assoc. rewrite spec_loop_nodelim by apply spaces_nodelim.
  rewrite spaces_length. rewrite <- app_comm_cons.
  cbn [spec_loop]. rewrite Hd. unfold delim_effect.
  set (st1 := flush_run ra (rev (spaces k) ++ run) stS).
  assert (Hm : forall i st, spec_loop (spaces m ++ rest) i i [] st = spec_loop rest (i + m) i (rev (spaces m)) st).
  { intros i st. rewrite spec_loop_nodelim by apply spaces_nodelim. rewrite spaces_length, app_nil_r. reflexivity. }
  replace (S (off + k)) with (off + k + 1) by lia.
  destruct (delim_cases d Hd) as [E|[E|E]]; subst d.
  - change (N.eqb ch_comma ch_open) with false. change (N.eqb ch_comma ch_close) with false. cbv iota.
    rewrite Hm; auto.
  - change (N.eqb ch_open ch_open) with true. cbv iota. rewrite Hm; auto.
  - change (N.eqb ch_close ch_open) with false. change (N.eqb ch_close ch_close) with true. cbv iota.
    destruct st1 as [|[ga gch] [|[pa pch] rest']]; try reflexivity.
    rewrite Hm. reflexivity.
Qed.

(* ---------- simulation at token boundaries ---------- *)

Definition rf_sp (ra : nat) (run : str) (off : nat) : Prop :=
  exists k, run = rev (spaces k) /\ ra + k = off.
Definition rf_tag (ra : nat) (run : str) (off : nat) : Prop :=
  exists k body m, run = rev (spaces k ++ body ++ spaces m) /\ tagbody body /\
                   ra + k + length body + m = off.
Definition run_form (q : ast) : nat -> str -> nat -> Prop :=
  match q with Q0 | QS0 | QD => rf_sp | QT | QSF => rf_tag end.

(* blanks appended to the run never change what a flush produces *)
Lemma flush_more_spaces q ra run off j stS :
  run_form q ra run off ->
  flush_run ra (rev (spaces j) ++ run) stS = flush_run ra run stS /\
  run_form q ra (rev (spaces j) ++ run) (off + j).
Proof.
  intros H. destruct q; simpl in *.
  1-3: destruct H as (k & Hr & Ho); subst run;
       rewrite <- rev_app_distr, spaces_app, !flush_run_spaces; split; [reflexivity|];
       exists (k + j); split; [reflexivity | lia].
  1-2: destruct H as (k & body & m & Hr & Hb & Ho); subst run;
       rewrite <- rev_app_distr, <- !app_assoc, spaces_app, !flush_run_body by exact Hb;
       split; [reflexivity|]; exists k, body, (m + j); split; [reflexivity | split; [exact Hb | lia]].
Qed.

Definition impl_final (r : res (list frame)) : res (list node) :=
  let* st := r in
  match st with
  | [(_, ch)] => Ok (rev ch)
  | _ => Exn ValueError
  end.

Definition spec_final (o : option (list frame)) : list node :=
  match o with
  | Some [(_, ch)] => rev ch
  | _ => []
  end.

Lemma bloop_cons s st t ts : bloop s st (t :: ts) = bind (bstep s st t) (fun st' => bloop s st' ts).
Proof. reflexivity. Qed.

Lemma sim cts : forall s pre q stI ra run stS,
  s = pre ++ cconcat cts ->
  Forall ctok_ok cts ->
  (exists qf, arun q (map fst cts) = Some qf) ->
  stI = flush_run ra run stS ->
  run_form q ra run (length pre) ->
  catch (impl_final (bloop s stI (spans_of cts (length pre)))) ValueError []
  = Ok (spec_final (spec_loop (cconcat cts) (length pre) ra run stS)).
Proof.
  induction cts as [|[k sl] cts IH]; intros s pre q stI ra run stS Hs Hok [qf Hq] HI Hrf.
  - (* end of text: the spec flushes the pending run *)
    cbn [spans_of cconcat map concat bloop spec_loop]. subst stI.
    unfold impl_final, spec_final. cbn [bind].
    destruct (flush_run ra run stS) as [|[a ch] [|f2 rest]]; reflexivity.
  - inversion Hok as [|? ? Hk Hok']; subst.
    cbn [map fst arun] in Hq. destruct (astep q k) as [q'|] eqn:Hstep; [|discriminate].
    cbn [spans_of]. rewrite bloop_cons.
    change (cconcat ((k, sl) :: cts)) with (sl ++ cconcat cts).
    assert (Hs' : pre ++ sl ++ cconcat cts = (pre ++ sl) ++ cconcat cts) by (rewrite app_assoc; reflexivity).
    assert (Hlen : length pre + length sl = length (pre ++ sl)) by (rewrite app_length; reflexivity).
    destruct k; unfold ctok_ok in Hk; cbn [fst snd] in Hk.
    + (* blanks-only token *)
      destruct Hk as (j & Hj & ->).
      rewrite (bstep_spaces _ pre (cconcat cts) j _ Hj) by reflexivity. cbn [bind].
      rewrite spec_loop_nodelim by apply spaces_nodelim.
      destruct (flush_more_spaces q ra run (length pre) j stS Hrf) as [Hfl Hrf'].
      rewrite Hlen. rewrite Hs'.
      assert (Hq' : run_form q' ra (rev (spaces j) ++ run) (length (pre ++ spaces j))).
      { rewrite <- Hlen, spaces_length.
        destruct q; simpl in Hstep; try discriminate; inversion Hstep; subst q'; exact Hrf'. }
      apply (IH _ (pre ++ spaces j) q');
        [reflexivity | assumption | eauto | rewrite Hfl; reflexivity | exact Hq'].
    + (* delimiter token *)
      destruct Hk as (j & d & m & Hd & ->).
      rewrite (bstep_delim _ pre (cconcat cts) j d m _ Hd) by reflexivity.
      rewrite spec_delim by exact Hd.
      destruct (flush_more_spaces q ra run (length pre) j stS Hrf) as [Hfl _].
      rewrite Hfl.
      destruct (delim_effect d (length pre + j) (flush_run ra run stS)) as [st'|] eqn:He.
      * cbn [bind]. rewrite Hlen. rewrite Hs'.
        assert (Hl2 : length (pre ++ spaces j ++ d :: spaces m) = length pre + j + 1 + m).
        { rewrite !app_length. simpl. rewrite !spaces_length. lia. }
        rewrite <- Hl2.
        assert (q' = QD) by (destruct q; simpl in Hstep; try discriminate; inversion Hstep; reflexivity).
        subst q'.
        apply (IH _ (pre ++ spaces j ++ d :: spaces m) QD);
          [reflexivity | assumption | eauto | rewrite flush_run_spaces; reflexivity
          | simpl; exists m; split; [reflexivity | lia]].
      * reflexivity.
    + (* tag token *)
      assert (Hqsp : rf_sp ra run (length pre) /\ q' = QT).
      { destruct q; simpl in Hstep; try discriminate; inversion Hstep; split; auto. }
      destruct Hqsp as [(j & Hr & Ho) ->].
      destruct Hk as (Hb1 & Hb2 & Hnd).
      cbn [bstep is_tag_kind bind].
      rewrite spec_loop_nodelim by exact Hnd.
      rewrite Hlen. rewrite Hs'.
      apply (IH _ (pre ++ sl) QT); [reflexivity | assumption | eauto | | ].
      * subst run. rewrite <- rev_app_distr.
        replace (spaces j ++ sl) with (spaces j ++ sl ++ spaces 0) by (simpl; rewrite app_nil_r; reflexivity).
        rewrite flush_run_body by (repeat split; assumption).
        rewrite flush_run_spaces. rewrite <- Ho. repeat f_equal; lia.
      * simpl. exists j, sl, 0. subst run. rewrite <- rev_app_distr. simpl. rewrite app_nil_r.
        split; [reflexivity | split; [repeat split; assumption | rewrite <- Hlen; lia]].
Qed.

(* ---------- content invariant of the scanner ---------- *)

Definition pend_ok_found (cts : list ctok) (q : ast) (pend : str) : Prop :=
  (exists k, pend = spaces k /\ cts = []) \/
  (exists k d m, is_delim d = true /\ pend = spaces k ++ d :: spaces m /\ q <> QSF).

Definition sinv2 (pre : str) (st : sst) : Prop :=
  exists cts pend q,
    pre = cconcat cts ++ pend /\ rev (out st) = spans_of cts 0 /\ Forall ctok_ok cts /\
    arun Q0 (map fst cts) = Some q /\
    if found st then
      lastend st = Some (length (cconcat cts)) /\ tstart st = None /\ pend_ok_found cts q pend
    else
      lastend st = None /\ tstart st = Some (length (cconcat cts)) /\
      exists body, tagbody body /\ pend = body ++ spaces (spacing st) /\ (q = Q0 \/ q = QS0 \/ q = QD).

Lemma emit_snoc (o : list tok) cts kd sl :
  rev o = spans_of cts 0 ->
  rev ((is_tag_kind kd, (length (cconcat cts), length (cconcat cts) + length sl)) :: o)
  = spans_of (cts ++ [(kd, sl)]) 0.
Proof.
  intros H. rewrite spans_of_snoc. rewrite <- H. reflexivity.
Qed.

Lemma cconcat_snoc cts kd sl : cconcat (cts ++ [(kd, sl)]) = cconcat cts ++ sl.
Proof. rewrite cconcat_app. unfold cconcat at 2. simpl. rewrite app_nil_r. reflexivity. Qed.

Lemma map_fst_snoc cts (kd : kind) (sl : str) : map fst (cts ++ [(kd, sl)]) = map fst cts ++ [kd].
Proof. rewrite map_app. reflexivity. Qed.

(* emitting the pending delimiter region (non-empty) as a token *)
Lemma emit_pending cts q pend :
  Forall ctok_ok cts -> arun Q0 (map fst cts) = Some q -> pend_ok_found cts q pend -> pend <> [] ->
  exists kd q', is_tag_kind kd = false /\ Forall ctok_ok (cts ++ [(kd, pend)]) /\
                arun Q0 (map fst (cts ++ [(kd, pend)])) = Some q' /\ (q' = QS0 \/ q' = QD).
Proof.
  intros Hok Hq Hp Hne. destruct Hp as [(k & -> & ->) | (k & d & m & Hd & -> & Hnq)].
  - exists KS, QS0. split; [reflexivity|]. split.
    + constructor; [|constructor]. unfold ctok_ok; simpl. exists k. split; [|reflexivity].
      destruct k; [exfalso; apply Hne; reflexivity | lia].
    + simpl in Hq. inversion Hq; subst. simpl. auto.
  - exists KD, QD. split; [reflexivity|]. split.
    + apply Forall_app. split; [exact Hok|]. constructor; [|constructor].
      unfold ctok_ok; simpl. exists k, d, m. auto.
    + rewrite map_fst_snoc, (arun_snoc _ _ _ _ Hq). split; [|auto].
      destruct q; try reflexivity. exfalso; apply Hnq; reflexivity.
Qed.

Lemma tagchar_body c : N.eqb c ch_space = false -> is_delim c = false -> tagbody [c].
Proof.
  intros H1 H2. repeat split.
  - exists c, []. auto.
  - exists [], c. auto.
  - constructor; auto.
Qed.

Lemma tagbody_extend body sp c :
  tagbody body -> N.eqb c ch_space = false -> is_delim c = false -> tagbody (body ++ spaces sp ++ [c]).
Proof.
  intros ((c0 & r & Hb & Hc0) & _ & Hnd) H1 H2. repeat split.
  - exists c0, (r ++ spaces sp ++ [c]). rewrite Hb. split; [reflexivity | exact Hc0].
  - exists (body ++ spaces sp), c. rewrite <- app_assoc. auto.
  - apply Forall_app. split; [exact Hnd|]. apply Forall_app. split; [apply spaces_nodelim|]. constructor; auto.
Qed.

Lemma sstep_inv2 pre st c :
  sinv2 pre st -> exists st', sstep st (length pre) c = Some st' /\ sinv2 (pre ++ [c]) st'.
Proof.
  intros (cts & pend & q & Hpre & Hout & Hok & Hq & Hmode).
  assert (Hi : length pre = length (cconcat cts) + length pend) by (rewrite Hpre, app_length; reflexivity).
  unfold sstep. destruct (N.eqb c ch_space) eqn:Hsp.
  - (* blank *)
    apply N.eqb_eq in Hsp. subst c.
    eexists; split; [reflexivity|]. unfold sinv2; cbn [found out lastend tstart spacing].
    exists cts, (pend ++ [ch_space]), q.
    split; [rewrite Hpre, <- app_assoc; reflexivity|].
    split; [exact Hout|]. split; [exact Hok|]. split; [exact Hq|].
    destruct (found st).
    + destruct Hmode as (Hl & Ht & Hp). split; [exact Hl|]. split; [exact Ht|].
      destruct Hp as [(k & -> & Hc) | (k & d & m & Hd & -> & Hnq)].
      * left. exists (S k). rewrite spaces_snoc. auto.
      * right. exists k, d, (S m). split; [exact Hd|]. split; [|exact Hnq].
        rewrite <- app_assoc, <- app_comm_cons, spaces_snoc. reflexivity.
    + destruct Hmode as (Hl & Ht & body & Hb & -> & Hqq). split; [exact Hl|]. split; [exact Ht|].
      exists body. split; [exact Hb|]. split; [|exact Hqq].
      rewrite <- app_assoc, spaces_snoc. reflexivity.
  - destruct (is_delim c) eqn:Hd.
    + destruct (found st) eqn:Hf.
      * (* delimiter while in a delimiter region *)
        destruct Hmode as (Hl & Ht & Hp). rewrite Hl.
        eexists; split; [reflexivity|]. unfold sinv2; cbn [found out lastend tstart spacing].
        destruct (Nat.eqb (length (cconcat cts)) (length pre)) eqn:He; cbn [negb].
        -- apply Nat.eqb_eq in He. assert (pend = []) by (destruct pend; [reflexivity | simpl in Hi; lia]). subst pend.
           exists cts, [c], q.
           split; [rewrite Hpre, app_nil_r; reflexivity|].
           split; [exact Hout|]. split; [exact Hok|]. split; [exact Hq|].
           split; [rewrite He; reflexivity|]. split; [exact Ht|].
           right. exists 0, c, 0. split; [exact Hd|]. split; [reflexivity|].
           destruct Hp as [(k & _ & ->) | (k & d & m & _ & Hbad & _)].
           ++ simpl in Hq. inversion Hq. discriminate.
           ++ destruct k; discriminate.
        -- apply Nat.eqb_neq in He. assert (Hne : pend <> []) by (intros ->; simpl in Hi; lia).
           destruct (emit_pending cts q pend Hok Hq Hp Hne) as (kd & q' & Hkd & Hok' & Hq' & Hqq).
           exists (cts ++ [(kd, pend)]), [c], q'.
           split; [rewrite cconcat_snoc, Hpre; reflexivity|].
           split; [rewrite <- Hkd, Hi; apply emit_snoc; exact Hout|].
           split; [exact Hok'|]. split; [exact Hq'|].
           split; [rewrite cconcat_snoc, app_length, Hi; reflexivity|]. split; [exact Ht|].
           right. exists 0, c, 0. split; [exact Hd|]. split; [reflexivity|].
           destruct Hqq; subst q'; discriminate.
      * (* delimiter ends a tag *)
        destruct Hmode as (Hl & Ht & body & Hb & Hpend & Hqq). rewrite Ht.
        eexists; split; [reflexivity|]. unfold sinv2; cbn [found out lastend tstart spacing].
        exists (cts ++ [(KT, body)]), (spaces (spacing st) ++ [c]), QT.
        assert (Hisp : length pre - spacing st = length (cconcat cts) + length body).
        { rewrite Hi, Hpend, app_length, spaces_length. lia. }
        split; [rewrite cconcat_snoc, Hpre, Hpend, <- !app_assoc; reflexivity|].
        split; [rewrite Hisp; change true with (is_tag_kind KT); apply emit_snoc; exact Hout|].
        split; [apply Forall_app; split; [exact Hok | constructor; [exact Hb | constructor]]|].
        split; [rewrite map_fst_snoc, (arun_snoc _ _ _ _ Hq); destruct Hqq as [->|[->| ->]]; reflexivity|].
        split; [rewrite Hisp, cconcat_snoc, app_length; reflexivity|]. split; [reflexivity|].
        right. exists (spacing st), c, 0. split; [exact Hd|]. split; [reflexivity | discriminate].
    + destruct (found st) eqn:Hf.
      * (* tag character after a delimiter region *)
        destruct Hmode as (Hl & Ht & Hp). rewrite Hl, Ht.
        eexists; split; [reflexivity|]. unfold sinv2; cbn [found out lastend tstart spacing].
        destruct (Nat.eqb (length (cconcat cts)) (length pre)) eqn:He; cbn [negb].
        -- apply Nat.eqb_eq in He. assert (pend = []) by (destruct pend; [reflexivity | simpl in Hi; lia]). subst pend.
           exists cts, [c], q.
           split; [rewrite Hpre, app_nil_r; reflexivity|].
           split; [exact Hout|]. split; [exact Hok|]. split; [exact Hq|].
           split; [reflexivity|]. split; [rewrite He; reflexivity|].
           exists [c]. split; [apply tagchar_body; assumption|]. split; [reflexivity|].
           destruct Hp as [(k & _ & ->) | (k & d & m & _ & Hbad & _)].
           ++ simpl in Hq. inversion Hq. auto.
           ++ destruct k; discriminate.
        -- apply Nat.eqb_neq in He. assert (Hne : pend <> []) by (intros ->; simpl in Hi; lia).
           destruct (emit_pending cts q pend Hok Hq Hp Hne) as (kd & q' & Hkd & Hok' & Hq' & Hqq).
           exists (cts ++ [(kd, pend)]), [c], q'.
           split; [rewrite cconcat_snoc, Hpre; reflexivity|].
           split; [rewrite <- Hkd, Hi; apply emit_snoc; exact Hout|].
           split; [exact Hok'|]. split; [exact Hq'|].
           split; [reflexivity|]. split; [rewrite cconcat_snoc, app_length, Hi; reflexivity|].
           exists [c]. split; [apply tagchar_body; assumption|]. split; [reflexivity|].
           destruct Hqq; auto.
      * (* tag character inside a tag *)
        destruct Hmode as (Hl & Ht & body & Hb & Hpend & Hqq). rewrite Hl, Ht.
        eexists; split; [reflexivity|]. unfold sinv2; cbn [found out lastend tstart spacing].
        exists cts, (body ++ spaces (spacing st) ++ [c]), q.
        split; [rewrite Hpre, Hpend, <- !app_assoc; reflexivity|].
        split; [exact Hout|]. split; [exact Hok|]. split; [exact Hq|].
        split; [reflexivity|]. split; [reflexivity|].
        exists (body ++ spaces (spacing st) ++ [c]). split; [apply tagbody_extend; assumption|].
        split; [simpl; rewrite app_nil_r; reflexivity | exact Hqq].
Qed.

Lemma sinv2_0 : sinv2 [] sst0.
Proof.
  exists [], [], Q0. unfold sst0; cbn [found out lastend tstart spacing].
  split; [reflexivity|]. split; [reflexivity|]. split; [constructor|]. split; [reflexivity|].
  split; [reflexivity|]. split; [reflexivity|]. left. exists 0. auto.
Qed.

Lemma sloop_inv2 cs : forall pre st, sinv2 pre st ->
  exists st', sloop st (length pre) cs = Some st' /\ sinv2 (pre ++ cs) st'.
Proof.
  induction cs as [|c cs IH]; intros pre st H.
  - exists st. rewrite app_nil_r. auto.
  - destruct (sstep_inv2 pre st c H) as (st1 & Hs & H1). cbn [sloop]. rewrite Hs.
    destruct (IH (pre ++ [c]) st1 H1) as (st2 & Hl & H2).
    rewrite app_length in Hl. simpl in Hl. rewrite Nat.add_1_r in Hl.
    exists st2. rewrite <- app_assoc in H2. auto.
Qed.

Lemma sfinish_content s st :
  sinv2 s st ->
  exists cts qf, sfinish st (length s) = spans_of cts 0 /\ s = cconcat cts /\
                 Forall ctok_ok cts /\ arun Q0 (map fst cts) = Some qf.
Proof.
  intros (cts & pend & q & Hpre & Hout & Hok & Hq & Hmode).
  assert (Hi : length s = length (cconcat cts) + length pend) by (rewrite Hpre, app_length; reflexivity).
  unfold sfinish. destruct (found st) eqn:Hf.
  - destruct Hmode as (Hl & Ht & Hp). rewrite Hl, Ht.
    destruct (Nat.eqb (length s) (length (cconcat cts))) eqn:He; cbn [negb].
    + apply Nat.eqb_eq in He. assert (pend = []) by (destruct pend; [reflexivity | simpl in Hi; lia]). subst pend.
      exists cts, q. rewrite app_nil_r in Hpre. auto.
    + apply Nat.eqb_neq in He. assert (Hne : pend <> []) by (intros ->; simpl in Hi; lia).
      destruct (emit_pending cts q pend Hok Hq Hp Hne) as (kd & q' & Hkd & Hok' & Hq' & Hqq).
      exists (cts ++ [(kd, pend)]), q'.
      split; [rewrite <- Hkd, Hi; apply emit_snoc; exact Hout|].
      split; [rewrite cconcat_snoc; exact Hpre|]. auto.
  - destruct Hmode as (Hl & Ht & body & Hb & Hpend & Hqq). rewrite Hl, Ht.
    assert (Hisp : length s - spacing st = length (cconcat cts) + length body).
    { rewrite Hi, Hpend, app_length, spaces_length. lia. }
    assert (Hq1 : arun Q0 (map fst (cts ++ [(KT, body)])) = Some QT).
    { rewrite map_fst_snoc, (arun_snoc _ _ _ _ Hq). destruct Hqq as [->|[->| ->]]; reflexivity. }
    assert (Hok1 : Forall ctok_ok (cts ++ [(KT, body)])).
    { apply Forall_app; split; [exact Hok | constructor; [exact Hb | constructor]]. }
    assert (Ho1 : rev ((true, (length (cconcat cts), length s - spacing st)) :: out st)
                  = spans_of (cts ++ [(KT, body)]) 0).
    { rewrite Hisp. change true with (is_tag_kind KT). apply emit_snoc. exact Hout. }
    destruct (Nat.eqb (spacing st) 0) eqn:He.
    + apply Nat.eqb_eq in He. exists (cts ++ [(KT, body)]), QT.
      split; [exact Ho1|]. split; [|auto].
      rewrite cconcat_snoc, Hpre, Hpend, He. simpl. rewrite app_nil_r. reflexivity.
    + apply Nat.eqb_neq in He.
      exists ((cts ++ [(KT, body)]) ++ [(KS, spaces (spacing st))]), QSF.
      split.
      { assert (E : length s - spacing st = length (cconcat (cts ++ [(KT, body)]))).
        { rewrite cconcat_snoc, app_length. exact Hisp. }
        assert (E2 : length s = length (cconcat (cts ++ [(KT, body)])) + length (spaces (spacing st))).
        { assert (spacing st <= length s) by (rewrite Hi, Hpend, app_length, spaces_length; lia).
          rewrite <- E, spaces_length. lia. }
        replace ((false, (length s - spacing st, length s)) : tok)
          with (is_tag_kind KS, (length (cconcat (cts ++ [(KT, body)])),
                                 length (cconcat (cts ++ [(KT, body)])) + length (spaces (spacing st)))).
        2: { cbn [is_tag_kind]. rewrite <- E2, <- E. reflexivity. }
        apply emit_snoc. exact Ho1. }
      split; [rewrite !cconcat_snoc, Hpre, Hpend, <- app_assoc; reflexivity|].
      split.
      { apply Forall_app; split; [exact Hok1|]. constructor; [|constructor].
        unfold ctok_ok; simpl. exists (spacing st). split; [lia | reflexivity]. }
      rewrite map_fst_snoc, (arun_snoc _ _ _ _ Hq1). reflexivity.
Qed.

(* The tokens of every text, with their content: blanks-only tokens, tokens
   holding exactly one delimiter among blanks, and trimmed non-empty tag
   tokens free of delimiters, in the only order the grammar allows. *)
Theorem split_content (s : str) :
  exists cts qf, split_hed_string s = Some (spans_of cts 0) /\ s = cconcat cts /\
                 Forall ctok_ok cts /\ arun Q0 (map fst cts) = Some qf.
Proof.
  unfold split_hed_string.
  destruct (sloop_inv2 s [] sst0 sinv2_0) as (st & Hl & Hinv). simpl in Hl, Hinv. rewrite Hl.
  destruct (sfinish_content s st Hinv) as (cts & qf & H1 & H2 & H3 & H4).
  exists cts, qf. rewrite H1. auto.
Qed.

(* The parser refines the character-level specification on EVERY string:
   one tag per maximal run of non-delimiter characters trimmed of blanks,
   nesting = parenthesis nesting with group spans from '(' to just after the
   matching ')', and the empty tree when a ')' has no partner or a '(' stays
   open. *)
Theorem init_refines_spec (s : str) : hedstring_init s = Ok (spec_parse s).
Proof.
  destruct (split_content s) as (cts & qf & Hsp & Hs & Hok & Hq).
  unfold hedstring_init, split_into_groups, spec_parse. rewrite Hsp.
  pose proof (sim cts s [] Q0 [(0, [])] 0 [] [(0, [])]) as H.
  simpl (length []) in H. rewrite <- Hs in H.
  apply H; auto.
  - eauto.
  - simpl. exists 0. auto.
Qed.

(* ---------- balanced text <-> the specification parser succeeds ---------- *)

Lemma push_child_length n st : length (push_child n st) = length st.
Proof. destruct st as [|[a ch] rest]; reflexivity. Qed.

Lemma flush_run_length ra run st : length (flush_run ra run st) = length st.
Proof.
  unfold flush_run. destruct (trim_left (rev run) ra) as [a r']. destruct r'; [reflexivity|].
  apply push_child_length.
Qed.

Lemma spec_loop_balanced cs : forall i ra run st,
  st <> [] ->
  ((exists a ch, spec_loop cs i ra run st = Some [(a, ch)]) <-> balanced_from (length st - 1) cs = true).
Proof.
  induction cs as [|c cs IH]; intros i ra run st Hne.
  - cbn [spec_loop balanced_from]. pose proof (flush_run_length ra run st) as Hl.
    destruct (flush_run ra run st) as [|[a ch] [|f2 rest]] eqn:E; simpl in Hl.
    + destruct st; [congruence | discriminate].
    + split; [intros _ | eauto]. rewrite <- Hl. reflexivity.
    + split; [intros (a' & ch' & H); discriminate|]. intros H. apply Nat.eqb_eq in H. lia.
  - cbn [spec_loop balanced_from].
    pose proof (flush_run_length ra run st) as Hl.
    assert (Hst : exists d, length st = S d) by (destruct st; [congruence | simpl; eauto]).
    destruct Hst as [d Hd]. rewrite Hd. simpl (S d - 1). rewrite Nat.sub_0_r.
    destruct (is_delim c) eqn:Hdel.
    + destruct (delim_cases c Hdel) as [E|[E|E]]; subst c.
      * change (N.eqb ch_comma ch_open) with false. change (N.eqb ch_comma ch_close) with false. cbv iota.
        rewrite IH by (intro E; rewrite E in Hl; simpl in Hl; lia).
        rewrite Hl, Hd. simpl. rewrite Nat.sub_0_r. reflexivity.
      * change (N.eqb ch_open ch_open) with true. cbv iota.
        rewrite IH by discriminate. simpl (length _ - 1). rewrite Nat.sub_0_r, Hl, Hd. reflexivity.
      * change (N.eqb ch_close ch_open) with false. change (N.eqb ch_close ch_close) with true. cbv iota.
        destruct (flush_run ra run st) as [|[ga gch] [|[pa pch] rest]] eqn:E; simpl in Hl.
        -- lia.
        -- assert (d = 0) by lia. subst d. split; [intros (a' & ch' & H); discriminate | discriminate].
        -- destruct d as [|d']; [lia|].
           rewrite IH by discriminate. simpl (length _ - 1). rewrite Nat.sub_0_r.
           replace (length rest) with d' by lia. reflexivity.
    + assert (Ho : N.eqb c ch_open = false).
      { destruct (N.eqb c ch_open) eqn:E; [|reflexivity]. apply N.eqb_eq in E. subst c. discriminate. }
      assert (Hc : N.eqb c ch_close = false).
      { destruct (N.eqb c ch_close) eqn:E; [|reflexivity]. apply N.eqb_eq in E. subst c. discriminate. }
      rewrite Ho, Hc. rewrite IH by exact Hne. rewrite Hd. simpl. rewrite Nat.sub_0_r. reflexivity.
Qed.

(* unbalanced text gives the empty tree *)
Theorem unbalanced_empty (s : str) : balanced s = false -> hedstring_init s = Ok [].
Proof.
  intros Hb. rewrite init_refines_spec. f_equal. unfold spec_parse.
  pose proof (spec_loop_balanced s 0 0 [] [(0, [])]) as H. simpl (length _ - 1) in H.
  destruct (spec_loop s 0 0 [] [(0, [])]) as [[|[a ch] [|f2 rest]]|] eqn:E; try reflexivity.
  exfalso. destruct (H ltac:(discriminate)) as [H1 _].
  assert (Hx : balanced_from 0 s = true) by (apply H1; eauto).
  unfold balanced in Hb. congruence.
Qed.

(* balanced text is never rejected: the tree is the specification's, not the fallback *)
Theorem balanced_parses (s : str) : balanced s = true ->
  exists a ch, spec_loop s 0 0 [] [(0, [])] = Some [(a, ch)] /\ hedstring_init s = Ok (rev ch).
Proof.
  intros Hb. pose proof (spec_loop_balanced s 0 0 [] [(0, [])]) as H. simpl (length _ - 1) in H.
  destruct (proj2 (H ltac:(discriminate)) Hb) as (a & ch & E).
  exists a, ch. split; [exact E|]. rewrite init_refines_spec. unfold spec_parse. rewrite E. reflexivity.
Qed.
