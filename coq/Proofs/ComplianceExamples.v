(* C14 -- kernel evaluations of the model on the translated bundled schemas (Gen/Schema_*_c14.v)
   in the environment of the bundled package (Gen/C14_Env.v). *)
From Coq Require Import List NArith ZArith Bool.
From HV Require Import Base.Res Base.Str Base.C14Base Gen.ComplianceTables Model.Compliance
     Proofs.ComplianceProofs Gen.C14_Env.
From HV Require Gen.Schema_8_0_0_c14 Gen.Schema_8_1_0_c14 Gen.Schema_8_2_0_c14 Gen.Schema_8_3_0_c14
     Gen.Schema_score_1_1_0_c14 Gen.Schema_score_2_0_0_c14 Gen.Schema_testlib_2_0_0_c14
     Gen.Schema_testlib_2_1_0_c14 Gen.Schema_testlib_3_0_0_c14.
Import ListNotations.
Local Open Scope N_scope.

Definition env_bundled : env := mkEnv known_versions id_ranges plurals loadable.

Definition no_error (S : rschema) : Prop :=
  errors_of (check_compliance env_bundled true S) = Ok [] /\ check_compliance env_bundled false S = Ok [].

Ltac compliant := split; vm_compute; reflexivity.

Lemma compliant_8_0_0 : no_error Schema_8_0_0_c14.schema. Proof. compliant. Qed.
Lemma compliant_8_1_0 : no_error Schema_8_1_0_c14.schema. Proof. compliant. Qed.
Lemma compliant_8_2_0 : no_error Schema_8_2_0_c14.schema. Proof. compliant. Qed.
Lemma compliant_8_3_0 : no_error Schema_8_3_0_c14.schema. Proof. compliant. Qed.
Lemma compliant_score_1_1_0 : no_error Schema_score_1_1_0_c14.schema. Proof. compliant. Qed.
Lemma compliant_score_2_0_0 : no_error Schema_score_2_0_0_c14.schema. Proof. compliant. Qed.
Lemma compliant_testlib_2_0_0 : no_error Schema_testlib_2_0_0_c14.schema. Proof. compliant. Qed.
Lemma compliant_testlib_2_1_0 : no_error Schema_testlib_2_1_0_c14.schema. Proof. compliant. Qed.
Lemma compliant_testlib_3_0_0 : no_error Schema_testlib_3_0_0_c14.schema. Proof. compliant. Qed.

(* ---- one seeded fault in 8.3.0: Seed = add one attribute to the node of a given long name *)
Definition add_tag_attr (S : rschema) (name : str) (kv : str * aval) : rschema :=
  mkS (rs_version S) (rs_library S) (rs_with_standard S) (rs_unmerged S)
      (rs_props S) (rs_attrs S) (rs_mods S) (rs_uclasses S) (rs_vclasses S)
      (map (fun r => if str_eqb (re_name r) name then mkE (re_name r) (re_attrs r ++ [kv]) else r) (rs_tags S)).

Definition add_tag (S : rschema) (r : rentry) : rschema :=
  mkS (rs_version S) (rs_library S) (rs_with_standard S) (rs_unmerged S)
      (rs_props S) (rs_attrs S) (rs_mods S) (rs_uclasses S) (rs_vclasses S) (rs_tags S ++ [r]).

Definition n_Event : str := [69;118;101;110;116].                                   (* Event *)
Definition n_Item_Event : str := [73;116;101;109;47;69;118;101;110;116].            (* Item/Event *)
Definition n_otherlib : str := [111;116;104;101;114;108;105;98].                    (* otherlib *)

Definition seeded_in_library_830 : rschema :=
  add_tag_attr Schema_8_3_0_c14.schema n_Event (HedKey_InLibrary, VStr n_otherlib).
Definition seeded_duplicate_830 : rschema := add_tag Schema_8_3_0_c14.schema (mkE n_Item_Event []).
Definition seeded_default_units_on_tag_830 : rschema :=
  add_tag_attr Schema_8_3_0_c14.schema n_Event (HedKey_DefaultUnits, VStr [115]).

(* the foreign inLibrary name is reported with the kind's code, and nothing is returned with warnings off *)
Lemma ex_seeded_in_library :
  exists issues, check_compliance env_bundled true seeded_in_library_830 = Ok issues
                 /\ In (kind_code K_SCHEMA_IN_LIBRARY_INVALID) (codes issues)
                 /\ check_compliance env_bundled false seeded_in_library_830 = Ok [].
Proof.
  destruct (check_compliance env_bundled true seeded_in_library_830) as [l|] eqn:H.
  - exists l. split; [reflexivity|]. revert H. vm_compute. intros H; inversion H; subst. clear H.
    split; [left; reflexivity|reflexivity].
  - exfalso. revert H. vm_compute. discriminate.
Qed.

(* the duplicated node is an error and survives warnings off *)
Lemma ex_seeded_duplicate :
  exists issues, check_compliance env_bundled false seeded_duplicate_830 = Ok issues
                 /\ In (kind_code K_SCHEMA_DUPLICATE_NODE) (codes issues).
Proof.
  destruct (check_compliance env_bundled false seeded_duplicate_830) as [l|] eqn:H.
  - exists l. split; [reflexivity|]. revert H. vm_compute. intros H; inversion H; subst. left; reflexivity.
  - exfalso. revert H. vm_compute. discriminate.
Qed.

(* FINDING C14-F1: an attribute that is undeclared for tags but whose range is unitRange makes the
   check raise instead of reporting SCHEMA_ATTRIBUTE_INVALID *)
Lemma ex_undeclared_attribute_raises :
  check_compliance env_bundled true seeded_default_units_on_tag_830 = Exn AttributeError.
Proof. vm_compute. reflexivity. Qed.

(* FINDING C14-F2: in a partnered 8.3-style library schema the inherited inLibrary value of a nested
   library tag is "score,score", no id range is found for it, and an out-of-range hedId goes unreported *)
Definition n_rpp : str :=
  [70;101;97;116;117;114;101;45;112;114;111;112;101;114;116;121;47;83;105;103;110;97;108;45;109;111;114;112;104;111;
   108;111;103;121;45;112;114;111;112;101;114;116;121;47;82;80;80;45;109;111;114;112;104;111;108;111;103;121].
Definition n_hed_9999999 : str := [72;69;68;95;57;57;57;57;57;57;57].
Definition seeded_hed_id_score_200 : rschema :=
  add_tag_attr Schema_score_2_0_0_c14.schema n_rpp (HedKey_HedID, VStr n_hed_9999999).

Lemma ex_hed_id_out_of_range_unreported :
  existsb (fun r => str_eqb (re_name r) n_rpp) (rs_tags Schema_score_2_0_0_c14.schema) = true
  /\ check_compliance env_bundled true seeded_hed_id_score_200 = Ok [].
Proof. split; vm_compute; reflexivity. Qed.

Lemma check_compliance_loaded E warn S issues :
  check_compliance E warn S = Ok issues -> exists L, load E S = Ok L /\ check_loaded E warn L = Ok issues.
Proof.
  unfold check_compliance. destruct (load E S) as [L|]; cbn [bind]; [|discriminate].
  intros H. exists L. split; [reflexivity|exact H].
Qed.
