(* C01: the duplicate check of Model/Validate.v (HedGroup._sorted as repaired +
   GroupValidator._check_for_duplicate_groups): completeness ("two equal siblings are
   reported", at any depth) and soundness ("no equal siblings => nothing reported").
   Reuses the string order, the stable-sort facts and the unique decoding of canonical
   keys of property C04 (Proofs/DupsProofs.v). *)
From Coq Require Import List NArith Arith Bool Lia Permutation Sorted.
From HV Require Import Base.Res Base.Str Model.Dups Proofs.DupsProofs.
From HV Require Import Model.ValKinds Model.ValStr Model.Validate Gen.ValidationCodes Proofs.ValidateProofs.
Import ListNotations.

(* ---------------------------------------------------------------- the two sort models coincide *)
Lemma insert_key_eq {A} (x : str * A) l : insert_key x l = insert_k x l.
Proof. induction l as [|y l IH]; simpl; [reflexivity|]. destruct (str_leb (fst x) (fst y)); [reflexivity|]. rewrite IH. reflexivity. Qed.

Lemma sort_key_eq {A} (l : list (str * A)) : sort_key l = sort_k l.
Proof. unfold sort_key. induction l as [|x l IH]; simpl; [reflexivity|]. rewrite IH. apply insert_key_eq. Qed.

Lemma sort_key_perm {A} (l : list (str * A)) : Permutation (sort_key l) l.
Proof. rewrite sort_key_eq. apply sort_k_perm. Qed.

(* ---------------------------------------------------------------- canonical views *)
Fixpoint to_c (n : fnode) : cview :=
  match n with
  | FTag t => CT (tf_short_fold t)
  | FGroup l => CL (map to_c l)
  end.

Lemma canon_ckey : forall n, Validate.canon n = ckey (to_c n).
Proof.
  apply (fnode_ind2 (fun n => Validate.canon n = ckey (to_c n))); [reflexivity|].
  intros ch IH. cbn [Validate.canon to_c ckey]. simpl app. do 3 f_equal. rewrite map_map.
  induction IH as [|x l Hx _ IHl]; [reflexivity|]. cbn [map]. rewrite Hx, IHl. reflexivity.
Qed.

Lemma node_eqb_to_c : forall a b, node_eqb a b = true <-> to_c a = to_c b.
Proof.
  apply (fnode_ind2 (fun a => forall b, node_eqb a b = true <-> to_c a = to_c b)).
  - intros t [u | l]; simpl.
    + unfold tag_eqb. rewrite str_eqb_spec. split; [intros ->; reflexivity | intros H; inversion H; reflexivity].
    + split; discriminate.
  - intros ch IH [u | l2]; [simpl; split; discriminate|].
    assert (H : (fix go (l1 l2 : list fnode) {struct l1} : bool :=
                   match l1, l2 with
                   | [], [] => true
                   | p :: l1', q :: l2' => node_eqb p q && go l1' l2'
                   | _, _ => false
                   end) ch l2 = true <-> map to_c ch = map to_c l2).
    { revert l2. induction IH as [|x l Hx _ IHl]; intros [|y l2]; simpl; try (split; [reflexivity|reflexivity]);
        try (split; discriminate).
      rewrite andb_true_iff, Hx, IHl. split; [intros [-> ->]; reflexivity | intros H; inversion H; auto]. }
    simpl. rewrite H. split; [intros ->; reflexivity | intros E; inversion E; reflexivity].
Qed.

Definition wfn (n : fnode) : Prop := wfc (to_c n) = true.

(* equal canonical texts of well-formed views: the same view (C04's unique decoding) *)
Lemma canon_inj a b : wfn a -> wfn b -> Validate.canon a = Validate.canon b -> node_eqb a b = true.
Proof.
  intros Ha Hb He. apply node_eqb_to_c. rewrite !canon_ckey in He. apply ckey_inj; assumption.
Qed.

Lemma node_eqb_canon a b : node_eqb a b = true -> Validate.canon a = Validate.canon b.
Proof. intros H. apply node_eqb_to_c in H. rewrite !canon_ckey, H. reflexivity. Qed.

(* ---------------------------------------------------------------- the loop of the duplicate check *)
Definition dup_here (prev : option fnode) (c : fnode) : res (list issue) :=
  if match prev with Some p => node_eqb c p | None => false end
  then match c with
       | FTag _ => Ok [iss K_HED_TAG_REPEATED]
       | FGroup _ => Ok [iss K_HED_TAG_REPEATED_GROUP]
       end
  else Ok [].

Fixpoint dup_list (prev : option fnode) (l : list fnode) : res (list issue) :=
  match l with
  | [] => Ok []
  | c :: l' =>
      let* here := dup_here prev c in
      let* inner := dup_n c in
      let* rest := dup_list (Some c) l' in
      Ok (here ++ inner ++ rest)
  end.

Lemma dup_n_group ch : dup_n (FGroup ch) = dup_list None ch.
Proof.
  simpl. generalize (@None fnode). induction ch as [|c ch IH]; intros prev; [reflexivity|].
  cbn [dup_list]. unfold dup_here. rewrite <- (IH (Some c)). reflexivity.
Qed.

(* the issue of a repeated child *)
Definition is_repeat (i : issue) : Prop := i = iss K_HED_TAG_REPEATED \/ i = iss K_HED_TAG_REPEATED_GROUP.

Lemma dup_list_hit y1 : forall prev p c y2 r,
  dup_list prev (y1 ++ p :: c :: y2) = Ok r -> node_eqb c p = true -> exists i, is_repeat i /\ In i r.
Proof.
  induction y1 as [|x y1 IH]; intros prev p c y2 r Hr Heq.
  - cbn [app dup_list] in Hr.
    destruct (dup_here prev p) as [h1|e]; [|discriminate]. cbn [bind] in Hr.
    destruct (dup_n p) as [i1|e]; [|discriminate]. cbn [bind] in Hr.
    unfold dup_here at 1 in Hr. rewrite Heq in Hr.
    destruct c as [t | g].
    + cbn [bind] in Hr. destruct (dup_n (FTag t)) as [i2|e]; [|discriminate]. cbn [bind] in Hr.
      destruct (dup_list (Some (FTag t)) y2) as [r2|e]; [|discriminate]. cbn [bind] in Hr. inversion Hr; subst.
      exists (iss K_HED_TAG_REPEATED). split; [left; reflexivity|].
      apply in_or_app. right. apply in_or_app. right. left. reflexivity.
    + cbn [bind] in Hr.
      destruct (dup_n (FGroup g)) as [i2|e]; [|discriminate]. cbn [bind] in Hr.
      destruct (dup_list (Some (FGroup g)) y2) as [r2|e]; [|discriminate]. cbn [bind] in Hr. inversion Hr; subst.
      exists (iss K_HED_TAG_REPEATED_GROUP). split; [right; reflexivity|].
      apply in_or_app. right. apply in_or_app. right. left. reflexivity.
  - cbn [app dup_list] in Hr.
    destruct (dup_here prev x) as [h1|e]; [|discriminate]. cbn [bind] in Hr.
    destruct (dup_n x) as [i1|e]; [|discriminate]. cbn [bind] in Hr.
    destruct (dup_list (Some x) (y1 ++ p :: c :: y2)) as [r1|e] eqn:E; [|discriminate]. cbn [bind] in Hr.
    inversion Hr; subst. destruct (IH _ _ _ _ _ E Heq) as (i & Hi & Hin). exists i. split; [exact Hi|].
    apply in_or_app. right. apply in_or_app. right. exact Hin.
Qed.

(* results of the children are part of the result *)
Lemma dup_list_child l : forall prev r c rc,
  dup_list prev l = Ok r -> In c l -> dup_n c = Ok rc -> incl rc r.
Proof.
  induction l as [|x l IH]; intros prev r c rc Hr Hc Hrc; [contradiction|].
  cbn [dup_list] in Hr. destruct (dup_here prev x) as [h1|e]; [|discriminate]. cbn [bind] in Hr.
  destruct (dup_n x) as [i1|e] eqn:Ex; [|discriminate]. cbn [bind] in Hr.
  destruct (dup_list (Some x) l) as [r1|e] eqn:E; [|discriminate]. cbn [bind] in Hr. inversion Hr; subst.
  destruct Hc as [-> | Hc].
  - rewrite Ex in Hrc. inversion Hrc; subst. apply incl_appr, incl_appl, incl_refl.
  - apply incl_appr, incl_appr. eapply IH; eassumption.
Qed.

(* no repeated key: nothing is reported by the loop itself *)
Lemma dup_list_silent l : forall prev,
  NoDup (map Validate.canon l) ->
  match prev with Some p => ~ In (Validate.canon p) (map Validate.canon l) | None => True end ->
  Forall (fun c => dup_n c = Ok []) l -> dup_list prev l = Ok [].
Proof.
  induction l as [|c l IH]; intros prev Hnd Hprev Hall; [reflexivity|].
  inversion Hnd as [|k ks Hk Hnd']; subst. inversion Hall as [|c' l' Hc Hl]; subst.
  cbn [dup_list]. unfold dup_here.
  assert (Hs : match prev with Some p => node_eqb c p | None => false end = false).
  { destruct prev as [p|]; [|reflexivity]. destruct (node_eqb c p) eqn:E; [|reflexivity].
    exfalso. apply Hprev. apply node_eqb_canon in E. rewrite <- E. left. reflexivity. }
  rewrite Hs. cbn [bind]. rewrite Hc. cbn [bind]. rewrite (IH (Some c) Hnd' Hk Hl). reflexivity.
Qed.

(* ---------------------------------------------------------------- the sorted children *)
Definition ckeyf (n : fnode) : str := Validate.canon (sorted_n n).

Definition tag_pairs (ch : list fnode) : list (str * fnode) :=
  flat_map (fun c => match c with FTag t => [(tstr t, FTag t)] | FGroup _ => [] end) ch.
Definition grp_pairs (ch : list fnode) : list (str * fnode) :=
  flat_map (fun c => match c with FGroup _ => [(node_str c, sorted_n c)] | FTag _ => [] end) ch.
Definition sorted_children (ch : list fnode) : list fnode :=
  resort (map snd (sort_key (tag_pairs ch))) ++ resort (map snd (sort_key (grp_pairs ch))).

Lemma sorted_n_group ch : sorted_n (FGroup ch) = FGroup (sorted_children ch).
Proof. reflexivity. Qed.

Lemma resort_perm l : Permutation (resort l) l.
Proof.
  unfold resort. rewrite (Permutation_map snd (sort_key_perm _)). rewrite map_map. simpl. rewrite map_id. reflexivity.
Qed.

Lemma pairs_perm ch : Permutation (map snd (tag_pairs ch) ++ map snd (grp_pairs ch)) (map sorted_n ch).
Proof.
  unfold tag_pairs, grp_pairs. induction ch as [|c ch IH]; [reflexivity|]. destruct c as [t | g]; cbn [flat_map map app].
  - simpl. constructor. exact IH.
  - simpl app. cbn [map snd]. rewrite <- Permutation_middle. constructor. exact IH.
Qed.

Lemma sorted_children_perm ch : Permutation (sorted_children ch) (map sorted_n ch).
Proof.
  unfold sorted_children. rewrite !resort_perm.
  rewrite (Permutation_map snd (sort_key_perm (tag_pairs ch))), (Permutation_map snd (sort_key_perm (grp_pairs ch))).
  apply pairs_perm.
Qed.

(* ---------------------------------------------------------------- SOUNDNESS *)
(* no two siblings with the same canonical text, in every group of the node *)
Definition nodup_groups (gs : list (list fnode)) : Prop :=
  Forall (fun g => NoDup (map ckeyf g)) gs.

Lemma dup_sound : forall n, nodup_groups (groups_n n) -> dup_n (sorted_n n) = Ok [].
Proof.
  apply (fnode_ind2 (fun n => nodup_groups (groups_n n) -> dup_n (sorted_n n) = Ok [])).
  - reflexivity.
  - intros ch IH H. rewrite sorted_n_group, dup_n_group. unfold nodup_groups in H. cbn [groups_n] in H.
    inversion H as [|g gs Hch Hsub]; subst.
    apply dup_list_silent; [|exact I|].
    + apply (Permutation_NoDup (l := map ckeyf ch)); [|exact Hch].
      symmetry. rewrite (Permutation_map Validate.canon (sorted_children_perm ch)). rewrite map_map. reflexivity.
    + apply Forall_forall. intros c Hc.
      apply (Permutation_in _ (sorted_children_perm ch)) in Hc. apply in_map_iff in Hc as (x & <- & Hx).
      rewrite Forall_forall in IH. apply (IH x Hx). unfold nodup_groups. rewrite Forall_forall in *.
      intros g Hg. apply Hsub. apply in_flat_map. exists x. split; assumption.
Qed.

Theorem check_duplicates_sound f :
  nodup_groups (f :: sub_groups f) -> check_duplicates f = Ok [].
Proof. intros H. unfold check_duplicates. apply (dup_sound (FGroup f)). exact H. Qed.

(* ---------------------------------------------------------------- COMPLETENESS *)
Definition Rk (a b : fnode) : Prop := str_leb (Validate.canon a) (Validate.canon b) = true.

Lemma sorted_map_snd (L : list (str * fnode)) :
  StronglySorted (fun p q => str_leb (fst p) (fst q) = true) L ->
  Forall (fun p => fst p = Validate.canon (snd p)) L -> StronglySorted Rk (map snd L).
Proof.
  induction 1 as [|p L Hs IH Hall]; intros HF; [constructor|].
  inversion HF as [|p' L' Hp HL]; subst. cbn [map]. constructor; [apply IH; exact HL|].
  apply Forall_forall. intros y Hy. apply in_map_iff in Hy as (q & <- & Hq).
  rewrite Forall_forall in Hall, HL. unfold Rk. rewrite <- Hp, <- (HL q Hq). apply Hall. exact Hq.
Qed.

Lemma resort_sorted l : StronglySorted Rk (resort l).
Proof.
  unfold resort. apply sorted_map_snd.
  - rewrite sort_key_eq. apply sort_k_sorted.
  - apply Forall_forall. intros p Hp. apply (Permutation_in _ (sort_key_perm _)) in Hp.
    apply in_map_iff in Hp as (n & <- & _). reflexivity.
Qed.

Definition haskey (k : str) (n : fnode) : bool := str_eqb (Validate.canon n) k.

Lemma sorted_adjacent k S :
  StronglySorted Rk S -> 2 <= length (filter (haskey k) S) ->
  exists y1 p c y2, S = y1 ++ p :: c :: y2 /\ Validate.canon p = k /\ Validate.canon c = k.
Proof.
  induction 1 as [|x S Hs IH Hall]; intros Hlen; [simpl in Hlen; lia|].
  cbn [filter] in Hlen. destruct (haskey k x) eqn:Hx.
  - cbn [length] in Hlen. unfold haskey in Hx. apply str_eqb_spec in Hx.
    destruct (filter (haskey k) S) as [|z zs] eqn:Ef; [simpl in Hlen; lia|].
    assert (Hz : In z (filter (haskey k) S)) by (rewrite Ef; left; reflexivity).
    apply filter_In in Hz as [HzS Hzk]. unfold haskey in Hzk. apply str_eqb_spec in Hzk.
    destruct S as [|y S']; [contradiction|].
    exists [], x, y, S'. split; [reflexivity|]. split; [exact Hx|].
    rewrite Forall_forall in Hall. assert (H1 : Rk x y) by (apply Hall; left; reflexivity).
    assert (H2 : str_leb (Validate.canon y) k = true).
    { destruct HzS as [-> | HzS]; [rewrite Hzk; apply str_leb_refl|].
      inversion Hs as [|y' S'' _ Hall']; subst. rewrite Forall_forall in Hall'. rewrite <- Hzk. apply Hall'. exact HzS. }
    unfold Rk in H1. rewrite Hx in H1. apply str_leb_antisym; assumption.
  - destruct (IH Hlen) as (y1 & p & c & y2 & -> & Hp & Hc). exists (x :: y1), p, c, y2. repeat split; assumption.
Qed.

Lemma dup_list_child_ok l : forall prev r c,
  dup_list prev l = Ok r -> In c l -> exists rc, dup_n c = Ok rc /\ incl rc r.
Proof.
  induction l as [|x l IH]; intros prev r c Hr Hc; [contradiction|].
  cbn [dup_list] in Hr. destruct (dup_here prev x) as [h1|e]; [|discriminate]. cbn [bind] in Hr.
  destruct (dup_n x) as [i1|e] eqn:Ex; [|discriminate]. cbn [bind] in Hr.
  destruct (dup_list (Some x) l) as [r1|e] eqn:E; [|discriminate]. cbn [bind] in Hr. inversion Hr; subst.
  destruct Hc as [-> | Hc].
  - exists i1. split; [exact Ex | apply incl_appr, incl_appl, incl_refl].
  - destruct (IH _ _ _ E Hc) as (rc & Hrc & Hincl). exists rc. split; [exact Hrc | apply incl_appr, incl_appr; exact Hincl].
Qed.

(* a sorted stretch of the children that holds two members with the same key yields a report *)
Lemma hit_in pre X post k r :
  StronglySorted Rk X -> 2 <= length (filter (haskey k) X) -> Forall wfn X ->
  dup_list None (pre ++ X ++ post) = Ok r -> exists i, is_repeat i /\ In i r.
Proof.
  intros Hs Hlen Hwf Hr. destruct (sorted_adjacent k X Hs Hlen) as (y1 & p & c & y2 & -> & Hp & Hc).
  rewrite Forall_forall in Hwf.
  assert (Heq : node_eqb c p = true).
  { apply canon_inj; [apply Hwf | apply Hwf | congruence]; apply in_or_app; right; [right; left | left]; reflexivity. }
  replace (pre ++ (y1 ++ p :: c :: y2) ++ post) with ((pre ++ y1) ++ p :: c :: (y2 ++ post)) in Hr
    by (rewrite <- !app_assoc; reflexivity).
  eapply dup_list_hit; eassumption.
Qed.

Definition names_ok (ts : list tagfacts) : Prop := Forall (fun t => wf_name (tf_short_fold t) = true) ts.

Lemma wfn_sorted : forall n, names_ok (all_tags_n n) -> wfn (sorted_n n).
Proof.
  apply (fnode_ind2 (fun n => names_ok (all_tags_n n) -> wfn (sorted_n n))).
  - intros t H. inversion H; subst. exact H2.
  - intros ch IH H. rewrite sorted_n_group. unfold wfn. cbn [to_c wfc]. apply forallb_forall. intros c Hc.
    apply in_map_iff in Hc as (y & <- & Hy). apply (Permutation_in _ (sorted_children_perm ch)) in Hy.
    apply in_map_iff in Hy as (x & <- & Hx). rewrite Forall_forall in IH. apply (IH x Hx).
    unfold names_ok in *. rewrite Forall_forall in *. intros t Ht. apply H. simpl. apply in_flat_map. exists x. split; assumption.
Qed.

Lemma wf_name_head k : wf_name k = true -> exists c r, k = c :: r /\ N.eqb c ch_open = false.
Proof.
  unfold wf_name. destruct k as [|c r]; [discriminate|]. simpl. intros H. apply andb_true_iff in H as [H _].
  exists c, r. split; [reflexivity|]. unfold is_delim in H. apply negb_true_iff in H.
  apply orb_false_iff in H as [H _]. apply orb_false_iff in H as [_ H]. exact H.
Qed.

Lemma tag_group_keys_differ t l : wf_name (tf_short_fold t) = true ->
  Validate.canon (FTag t) <> Validate.canon (FGroup l).
Proof.
  intros H E. destruct (wf_name_head _ H) as (c & r & Hk & Hc). cbn [Validate.canon] in E. rewrite Hk in E.
  simpl in E. inversion E; subst. rewrite N.eqb_refl in Hc. discriminate.
Qed.

Lemma tag_pairs_app a b : tag_pairs (a ++ b) = tag_pairs a ++ tag_pairs b.
Proof. unfold tag_pairs. apply flat_map_app. Qed.
Lemma grp_pairs_app a b : grp_pairs (a ++ b) = grp_pairs a ++ grp_pairs b.
Proof. unfold grp_pairs. apply flat_map_app. Qed.

Lemma filter_len_perm {A} (f : A -> bool) l l' : Permutation l l' -> length (filter f l) = length (filter f l').
Proof. intros H. apply Permutation_length. apply perm_filter. exact H. Qed.

(* in ONE group: two members with the same canonical text are reported *)
Lemma dup_complete_local l1 a l2 b l3 r :
  let g := l1 ++ a :: l2 ++ b :: l3 in
  ckeyf a = ckeyf b -> names_ok (all_tags g) ->
  dup_n (sorted_n (FGroup g)) = Ok r -> exists i, is_repeat i /\ In i r.
Proof.
  intros g Hk Hn Hr. rewrite sorted_n_group, dup_n_group in Hr. unfold sorted_children in Hr.
  assert (Hwf : forall x, In x g -> wfn (sorted_n x)).
  { intros x Hx. apply wfn_sorted. unfold names_ok in *. rewrite Forall_forall in *. intros t Ht. apply Hn.
    unfold all_tags. apply in_flat_map. exists x. split; assumption. }
  assert (Ha : In a g) by (unfold g; apply in_or_app; right; left; reflexivity).
  assert (Hb : In b g) by (unfold g; apply in_or_app; right; right; apply in_or_app; right; left; reflexivity).
  assert (Hna : names_ok (all_tags_n a)).
  { unfold names_ok in *. rewrite Forall_forall in *. intros t Ht. apply Hn. unfold all_tags. apply in_flat_map. exists a. split; assumption. }
  assert (Hnb : names_ok (all_tags_n b)).
  { unfold names_ok in *. rewrite Forall_forall in *. intros t Ht. apply Hn. unfold all_tags. apply in_flat_map. exists b. split; assumption. }
  set (k := ckeyf a).
  assert (WT : Forall wfn (resort (map snd (sort_key (tag_pairs g))))).
  { apply Forall_forall. intros x Hx. apply (Permutation_in _ (resort_perm _)) in Hx.
    apply (Permutation_in _ (Permutation_map snd (sort_key_perm _))) in Hx.
    assert (Hy : In x (map sorted_n g)).
    { apply (Permutation_in _ (pairs_perm g)). apply in_or_app. left. exact Hx. }
    apply in_map_iff in Hy as (y & <- & Hy). apply Hwf. exact Hy. }
  assert (WG : Forall wfn (resort (map snd (sort_key (grp_pairs g))))).
  { apply Forall_forall. intros x Hx. apply (Permutation_in _ (resort_perm _)) in Hx.
    apply (Permutation_in _ (Permutation_map snd (sort_key_perm _))) in Hx.
    assert (Hy : In x (map sorted_n g)).
    { apply (Permutation_in _ (pairs_perm g)). apply in_or_app. right. exact Hx. }
    apply in_map_iff in Hy as (y & <- & Hy). apply Hwf. exact Hy. }
  destruct a as [ta | ga]; destruct b as [tb | gb].
  - (* two tags *)
    apply (hit_in [] (resort (map snd (sort_key (tag_pairs g)))) (resort (map snd (sort_key (grp_pairs g)))) k r (resort_sorted _)); [|exact WT | exact Hr].
    rewrite (filter_len_perm _ _ _ (resort_perm _)).
    rewrite (filter_len_perm _ _ _ (Permutation_map snd (sort_key_perm _))).
    unfold g. rewrite tag_pairs_app. cbn [tag_pairs flat_map]. fold (tag_pairs (l2 ++ FTag tb :: l3)).
    rewrite tag_pairs_app. cbn [tag_pairs flat_map]. fold (tag_pairs l3).
    rewrite !map_app. cbn [map snd app]. rewrite !filter_app. cbn [filter].
    assert (E1 : haskey k (FTag ta) = true) by (unfold haskey, k, ckeyf; apply str_eqb_spec; reflexivity).
    assert (E2 : haskey k (FTag tb) = true) by (unfold haskey, k; rewrite Hk; apply str_eqb_spec; reflexivity).
    rewrite E1. cbn [app]. rewrite filter_app. cbn [filter]. rewrite E2. rewrite !app_length. cbn [length]. rewrite app_length. cbn [length]. lia.
  - exfalso. inversion Hna as [|t0 ts Hta _]; subst. unfold ckeyf in Hk. rewrite sorted_n_group in Hk.
    apply (tag_group_keys_differ ta (sorted_children gb) Hta). exact Hk.
  - exfalso. inversion Hnb as [|t0 ts Htb _]; subst. unfold ckeyf in Hk. rewrite sorted_n_group in Hk.
    apply (tag_group_keys_differ tb (sorted_children ga) Htb). symmetry. exact Hk.
  - (* two groups *)
    rewrite <- (app_nil_r (resort (map snd (sort_key (grp_pairs g))))) in Hr.
    apply (hit_in (resort (map snd (sort_key (tag_pairs g)))) (resort (map snd (sort_key (grp_pairs g)))) [] k r (resort_sorted _)); [|exact WG | exact Hr].
    rewrite (filter_len_perm _ _ _ (resort_perm _)).
    rewrite (filter_len_perm _ _ _ (Permutation_map snd (sort_key_perm _))).
    unfold g. rewrite grp_pairs_app. cbn [grp_pairs flat_map]. fold (grp_pairs (l2 ++ FGroup gb :: l3)).
    rewrite grp_pairs_app. cbn [grp_pairs flat_map]. fold (grp_pairs l3).
    rewrite !map_app. cbn [map snd app]. rewrite !filter_app. cbn [filter].
    assert (E1 : haskey k (sorted_n (FGroup ga)) = true) by (unfold haskey, k, ckeyf; apply str_eqb_spec; reflexivity).
    assert (E2 : haskey k (sorted_n (FGroup gb)) = true) by (unfold haskey, k; rewrite Hk; apply str_eqb_spec; reflexivity).
    rewrite E1. cbn [app]. rewrite filter_app. cbn [filter]. rewrite E2. rewrite !app_length. cbn [length]. rewrite app_length. cbn [length]. lia.
Qed.

(* reports of a nested group are part of the reports of the whole *)
Lemma dup_lift : forall n g, In g (groups_n n) -> forall r, dup_n (sorted_n n) = Ok r ->
  exists rg, dup_n (sorted_n (FGroup g)) = Ok rg /\ incl rg r.
Proof.
  apply (fnode_ind2 (fun n => forall g, In g (groups_n n) -> forall r, dup_n (sorted_n n) = Ok r ->
           exists rg, dup_n (sorted_n (FGroup g)) = Ok rg /\ incl rg r)).
  - intros t g [].
  - intros ch IH g Hg r Hr. cbn [groups_n] in Hg. destruct Hg as [<- | Hg].
    + exists r. split; [exact Hr | apply incl_refl].
    + apply in_flat_map in Hg as (x & Hx & Hg). rewrite sorted_n_group, dup_n_group in Hr.
      assert (Hin : In (sorted_n x) (sorted_children ch)).
      { apply (Permutation_in _ (Permutation_sym (sorted_children_perm ch))). apply in_map. exact Hx. }
      destruct (dup_list_child_ok _ _ _ _ Hr Hin) as (rx & Hrx & Hincl).
      rewrite Forall_forall in IH. destruct (IH x Hx g Hg rx Hrx) as (rg & Hrg & Hincl2).
      exists rg. split; [exact Hrg | eapply incl_tran; eassumption].
Qed.

(* COMPLETENESS at any depth: in any group of the annotation (the annotation itself included) two members
   with the same canonical text make the duplicate check report a repeated tag / group *)
Theorem check_duplicates_complete f g l1 a l2 b l3 r :
  In g (f :: sub_groups f) -> g = l1 ++ a :: l2 ++ b :: l3 -> ckeyf a = ckeyf b ->
  names_ok (all_tags f) -> check_duplicates f = Ok r -> exists i, is_repeat i /\ In i r.
Proof.
  intros Hg Eg Hk Hn Hr. subst g. unfold check_duplicates in Hr.
  destruct (dup_lift (FGroup f) _ Hg r Hr) as (rg & Hrg & Hincl).
  destruct (dup_complete_local l1 a l2 b l3 rg Hk) as (i & Hi & Hin); [|exact Hrg|].
  - unfold names_ok in *. rewrite Forall_forall in *. intros t Ht. apply Hn.
    destruct Hg as [E | Hg]; [rewrite E; exact Ht | eapply sub_groups_tags; eassumption].
  - exists i. split; [exact Hi | apply Hincl; exact Hin].
Qed.
