(* Proofs about Model/QueryParse.v (property C15): the parser is total; it
   raises nothing but ValueError (genuine rejection) or, when the available
   nesting depth is exhausted, RecursionError -- which enough depth excludes and
   which QueryHandler.__init__ (fix commit 0643166) turns into ValueError. *)
From Coq Require Import List NArith Arith Bool Lia.
From HV Require Import Base.Res Base.Str Model.Query Model.QueryParse.
Import ListNotations.

(* a parser result for input ts: a genuine rejection, (if [allow]) an exhausted
   depth, or success having consumed at least one token *)
Definition goodx (allow : bool) (ts : list token) (x : res (expr * list token)) : Prop :=
  x = Exn ValueError \/ (allow = true /\ x = Exn RecursionError) \/
  exists e r, x = Ok (e, r) /\ length r < length ts.

Definition good := goodx false.

Definition good_upto (allow : bool) (n : nat) (p : parser) : Prop :=
  forall ts, length ts < n -> goodx allow ts (p ts).

Lemma next_is_shorter k ts t r : next_is k ts = Some (t, r) -> length ts = S (length r).
Proof.
  destruct ts as [|t0 r0]; simpl; [discriminate|].
  destruct (kind_eqb (tk_kind t0) k); [|discriminate].
  intro H; inversion H; subst; reflexivity.
Qed.

Ltac stop_v := left; reflexivity.
Ltac stop_r H := right; left; split; [exact H | reflexivity].
Ltac take_ok := right; right; eexists; eexists; split; [reflexivity | simpl; lia].

Lemma p_grouping_good fx allow n rec ts :
  good_upto allow n rec -> length ts <= n -> goodx allow ts (p_grouping fx rec ts).
Proof.
  intros Hrec Hlen. destruct ts as [|t r]; [stop_v|].
  simpl in Hlen.
  assert (Hr : goodx allow r (rec r)) by (apply Hrec; lia).
  unfold p_grouping.
  destruct (tk_kind t) eqn:Hk;
    try (destruct (fx && negb (is_operand t)); [stop_v|]);
    try take_ok.
  - (* KDesc *)
    destruct Hr as [Hr | [[Ha Hr] | (e & r1 & Hr & Hl)]]; rewrite Hr; simpl; [stop_v | stop_r Ha |].
    destruct (next_is KDescEnd r1) as [[t1 r2]|] eqn:Hn; [|stop_v].
    apply next_is_shorter in Hn. take_ok.
  - (* KLG *)
    destruct Hr as [Hr | [[Ha Hr] | (e & r1 & Hr & Hl)]]; rewrite Hr; simpl; [stop_v | stop_r Ha |].
    destruct (next_is KLGEnd r1) as [[t1 r2]|] eqn:Hn; [|stop_v].
    apply next_is_shorter in Hn. take_ok.
  - (* KExact *)
    destruct Hr as [Hr | [[Ha Hr] | (e & r1 & Hr & Hl)]]; rewrite Hr; simpl; [stop_v | stop_r Ha |].
    destruct (next_is KExactEnd r1) as [[t1 r2]|] eqn:Hn.
    { apply next_is_shorter in Hn. take_ok. }
    destruct (next_is KExactOpt r1) as [[t1 r2]|] eqn:Hn2; [|stop_v].
    apply next_is_shorter in Hn2.
    destruct (next_is KExactEnd r2) as [[t2 r3]|] eqn:Hn3.
    { apply next_is_shorter in Hn3.
      match goal with |- goodx _ _ (if ?c then _ else _) => destruct c end; [stop_v|]. take_ok. }
    assert (Hr2 : goodx allow r2 (rec r2)) by (apply Hrec; lia).
    destruct Hr2 as [Hr2 | [[Ha Hr2] | (o & r3 & Hr2 & Hl2)]]; rewrite Hr2; simpl; [stop_v | stop_r Ha |].
    match goal with |- goodx _ _ (if ?c then _ else _) => destruct c end; [stop_v|].
    destruct (next_is KExactEnd r3) as [[t4 r4]|] eqn:Hn4; [|stop_v].
    apply next_is_shorter in Hn4. take_ok.
Qed.

Lemma p_neg_good fx allow n rec ts :
  good_upto allow n rec -> length ts <= n -> goodx allow ts (p_neg fx rec ts).
Proof.
  intros Hrec Hlen. unfold p_neg.
  destruct (next_is KNeg ts) as [[t r]|] eqn:Hn; [|apply p_grouping_good with n; assumption].
  apply next_is_shorter in Hn.
  assert (Hg : goodx allow r (p_grouping fx rec r)) by (apply p_grouping_good with n; [assumption | lia]).
  destruct Hg as [Hg | [[Ha Hg] | (e & r1 & Hg & Hl)]]; rewrite Hg; simpl; [stop_v | stop_r Ha |].
  destruct (expr_has_ch ch_qmark e); [stop_v|]. take_ok.
Qed.

(* the loop never runs out of iterations when p consumes tokens *)
Lemma p_loop_good allow (p : parser) k mk : forall n e ts m,
  (forall ts', length ts' < m -> goodx allow ts' (p ts')) ->
  length ts <= m -> length ts <= n ->
  p_loop p k mk n e ts = Exn ValueError \/ (allow = true /\ p_loop p k mk n e ts = Exn RecursionError) \/
  exists e' r, p_loop p k mk n e ts = Ok (e', r) /\ length r <= length ts.
Proof.
  induction n as [|n IH]; intros e ts m Hp Hm Hn.
  - destruct ts; [|simpl in Hn; lia]. simpl. right; right; eexists; eexists; split; [reflexivity | lia].
  - simpl. destruct (next_is k ts) as [[t r]|] eqn:Hk.
    + apply next_is_shorter in Hk.
      assert (Hg : goodx allow r (p r)) by (apply Hp; lia).
      destruct Hg as [Hg | [[Ha Hg] | (e2 & r2 & Hg & Hl)]]; rewrite Hg; simpl;
        [left; reflexivity | right; left; split; [exact Ha | reflexivity] |].
      destruct (IH (mk (tk_text t) e e2) r2 m Hp) as [H | [[Ha H] | (e' & r' & H & Hl')]]; try lia.
      * left; assumption.
      * right; left; split; assumption.
      * right; right; exists e', r'; split; [assumption | lia].
    + right; right; eexists; eexists; split; [reflexivity | lia].
Qed.

Lemma p_and_good fx allow n rec ts :
  good_upto allow n rec -> length ts <= n -> goodx allow ts (p_and fx rec ts).
Proof.
  intros Hrec Hlen. unfold p_and.
  assert (Hg : goodx allow ts (p_neg fx rec ts)) by (apply p_neg_good with n; assumption).
  destruct Hg as [Hg | [[Ha Hg] | (e & r & Hg & Hl)]]; rewrite Hg; simpl; [stop_v | stop_r Ha |].
  destruct (p_loop_good allow (p_neg fx rec) KAnd EAnd (length r) e r (S n)) as [H | [[Ha H] | (e' & r' & H & Hl')]];
    try lia.
  - intros ts' Hts'. apply p_neg_good with n; [assumption | lia].
  - left; assumption.
  - right; left; split; assumption.
  - right; right; exists e', r'; split; [assumption | lia].
Qed.

Lemma p_or_body_good fx allow n rec ts :
  good_upto allow n rec -> length ts <= n -> goodx allow ts (p_or_body fx rec ts).
Proof.
  intros Hrec Hlen. unfold p_or_body.
  assert (Hg : goodx allow ts (p_and fx rec ts)) by (apply p_and_good with n; assumption).
  destruct Hg as [Hg | [[Ha Hg] | (e & r & Hg & Hl)]]; rewrite Hg; simpl; [stop_v | stop_r Ha |].
  destruct (p_loop_good allow (p_and fx rec) KOr EOr (length r) e r (S n)) as [H | [[Ha H] | (e' & r' & H & Hl')]];
    try lia.
  - intros ts' Hts'. apply p_and_good with n; [assumption | lia].
  - left; assumption.
  - right; left; split; assumption.
  - right; right; exists e', r'; split; [assumption | lia].
Qed.

(* ENOUGH DEPTH NEVER EXHAUSTS: fuel f handles every token list shorter than f
   without RecursionError / Unmodelled (both codes) *)
Lemma p_or_good fx : forall f, good_upto false f (p_or fx f).
Proof.
  induction f as [|f IH]; intros ts Hlen; [simpl in Hlen; lia|].
  simpl. apply (p_or_body_good fx false f); [exact IH | simpl in Hlen; lia].
Qed.

(* current code, any depth: a genuine rejection, an exhausted depth, or a tree *)
Lemma p_or_any : forall f n, good_upto true n (p_or true f).
Proof.
  induction f as [|f IH]; intros n ts Hlen; [right; left; split; reflexivity|].
  simpl. apply (p_or_body_good true true (length ts)); [apply IH | lia].
Qed.

Definition fuel_of (fx : bool) (limit : nat) (ts : list token) : nat :=
  if fx then Nat.min (S (length ts)) limit else S (length ts).

(* _parse before the except clause: three outcomes, RecursionError only on the current code *)
Lemma parse_raw_total fx limit ts :
  (exists e, parse_raw fx limit ts = Ok e) \/ parse_raw fx limit ts = Exn ValueError \/
  (fx = true /\ parse_raw fx limit ts = Exn RecursionError).
Proof.
  unfold parse_raw. fold (fuel_of fx limit ts).
  assert (Hg : goodx fx ts (p_or fx (fuel_of fx limit ts) ts)).
  { destruct fx; [apply (p_or_any _ (S (length ts))); lia|].
    apply (p_or_good false (S (length ts))). lia. }
  destruct Hg as [H | [[Ha H] | (e & r & H & Hl)]]; rewrite H; simpl.
  - right; left; reflexivity.
  - right; right; split; [exact Ha | reflexivity].
  - destruct r; [left; eexists; reflexivity | right; left; reflexivity].
Qed.

(* enough depth (one level per token suffices): no RecursionError *)
Lemma parse_raw_enough fx limit ts :
  S (length ts) <= limit -> parse_raw fx limit ts <> Exn RecursionError.
Proof.
  intro Hl. unfold parse_raw.
  assert (Hf : (if fx then Nat.min (S (length ts)) limit else S (length ts)) = S (length ts))
    by (destruct fx; [apply Nat.min_l; exact Hl | reflexivity]).
  rewrite Hf.
  destruct (p_or_good fx (S (length ts)) ts) as [H | [[Ha _] | (e & r & H & _)]]; [lia | | discriminate |];
    rewrite H; simpl; [discriminate|]. destruct r; discriminate.
Qed.

(* QueryHandler(q) on any token list: a tree or ValueError, never anything else *)
Lemma parse_tokens_total fx limit (ts : list token) :
  (exists e, parse_tokens fx limit ts = Ok e) \/ parse_tokens fx limit ts = Exn ValueError.
Proof.
  unfold parse_tokens.
  destruct (parse_raw_total fx limit ts) as [(e & H) | [H | [Hfx H]]]; rewrite H.
  - left; eexists; reflexivity.
  - right; reflexivity.
  - subst fx. right; reflexivity.
Qed.

Lemma compile_total fx limit (q : str) :
  (exists e, compile fx limit q = Ok e) \/ compile fx limit q = Exn ValueError.
Proof. unfold compile. apply parse_tokens_total. Qed.

Lemma compile_raw_total fx limit q :
  (exists e, compile_raw fx limit q = Ok e) \/ compile_raw fx limit q = Exn ValueError \/
  (fx = true /\ compile_raw fx limit q = Exn RecursionError).
Proof. unfold compile_raw. apply parse_raw_total. Qed.

(* a limit of one level per token is always enough: the outcome is then a tree
   or a GENUINE rejection *)
Lemma compile_raw_enough fx limit q :
  S (length (tokenize (fold q))) <= limit -> compile_raw fx limit q <> Exn RecursionError.
Proof. unfold compile_raw. apply parse_raw_enough. Qed.

(* compile = compile_raw except that an exhausted depth is reported as ValueError *)
Lemma compile_of_raw fx limit q :
  compile_raw fx limit q <> Exn RecursionError -> compile fx limit q = compile_raw fx limit q.
Proof.
  unfold compile, compile_raw, parse_tokens. intro H.
  destruct (parse_raw fx limit (tokenize (fold q))) as [e|[]]; try reflexivity. congruence.
Qed.

(* search: a verdict or ValueError *)
Lemma search_total fx limit (q : str) (root : node) :
  (exists b, search fx limit q root = Ok b) \/ search fx limit q root = Exn ValueError.
Proof.
  unfold search. destruct (compile_total fx limit q) as [(e & H) | H]; rewrite H; simpl.
  - left; eexists; reflexivity.
  - right; reflexivity.
Qed.

(* ---------------------------------------------------------------- more depth never changes an answer *)

(* [rec'] answers like [rec] wherever [rec] did not run out of depth *)
Definition extends (rec rec' : parser) : Prop :=
  forall ts, rec ts <> Exn RecursionError -> rec' ts = rec ts.

Lemma bind_not_rec {A B} (x : res A) (k : A -> res B) :
  (let* a := x in k a) <> Exn RecursionError -> x <> Exn RecursionError.
Proof. destruct x as [a|e]; simpl; [discriminate|]. intros H He. apply H. inversion He; subst. reflexivity. Qed.

Lemma p_grouping_ext fx rec rec' : extends rec rec' -> extends (p_grouping fx rec) (p_grouping fx rec').
Proof.
  intros Hx ts Hn. destruct ts as [|t r]; [reflexivity|].
  unfold p_grouping in *.
  destruct (tk_kind t); try reflexivity.
  - pose proof (bind_not_rec _ _ Hn) as H1. rewrite (Hx r H1). reflexivity.
  - pose proof (bind_not_rec _ _ Hn) as H1. rewrite (Hx r H1). reflexivity.
  - pose proof (bind_not_rec _ _ Hn) as H1. rewrite (Hx r H1).
    destruct (rec r) as [[e r1]|]; [|reflexivity]. simpl in *.
    destruct (next_is KExactEnd r1) as [[t1 r2]|]; [reflexivity|].
    destruct (next_is KExactOpt r1) as [[t1 r2]|]; [|reflexivity].
    destruct (next_is KExactEnd r2) as [[t2 r3]|]; [reflexivity|].
    pose proof (bind_not_rec _ _ Hn) as H2. rewrite (Hx r2 H2). reflexivity.
Qed.

Lemma p_neg_ext fx rec rec' : extends rec rec' -> extends (p_neg fx rec) (p_neg fx rec').
Proof.
  intros Hx ts Hn. unfold p_neg in *.
  destruct (next_is KNeg ts) as [[t r]|]; [|apply p_grouping_ext; assumption].
  pose proof (bind_not_rec _ _ Hn) as H1. rewrite (p_grouping_ext fx rec rec' Hx r H1). reflexivity.
Qed.

Lemma p_loop_ext (p p' : parser) k mk : extends p p' ->
  forall n e ts, p_loop p k mk n e ts <> Exn RecursionError -> p_loop p' k mk n e ts = p_loop p k mk n e ts.
Proof.
  intros Hx. induction n as [|n IH]; intros e ts Hn; simpl in *.
  - reflexivity.
  - destruct (next_is k ts) as [[t r]|]; [|reflexivity].
    pose proof (bind_not_rec _ _ Hn) as H1. rewrite (Hx r H1).
    destruct (p r) as [[e2 r2]|]; [|reflexivity]. simpl in *. apply IH. exact Hn.
Qed.

Lemma p_and_ext fx rec rec' : extends rec rec' -> extends (p_and fx rec) (p_and fx rec').
Proof.
  intros Hx ts Hn. unfold p_and in *.
  pose proof (bind_not_rec _ _ Hn) as H1. rewrite (p_neg_ext fx rec rec' Hx ts H1).
  destruct (p_neg fx rec ts) as [[e r]|]; [|reflexivity]. simpl in *.
  apply p_loop_ext; [apply p_neg_ext; exact Hx | exact Hn].
Qed.

Lemma p_or_body_ext fx rec rec' : extends rec rec' -> extends (p_or_body fx rec) (p_or_body fx rec').
Proof.
  intros Hx ts Hn. unfold p_or_body in *.
  pose proof (bind_not_rec _ _ Hn) as H1. rewrite (p_and_ext fx rec rec' Hx ts H1).
  destruct (p_and fx rec ts) as [[e r]|]; [|reflexivity]. simpl in *.
  apply p_loop_ext; [apply p_and_ext; exact Hx | exact Hn].
Qed.

Lemma p_or_step : forall f, extends (p_or true f) (p_or true (S f)).
Proof.
  induction f as [|f IH]; intros ts Hn; [simpl in Hn; congruence|].
  change (p_or true (S (S f)) ts) with (p_or_body true (p_or true (S f)) ts).
  change (p_or true (S f) ts) with (p_or_body true (p_or true f) ts) in *.
  apply p_or_body_ext; assumption.
Qed.

Lemma p_or_mono f f' : f <= f' -> extends (p_or true f) (p_or true f').
Proof.
  induction 1 as [|f' Hle IH]; intros ts Hn; [reflexivity|].
  rewrite <- (IH ts Hn). apply p_or_step. rewrite (IH ts Hn). exact Hn.
Qed.

(* MORE DEPTH NEVER CHANGES AN ANSWER: an outcome that is not "depth exhausted"
   (a tree or a genuine ValueError) is the outcome at every larger depth *)
Lemma compile_raw_mono limit limit' q :
  limit <= limit' -> compile_raw true limit q <> Exn RecursionError ->
  compile_raw true limit' q = compile_raw true limit q.
Proof.
  unfold compile_raw, parse_raw. intros Hle Hn.
  set (ts := tokenize (fold q)) in *.
  assert (Hm : Nat.min (S (length ts)) limit <= Nat.min (S (length ts)) limit') by lia.
  pose proof (bind_not_rec _ _ Hn) as H1.
  rewrite (p_or_mono _ _ Hm ts H1). reflexivity.
Qed.

(* all sufficient depths agree (also after the except clause) *)
Lemma compile_depth_independent limit limit' q :
  S (length (tokenize (fold q))) <= limit -> S (length (tokenize (fold q))) <= limit' ->
  compile true limit q = compile true limit' q.
Proof.
  intros H1 H2.
  pose proof (compile_raw_enough true limit q H1) as N1.
  pose proof (compile_raw_enough true limit' q H2) as N2.
  rewrite (compile_of_raw _ _ _ N1), (compile_of_raw _ _ _ N2).
  unfold compile_raw, parse_raw. rewrite !Nat.min_l by assumption. reflexivity.
Qed.

(* ---------------------------------------------------------------- unbalanced grouping symbols *)

(* RECORD OF THE REPAIRED DEFECT (fx = false: behaviour before fix commit 1bd4096):
     forall q, balanced_groupers q = false -> compile q = Exn ValueError
   was false: a closing symbol in operand position became a search term. *)
Lemma unbalanced_rejected_refuted :
  exists q, balanced_groupers q = false /\ exists e, compile false 0 q = Ok e.
Proof. exists [ch_close]. split; [reflexivity | eexists; reflexivity]. Qed.

(* a lone opening symbol, a missing closer and a closer after a complete
   query are rejected (regression examples, kernel-evaluated) *)
Definition unbalanced_examples : list str :=
  [ [ch_close]; [ch_rbrack]; [ch_rbrace]; [ch_lbrack; ch_lbrack]; [97%N; ch_amp; ch_amp; ch_close];
    [ch_open]; [ch_lbrack]; [ch_lbrace];
    [ch_open; 97%N]; [97%N; ch_close]; [ch_open; ch_open; 97%N; ch_close];
    [ch_open; 97%N; ch_close; ch_close]; [ch_lbrace; 97%N; ch_rbrack]; [ch_lbrack; 97%N; ch_rbrace];
    [ch_lbrace; 97%N; ch_colon; 98%N]; [ch_open; ch_lbrace; ch_close] ].

Lemma unbalanced_examples_rejected :
  forallb (fun q => negb (balanced_groupers q) &&
                    match compile true 100 q with Exn ValueError => true | _ => false end) unbalanced_examples = true.
Proof. vm_compute. reflexivity. Qed.
