(* Proofs about Model/QueryParse.v (property C15): the parser is total and
   raises nothing but ValueError; unbalanced closing symbols are accepted. *)
From Coq Require Import List NArith Arith Bool Lia.
From HV Require Import Base.Res Base.Str Model.Query Model.QueryParse.
Import ListNotations.

(* a parser result is "good" for input ts: ValueError, or success having
   consumed at least one token *)
Definition good (ts : list token) (x : res (expr * list token)) : Prop :=
  x = Exn ValueError \/ exists e r, x = Ok (e, r) /\ length r < length ts.

Definition good_upto (n : nat) (p : parser) : Prop :=
  forall ts, length ts < n -> good ts (p ts).

Lemma next_is_shorter k ts t r : next_is k ts = Some (t, r) -> length ts = S (length r).
Proof.
  destruct ts as [|t0 r0]; simpl; [discriminate|].
  destruct (kind_eqb (tk_kind t0) k); [|discriminate].
  intro H; inversion H; subst; reflexivity.
Qed.

Lemma p_grouping_good fx n rec ts :
  good_upto n rec -> length ts <= n -> good ts (p_grouping fx rec ts).
Proof.
  intros Hrec Hlen. destruct ts as [|t r]; [left; reflexivity|].
  simpl in Hlen.
  assert (Hr : good r (rec r)) by (apply Hrec; lia).
  unfold p_grouping.
  destruct (tk_kind t) eqn:Hk;
    try (destruct (fx && negb (is_operand t)); [left; reflexivity|]);
    try (right; eexists; eexists; split; [reflexivity | simpl; lia]).
  - (* KDesc *)
    destruct Hr as [Hr | (e & r1 & Hr & Hl)]; rewrite Hr; simpl; [left; reflexivity|].
    destruct (next_is KDescEnd r1) as [[t1 r2]|] eqn:Hn; [|left; reflexivity].
    apply next_is_shorter in Hn. right; eexists; eexists; split; [reflexivity | simpl; lia].
  - (* KLG *)
    destruct Hr as [Hr | (e & r1 & Hr & Hl)]; rewrite Hr; simpl; [left; reflexivity|].
    destruct (next_is KLGEnd r1) as [[t1 r2]|] eqn:Hn; [|left; reflexivity].
    apply next_is_shorter in Hn. right; eexists; eexists; split; [reflexivity | simpl; lia].
  - (* KExact *)
    destruct Hr as [Hr | (e & r1 & Hr & Hl)]; rewrite Hr; simpl; [left; reflexivity|].
    destruct (next_is KExactEnd r1) as [[t1 r2]|] eqn:Hn.
    { apply next_is_shorter in Hn. right; eexists; eexists; split; [reflexivity | simpl; lia]. }
    destruct (next_is KExactOpt r1) as [[t1 r2]|] eqn:Hn2; [|left; reflexivity].
    apply next_is_shorter in Hn2.
    destruct (next_is KExactEnd r2) as [[t2 r3]|] eqn:Hn3.
    { apply next_is_shorter in Hn3.
      match goal with |- good _ (if ?c then _ else _) => destruct c end; [left; reflexivity|].
      right; eexists; eexists; split; [reflexivity | simpl; lia]. }
    assert (Hr2 : good r2 (rec r2)) by (apply Hrec; lia).
    destruct Hr2 as [Hr2 | (o & r3 & Hr2 & Hl2)]; rewrite Hr2; simpl; [left; reflexivity|].
    match goal with |- good _ (if ?c then _ else _) => destruct c end; [left; reflexivity|].
    destruct (next_is KExactEnd r3) as [[t4 r4]|] eqn:Hn4; [|left; reflexivity].
    apply next_is_shorter in Hn4. right; eexists; eexists; split; [reflexivity | simpl; lia].
Qed.

Lemma p_neg_good fx n rec ts :
  good_upto n rec -> length ts <= n -> good ts (p_neg fx rec ts).
Proof.
  intros Hrec Hlen. unfold p_neg.
  destruct (next_is KNeg ts) as [[t r]|] eqn:Hn; [|apply p_grouping_good with n; assumption].
  apply next_is_shorter in Hn.
  assert (Hg : good r (p_grouping fx rec r)) by (apply p_grouping_good with n; [assumption | lia]).
  destruct Hg as [Hg | (e & r1 & Hg & Hl)]; rewrite Hg; simpl; [left; reflexivity|].
  destruct (expr_has_ch ch_qmark e); [left; reflexivity|].
  right; eexists; eexists; split; [reflexivity | lia].
Qed.

(* the loop never runs out of iterations when p consumes tokens *)
Lemma p_loop_good (p : parser) k mk : forall n e ts m,
  (forall ts', length ts' < m -> good ts' (p ts')) ->
  length ts <= m -> length ts <= n ->
  p_loop p k mk n e ts = Exn ValueError \/
  exists e' r, p_loop p k mk n e ts = Ok (e', r) /\ length r <= length ts.
Proof.
  induction n as [|n IH]; intros e ts m Hp Hm Hn.
  - destruct ts; [|simpl in Hn; lia]. simpl. right; eexists; eexists; split; [reflexivity | lia].
  - simpl. destruct (next_is k ts) as [[t r]|] eqn:Hk.
    + apply next_is_shorter in Hk.
      assert (Hg : good r (p r)) by (apply Hp; lia).
      destruct Hg as [Hg | (e2 & r2 & Hg & Hl)]; rewrite Hg; simpl; [left; reflexivity|].
      destruct (IH (mk (tk_text t) e e2) r2 m Hp) as [H | (e' & r' & H & Hl')]; try lia.
      * left; assumption.
      * right; exists e', r'; split; [assumption | lia].
    + right; eexists; eexists; split; [reflexivity | lia].
Qed.

Lemma p_and_good fx n rec ts :
  good_upto n rec -> length ts <= n -> good ts (p_and fx rec ts).
Proof.
  intros Hrec Hlen. unfold p_and.
  assert (Hg : good ts (p_neg fx rec ts)) by (apply p_neg_good with n; assumption).
  destruct Hg as [Hg | (e & r & Hg & Hl)]; rewrite Hg; simpl; [left; reflexivity|].
  destruct (p_loop_good (p_neg fx rec) KAnd EAnd (length r) e r (S n)) as [H | (e' & r' & H & Hl')]; try lia.
  - intros ts' Hts'. apply p_neg_good with n; [assumption | lia].
  - left; assumption.
  - right; exists e', r'; split; [assumption | lia].
Qed.

Lemma p_or_body_good fx n rec ts :
  good_upto n rec -> length ts <= n -> good ts (p_or_body fx rec ts).
Proof.
  intros Hrec Hlen. unfold p_or_body.
  assert (Hg : good ts (p_and fx rec ts)) by (apply p_and_good with n; assumption).
  destruct Hg as [Hg | (e & r & Hg & Hl)]; rewrite Hg; simpl; [left; reflexivity|].
  destruct (p_loop_good (p_and fx rec) KOr EOr (length r) e r (S n)) as [H | (e' & r' & H & Hl')]; try lia.
  - intros ts' Hts'. apply p_and_good with n; [assumption | lia].
  - left; assumption.
  - right; exists e', r'; split; [assumption | lia].
Qed.

(* fuel f handles every token list shorter than f *)
Lemma p_or_good fx : forall f, good_upto f (p_or fx f).
Proof.
  induction f as [|f IH]; intros ts Hlen; [lia|].
  simpl. apply p_or_body_good with f; [assumption | lia].
Qed.

(* repaired code: exhausted depth is a ValueError, so every fuel is good for every input *)
Lemma p_or_good_fixed : forall f n, good_upto n (p_or true f).
Proof.
  induction f as [|f IH]; intros n ts Hlen; [left; reflexivity|].
  simpl. apply p_or_body_good with (length ts); [apply IH | lia].
Qed.

(* _parse on any token list: a tree or ValueError, never anything else.
   fx = false: the fuel (token count + 1) never runs out;
   fx = true : whatever depth [limit] is available *)
Lemma parse_tokens_total fx limit (ts : list token) :
  (exists e, parse_tokens fx limit ts = Ok e) \/ parse_tokens fx limit ts = Exn ValueError.
Proof.
  unfold parse_tokens.
  assert (Hg : good ts (p_or fx (if fx then Nat.min (S (length ts)) limit else S (length ts)) ts)).
  { destruct fx; [apply (p_or_good_fixed _ (S (length ts))); lia | apply p_or_good; lia]. }
  destruct Hg as [H | (e & r & H & Hl)]; rewrite H; simpl.
  - right; reflexivity.
  - destruct r; [left; eexists; reflexivity | right; reflexivity].
Qed.

Lemma compile_total fx limit (q : str) :
  (exists e, compile fx limit q = Ok e) \/ compile fx limit q = Exn ValueError.
Proof. unfold compile. apply parse_tokens_total. Qed.

(* search: a verdict or ValueError *)
Lemma search_total fx limit (q : str) (root : node) :
  (exists b, search fx limit q root = Ok b) \/ search fx limit q root = Exn ValueError.
Proof.
  unfold search. destruct (compile_total fx limit q) as [(e & H) | H]; rewrite H; simpl.
  - left; eexists; reflexivity.
  - right; reflexivity.
Qed.

(* ---------------------------------------------------------------- unbalanced grouping symbols *)

(* RECORD OF THE REPAIRED DEFECT (fx = false, the code before the fix: commit):
     forall q, balanced_groupers q = false -> compile q = Exn ValueError
   was false: a closing symbol in operand position became a search term. *)
Lemma unbalanced_rejected_refuted :
  exists q, balanced_groupers q = false /\ exists e, compile false 0 q = Ok e.
Proof. exists [ch_close]. split; [reflexivity | eexists; reflexivity]. Qed.

(* a lone opening symbol, a missing closer and a closer after a complete
   query are rejected (regression examples, kernel-evaluated) *)
Definition unbalanced_examples : list str :=
  [ [ch_close]; [ch_rbrack]; [ch_rbrace]; [ch_lbrack; ch_lbrack]; [97%N; ch_amp; ch_amp; ch_close];
    [ch_open]; [ch_lbrack]; [ch_lbrace];
    [ch_open; 97%N]; [97%N; ch_close]; [ch_open; ch_open; 97%N; ch_close];
    [ch_open; 97%N; ch_close; ch_close]; [ch_lbrace; 97%N; ch_rbrack]; [ch_lbrack; 97%N; ch_rbrace];
    [ch_lbrace; 97%N; ch_colon; 98%N]; [ch_open; ch_lbrace; ch_close] ].

Lemma unbalanced_examples_rejected :
  forallb (fun q => negb (balanced_groupers q) &&
                    match compile true 100 q with Exn ValueError => true | _ => false end) unbalanced_examples = true.
Proof. vm_compute. reflexivity. Qed.
