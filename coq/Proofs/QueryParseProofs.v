(* Proofs about Model/QueryParse.v (property C15): the parser is total and
   raises nothing but ValueError; unbalanced closing symbols are accepted. *)
From Coq Require Import List NArith Arith Bool Lia.
From HV Require Import Base.Res Base.Str Model.Query Model.QueryParse.
Import ListNotations.

(* a parser result is "good" for input ts: ValueError, or success having
   consumed at least one token *)
Definition good (ts : list token) (x : res (expr * list token)) : Prop :=
  x = Exn ValueError \/ exists e r, x = Ok (e, r) /\ length r < length ts.

Definition good_upto (n : nat) (p : parser) : Prop :=
  forall ts, length ts < n -> good ts (p ts).

Lemma next_is_shorter k ts t r : next_is k ts = Some (t, r) -> length ts = S (length r).
Proof.
  destruct ts as [|t0 r0]; simpl; [discriminate|].
  destruct (kind_eqb (tk_kind t0) k); [|discriminate].
  intro H; inversion H; subst; reflexivity.
Qed.

Lemma p_grouping_good n rec ts :
  good_upto n rec -> length ts <= n -> good ts (p_grouping rec ts).
Proof.
  intros Hrec Hlen. destruct ts as [|t r]; [left; reflexivity|].
  simpl in Hlen.
  assert (Hr : good r (rec r)) by (apply Hrec; lia).
  unfold p_grouping.
  destruct (tk_kind t) eqn:Hk;
    try (right; eexists; eexists; split; [reflexivity | simpl; lia]).
  - (* KDesc *)
    destruct Hr as [Hr | (e & r1 & Hr & Hl)]; rewrite Hr; simpl; [left; reflexivity|].
    destruct (next_is KDescEnd r1) as [[t1 r2]|] eqn:Hn; [|left; reflexivity].
    apply next_is_shorter in Hn. right; eexists; eexists; split; [reflexivity | simpl; lia].
  - (* KLG *)
    destruct Hr as [Hr | (e & r1 & Hr & Hl)]; rewrite Hr; simpl; [left; reflexivity|].
    destruct (next_is KLGEnd r1) as [[t1 r2]|] eqn:Hn; [|left; reflexivity].
    apply next_is_shorter in Hn. right; eexists; eexists; split; [reflexivity | simpl; lia].
  - (* KExact *)
    destruct Hr as [Hr | (e & r1 & Hr & Hl)]; rewrite Hr; simpl; [left; reflexivity|].
    destruct (next_is KExactEnd r1) as [[t1 r2]|] eqn:Hn.
    { apply next_is_shorter in Hn. right; eexists; eexists; split; [reflexivity | simpl; lia]. }
    destruct (next_is KExactOpt r1) as [[t1 r2]|] eqn:Hn2; [|left; reflexivity].
    apply next_is_shorter in Hn2.
    destruct (next_is KExactEnd r2) as [[t2 r3]|] eqn:Hn3.
    { apply next_is_shorter in Hn3.
      match goal with |- good _ (if ?c then _ else _) => destruct c end; [left; reflexivity|].
      right; eexists; eexists; split; [reflexivity | simpl; lia]. }
    assert (Hr2 : good r2 (rec r2)) by (apply Hrec; lia).
    destruct Hr2 as [Hr2 | (o & r3 & Hr2 & Hl2)]; rewrite Hr2; simpl; [left; reflexivity|].
    match goal with |- good _ (if ?c then _ else _) => destruct c end; [left; reflexivity|].
    destruct (next_is KExactEnd r3) as [[t4 r4]|] eqn:Hn4; [|left; reflexivity].
    apply next_is_shorter in Hn4. right; eexists; eexists; split; [reflexivity | simpl; lia].
Qed.

Lemma p_neg_good n rec ts :
  good_upto n rec -> length ts <= n -> good ts (p_neg rec ts).
Proof.
  intros Hrec Hlen. unfold p_neg.
  destruct (next_is KNeg ts) as [[t r]|] eqn:Hn; [|apply p_grouping_good with n; assumption].
  apply next_is_shorter in Hn.
  assert (Hg : good r (p_grouping rec r)) by (apply p_grouping_good with n; [assumption | lia]).
  destruct Hg as [Hg | (e & r1 & Hg & Hl)]; rewrite Hg; simpl; [left; reflexivity|].
  destruct (expr_has_ch ch_qmark e); [left; reflexivity|].
  right; eexists; eexists; split; [reflexivity | lia].
Qed.

(* the loop never runs out of iterations when p consumes tokens *)
Lemma p_loop_good (p : parser) k mk : forall n e ts m,
  (forall ts', length ts' < m -> good ts' (p ts')) ->
  length ts <= m -> length ts <= n ->
  p_loop p k mk n e ts = Exn ValueError \/
  exists e' r, p_loop p k mk n e ts = Ok (e', r) /\ length r <= length ts.
Proof.
  induction n as [|n IH]; intros e ts m Hp Hm Hn.
  - destruct ts; [|simpl in Hn; lia]. simpl. right; eexists; eexists; split; [reflexivity | lia].
  - simpl. destruct (next_is k ts) as [[t r]|] eqn:Hk.
    + apply next_is_shorter in Hk.
      assert (Hg : good r (p r)) by (apply Hp; lia).
      destruct Hg as [Hg | (e2 & r2 & Hg & Hl)]; rewrite Hg; simpl; [left; reflexivity|].
      destruct (IH (mk (tk_text t) e e2) r2 m Hp) as [H | (e' & r' & H & Hl')]; try lia.
      * left; assumption.
      * right; exists e', r'; split; [assumption | lia].
    + right; eexists; eexists; split; [reflexivity | lia].
Qed.

Lemma p_and_good n rec ts :
  good_upto n rec -> length ts <= n -> good ts (p_and rec ts).
Proof.
  intros Hrec Hlen. unfold p_and.
  assert (Hg : good ts (p_neg rec ts)) by (apply p_neg_good with n; assumption).
  destruct Hg as [Hg | (e & r & Hg & Hl)]; rewrite Hg; simpl; [left; reflexivity|].
  destruct (p_loop_good (p_neg rec) KAnd EAnd (length r) e r (S n)) as [H | (e' & r' & H & Hl')]; try lia.
  - intros ts' Hts'. apply p_neg_good with n; [assumption | lia].
  - left; assumption.
  - right; exists e', r'; split; [assumption | lia].
Qed.

Lemma p_or_body_good n rec ts :
  good_upto n rec -> length ts <= n -> good ts (p_or_body rec ts).
Proof.
  intros Hrec Hlen. unfold p_or_body.
  assert (Hg : good ts (p_and rec ts)) by (apply p_and_good with n; assumption).
  destruct Hg as [Hg | (e & r & Hg & Hl)]; rewrite Hg; simpl; [left; reflexivity|].
  destruct (p_loop_good (p_and rec) KOr EOr (length r) e r (S n)) as [H | (e' & r' & H & Hl')]; try lia.
  - intros ts' Hts'. apply p_and_good with n; [assumption | lia].
  - left; assumption.
  - right; exists e', r'; split; [assumption | lia].
Qed.

(* fuel f handles every token list shorter than f *)
Lemma p_or_good : forall f, good_upto f (p_or f).
Proof.
  induction f as [|f IH]; intros ts Hlen; [lia|].
  simpl. apply p_or_body_good with f; [assumption | lia].
Qed.

(* _parse on any token list: a tree or ValueError, never anything else
   (in particular the fuel never runs out) *)
Lemma parse_tokens_total (ts : list token) :
  (exists e, parse_tokens ts = Ok e) \/ parse_tokens ts = Exn ValueError.
Proof.
  unfold parse_tokens.
  destruct (p_or_good (S (length ts)) ts) as [H | (e & r & H & Hl)]; [lia | |]; rewrite H; simpl.
  - right; reflexivity.
  - destruct r; [left; eexists; reflexivity | right; reflexivity].
Qed.

Lemma compile_total (q : str) :
  (exists e, compile q = Ok e) \/ compile q = Exn ValueError.
Proof. unfold compile. apply parse_tokens_total. Qed.

(* search: a verdict or ValueError *)
Lemma search_total (q : str) (root : node) :
  (exists b, search q root = Ok b) \/ search q root = Exn ValueError.
Proof.
  unfold search. destruct (compile_total q) as [(e & H) | H]; rewrite H; simpl.
  - left; eexists; reflexivity.
  - right; reflexivity.
Qed.

(* ---------------------------------------------------------------- unbalanced grouping symbols *)

(* FULL STATEMENT (false of the code):
     forall q, balanced_groupers q = false -> compile q = Exn ValueError. *)
Lemma unbalanced_rejected_refuted :
  exists q, balanced_groupers q = false /\ exists e, compile q = Ok e.
Proof. exists [ch_close]. split; [reflexivity | eexists; reflexivity]. Qed.

(* a lone opening symbol, a missing closer and a closer after a complete
   query are rejected (regression examples, kernel-evaluated) *)
Definition unbalanced_examples : list str :=
  [ [ch_open]; [ch_lbrack]; [ch_lbrace];
    [ch_open; 97%N]; [97%N; ch_close]; [ch_open; ch_open; 97%N; ch_close];
    [ch_open; 97%N; ch_close; ch_close]; [ch_lbrace; 97%N; ch_rbrack]; [ch_lbrack; 97%N; ch_rbrace];
    [ch_lbrace; 97%N; ch_colon; 98%N]; [ch_open; ch_lbrace; ch_close] ].

Lemma unbalanced_examples_rejected :
  forallb (fun q => negb (balanced_groupers q) &&
                    match compile q with Exn ValueError => true | _ => false end) unbalanced_examples = true.
Proof. vm_compute. reflexivity. Qed.

(* ---------------------------------------------------------------- sibling order (refuted) *)
From HV Require Import Model.Query Proofs.QueryProofs.

(* FULL STATEMENT (false of the code):
     forall q a b, sperm a b -> search q a = search q b.
   The duplicate filter of && compares groups by content (HedGroup.__eq__),
   so two negation results on distinct groups with equal content collapse. *)
Lemma sibling_order_refuted :
  exists q a b, sperm a b /\ search q a = Ok false /\ search q b = Ok true.
Proof.
  exists w_query, w_ann1, w_ann2. split; [exact w_sperm|]. split; vm_compute; reflexivity.
Qed.

(* Color || "blue" || Sens* *)
Definition w_query_or : str := [67; 111; 108; 111; 114; 32; 124; 124; 32; 34; 98; 108; 117; 101; 34; 32; 124; 124; 32; 83; 101; 110; 115; 42]%N.

Lemma nonvacuous :
  search w_query w_ann2 = Ok true /\ distinct_groups w_ann2 /\
  (exists e, compile w_query_or = Ok e /\ term_or_query e = true /\ matches e w_ann1 = true) /\
  forallb (fun q => negb (balanced_groupers q) &&
                    match compile q with Exn ValueError => true | _ => false end) unbalanced_examples = true.
Proof.
  split; [vm_compute; reflexivity|]. split; [exact w_ann2_distinct|].
  split; [|exact unbalanced_examples_rejected].
  eexists. split; [vm_compute; reflexivity|]. split; vm_compute; reflexivity.
Qed.
