(* Proofs about Model/Dups.v (property C04), part 1: order on strings, the
   stable sort, canonical keys and their unique decoding. *)
From Coq Require Import List NArith Arith Bool Lia Permutation Sorted.
From HV Require Import Base.Res Base.Str Model.Dups.
Import ListNotations.

(* ------------------------------------------------------------------ *)
(* lexicographic order on strings                                      *)
(* ------------------------------------------------------------------ *)

Lemma str_ltb_irrefl a : str_ltb a a = false.
Proof. induction a as [|x a IH]; simpl; auto. rewrite N.ltb_irrefl, N.eqb_refl. exact IH. Qed.

Lemma str_ltb_asym a b : str_ltb a b = true -> str_ltb b a = false.
Proof.
  revert b; induction a as [|x a IH]; destruct b as [|y b]; simpl; intro H; try discriminate; auto.
  destruct (N.ltb_spec x y) as [Hxy|Hxy].
  - destruct (N.ltb_spec y x) as [Hyx|Hyx]; [lia|].
    destruct (N.eqb_spec y x) as [He|He]; [lia|reflexivity].
  - destruct (N.eqb_spec x y) as [He|He]; [|discriminate]. subst y.
    rewrite N.ltb_irrefl, N.eqb_refl. auto.
Qed.

Lemma str_ltb_tricho a b : str_ltb a b = false -> str_ltb b a = false -> a = b.
Proof.
  revert b; induction a as [|x a IH]; destruct b as [|y b]; simpl; intros H1 H2; try discriminate; auto.
  destruct (N.ltb_spec x y) as [Hxy|Hxy]; [discriminate|].
  destruct (N.ltb_spec y x) as [Hyx|Hyx]; [discriminate|].
  assert (x = y) by lia. subst y. rewrite N.eqb_refl in H1, H2. f_equal. auto.
Qed.

Lemma str_ltb_trans a b c : str_ltb a b = true -> str_ltb b c = true -> str_ltb a c = true.
Proof.
  revert b c; induction a as [|x a IH]; destruct b as [|y b]; destruct c as [|z c]; simpl;
    intros H1 H2; try discriminate; auto.
  destruct (N.ltb_spec x y) as [Hxy|Hxy].
  - destruct (N.ltb_spec y z) as [Hyz|Hyz].
    + destruct (N.ltb_spec x z); [auto|lia].
    + destruct (N.eqb_spec y z) as [He|He]; [|discriminate]. subst z.
      destruct (N.ltb_spec x y); [auto|lia].
  - destruct (N.eqb_spec x y) as [He|He]; [|discriminate]. subst y.
    destruct (N.ltb_spec x z) as [Hxz|Hxz]; [auto|].
    destruct (N.eqb_spec x z) as [He|He]; [|discriminate]. subst z. eauto.
Qed.

Lemma str_leb_refl a : str_leb a a = true.
Proof. unfold str_leb. rewrite str_ltb_irrefl. reflexivity. Qed.

Lemma str_leb_total a b : str_leb a b = true \/ str_leb b a = true.
Proof.
  unfold str_leb. destruct (str_ltb b a) eqn:H; [right|left; reflexivity].
  rewrite (str_ltb_asym _ _ H). reflexivity.
Qed.

Lemma str_leb_false a b : str_leb a b = false -> str_leb b a = true.
Proof. intro H. destruct (str_leb_total a b) as [H1|H1]; congruence. Qed.

Lemma str_leb_antisym a b : str_leb a b = true -> str_leb b a = true -> a = b.
Proof.
  unfold str_leb. intros H1 H2. apply negb_true_iff in H1, H2. apply str_ltb_tricho; assumption.
Qed.

Lemma str_leb_trans a b c : str_leb a b = true -> str_leb b c = true -> str_leb a c = true.
Proof.
  unfold str_leb. intros H1 H2. apply negb_true_iff in H1, H2. apply negb_true_iff.
  destruct (str_ltb c a) eqn:Hca; [|reflexivity].
  destruct (str_ltb a b) eqn:Hab.
  - rewrite (str_ltb_trans _ _ _ Hca Hab) in H2. discriminate.
  - assert (a = b) by (apply str_ltb_tricho; assumption). subst b. congruence.
Qed.

Lemma str_eqb_refl a : str_eqb a a = true.
Proof. apply str_eqb_spec. reflexivity. Qed.

(* ------------------------------------------------------------------ *)
(* the sort: permutation, sortedness, stability, uniqueness            *)
(* ------------------------------------------------------------------ *)

Section SortFacts.
  Context {A : Type}.
  Notation kle := (fun p q : str * A => str_leb (fst p) (fst q) = true).

  Lemma insert_k_perm (x : str * A) l : Permutation (insert_k x l) (x :: l).
  Proof.
    induction l as [|y l IH]; simpl; [reflexivity|].
    destruct (str_leb (fst x) (fst y)); [reflexivity|].
    rewrite IH. apply perm_swap.
  Qed.

  Lemma sort_k_perm (l : list (str * A)) : Permutation (sort_k l) l.
  Proof.
    induction l as [|x l IH]; simpl; [reflexivity|].
    rewrite insert_k_perm. constructor. exact IH.
  Qed.

  Lemma insert_k_sorted (x : str * A) l :
    StronglySorted kle l -> StronglySorted kle (insert_k x l).
  Proof.
    induction l as [|y l IH]; simpl; intro Hs.
    - constructor; constructor.
    - inversion Hs as [|? ? Hs' Hall]; subst.
      destruct (str_leb (fst x) (fst y)) eqn:Hxy.
      + constructor; [exact Hs|]. constructor; [exact Hxy|].
        eapply Forall_impl; [|exact Hall]. simpl. intros q Hq. eapply str_leb_trans; eauto.
      + constructor; [apply IH; exact Hs'|].
        apply Forall_forall. intros q Hq.
        apply (Permutation_in _ (insert_k_perm x l)) in Hq. destruct Hq as [Hq|Hq].
        * subst q. apply str_leb_false. exact Hxy.
        * rewrite Forall_forall in Hall. auto.
  Qed.

  Lemma sort_k_sorted (l : list (str * A)) : StronglySorted kle (sort_k l).
  Proof. induction l as [|x l IH]; simpl; [constructor|apply insert_k_sorted; exact IH]. Qed.

  (* stability: the elements with any given key keep their original order *)
  Lemma insert_k_stable (k : str) (x : str * A) l :
    filter (fun p => str_eqb (fst p) k) (insert_k x l) = filter (fun p => str_eqb (fst p) k) (x :: l).
  Proof.
    induction l as [|y l IH]; [reflexivity|].
    cbn [insert_k]. destruct (str_leb (fst x) (fst y)) eqn:Hxy; [reflexivity|].
    cbn [filter] in *. rewrite IH.
    destruct (str_eqb (fst x) k) eqn:Hx; [|reflexivity].
    destruct (str_eqb (fst y) k) eqn:Hy; [|reflexivity].
    apply str_eqb_spec in Hx, Hy. rewrite Hx, Hy, str_leb_refl in Hxy. discriminate.
  Qed.

  Lemma sort_k_stable (k : str) (l : list (str * A)) :
    filter (fun p => str_eqb (fst p) k) (sort_k l) = filter (fun p => str_eqb (fst p) k) l.
  Proof.
    induction l as [|x l IH]; [reflexivity|].
    cbn [sort_k]. rewrite insert_k_stable. cbn [filter]. rewrite IH. reflexivity.
  Qed.

  (* two sorted permutations of each other coincide when the key determines the element *)
  Lemma sorted_perm_unique (l l' : list (str * A)) :
    StronglySorted kle l -> StronglySorted kle l' -> Permutation l l' ->
    (forall p q, In p l -> In q l -> fst p = fst q -> p = q) -> l = l'.
  Proof.
    revert l'; induction l as [|x l IH]; intros l' Hs Hs' Hp Hinj.
    - apply Permutation_nil in Hp. auto.
    - destruct l' as [|x' l'].
      + apply Permutation_sym, Permutation_nil in Hp. discriminate.
      + inversion Hs as [|? ? Hs1 Hall]; subst. inversion Hs' as [|? ? Hs1' Hall']; subst.
        assert (Hx : x = x').
        { assert (Hin' : In x' (x :: l)) by (eapply Permutation_in; [apply Permutation_sym; exact Hp|left; reflexivity]).
          assert (Hin : In x (x' :: l')) by (eapply Permutation_in; [exact Hp|left; reflexivity]).
          apply Hinj; [left; reflexivity|exact Hin'|].
          rewrite Forall_forall in Hall, Hall'.
          apply str_leb_antisym.
          - destruct Hin' as [He|Hi]; [subst; apply str_leb_refl|auto].
          - destruct Hin as [He|Hi]; [subst; apply str_leb_refl|auto]. }
        subst x'. f_equal. apply IH; auto.
        * eapply Permutation_cons_inv; exact Hp.
        * intros p q Hp' Hq'. apply Hinj; right; assumption.
  Qed.

  Lemma sort_k_fst (l : list (str * A)) :
    map fst (sort_k l) = map fst (sort_k (map (fun p => (fst p, tt)) l)).
  Proof.
    induction l as [|x l IH]; [reflexivity|]. cbn [sort_k map].
    assert (Hi : forall (s : list (str * A)) (s' : list (str * unit)),
               map fst s = map fst s' ->
               map fst (insert_k x s) = map fst (insert_k (fst x, tt) s')).
    { induction s as [|y s IHs]; destruct s' as [|y' s']; simpl; intro He; try discriminate; auto.
      inversion He as [[He1 He2]]. rewrite He1. destruct (str_leb (fst x) (fst y')); simpl.
      - rewrite He1, He2. reflexivity.
      - rewrite He1. f_equal. apply IHs. exact He2. }
    apply Hi. exact IH.
  Qed.
End SortFacts.

(* sorting commutes with a map on the values *)
Lemma sort_k_map {A B} (h : A -> B) (l : list (str * A)) :
  sort_k (map (fun p => (fst p, h (snd p))) l) = map (fun p => (fst p, h (snd p))) (sort_k l).
Proof.
  induction l as [|x l IH]; [reflexivity|]. cbn [map sort_k]. rewrite IH.
  generalize (sort_k l) as s. induction s as [|y s IHs]; [reflexivity|].
  cbn [map insert_k fst]. destruct (str_leb (fst x) (fst y)); [reflexivity|].
  cbn [map]. f_equal. exact IHs.
Qed.

Lemma filter_map_comm {A B} (f : A -> B) (p : B -> bool) (l : list A) :
  filter p (map f l) = map f (filter (fun x => p (f x)) l).
Proof.
  induction l as [|x l IH]; [reflexivity|]. simpl. destruct (p (f x)); simpl; rewrite IH; reflexivity.
Qed.

Lemma perm_filter {A} (f : A -> bool) (l l' : list A) :
  Permutation l l' -> Permutation (filter f l) (filter f l').
Proof.
  induction 1 as [|x l l' Hp IH|x y l|l1 l2 l3 H1 IH1 H2 IH2]; simpl.
  - constructor.
  - destruct (f x); [constructor|]; exact IH.
  - destruct (f x), (f y); try reflexivity. apply perm_swap.
  - etransitivity; eauto.
Qed.

Lemma filter_partition_perm {A} (f : A -> bool) (l : list A) :
  Permutation (filter f l ++ filter (fun x => negb (f x)) l) l.
Proof.
  induction l as [|x l IH]; simpl; [constructor|].
  destruct (f x); simpl.
  - constructor. exact IH.
  - apply Permutation_sym. apply Permutation_cons_app. apply Permutation_sym. exact IH.
Qed.

Lemma forallb_perm {A} (f : A -> bool) l l' : Permutation l l' -> forallb f l = forallb f l'.
Proof.
  induction 1; simpl; try congruence.
  - rewrite !andb_assoc. f_equal. apply andb_comm.
Qed.

(* ------------------------------------------------------------------ *)
(* induction principles for the nested types                           *)
(* ------------------------------------------------------------------ *)

Section ViewInd.
  Context (P : view -> Prop).
  Context (HT : forall a, P (VT a)) (HL : forall l, Forall P l -> P (VL l)).
  Fixpoint view_ind2 (v : view) : P v :=
    match v with
    | VT a => HT a
    | VL l => HL l ((fix go (l : list view) : Forall P l :=
                       match l with
                       | [] => Forall_nil P
                       | x :: r => Forall_cons x (view_ind2 x) (go r)
                       end) l)
    end.
End ViewInd.

Section TreeInd.
  Context (P : tree -> Prop).
  Context (HT : forall a, P (T a)) (HG : forall l, Forall P l -> P (G l)).
  Fixpoint tree_ind2 (t : tree) : P t :=
    match t with
    | T a => HT a
    | G l => HG l ((fix go (l : list tree) : Forall P l :=
                      match l with
                      | [] => Forall_nil P
                      | x :: r => Forall_cons x (tree_ind2 x) (go r)
                      end) l)
    end.
End TreeInd.

(* ------------------------------------------------------------------ *)
(* canonical (spelling- and order-free) views and their text keys      *)
(* ------------------------------------------------------------------ *)

Inductive cview := CT (n : str) | CL (l : list cview).

Section CviewInd.
  Context (P : cview -> Prop).
  Context (HT : forall n, P (CT n)) (HL : forall l, Forall P l -> P (CL l)).
  Fixpoint cview_ind2 (c : cview) : P c :=
    match c with
    | CT n => HT n
    | CL l => HL l ((fix go (l : list cview) : Forall P l :=
                       match l with
                       | [] => Forall_nil P
                       | x :: r => Forall_cons x (cview_ind2 x) (go r)
                       end) l)
    end.
End CviewInd.

Fixpoint canon (v : view) : cview :=
  match v with VT a => CT (t_shortf a) | VL l => CL (map canon l) end.

Fixpoint ckey (c : cview) : str :=
  match c with
  | CT n => n
  | CL l => ch_open :: join [ch_comma] (map ckey l) ++ [ch_close]
  end.

Definition is_ct (c : cview) : bool := match c with CT _ => true | CL _ => false end.

Definition is_delim (c : N) : bool := N.eqb c ch_comma || N.eqb c ch_open || N.eqb c ch_close.

(* what the parser guarantees of a tag text: non-empty, no comma/parenthesis *)
Definition wf_name (n : str) : bool := negb (null n) && forallb (fun c => negb (is_delim c)) n.

Fixpoint wfc (c : cview) : bool :=
  match c with CT n => wf_name n | CL l => forallb wfc l end.

Definition Fx : mode := mode_of true.

Lemma vkey_canon v : vkey Fx v = ckey (canon v).
Proof.
  induction v as [a|l IH] using view_ind2; [reflexivity|].
  cbn [vkey canon ckey]. do 3 f_equal. rewrite map_map.
  induction IH as [|x l Hx _ IHl]; [reflexivity|]. cbn [map]. rewrite Hx, IHl. reflexivity.
Qed.

(* ---- unique decoding of keys ---- *)

Definition tailok (r : str) : Prop :=
  match r with [] => True | c :: _ => c = ch_comma \/ c = ch_close end.

Lemma name_split n n' r s :
  forallb (fun c => negb (is_delim c)) n = true -> forallb (fun c => negb (is_delim c)) n' = true ->
  tailok r -> tailok s -> n ++ r = n' ++ s -> n = n' /\ r = s.
Proof.
  revert n'; induction n as [|x n IH]; destruct n' as [|y n']; simpl; intros Hn Hn' Hr Hs He.
  - auto.
  - subst r. simpl in Hr. apply andb_true_iff in Hn' as [Hy _]. exfalso.
    destruct Hr; subst y; discriminate.
  - subst s. simpl in Hs. apply andb_true_iff in Hn as [Hx _]. exfalso.
    destruct Hs; subst x; discriminate.
  - apply andb_true_iff in Hn as [_ Hn]. apply andb_true_iff in Hn' as [_ Hn'].
    inversion He; subst. destruct (IH n' Hn Hn' Hr Hs H1). subst. auto.
Qed.

(* "(" ++ join "," keys ++ ")" written so that induction on the list works *)
Fixpoint krest (l : list cview) : str :=
  match l with
  | [] => [ch_close]
  | y :: l' => ch_comma :: ckey y ++ krest l'
  end.
Definition kbody (l : list cview) : str :=
  match l with [] => [ch_close] | x :: l' => ckey x ++ krest l' end.

Lemma join_krest x l : join [ch_comma] (map ckey (x :: l)) ++ [ch_close] = ckey x ++ krest l.
Proof.
  revert x; induction l as [|y l IH]; intro x; [reflexivity|].
  change (map ckey (x :: y :: l)) with (ckey x :: map ckey (y :: l)).
  cbn [join]. change (map ckey (y :: l)) with (ckey y :: map ckey l) at 1.
  cbv beta iota. rewrite <- app_assoc. f_equal. cbn [app krest]. f_equal. apply IH.
Qed.

Lemma ckey_CL l : ckey (CL l) = ch_open :: kbody l.
Proof. destruct l as [|x l]; [reflexivity|]. cbn [ckey kbody]. f_equal. apply join_krest. Qed.

Lemma tailok_krest l r : tailok (krest l ++ r).
Proof. destruct l; simpl; auto. Qed.

(* a key starts with a character that is neither "," nor ")" *)
Lemma ckey_head c : wfc c = true ->
  exists h t, ckey c = h :: t /\ h <> ch_comma /\ h <> ch_close /\ (is_ct c = true -> h <> ch_open).
Proof.
  destruct c as [n|l]; intro H.
  - cbn [wfc] in H. unfold wf_name in H. apply andb_true_iff in H as [H1 H2].
    destruct n as [|h t]; [discriminate|]. exists h, t. simpl in H2.
    apply andb_true_iff in H2 as [H2 _]. unfold is_delim in H2.
    repeat split; try (intros; intro; subst h; discriminate).
  - rewrite ckey_CL. eexists; eexists; split; [reflexivity|].
    repeat split; try discriminate.
Qed.

Lemma krest_inj l :
  Forall (fun c => forall d r s, wfc c = true -> wfc d = true -> tailok r -> tailok s ->
                                 ckey c ++ r = ckey d ++ s -> c = d /\ r = s) l ->
  forall l' r s, forallb wfc l = true -> forallb wfc l' = true ->
    krest l ++ r = krest l' ++ s -> l = l' /\ r = s.
Proof.
  induction 1 as [|y l Hy _ IH]; intros l' r s Hl Hl' He; destruct l' as [|y' l'].
  - simpl in He. inversion He. auto.
  - simpl in He. inversion He.
  - simpl in He. inversion He.
  - cbn [krest] in He. cbn [forallb] in Hl, Hl'.
    apply andb_true_iff in Hl as [Hw Hl]. apply andb_true_iff in Hl' as [Hw' Hl'].
    simpl in He. inversion He as [He']. rewrite <- !app_assoc in He'.
    destruct (Hy y' _ _ Hw Hw' (tailok_krest l r) (tailok_krest l' s) He') as [E1 E2].
    destruct (IH l' r s Hl Hl' E2) as [E3 E4]. subst. auto.
Qed.

Lemma ckey_inj_gen c : forall d r s, wfc c = true -> wfc d = true -> tailok r -> tailok s ->
  ckey c ++ r = ckey d ++ s -> c = d /\ r = s.
Proof.
  induction c as [n|l IH] using cview_ind2; intros d r s Hc Hd Hr Hs He.
  - destruct d as [n'|l'].
    + cbn [ckey wfc] in *. unfold wf_name in Hc, Hd.
      apply andb_true_iff in Hc as [_ Hc]. apply andb_true_iff in Hd as [_ Hd].
      destruct (name_split _ _ _ _ Hc Hd Hr Hs He). subst. auto.
    + exfalso. destruct (ckey_head _ Hc) as (h & t & E & _ & _ & Hop).
      rewrite ckey_CL in He. rewrite E in He. simpl in He. inversion He. apply Hop; auto.
  - destruct d as [n'|l'].
    + exfalso. destruct (ckey_head _ Hd) as (h & t & E & _ & _ & Hop).
      rewrite ckey_CL in He. rewrite E in He. simpl in He. inversion He. apply Hop; auto.
    + rewrite !ckey_CL in He. simpl in He. inversion He as [He']. clear He.
      cbn [wfc] in Hc, Hd.
      destruct l as [|x l]; destruct l' as [|x' l']; cbn [kbody] in He'.
      * simpl in He'. inversion He'. auto.
      * exfalso. cbn [forallb] in Hd. apply andb_true_iff in Hd as [Hd _].
        destruct (ckey_head _ Hd) as (h & t & E & _ & Hcl & _). rewrite E in He'. simpl in He'.
        inversion He'. congruence.
      * exfalso. cbn [forallb] in Hc. apply andb_true_iff in Hc as [Hc _].
        destruct (ckey_head _ Hc) as (h & t & E & _ & Hcl & _). rewrite E in He'. simpl in He'.
        inversion He'. congruence.
      * cbn [forallb] in Hc, Hd.
        apply andb_true_iff in Hc as [Hx Hc]. apply andb_true_iff in Hd as [Hx' Hd].
        inversion IH as [|? ? IHx IHl]; subst.
        rewrite <- !app_assoc in He'.
        destruct (IHx x' _ _ Hx Hx' (tailok_krest l r) (tailok_krest l' s) He') as [E1 E2].
        destruct (krest_inj l IHl l' r s Hc Hd E2) as [E3 E4]. subst. auto.
Qed.

(* the canonical key determines the canonical view *)
Lemma ckey_inj c d : wfc c = true -> wfc d = true -> ckey c = ckey d -> c = d.
Proof.
  intros Hc Hd He.
  destruct (ckey_inj_gen c d [] [] Hc Hd I I) as [E _]; [rewrite !app_nil_r; exact He|exact E].
Qed.

(* ------------------------------------------------------------------ *)
(* the sorted view of the code as it is (mode Fx), up to spelling      *)
(* ------------------------------------------------------------------ *)

Definition ckeyed (cs : list cview) : list (str * cview) := map (fun c => (ckey c, c)) cs.

Definition carrange (cs : list cview) : list cview :=
  map snd (sort_k (filter (fun q => is_ct (snd q)) (ckeyed cs))) ++
  map snd (sort_k (filter (fun q => negb (is_ct (snd q))) (ckeyed cs))).

Lemma is_vt_canon v : is_vt v = is_ct (canon v).
Proof. destruct v; reflexivity. Qed.

Lemma arrange_pairs_perm key ps : Permutation (arrange_pairs key ps) ps.
Proof.
  unfold arrange_pairs. rewrite <- map_app.
  rewrite (Permutation_map snd (Permutation_app (sort_k_perm _) (sort_k_perm _))).
  rewrite (Permutation_map snd (filter_partition_perm _ _)).
  rewrite map_map. simpl. rewrite map_id. reflexivity.
Qed.

Lemma arrange_perm m ps : Permutation (arrange m ps) (map snd ps).
Proof.
  unfold arrange. apply Permutation_map. destruct (m_canon m).
  - rewrite arrange_pairs_perm. apply arrange_pairs_perm.
  - apply arrange_pairs_perm.
Qed.

(* the second (canonical) pass (fix commit 7597eca), seen through [canon] *)
Lemma canon_arrange_pairs qs :
  map (fun p => canon (snd p)) (arrange_pairs (newkey Fx) qs)
  = carrange (map (fun p => canon (snd p)) qs).
Proof.
  unfold arrange_pairs, carrange, ckeyed. rewrite map_app.
  assert (Hk : map (fun c => (ckey c, c)) (map (fun p : str * view => canon (snd p)) qs)
               = map (fun q : str * (str * view) => (fst q, canon (snd (snd q))))
                     (map (fun p => (newkey Fx p, p)) qs)).
  { rewrite !map_map. apply map_ext. intro p. cbn [fst snd]. unfold newkey. rewrite vkey_canon. reflexivity. }
  rewrite Hk. clear Hk. set (keyed := map (fun p => (newkey Fx p, p)) qs).
  rewrite !(filter_map_comm (fun q : str * (str * view) => (fst q, canon (snd (snd q))))). cbn [snd].
  rewrite !(sort_k_map (fun p : str * view => canon (snd p))). rewrite !map_map. cbn [snd].
  f_equal.
  - f_equal. f_equal. apply filter_ext. intro q. apply is_vt_canon.
  - f_equal. f_equal. apply filter_ext. intro q. rewrite is_vt_canon. reflexivity.
Qed.

Lemma ckeyed_inj cs : forallb wfc cs = true ->
  forall p q, In p (ckeyed cs) -> In q (ckeyed cs) -> fst p = fst q -> p = q.
Proof.
  intros Hw p q Hp Hq He. unfold ckeyed in *. rewrite in_map_iff in Hp, Hq.
  destruct Hp as (c & Ec & Hc). destruct Hq as (d & Ed & Hd). subst p q. simpl in He.
  rewrite forallb_forall in Hw. rewrite (ckey_inj c d); auto.
Qed.

Lemma carrange_perm cs cs' :
  Permutation cs cs' -> forallb wfc cs = true -> carrange cs = carrange cs'.
Proof.
  intros Hp Hw. unfold carrange.
  assert (Hpk : Permutation (ckeyed cs) (ckeyed cs')) by (apply Permutation_map; exact Hp).
  assert (Hgen : forall f, sort_k (filter f (ckeyed cs)) = sort_k (filter f (ckeyed cs'))).
  { intro f. apply sorted_perm_unique.
    - apply sort_k_sorted.
    - apply sort_k_sorted.
    - rewrite !sort_k_perm. apply perm_filter. exact Hpk.
    - intros p q Hp' Hq'. apply (ckeyed_inj cs Hw).
      + apply (Permutation_in _ (sort_k_perm _)) in Hp'. apply filter_In in Hp'. tauto.
      + apply (Permutation_in _ (sort_k_perm _)) in Hq'. apply filter_In in Hq'. tauto. }
  rewrite !Hgen. reflexivity.
Qed.

Lemma carrange_is_perm cs : Permutation (carrange cs) cs.
Proof.
  unfold carrange. rewrite <- map_app.
  rewrite (Permutation_map snd (Permutation_app (sort_k_perm _) (sort_k_perm _))).
  rewrite (Permutation_map snd (filter_partition_perm _ _)).
  unfold ckeyed. rewrite map_map. simpl. rewrite map_id. reflexivity.
Qed.

Lemma canon_arrange ps :
  forallb wfc (map (fun p => canon (snd p)) ps) = true ->
  map canon (arrange Fx ps) = carrange (map (fun p => canon (snd p)) ps).
Proof.
  intro Hw. unfold arrange. cbn [Fx mode_of m_canon]. rewrite map_map, canon_arrange_pairs.
  symmetry. apply carrange_perm; [|exact Hw].
  apply Permutation_map. apply Permutation_sym. apply arrange_pairs_perm.
Qed.

(* ------------------------------------------------------------------ *)
(* sibling permutation at any level                                    *)
(* ------------------------------------------------------------------ *)

Inductive PermTree : tree -> tree -> Prop :=
| PT_refl t : PermTree t t
| PT_group l l' : PermForest l l' -> PermTree (G l) (G l')
with PermForest : list tree -> list tree -> Prop :=
| PF_nil : PermForest [] []
| PF_skip t t' l l' : PermTree t t' -> PermForest l l' -> PermForest (t :: l) (t' :: l')
| PF_swap a b l : PermForest (a :: b :: l) (b :: a :: l)
| PF_trans l1 l2 l3 : PermForest l1 l2 -> PermForest l2 l3 -> PermForest l1 l3.

Scheme PermTree_mind := Minimality for PermTree Sort Prop
  with PermForest_mind := Minimality for PermForest Sort Prop.
Combined Scheme PermTF_mind from PermTree_mind, PermForest_mind.

Lemma PermForest_refl l : PermForest l l.
Proof. induction l; constructor; [apply PT_refl|assumption]. Qed.

Lemma PermForest_of_perm l l' : Permutation l l' -> PermForest l l'.
Proof.
  induction 1.
  - constructor.
  - constructor; [apply PT_refl|assumption].
  - apply PF_swap.
  - eapply PF_trans; eauto.
Qed.

(* well-formed tag texts everywhere (guaranteed by the parser: a tag is a
   non-empty run without "," "(" ")") *)
Fixpoint wft (t : tree) : bool :=
  match t with T a => wf_name (t_shortf a) | G l => forallb wft l end.

Definition csv (t : tree) : cview := canon (sv Fx t).

Lemma wfc_csv t : wft t = true -> wfc (csv t) = true.
Proof.
  induction t as [a|l IH] using tree_ind2; intro H; [exact H|].
  unfold csv. cbn [sv canon wfc].
  rewrite (forallb_perm _ _ _ (Permutation_map canon (arrange_perm Fx _))). rewrite !map_map. cbn [snd].
  cbn [wft] in H. rewrite forallb_forall in *. intros c Hc. rewrite in_map_iff in Hc.
  destruct Hc as (t & Et & Ht). subst c. rewrite Forall_forall in IH. apply IH; auto.
Qed.

Lemma forallb_wfc_csv l : forallb wft l = true -> forallb wfc (map csv l) = true.
Proof.
  intro H. rewrite forallb_forall in *. intros c Hc. rewrite in_map_iff in Hc.
  destruct Hc as (t & Et & Ht). subst c. apply wfc_csv. auto.
Qed.

Lemma csv_G l : forallb wft l = true -> csv (G l) = CL (carrange (map csv l)).
Proof.
  intro H. unfold csv. cbn [sv canon]. rewrite canon_arrange; rewrite !map_map; cbn [snd].
  - reflexivity.
  - apply (forallb_wfc_csv l H).
Qed.

(* MAIN LEMMA: the sorted view (mode Fx) is a canonical form for sibling order *)
Lemma csv_perm_mut :
  (forall t t', PermTree t t' -> wft t = true -> wft t' = true /\ csv t = csv t') /\
  (forall l l', PermForest l l' -> forallb wft l = true ->
                forallb wft l' = true /\ Permutation (map csv l) (map csv l')).
Proof.
  apply PermTF_mind.
  - intros t H. auto.
  - intros l l' _ IH H. cbn [wft] in *. destruct (IH H) as [H' Hp]. split; [exact H'|].
    rewrite !csv_G by assumption. f_equal. apply carrange_perm; [exact Hp|]. apply forallb_wfc_csv. exact H.
  - intros _. split; [reflexivity|constructor].
  - intros t t' l l' _ IHt _ IHl H. cbn [forallb] in *. apply andb_true_iff in H as [H1 H2].
    destruct (IHt H1) as [H1' E]. destruct (IHl H2) as [H2' P].
    split; [rewrite H1', H2'; reflexivity|]. cbn [map]. rewrite E. constructor. exact P.
  - intros a b l H. split.
    + cbn [forallb] in *. rewrite andb_assoc, (andb_comm (wft b)), <- andb_assoc. exact H.
    + cbn [map]. apply perm_swap.
  - intros l1 l2 l3 _ IH1 _ IH2 H. destruct (IH1 H) as [H2 P1]. destruct (IH2 H2) as [H3 P2].
    split; [exact H3|]. etransitivity; eauto.
Qed.

Lemma csv_sorted_view top : forallb wft top = true ->
  map canon (sorted_view Fx top) = carrange (map csv top).
Proof.
  intro H. unfold sorted_view. rewrite canon_arrange; rewrite !map_map; cbn [snd].
  - reflexivity.
  - apply (forallb_wfc_csv top H).
Qed.

Lemma sorted_view_perm top top' :
  PermForest top top' -> forallb wft top = true ->
  map canon (sorted_view Fx top) = map canon (sorted_view Fx top').
Proof.
  intros Hp Hw. destruct (proj2 csv_perm_mut _ _ Hp Hw) as [Hw' P].
  rewrite !csv_sorted_view by assumption.
  apply carrange_perm; [exact P|]. apply forallb_wfc_csv. exact Hw.
Qed.
