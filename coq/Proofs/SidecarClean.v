(* C08 -- well-formed sidecars are clean; '#'-count and nested-reference faults *)
From Coq Require Import List NArith Arith Bool Lia.
From HV Require Import Base.Res Base.Str Gen.SidecarCodes Model.Sidecar Proofs.SidecarProofs.
Import ListNotations.

(* ------------------------------------------------------------------ *)
(* generic                                                             *)
Lemma flat_map_nil {A B} (f : A -> list B) l : (forall x, In x l -> f x = []) -> flat_map f l = [].
Proof.
  induction l as [|a l IH]; intros H; simpl; [reflexivity|].
  rewrite (H a (or_introl eq_refl)), IH; [reflexivity|]. intros x Hx. apply H. right. exact Hx.
Qed.

Lemma any_error_flat_map_all {A} (f : A -> list issue) l :
  (forall x, In x l -> any_error (f x) = false) -> any_error (flat_map f l) = false.
Proof.
  intros H. apply any_error_false_iff. intros i Hi. apply in_flat_map in Hi as [x [Hx Hi]].
  apply (any_error_in _ _ (H x Hx) Hi).
Qed.

Lemma any_error_concat_all ls : (forall l, In l ls -> any_error l = false) -> any_error (concat ls) = false.
Proof.
  intros H. apply any_error_false_iff. intros i Hi. apply in_concat in Hi as [l [Hl Hi]].
  apply (any_error_in _ _ (H l Hl) Hi).
Qed.

Lemma mapM_all {A B} (f : A -> res B) (P : B -> Prop) l :
  (forall x, In x l -> exists y, f x = Ok y /\ P y) ->
  exists ys, mapM f l = Ok ys /\ (forall y, In y ys -> P y).
Proof.
  induction l as [|a l IH]; intros H; simpl.
  - exists []. split; [reflexivity | intros y []].
  - destruct (H a (or_introl eq_refl)) as [y [Hy Py]]. rewrite Hy. simpl.
    destruct IH as [ys [Hys Pys]]. { intros x Hx. apply H. right. exact Hx. }
    rewrite Hys. simpl. exists (y :: ys). split; [reflexivity|].
    intros z [<-|Hz]; [exact Py | apply Pys; exact Hz].
Qed.

Lemma mapM_pointwise {A B C} (f : A -> res B) (g : B -> C) (h : A -> C) l ys :
  mapM f l = Ok ys -> (forall x y, In x l -> f x = Ok y -> g y = h x) -> map g ys = map h l.
Proof.
  revert ys; induction l as [|a l IH]; intros ys H Hp; simpl in *.
  - inversion H. reflexivity.
  - destruct (f a) as [y|e] eqn:Ha; simpl in H; [|discriminate].
    destruct (mapM f l) as [ys'|e] eqn:Hl; simpl in H; [|discriminate].
    inversion H; subst. simpl. f_equal.
    + apply (Hp a y (or_introl eq_refl) Ha).
    + apply IH; [reflexivity|]. intros x y' Hx. apply Hp. right. exact Hx.
Qed.

Lemma lookup_some_in {A} k (l : list (str * A)) v : lookup k l = Some v -> In (k, v) l.
Proof.
  induction l as [|[k' v'] t IH]; simpl; intros H; [discriminate|].
  destruct (str_eqb k k') eqn:E.
  - apply str_eqb_spec in E. inversion H; subst. left; reflexivity.
  - right. apply IH. exact H.
Qed.

Lemma in_has_key {A} k (v : A) l : In (k, v) l -> has_key k l = true.
Proof.
  intros H. unfold has_key.
  destruct (lookup_in_keys k l) as [x Hx]; [apply in_map_iff; exists (k, v); split; [reflexivity|exact H]|].
  rewrite Hx. reflexivity.
Qed.

Lemma count_hash_has s : has_hash s = negb (Nat.eqb (count ch_hash s) 0).
Proof.
  unfold has_hash. induction s as [|x t IH]; [reflexivity|]. cbn [existsb count].
  rewrite IH, (N.eqb_sym ch_hash x). destruct (N.eqb x ch_hash); [reflexivity|].
  cbn [orb Nat.add]. reflexivity.
Qed.

(* ------------------------------------------------------------------ *)
(* shapes of a well-formed entry                                       *)
Lemma col_ok_cases {chk} sc name v :
  col_ok_gen chk sc (name, v) = true ->
  (detect_column_type false v = Some CIgnore /\ detect_column_type true v = Some CIgnore /\
   column_strings v = [] /\ check_for_key s_HED v = false)
  \/ (exists kvs s, v = JObj kvs /\ lookup s_HED kvs = Some (JStr s) /\ (chk = true -> count ch_hash s = 1) /\
                    string_ok sc name s = true)
  \/ (exists kvs hv, v = JObj kvs /\ lookup s_HED kvs = Some (JObj hv) /\ hv <> [] /\
                     forallb (cat_entry_ok_gen chk sc name) hv = true).
Proof.
  unfold col_ok_gen. intros H.
  assert (Hnon : forall w, (forall kvs, w <> JObj kvs) -> negb (check_for_key s_HED w) = true ->
                 detect_column_type false w = Some CIgnore /\ detect_column_type true w = Some CIgnore /\
                 column_strings w = [] /\ check_for_key s_HED w = false).
  { intros w Hw Hc. apply negb_true_iff in Hc. destruct w; try (repeat split; try reflexivity; exact Hc).
    exfalso. apply (Hw kvs). reflexivity. }
  destruct v; try (left; apply Hnon; [intros kvs0; discriminate | exact H]).
  destruct (lookup s_HED kvs) as [h|] eqn:El.
  - destruct h; try discriminate.
    + right. left. apply andb_true_iff in H as [H1 H2].
      assert (Hc : chk = true -> count ch_hash s = 1).
      { intros ->. cbn [negb orb] in H1. apply Nat.eqb_eq. exact H1. }
      exists kvs, s. repeat split; assumption.
    + right. right. apply andb_true_iff in H as [H1 H2]. exists kvs, kvs0. repeat split; try assumption.
      destruct kvs0; [discriminate | discriminate].
  - left. apply negb_true_iff in H. unfold detect_column_type, column_strings. rewrite El.
    destruct (negb (truthy (JObj kvs))); repeat split; try reflexivity; exact H.
Qed.

Lemma cat_entries_all_str {chk} sc name hv :
  forallb (cat_entry_ok_gen chk sc name) hv = true -> forallb is_str (map snd hv) = true.
Proof.
  induction hv as [|[k v] t IH]; simpl; intros H; [reflexivity|].
  apply andb_true_iff in H as [H1 H2]. rewrite (IH H2), andb_true_r.
  unfold cat_entry_ok_gen in H1. simpl in H1. destruct v; try discriminate. reflexivity.
Qed.

(* a well-formed entry has the same column type with and without basic validation *)
Lemma col_ok_detect sc name v :
  col_ok sc (name, v) = true ->
  exists c, detect_column_type true v = Some c /\ detect_column_type false v = Some c.
Proof.
  intros H. unfold col_ok in H.
  destruct (col_ok_cases sc name v H) as [[H1 [H2 _]]|[[kvs [s [-> [El [Hc _]]]]]|[kvs [hv [-> [El [_ Hf]]]]]]].
  - exists CIgnore. split; assumption.
  - exists CValue. rewrite !(detect_str _ _ _ El), count_hash_has, (Hc eq_refl). split; reflexivity.
  - exists CCategorical. rewrite !(detect_obj _ _ _ El), (cat_entries_all_str _ _ _ Hf). split; reflexivity.
Qed.

Lemma col_ok_strings {chk} sc name v s :
  col_ok_gen chk sc (name, v) = true -> In s (column_strings v) -> string_ok sc name s = true.
Proof.
  intros H Hs. destruct (col_ok_cases sc name v H) as [[_ [_ [H3 _]]]|[[kvs [s0 [-> [El [_ Hok]]]]]|[kvs [hv [-> [El [_ Hf]]]]]]].
  - rewrite H3 in Hs. contradiction.
  - unfold column_strings in Hs. rewrite El in Hs. destruct Hs as [<-|[]]. exact Hok.
  - unfold column_strings in Hs. rewrite El in Hs. apply in_flat_map in Hs as [[k w] [Hkw Hs]].
    rewrite forallb_forall in Hf. specialize (Hf _ Hkw). unfold cat_entry_ok_gen in Hf. cbn [snd fst] in *.
    destruct w; try contradiction. destruct Hs as [<-|[]].
    apply andb_true_iff in Hf as [_ Hf]. exact Hf.
Qed.

(* ------------------------------------------------------------------ *)
(* A. validate_structure reports nothing                               *)
Lemma cat_entries_ok {chk} sc name hv :
  forallb (cat_entry_ok_gen chk sc name) hv = true -> flat_map categorical_entry_issues hv = [].
Proof.
  intros H. apply flat_map_nil. intros [k w] Hkw. rewrite forallb_forall in H. specialize (H _ Hkw).
  unfold cat_entry_ok_gen in H. cbn [snd fst] in H. destruct w; try discriminate.
  apply andb_true_iff in H as [H _]. apply andb_true_iff in H as [H _]. apply andb_true_iff in H as [H1 H2].
  unfold categorical_entry_issues. destruct s; [discriminate|]. cbn [truthy negb is_str].
  apply negb_true_iff in H2. unfold mem_str, reserved_category_values. cbn [existsb].
  unfold s_NA in H2. rewrite H2. reflexivity.
Qed.

Lemma structure_col_clean {chk} sc name v :
  name <> s_HED -> col_ok_gen chk sc (name, v) = true -> validate_column_structure (name, v) = Ok [].
Proof.
  intros Hn H. unfold validate_column_structure. rewrite (not_reserved_of_neq name Hn).
  destruct (col_ok_cases sc name v H) as [[H1 [_ [_ H4]]]|[[kvs [s [-> [El _]]]]|[kvs [hv [-> [El [Hne Hf]]]]]]].
  - rewrite H1, H4. reflexivity.
  - rewrite (detect_str false _ _ El). reflexivity.
  - rewrite (detect_obj false _ _ El). cbn [andb].
    unfold validate_categorical_column, subscript, getitem. rewrite El. cbn [bind items].
    rewrite (cat_entries_ok _ _ _ Hf). destruct hv; [congruence|]. reflexivity.
Qed.

Lemma concat_all_nil {A} (l : list (list A)) : (forall x, In x l -> x = []) -> concat l = [].
Proof.
  induction l as [|a l IH]; intros H; simpl; [reflexivity|].
  rewrite (H a (or_introl eq_refl)), IH; [reflexivity|]. intros x Hx. apply H. right. exact Hx.
Qed.

Lemma struct_ok_names {chk} sc : struct_ok_gen chk sc = true -> forall name v, In (name, v) sc -> name <> s_HED.
Proof.
  unfold struct_ok_gen. intros H name v Hin Heq. apply andb_true_iff in H as [H _].
  apply negb_true_iff in H. subst name.
  assert (mem_str s_HED (map fst sc) = true).
  { apply mem_str_In. apply in_map_iff. exists (s_HED, v). split; [reflexivity | exact Hin]. }
  congruence.
Qed.

Lemma struct_ok_cols {chk} sc : struct_ok_gen chk sc = true -> forall col, In col sc -> col_ok_gen chk sc col = true.
Proof.
  unfold struct_ok_gen. intros H col Hin. apply andb_true_iff in H as [_ H].
  rewrite forallb_forall in H. apply H. exact Hin.
Qed.

Lemma structure_clean {chk} sc : struct_ok_gen chk sc = true -> validate_structure sc = Ok [].
Proof.
  intros H. unfold validate_structure.
  rewrite (mapM_map validate_column_structure (fun _ => []) sc).
  - cbn [bind]. f_equal. apply concat_all_nil. intros x Hx. apply in_map_iff in Hx as [c [<- _]]. reflexivity.
  - intros [name v] Hin. apply (structure_col_clean (chk := chk) sc).
    + apply (struct_ok_names sc H name v Hin).
    + apply (struct_ok_cols sc H _ Hin).
Qed.

(* ------------------------------------------------------------------ *)
(* the strings of a typed column                                       *)
Section C.
Variable fixed : bool.
Variable V_defs : list str -> list issue.
Variable V_basic : list str -> str -> list issue.
Variable V_defcount : str -> nat.
Variable V_hashes : list str -> str -> nat.
Variable V_full : list str -> str -> list str -> list str -> list issue.

Lemma typed_strings v c :
  good fixed v -> detect_column_type true v = Some c ->
  exists hs, get_hed_strings fixed (Some c) v = Ok hs /\ map snd hs = column_strings v.
Proof.
  intros Hg Hd. destruct (is_obj v) eqn:Ho.
  - destruct v; try discriminate. unfold detect_column_type in Hd. unfold column_strings.
    cbn [get_hed_strings hed_dict bind].
    destruct (negb (truthy (JObj kvs))) eqn:Et.
    + destruct kvs; [|discriminate]. cbn [lookup]. exists []. split; reflexivity.
    + destruct (lookup s_HED kvs) as [h|] eqn:El.
      * destruct h; try discriminate.
        -- destruct (true && negb (has_hash s)); [discriminate|]. eexists; split; reflexivity.
        -- destruct (forallb is_str (map snd kvs0)) eqn:Ef; [|discriminate].
           destruct (series_of_dict_strings _ Ef) as [r [Hr Hm]]. exists r. split; assumption.
      * exists []. split; reflexivity.
  - assert (Hcs : column_strings v = []) by (destruct v; try reflexivity; discriminate).
    rewrite Hcs. cbn [get_hed_strings]. rewrite (hed_dict_nonobj fixed v Hg Ho). exists []. split; reflexivity.
Qed.

Lemma col_ok_ref_strings sc name v :
  good fixed v -> col_ok sc (name, v) = true ->
  exists hs, ref_strings_of_column fixed v = Ok hs /\ map snd hs = column_strings v.
Proof.
  intros Hg H. destruct (col_ok_detect sc name v H) as [c [Hc _]].
  rewrite (ref_strings_some fixed v c Hc). apply typed_strings; assumption.
Qed.

(* ------------------------------------------------------------------ *)
(* B. _validate_refs reports nothing                                   *)
Lemma possible_has_HED sc : mem_str s_HED (possible_column_refs sc) = true.
Proof.
  unfold possible_column_refs. destruct (mem_str s_HED (all_hed_columns sc)) eqn:E; [exact E|].
  apply mem_str_In. apply in_or_app. right. left. reflexivity.
Qed.

Lemma spec_bearing_is_hed_column v : spec_bearing v = true -> is_hed_column v = true.
Proof.
  unfold spec_bearing, is_hed_column. destruct v; try discriminate.
  destruct (lookup s_HED kvs) as [h|] eqn:El; [|discriminate]. destruct h; try discriminate; intros H.
  - rewrite (detect_str true _ _ El). destruct (true && negb (has_hash s)); reflexivity.
  - rewrite (detect_obj true _ _ El), H. reflexivity.
Qed.

Lemma hed_bearing_is_hed_column v : hed_bearing v = true -> is_hed_column v = true.
Proof.
  unfold hed_bearing, is_hed_column. destruct (detect_column_type true v) as [[]|]; try discriminate; reflexivity.
Qed.

Lemma target_possible sc m : ref_target_ok sc m = true -> mem_str m (possible_column_refs sc) = true.
Proof.
  unfold ref_target_ok. intros H. apply andb_true_iff in H as [H _].
  apply existsb_exists in H as [[n v] [Hin Hc]]. cbn [fst snd] in Hc.
  apply andb_true_iff in Hc as [He Hb]. apply str_eqb_spec in He. subst n.
  apply mem_str_In. unfold possible_column_refs.
  assert (Hp : In m (all_hed_columns sc)).
  { unfold all_hed_columns. apply in_map_iff. exists (m, v). split; [reflexivity|].
    apply filter_In. split; [exact Hin | apply spec_bearing_is_hed_column; exact Hb]. }
  destruct (mem_str s_HED (all_hed_columns sc)); [exact Hp | apply in_or_app; left; exact Hp].
Qed.

Lemma target_in_names sc m : ref_target_ok sc m = true -> In m (map fst sc).
Proof.
  unfold ref_target_ok. intros H. apply andb_true_iff in H as [H _].
  apply existsb_exists in H as [[n v] [Hin Hc]]. cbn [fst snd] in Hc.
  apply andb_true_iff in Hc as [He _]. apply str_eqb_spec in He. subst n.
  apply in_map_iff. exists (m, v). split; [reflexivity | exact Hin].
Qed.

Lemma string_ok_refs sc name s :
  string_ok sc name s = true ->
  braces_ok s = true /\
  forall m, In m (find_refs s) -> m <> name /\ (m = s_HED \/ ref_target_ok sc m = true).
Proof.
  unfold string_ok. intros H. apply andb_true_iff in H as [H1 H2]. split; [exact H1|].
  intros m Hm. rewrite forallb_forall in H2. specialize (H2 m Hm).
  apply andb_true_iff in H2 as [Ha Hb]. split.
  - intros ->. rewrite str_eqb_refl in Ha. discriminate.
  - apply orb_true_iff in Hb as [Hb|Hb]; [left; apply str_eqb_spec; exact Hb | right; exact Hb].
Qed.

Lemma refs_of_string_ok sc name s :
  string_ok sc name s = true -> refs_of_string (possible_column_refs sc) s = ([], find_refs s).
Proof.
  intros H. destruct (string_ok_refs sc name s H) as [Hb Hr]. unfold refs_of_string. f_equal.
  apply braces_spec in Hb. rewrite Hb. cbn [map app].
  apply flat_map_nil. intros m Hm. destruct (Hr m Hm) as [_ [->|Ht]].
  - rewrite possible_has_HED. reflexivity.
  - rewrite (target_possible sc m Ht). reflexivity.
Qed.

Lemma refs_column_ok {chk} sc name v :
  (exists hs, ref_strings_of_column fixed v = Ok hs /\ map snd hs = column_strings v) ->
  col_ok_gen chk sc (name, v) = true ->
  refs_column fixed (possible_column_refs sc) (name, v) = Ok ([], (name, col_refs v)).
Proof.
  intros [hs [Hhs Hm]] H.
  unfold refs_column. rewrite Hhs. cbn [bind].
  assert (Hper : map (fun kv : str * str => refs_of_string (possible_column_refs sc) (snd kv)) hs
                 = map (fun kv : str * str => (@nil issue, find_refs (snd kv))) hs).
  { apply map_ext_in. intros [k s] Hks. cbn [snd]. apply (refs_of_string_ok sc name).
    apply (col_ok_strings sc name v s H). rewrite <- Hm. apply in_map_iff. exists (k, s). split; [reflexivity|exact Hks]. }
  rewrite Hper.
  assert (H1 : flat_map fst (map (fun kv : str * str => (@nil issue, find_refs (snd kv))) hs) = []).
  { apply flat_map_nil. intros x Hx. apply in_map_iff in Hx as [kv [<- _]]. reflexivity. }
  assert (H2 : flat_map snd (map (fun kv : str * str => (@nil issue, find_refs (snd kv))) hs) = col_refs v).
  { unfold col_refs. rewrite <- Hm. clear. induction hs as [|kv t IH]; [reflexivity|].
    cbn [map flat_map snd]. rewrite IH. reflexivity. }
  rewrite H1, H2. cbn [app].
  assert (Hs : mem_str name (col_refs v) = false).
  { destruct (mem_str name (col_refs v)) eqn:E; [|reflexivity]. apply mem_str_In in E.
    unfold col_refs in E. apply in_flat_map in E as [s [Hs Hn]].
    destruct (string_ok_refs sc name s (col_ok_strings sc name v s H Hs)) as [_ Hr].
    destruct (Hr name Hn) as [Hne _]. congruence. }
  rewrite Hs. reflexivity.
Qed.

Lemma refs_clean_gen {chk} sc :
  (forall name v, In (name, v) sc ->
     exists hs, ref_strings_of_column fixed v = Ok hs /\ map snd hs = column_strings v) ->
  struct_ok_gen chk sc = true -> validate_refs fixed sc = Ok [].
Proof.
  intros Hg H. unfold validate_refs.
  rewrite (mapM_map (refs_column fixed (possible_column_refs sc))
                    (fun col : str * json => (@nil issue, (fst col, col_refs (snd col)))) sc).
  2:{ intros [name v] Hin. cbn [fst snd]. apply (refs_column_ok (chk := chk)).
      - apply (Hg _ _ Hin). - apply (struct_ok_cols sc H _ Hin). }
  cbn [bind]. f_equal.
  rewrite (flat_map_nil fst). 2:{ intros x Hx. apply in_map_iff in Hx as [c [<- _]]. reflexivity. }
  cbn [app]. unfold nested_issues. apply flat_map_nil. intros [n refs] Hcr.
  apply filter_In in Hcr as [Hcr _]. rewrite map_map in Hcr. apply in_map_iff in Hcr as [[n0 v0] [Heq Hin0]].
  cbn [fst snd] in Heq. inversion Heq; subst n refs. clear Heq. cbn [fst snd].
  apply flat_map_nil. intros ref Href.
  match goal with |- (if ?c then _ else _) = _ => destruct c eqn:Ec end; [|reflexivity].
  exfalso. apply andb_true_iff in Ec as [Ek _]. unfold has_key in Ek.
  match type of Ek with (match ?l with _ => _ end) = _ => destruct l as [rs|] eqn:El end; [|discriminate].
  apply lookup_some_in in El. apply filter_In in El as [El Hne]. rewrite map_map in El.
  apply in_map_iff in El as [[n1 v1] [Heq Hin1]]. cbn [fst snd] in Heq. inversion Heq; subst n1 rs. clear Heq.
  unfold nonempty_refs in Hne. cbn [snd] in Hne.
  unfold col_refs in Href. apply in_flat_map in Href as [s [Hs Hr]].
  pose proof (col_ok_strings sc n0 v0 s (struct_ok_cols sc H _ Hin0) Hs) as Hok.
  destruct (string_ok_refs sc n0 s Hok) as [_ Hrefs]. destruct (Hrefs ref Hr) as [_ [->|Ht]].
  - apply (struct_ok_names sc H s_HED v1 Hin1). reflexivity.
  - unfold ref_target_ok in Ht. apply andb_true_iff in Ht as [_ Ht]. rewrite forallb_forall in Ht.
    specialize (Ht _ Hin1). cbn [fst snd] in Ht. rewrite str_eqb_refl in Ht. cbn [negb orb] in Ht.
    destruct (col_refs v1); discriminate.
Qed.

Lemma refs_clean sc :
  (forall col, In col sc -> good fixed (snd col)) -> struct_ok sc = true -> validate_refs fixed sc = Ok [].
Proof.
  intros Hg H. apply (refs_clean_gen (chk := true)); [|exact H].
  intros name v Hin. apply (col_ok_ref_strings sc name v (Hg _ Hin)).
  apply (struct_ok_cols (chk := true) sc H _ Hin).
Qed.

(* the code as it is now also screens value strings that lack '#', so the
   screened strings of a column are all its strings whatever the '#' counts *)
Lemma col_ok_ref_strings_now {chk} sc name v :
  fixed = true -> col_ok_gen chk sc (name, v) = true ->
  exists hs, ref_strings_of_column fixed v = Ok hs /\ map snd hs = column_strings v.
Proof.
  intros Hf H.
  destruct (col_ok_cases sc name v H) as [[_ [H2 _]]|[[kvs [s [-> [El _]]]]|[kvs [hv [-> [El [_ Hc]]]]]]].
  - rewrite (ref_strings_some fixed v CIgnore H2). apply typed_strings; [left; exact Hf | exact H2].
  - unfold ref_strings_of_column, column_strings. rewrite (detect_str true _ _ El), El, Hf.
    destruct (has_hash s); cbn [andb negb get_hed_strings hed_dict bind]; rewrite ?El; eexists; split; reflexivity.
  - assert (Hd : detect_column_type true (JObj kvs) = Some CCategorical).
    { rewrite (detect_obj true _ _ El), (cat_entries_all_str _ _ _ Hc). reflexivity. }
    rewrite (ref_strings_some fixed _ CCategorical Hd). apply typed_strings; [left; exact Hf | exact Hd].
Qed.

Lemma refs_clean_but_hash sc :
  fixed = true -> struct_ok_but_hash sc = true -> validate_refs fixed sc = Ok [].
Proof.
  intros Hf H. apply (refs_clean_gen (chk := false)); [|exact H].
  intros name v Hin. apply (col_ok_ref_strings_now (chk := false) sc name v Hf).
  apply (struct_ok_cols (chk := false) sc H _ Hin).
Qed.


(* ------------------------------------------------------------------ *)
(* C. the string phase reports only what the string validators report  *)
Lemma col_ok_string_type sc name v c s :
  col_ok sc (name, v) = true -> detect_column_type false v = Some c -> In s (column_strings v) ->
  (c = CValue /\ count ch_hash s = 1) \/ (c = CCategorical /\ count ch_hash s = 0).
Proof.
  intros H Hd Hs. unfold col_ok in H.
  destruct (col_ok_cases sc name v H) as [[_ [_ [H3 _]]]|[[kvs [s0 [-> [El [Hc _]]]]]|[kvs [hv [-> [El [_ Hf]]]]]]].
  - rewrite H3 in Hs. contradiction.
  - left. rewrite (detect_str false _ _ El) in Hd. cbn [andb] in Hd. inversion Hd.
    unfold column_strings in Hs. rewrite El in Hs. destruct Hs as [<-|[]]. split; [reflexivity | exact (Hc eq_refl)].
  - right. rewrite (detect_obj false _ _ El) in Hd. cbn [andb] in Hd. inversion Hd. split; [reflexivity|].
    unfold column_strings in Hs. rewrite El in Hs. apply in_flat_map in Hs as [[k w] [Hkw Hs]].
    rewrite forallb_forall in Hf. specialize (Hf _ Hkw). unfold cat_entry_ok_gen in Hf. cbn [snd fst] in *.
    destruct w; try contradiction. destruct Hs as [<-|[]].
    apply andb_true_iff in Hf as [Hf _]. apply andb_true_iff in Hf as [_ Hf]. cbn [negb orb] in Hf.
    apply Nat.eqb_eq. exact Hf.
Qed.

Lemma check_string_clean ds ct arc rs s :
  (ct = Some CValue /\ count ch_hash s = 1) \/ (ct = Some CCategorical /\ count ch_hash s = 0) ->
  (V_defcount s = 0 -> V_hashes ds s = count ch_hash s) ->
  any_error (V_basic ds s) = false ->
  (forall refs combo, any_error (V_full ds s refs combo) = false) ->
  (forall m, In m (find_refs s) -> exists x, lookup m rs = Some x) ->
  exists l, check_string V_basic V_defcount V_hashes V_full ds ct arc rs s = Ok l /\ any_error l = false.
Proof.
  intros Hct Hh Hb Hf Hl. unfold check_string.
  assert (Hp : (if Nat.eqb (V_defcount s) 0 then pound_sign_check ct (V_hashes ds s) else Ok []) = Ok []).
  { destruct (Nat.eqb (V_defcount s) 0) eqn:E; [|reflexivity]. apply Nat.eqb_eq in E. rewrite (Hh E).
    destruct Hct as [[-> ->]|[-> ->]]; reflexivity. }
  rewrite Hp. cbn [bind]. destruct arc.
  - eexists. split; [reflexivity|]. cbn [app]. rewrite app_nil_r. exact Hb.
  - destruct (mapM_total (fun key => getitem key rs) (find_refs s)) as [lists Hlists].
    { intros m Hm. destruct (Hl m Hm) as [x Hx]. unfold getitem. rewrite Hx. eexists; reflexivity. }
    rewrite Hlists. cbn [bind]. eexists. split; [reflexivity|]. cbn [app].
    rewrite any_error_app, Hb. cbn [orb]. apply any_error_flat_map_all. intros combo _. apply Hf.
Qed.

Lemma bad_spot_uniform counts :
  (forall c, In c counts -> c = 0) \/ (forall c, In c counts -> c <> 0) -> bad_spot counts = [].
Proof.
  intros H. unfold bad_spot.
  destruct (existsb (fun c => Nat.eqb c 0) counts) eqn:E1; [|reflexivity].
  destruct (existsb (fun c => negb (Nat.eqb c 0)) counts) eqn:E2; [|reflexivity].
  exfalso. apply existsb_exists in E1 as [c1 [Hc1 E1]]. apply existsb_exists in E2 as [c2 [Hc2 E2]].
  apply Nat.eqb_eq in E1. apply negb_true_iff in E2. apply Nat.eqb_neq in E2.
  destruct H as [H|H]; [apply E2, H, Hc2 | apply (H c1 Hc1), E1].
Qed.

Lemma check_column_clean sc ds arc rs name v :
  good fixed v -> col_ok sc (name, v) = true ->
  (forall s, In s (column_strings v) -> V_defcount s = 0 -> V_hashes ds s = count ch_hash s) ->
  (forall s, In s (column_strings v) -> any_error (V_basic ds s) = false) ->
  (forall s refs combo, In s (column_strings v) -> any_error (V_full ds s refs combo) = false) ->
  ((forall s, In s (column_strings v) -> V_defcount s = 0) \/
   (forall s, In s (column_strings v) -> V_defcount s <> 0)) ->
  (forall s m, In s (column_strings v) -> In m (find_refs s) -> exists x, lookup m rs = Some x) ->
  exists r, check_column fixed V_basic V_defcount V_hashes V_full ds arc rs (name, v) = Ok r /\
            any_error (fst r) = false /\ bad_spot (snd r) = [].
Proof.
  intros Hg H Hh Hb Hf Hd Hl.
  destruct (col_ok_detect sc name v H) as [c [Hc1 Hc2]].
  destruct (typed_strings v c Hg Hc1) as [hs [Hhs Hm]].
  unfold check_column. rewrite Hc2, Hhs. cbn [bind].
  destruct (mapM_all (fun kv : str * str =>
              check_string V_basic V_defcount V_hashes V_full ds (Some c) (mem_str name arc) rs (snd kv))
              (fun l => any_error l = false) hs) as [iss [Hiss Hall]].
  { intros [k s] Hks. cbn [snd].
    assert (Hs : In s (column_strings v)).
    { rewrite <- Hm. apply in_map_iff. exists (k, s). split; [reflexivity | exact Hks]. }
    apply check_string_clean.
    - destruct (col_ok_string_type sc name v c s H Hc2 Hs) as [[-> Hn]|[-> Hn]]; [left|right]; split; auto.
    - apply Hh. exact Hs.
    - apply Hb. exact Hs.
    - intros refs combo. apply Hf. exact Hs.
    - intros m Hmm. apply (Hl s m Hs Hmm). }
  rewrite Hiss. cbn [bind]. eexists. split; [reflexivity|]. cbn [fst snd]. split.
  - apply any_error_concat_all. exact Hall.
  - apply bad_spot_uniform.
    assert (Hcounts : forall cnt, In cnt (map (fun kv : str * str => V_defcount (snd kv)) hs) ->
                      exists s, In s (column_strings v) /\ cnt = V_defcount s).
    { intros cnt Hcnt. apply in_map_iff in Hcnt as [[k s] [<- Hks]]. exists s. split; [|reflexivity].
      rewrite <- Hm. apply in_map_iff. exists (k, s). split; [reflexivity | exact Hks]. }
    destruct Hd as [Hd|Hd]; [left|right]; intros cnt Hcnt; destruct (Hcounts cnt Hcnt) as [s [Hs ->]];
      apply Hd; exact Hs.
Qed.

Lemma basic_strings_doc sc :
  (forall col, In col sc -> good fixed (snd col)) -> struct_ok sc = true ->
  exists bhs, basic_strings fixed sc = Ok bhs /\
              map (map snd) bhs = map (fun c : str * json => column_strings (snd c)) sc.
Proof.
  intros Hg H. unfold basic_strings.
  destruct (mapM_total (fun col : str * json =>
              get_hed_strings fixed (detect_column_type true (snd col)) (snd col)) sc) as [bhs Hb].
  { intros col Hcol. apply get_basic_total. apply Hg. exact Hcol. }
  exists bhs. split; [exact Hb|].
  apply (mapM_pointwise _ _ _ _ _ Hb). intros [name v] y Hin Hy. cbn [snd] in *.
  destruct (col_ok_detect sc name v (struct_ok_cols sc H _ Hin)) as [c [Hc _]].
  destruct (typed_strings v c (Hg _ Hin) Hc) as [hs [Hhs Hm]]. rewrite Hc in Hy. rewrite Hhs in Hy.
  inversion Hy; subst y. exact Hm.
Qed.

Lemma strings_clean sc :
  (forall col, In col sc -> good fixed (snd col)) -> struct_ok sc = true ->
  any_error (V_defs (doc_strings sc)) = false ->
  (forall s, In s (doc_strings sc) -> any_error (V_basic (doc_strings sc) s) = false) ->
  (forall s refs combo, In s (doc_strings sc) -> any_error (V_full (doc_strings sc) s refs combo) = false) ->
  (forall s, In s (doc_strings sc) -> V_defcount s = 0 -> V_hashes (doc_strings sc) s = count ch_hash s) ->
  (forall col, In col sc -> (forall s, In s (column_strings (snd col)) -> V_defcount s = 0) \/
                            (forall s, In s (column_strings (snd col)) -> V_defcount s <> 0)) ->
  exists i3, validate_strings fixed V_defs V_basic V_defcount V_hashes V_full sc = Ok i3 /\
             any_error i3 = false.
Proof.
  intros Hg H Hd Hb Hf Hh Hdef.
  destruct (basic_strings_doc sc Hg H) as [bhs [Hbhs Hstrs]].
  unfold validate_strings. rewrite Hbhs. cbn [bind]. rewrite Hstrs.
  assert (Hds : concat (map (fun c : str * json => column_strings (snd c)) sc) = doc_strings sc).
  { unfold doc_strings. symmetry. apply flat_map_concat_map. }
  rewrite Hds.
  assert (Hlen : length (map fst sc) = length (map (fun c : str * json => column_strings (snd c)) sc)).
  { rewrite !map_length. reflexivity. }
  assert (Hin_ds : forall col s, In col sc -> In s (column_strings (snd col)) -> In s (doc_strings sc)).
  { intros col s Hc Hs. unfold doc_strings. apply in_flat_map. exists col. split; assumption. }
  match goal with |- exists i3, (let* cols := mapM ?F sc in _) = _ /\ _ =>
    destruct (mapM_all F (fun r => any_error (fst r) = false /\ bad_spot (snd r) = []) sc) as [cols [Hcols Hall]]
  end.
  { intros [name v] Hin. apply (check_column_clean sc).
    - apply (Hg _ Hin).
    - apply (struct_ok_cols sc H _ Hin).
    - intros s Hs. apply Hh. apply (Hin_ds _ s Hin Hs).
    - intros s Hs. apply Hb. apply (Hin_ds _ s Hin Hs).
    - intros s refs combo Hs. apply Hf. apply (Hin_ds _ s Hin Hs).
    - apply (Hdef _ Hin).
    - intros s m Hs Hm. apply refs_strings_keys; [exact Hlen|].
      pose proof (col_ok_strings sc name v s (struct_ok_cols sc H _ Hin) Hs) as Hok.
      destruct (string_ok_refs sc name s Hok) as [_ Hr]. destruct (Hr m Hm) as [_ [->|Ht]].
      + left. reflexivity.
      + right. apply target_in_names. exact Ht. }
  rewrite Hcols. cbn [bind]. eexists. split; [reflexivity|].
  rewrite !any_error_app, Hd. cbn [orb]. apply orb_false_iff. split.
  - apply any_error_flat_map_all. intros r Hr. apply (Hall r Hr).
  - rewrite (flat_map_nil (fun c : list issue * list nat => bad_spot (snd c))); [reflexivity|].
    intros r Hr. apply (Hall r Hr).
Qed.

Lemma wellformed_clean_gen sc :
  (forall col, In col sc -> good fixed (snd col)) -> struct_ok sc = true ->
  any_error (V_defs (doc_strings sc)) = false ->
  (forall s, In s (doc_strings sc) -> any_error (V_basic (doc_strings sc) s) = false) ->
  (forall s refs combo, In s (doc_strings sc) -> any_error (V_full (doc_strings sc) s refs combo) = false) ->
  (forall s, In s (doc_strings sc) -> V_defcount s = 0 -> V_hashes (doc_strings sc) s = count ch_hash s) ->
  (forall col, In col sc -> (forall s, In s (column_strings (snd col)) -> V_defcount s = 0) \/
                            (forall s, In s (column_strings (snd col)) -> V_defcount s <> 0)) ->
  exists out, validate_loaded fixed V_defs V_basic V_defcount V_hashes V_full sc = Ok out /\
              error_codes out = [].
Proof.
  intros Hg H Hd Hb Hf Hh Hdef.
  destruct (strings_clean sc Hg H Hd Hb Hf Hh Hdef) as [i3 [H3 Hc3]].
  unfold validate_loaded. rewrite (structure_clean sc H). cbn [bind].
  rewrite (refs_clean sc Hg H). cbn [bind app any_error existsb]. rewrite H3. cbn [bind].
  eexists. split; [reflexivity|]. apply error_codes_nil. exact Hc3.
Qed.

End C.


(* ------------------------------------------------------------------ *)
(* '#'-count faults and nested references                              *)

(* the structure/reference screening reported an error: validate() returns
   exactly the screening issues (the only allowed early exit) *)
Definition early_exit (fixed : bool) (sc : list (str * json)) (out : list issue) : Prop :=
  exists i1 i2, validate_structure sc = Ok i1 /\ validate_refs fixed sc = Ok i2 /\
                any_error (i1 ++ i2) = true /\ out = i1 ++ i2.

Lemma early_exit_has_error fixed sc out : early_exit fixed sc out -> error_codes out <> [].
Proof.
  intros [i1 [i2 [_ [_ [Ha ->]]]]] He. unfold any_error in Ha. apply existsb_exists in Ha as [[c e] [Hin Hi]].
  cbn in Hi. subst e. pose proof (error_codes_in _ _ Hin) as Hc. rewrite He in Hc. contradiction.
Qed.

Lemma series_in hv : forall r k s, series_of_dict hv = Ok r -> In (k, JStr s) hv -> In (k, s) r.
Proof.
  induction hv as [|[k0 v0] t IH]; intros r k s H Hin; [contradiction|].
  cbn [series_of_dict] in H. destruct v0; try discriminate.
  destruct (series_of_dict t) as [r'|] eqn:Et; cbn [bind] in H; [|discriminate]. inversion H; subst r.
  destruct Hin as [Hin|Hin]; [inversion Hin; subst; left; reflexivity | right; apply (IH r' k s eq_refl Hin)].
Qed.

Section G.
Variable fixed : bool.
Variable V_defs : list str -> list issue.
Variable V_basic : list str -> str -> list issue.
Variable V_defcount : str -> nat.
Variable V_hashes : list str -> str -> nat.
Variable V_full : list str -> str -> list str -> list str -> list issue.
Notation VL := (validate_loaded fixed V_defs V_basic V_defcount V_hashes V_full).

Lemma strings_phase_in sc i3 name v hs k s :
  validate_strings fixed V_defs V_basic V_defcount V_hashes V_full sc = Ok i3 -> In (name, v) sc ->
  get_hed_strings fixed (detect_column_type false v) v = Ok hs -> In (k, s) hs ->
  exists ds arc rs l,
    check_string V_basic V_defcount V_hashes V_full ds (detect_column_type false v) arc rs s = Ok l /\
    (forall i, In i l -> In i i3).
Proof.
  intros H Hin Hhs Hks. unfold validate_strings in H.
  destruct (basic_strings fixed sc) as [bhs|] eqn:Eb; [|discriminate]. cbn [bind] in H.
  match type of H with context [mapM ?F sc] => destruct (mapM F sc) as [cols|] eqn:Ec end; [|discriminate].
  cbn [bind] in H. inversion H; subst i3. clear H.
  destruct (mapM_in _ _ _ Ec _ Hin) as [r [Hr Hrin]].
  unfold check_column in Hr. rewrite Hhs in Hr. cbn [bind] in Hr.
  match type of Hr with context [mapM ?F hs] => destruct (mapM F hs) as [iss|] eqn:Ei end; [|discriminate].
  cbn [bind] in Hr. inversion Hr; subst r. clear Hr.
  destruct (mapM_in _ _ _ Ei _ Hks) as [l [Hl Hlin]]. cbn [snd] in Hl.
  eexists _, _, _, l. split; [exact Hl|].
  intros i Hi. apply in_or_app. right. apply in_or_app. left.
  apply in_flat_map. eexists. split; [exact Hrin|]. cbn [fst]. apply in_concat. exists l. split; assumption.
Qed.

Lemma check_string_pound ds ct arc rs s l p :
  check_string V_basic V_defcount V_hashes V_full ds ct arc rs s = Ok l -> V_defcount s = 0 ->
  pound_sign_check ct (V_hashes ds s) = Ok p -> forall i, In i p -> In i l.
Proof.
  intros H Hc Hp i Hi. unfold check_string in H. rewrite Hc in H. cbn [Nat.eqb] in H. rewrite Hp in H.
  cbn [bind] in H. destruct arc.
  - inversion H; subst l. apply in_or_app. right. apply in_or_app. left. exact Hi.
  - match type of H with context [mapM ?F ?L] => destruct (mapM F L) as [lists|] end; [|discriminate].
    cbn [bind] in H. inversion H; subst l. apply in_or_app. right. apply in_or_app. left. exact Hi.
Qed.

(* common part: a string whose placeholder count is wrong for its column *)
Lemma pound_fault sc name v hs k s kind :
  all_good fixed sc -> (fixed = true \/ hashless_refs_known sc = true) ->
  In (name, v) sc ->
  (forall i1, validate_structure sc = Ok i1 -> any_error i1 = false ->
     get_hed_strings fixed (detect_column_type false v) v = Ok hs /\ In (k, s) hs) ->
  V_defcount s = 0 ->
  (forall ds, pound_sign_check (detect_column_type false v) (V_hashes ds s) = Ok [mk kind]) ->
  exists out, VL sc = Ok out /\ (In (kind_code kind) (error_codes out) \/ early_exit fixed sc out).
Proof.
  intros Hg Hfix Hin Hstr Hc Hp.
  destruct (validate_structure_total sc) as [i1 H1].
  destruct (validate_refs_total fixed sc (all_good_cols fixed sc Hg)) as [i2 H2].
  unfold validate_loaded. rewrite H1, H2. cbn [bind].
  destruct (any_error (i1 ++ i2)) eqn:Ea.
  - eexists. split; [reflexivity|]. right. exists i1, i2. repeat split; assumption.
  - destruct (validate_strings_total fixed V_defs V_basic V_defcount V_hashes V_full sc i1 i2
                (all_good_cols fixed sc Hg) Hfix H1 H2 Ea) as [i3 H3].
    rewrite H3. cbn [bind]. eexists. split; [reflexivity|]. left.
    rewrite any_error_app in Ea. apply orb_false_iff in Ea as [Ea1 _].
    destruct (Hstr i1 H1 Ea1) as [Hhs Hks].
    destruct (strings_phase_in sc i3 name v hs k s H3 Hin Hhs Hks) as [ds [arc [rs [l [Hl Hsub]]]]].
    apply error_codes_in. apply in_or_app. right. apply in_or_app. right. apply Hsub.
    pose proof (check_string_pound ds _ arc rs s l _ Hl Hc (Hp ds) (mk kind) (or_introl eq_refl)) as Hi.
    unfold mk in Hi. rewrite all_kinds_errors in Hi. exact Hi.
Qed.

(* a value column whose string does not hold exactly one '#' *)
Lemma fault_value_hash sc name kvs s :
  all_good fixed sc -> (fixed = true \/ hashless_refs_known sc = true) ->
  In (name, JObj kvs) sc -> lookup s_HED kvs = Some (JStr s) ->
  V_defcount s = 0 -> (forall ds, V_hashes ds s = count ch_hash s) -> count ch_hash s <> 1 ->
  exists out, VL sc = Ok out /\ (In c_PLACEHOLDER_INVALID (error_codes out) \/ early_exit fixed sc out).
Proof.
  intros Hg Hfix Hin El Hc Hh Hn.
  apply (pound_fault sc name (JObj kvs) [([], s)] [] s K_INVALID_POUND_SIGNS_VALUE Hg Hfix Hin); [|exact Hc|].
  - intros _ _ _. rewrite (detect_str false _ _ El). cbn [andb get_hed_strings hed_dict bind]. rewrite El.
    split; [reflexivity | left; reflexivity].
  - intros ds. rewrite (detect_str false _ _ El), Hh. cbn [andb pound_sign_check].
    apply Nat.eqb_neq in Hn. rewrite Hn. reflexivity.
Qed.

(* a categorical entry that holds a '#' *)
Lemma fault_category_hash sc name kvs hv key s :
  all_good fixed sc -> (fixed = true \/ hashless_refs_known sc = true) ->
  In (name, JObj kvs) sc -> lookup s_HED kvs = Some (JObj hv) -> In (key, JStr s) hv ->
  V_defcount s = 0 -> (forall ds, V_hashes ds s = count ch_hash s) -> count ch_hash s <> 0 ->
  exists out, VL sc = Ok out /\ (In c_PLACEHOLDER_INVALID (error_codes out) \/ early_exit fixed sc out).
Proof.
  intros Hg Hfix Hin El Hkv Hc Hh Hn.
  destruct (validate_structure_total sc) as [i1 H1].
  destruct (any_error i1) eqn:Ea1.
  - (* the screening already reports an error *)
    destruct (validate_refs_total fixed sc (all_good_cols fixed sc Hg)) as [i2 H2].
    unfold validate_loaded. rewrite H1, H2. cbn [bind]. rewrite any_error_app, Ea1. cbn [orb].
    eexists. split; [reflexivity|]. right. exists i1, i2. repeat split; try assumption.
    rewrite any_error_app, Ea1. reflexivity.
  - assert (Hstr : forallb is_str (map snd hv) = true).
    { pose proof H1 as H1'. unfold validate_structure in H1'.
      destruct (mapM validate_column_structure sc) as [l1|] eqn:E1; [|discriminate]. cbn [bind] in H1'.
      inversion H1'; subst i1. destruct (mapM_in _ _ _ E1 _ Hin) as [l [Hl Hlin]].
      apply (structure_clean_cat name kvs hv l Hl (any_error_concat_in _ _ Ea1 Hlin) El). }
    destruct (series_of_dict_total _ Hstr) as [r Hr].
    apply (pound_fault sc name (JObj kvs) r key s K_INVALID_POUND_SIGNS_CATEGORY Hg Hfix Hin); [|exact Hc|].
    + intros _ _ _. rewrite (detect_obj false _ _ El). cbn [andb get_hed_strings hed_dict bind]. rewrite El.
      cbn [series_of]. split; [exact Hr | apply (series_in hv r key s Hr Hkv)].
    + intros ds. rewrite (detect_obj false _ _ El), Hh. cbn [andb pound_sign_check].
      apply Nat.eqb_neq in Hn. rewrite Hn. reflexivity.
Qed.

(* nested references: a referenced column that holds references itself *)
Lemma refs_column_bearing possible name v :
  hed_bearing v = true ->
  exists iss, refs_column fixed possible (name, v) = Ok (iss, (name, col_refs v)).
Proof.
  intros Hb. destruct (hed_bearing_strings fixed v Hb) as [hs [Hhs Hm]].
  unfold refs_column. rewrite Hhs. cbn [bind]. eexists. f_equal. f_equal. f_equal.
  unfold col_refs. rewrite <- Hm. clear. induction hs as [|kv t IH]; [reflexivity|].
  cbn [map flat_map]. rewrite IH. reflexivity.
Qed.

Lemma fault_nested_ref sc n1 v1 n2 v2 :
  all_good fixed sc -> In (n1, v1) sc -> In (n2, v2) sc -> n1 <> n2 ->
  hed_bearing v1 = true -> hed_bearing v2 = true ->
  In n2 (col_refs v1) -> col_refs v2 <> [] ->
  exists out, VL sc = Ok out /\ In c_SIDECAR_BRACES_INVALID (error_codes out).
Proof.
  intros Hg Hin1 Hin2 Hne Hb1 Hb2 Hr1 Hr2.
  destruct (validate_structure_total sc) as [i1 H1].
  destruct (validate_refs_total fixed sc (all_good_cols fixed sc Hg)) as [i2 H2].
  apply (phase1_issue fixed V_defs V_basic V_defcount V_hashes V_full sc i1 i2 K_NESTED_COLUMN_REF Hg H1 H2).
  apply in_or_app. right. unfold validate_refs in H2.
  destruct (mapM (refs_column fixed (possible_column_refs sc)) sc) as [cols|] eqn:E2; [|discriminate].
  cbn [bind] in H2. inversion H2; subst i2. clear H2. apply in_or_app. right.
  assert (Hf : forall n v, In (n, v) sc -> hed_bearing v = true -> col_refs v <> [] ->
               In (n, col_refs v) (filter nonempty_refs (map snd cols))).
  { intros n v Hin Hb Hr. destruct (refs_column_bearing (possible_column_refs sc) n v Hb) as [iss Hiss].
    destruct (mapM_in _ _ _ E2 _ Hin) as [r [Hr' Hrin]]. rewrite Hiss in Hr'. inversion Hr'; subst r.
    apply filter_In. split.
    - apply in_map_iff. exists (iss, (n, col_refs v)). split; [reflexivity | exact Hrin].
    - unfold nonempty_refs. cbn [snd]. destruct (col_refs v); [congruence | reflexivity]. }
  unfold nested_issues. apply in_flat_map. exists (n1, col_refs v1). split.
  - apply (Hf n1 v1 Hin1 Hb1). intros E. rewrite E in Hr1. contradiction.
  - cbn [fst snd]. apply in_flat_map. exists n2. split; [exact Hr1|].
    rewrite (in_has_key n2 (col_refs v2) _ (Hf n2 v2 Hin2 Hb2 Hr2)).
    assert (Hs : str_eqb n2 n1 = false).
    { destruct (str_eqb n2 n1) eqn:E; [|reflexivity]. apply str_eqb_spec in E. congruence. }
    rewrite Hs. left. reflexivity.
Qed.

End G.

(* ------------------------------------------------------------------ *)
(* the code as it is now (fixed = true): no side conditions            *)
Lemma all_good_true sc : all_good true sc.
Proof. left. reflexivity. Qed.

Section N.
Variable V_defs : list str -> list issue.
Variable V_basic : list str -> str -> list issue.
Variable V_defcount : str -> nat.
Variable V_hashes : list str -> str -> nat.
Variable V_full : list str -> str -> list str -> list str -> list issue.
Notation VS j := (validate_sidecar true V_defs V_basic V_defcount V_hashes V_full j).

Lemma now_wellformed_clean sc :
  struct_ok sc = true ->
  any_error (V_defs (doc_strings sc)) = false ->
  (forall s, In s (doc_strings sc) -> any_error (V_basic (doc_strings sc) s) = false) ->
  (forall s refs combo, In s (doc_strings sc) -> any_error (V_full (doc_strings sc) s refs combo) = false) ->
  (forall s, In s (doc_strings sc) -> V_defcount s = 0 -> V_hashes (doc_strings sc) s = count ch_hash s) ->
  (forall col, In col sc -> (forall s, In s (column_strings (snd col)) -> V_defcount s = 0) \/
                            (forall s, In s (column_strings (snd col)) -> V_defcount s <> 0)) ->
  exists out, VS (JObj sc) = Ok out /\ error_codes out = [].
Proof.
  intros H. apply (wellformed_clean_gen true V_defs V_basic V_defcount V_hashes V_full sc); [|exact H].
  intros col _. left. reflexivity.
Qed.

Lemma now_fault_hed_column sc v :
  In (s_HED, v) sc -> exists out, VS (JObj sc) = Ok out /\ In c_SIDECAR_INVALID (error_codes out).
Proof. apply (fault_hed_column true). apply all_good_true. Qed.

Lemma now_fault_na_key sc name kvs hv s :
  In (name, JObj kvs) sc -> name <> s_HED ->
  lookup s_HED kvs = Some (JObj hv) -> In (s_NA, JStr s) hv -> s <> [] ->
  exists out, VS (JObj sc) = Ok out /\ In c_SIDECAR_INVALID (error_codes out).
Proof. apply (fault_na_key' true). apply all_good_true. Qed.

Lemma now_fault_hed_entry_type sc name kvs h :
  In (name, JObj kvs) sc -> name <> s_HED ->
  lookup s_HED kvs = Some h -> is_str h = false -> is_obj h = false ->
  exists out, VS (JObj sc) = Ok out /\ In c_sidecarUnknownColumn (error_codes out).
Proof. apply (fault_hed_entry_type' true). apply all_good_true. Qed.

Lemma now_fault_category_nonstring sc name kvs hv key val :
  In (name, JObj kvs) sc -> name <> s_HED ->
  lookup s_HED kvs = Some (JObj hv) -> In (key, val) hv -> truthy val = true -> is_str val = false ->
  exists out, VS (JObj sc) = Ok out /\ In c_wrongHedDataType (error_codes out).
Proof. apply (fault_category_nonstring' true). apply all_good_true. Qed.

Lemma now_fault_category_blank sc name kvs hv key val :
  In (name, JObj kvs) sc -> name <> s_HED ->
  lookup s_HED kvs = Some (JObj hv) -> In (key, val) hv -> truthy val = false ->
  exists out, VS (JObj sc) = Ok out /\ In c_blankValueString (error_codes out).
Proof. apply (fault_category_blank' true). apply all_good_true. Qed.

Lemma now_fault_braces sc name v s :
  In (name, v) sc -> hed_bearing v = true -> In s (column_strings v) -> braces_ok s = false ->
  exists out, VS (JObj sc) = Ok out /\ In c_SIDECAR_BRACES_INVALID (error_codes out).
Proof. apply (fault_braces true). apply all_good_true. Qed.

Lemma now_fault_unknown_ref sc name v s m :
  In (name, v) sc -> hed_bearing v = true -> In s (column_strings v) ->
  In m (find_refs s) -> m <> s_HED -> ~ In m (all_hed_columns sc) ->
  exists out, VS (JObj sc) = Ok out /\ In c_SIDECAR_BRACES_INVALID (error_codes out).
Proof. apply (fault_unknown_ref true). apply all_good_true. Qed.

Lemma now_fault_self_ref sc name v s :
  In (name, v) sc -> hed_bearing v = true -> In s (column_strings v) -> In name (find_refs s) ->
  exists out, VS (JObj sc) = Ok out /\ In c_SIDECAR_BRACES_INVALID (error_codes out).
Proof. apply (fault_self_ref true). apply all_good_true. Qed.

Lemma now_fault_nested_ref sc n1 v1 n2 v2 :
  In (n1, v1) sc -> In (n2, v2) sc -> n1 <> n2 -> hed_bearing v1 = true -> hed_bearing v2 = true ->
  In n2 (col_refs v1) -> col_refs v2 <> [] ->
  exists out, VS (JObj sc) = Ok out /\ In c_SIDECAR_BRACES_INVALID (error_codes out).
Proof. apply (fault_nested_ref true). apply all_good_true. Qed.

Lemma now_fault_value_hash sc name kvs s :
  In (name, JObj kvs) sc -> lookup s_HED kvs = Some (JStr s) ->
  V_defcount s = 0 -> (forall ds, V_hashes ds s = count ch_hash s) -> count ch_hash s <> 1 ->
  exists out, VS (JObj sc) = Ok out /\
              (In c_PLACEHOLDER_INVALID (error_codes out) \/ early_exit true sc out).
Proof. apply (fault_value_hash true); [apply all_good_true | left; reflexivity]. Qed.

Lemma now_fault_category_hash sc name kvs hv key s :
  In (name, JObj kvs) sc -> lookup s_HED kvs = Some (JObj hv) -> In (key, JStr s) hv ->
  V_defcount s = 0 -> (forall ds, V_hashes ds s = count ch_hash s) -> count ch_hash s <> 0 ->
  exists out, VS (JObj sc) = Ok out /\
              (In c_PLACEHOLDER_INVALID (error_codes out) \/ early_exit true sc out).
Proof. apply (fault_category_hash true); [apply all_good_true | left; reflexivity]. Qed.

End N.

(* non-vacuity: the example sidecar satisfies StructOK, validates cleanly with
   a trivial string validator, and a '#' fault in it is reported *)
(* {"a": {"HED": "Label/#, {b}"}, "b": {"HED": {"x": "Red"}}} *)
Definition sc_good : list (str * json) := match w_good with JObj kvs => kvs | _ => [] end.
(* {"a": {"HED": "Label, {b}"}, "b": {"HED": {"x": "Red"}}}  (no '#') *)
Definition sc_hash0 : list (str * json) :=
  [([97]%N, JObj [(s_HED, JStr [76;97;98;101;108;44;32;123;98;125]%N)]);
   ([98]%N, JObj [(s_HED, JObj [([120]%N, JStr [82;101;100]%N)])])].

Lemma now_example :
  struct_ok sc_good = true /\
  validate_sidecar true V0_defs V0_basic V0_defcount V0_hashes V0_full (JObj sc_good) = Ok [] /\
  struct_ok sc_hash0 = false /\
  exists out, validate_sidecar true V0_defs V0_basic V0_defcount V0_hashes V0_full (JObj sc_hash0) = Ok out /\
              error_codes out = [c_PLACEHOLDER_INVALID].
Proof.
  split; [reflexivity|]. split; [reflexivity|]. split; [reflexivity|]. eexists. split; reflexivity.
Qed.

(* ------------------------------------------------------------------ *)
(* the '#' rule is about characters, not tags: wherever the surplus '#' *)
(* stands (same tag, another tag, another group, next to a reference)   *)
Lemma count_two_hash pre mid post : count ch_hash (pre ++ ch_hash :: mid ++ ch_hash :: post) <> 1.
Proof.
  rewrite count_app. cbn [count]. rewrite N.eqb_refl, count_app. cbn [count]. rewrite N.eqb_refl. lia.
Qed.

Lemma count_some_hash pre post : count ch_hash (pre ++ ch_hash :: post) <> 0.
Proof. rewrite count_app. cbn [count]. rewrite N.eqb_refl. lia. Qed.

Lemma count_no_hash s : has_hash s = false -> count ch_hash s <> 1.
Proof.
  intros H. rewrite count_hash_has in H. apply negb_false_iff in H. apply Nat.eqb_eq in H. lia.
Qed.

Section N2.
Variable V_defs : list str -> list issue.
Variable V_basic : list str -> str -> list issue.
Variable V_defcount : str -> nat.
Variable V_hashes : list str -> str -> nat.
Variable V_full : list str -> str -> list str -> list str -> list issue.
Notation VS j := (validate_sidecar true V_defs V_basic V_defcount V_hashes V_full j).

Lemma now_fault_value_hash_anywhere sc name kvs pre mid post :
  let s := pre ++ ch_hash :: mid ++ ch_hash :: post in
  In (name, JObj kvs) sc -> lookup s_HED kvs = Some (JStr s) ->
  V_defcount s = 0 -> (forall ds, V_hashes ds s = count ch_hash s) ->
  exists out, VS (JObj sc) = Ok out /\
              (In c_PLACEHOLDER_INVALID (error_codes out) \/ early_exit true sc out).
Proof.
  intros s Hin El Hc Hh.
  apply (now_fault_value_hash V_defs V_basic V_defcount V_hashes V_full sc name kvs s Hin El Hc Hh).
  apply count_two_hash.
Qed.

Lemma now_fault_value_hash_none sc name kvs s :
  In (name, JObj kvs) sc -> lookup s_HED kvs = Some (JStr s) -> has_hash s = false ->
  V_defcount s = 0 -> (forall ds, V_hashes ds s = count ch_hash s) ->
  exists out, VS (JObj sc) = Ok out /\
              (In c_PLACEHOLDER_INVALID (error_codes out) \/ early_exit true sc out).
Proof.
  intros Hin El Hn Hc Hh.
  apply (now_fault_value_hash V_defs V_basic V_defcount V_hashes V_full sc name kvs s Hin El Hc Hh).
  apply count_no_hash. exact Hn.
Qed.

Lemma now_fault_category_hash_anywhere sc name kvs hv key pre post :
  let s := pre ++ ch_hash :: post in
  In (name, JObj kvs) sc -> lookup s_HED kvs = Some (JObj hv) -> In (key, JStr s) hv ->
  V_defcount s = 0 -> (forall ds, V_hashes ds s = count ch_hash s) ->
  exists out, VS (JObj sc) = Ok out /\
              (In c_PLACEHOLDER_INVALID (error_codes out) \/ early_exit true sc out).
Proof.
  intros s Hin El Hkv Hc Hh.
  apply (now_fault_category_hash V_defs V_basic V_defcount V_hashes V_full sc name kvs hv key s Hin El Hkv Hc Hh).
  apply count_some_hash.
Qed.

End N2.

(* {"c": {"HED": "Label/##"}}: both '#' in one tag *)
Definition sc_hash_same_tag : list (str * json) :=
  [([99]%N, JObj [(s_HED, JStr [76;97;98;101;108;47;35;35]%N)])].

Lemma same_tag_example :
  exists out, validate_sidecar true V0_defs V0_basic V0_defcount V0_hashes V0_full (JObj sc_hash_same_tag) = Ok out /\
              error_codes out = [c_PLACEHOLDER_INVALID].
Proof. eexists. split; reflexivity. Qed.

(* ------------------------------------------------------------------ *)
(* the '#' faults in an otherwise well-formed sidecar: no early exit    *)
Lemma cat_entry_ok_weaken sc name kv : cat_entry_ok_gen true sc name kv = true -> cat_entry_ok_gen false sc name kv = true.
Proof.
  unfold cat_entry_ok_gen. destruct (snd kv); try discriminate. intros H.
  apply andb_true_iff in H as [H Hs]. apply andb_true_iff in H as [H _]. rewrite H, Hs. reflexivity.
Qed.

Lemma col_ok_weaken sc col : col_ok_gen true sc col = true -> col_ok_gen false sc col = true.
Proof.
  destruct col as [name v]. unfold col_ok_gen. destruct v; try (intros H; exact H).
  destruct (lookup s_HED kvs) as [h|]; [|intros H; exact H]. destruct h; try (intros H; exact H).
  - intros H. apply andb_true_iff in H as [_ H]. rewrite H. reflexivity.
  - intros H. apply andb_true_iff in H as [H1 H2]. rewrite H1. cbn [andb].
    apply forallb_forall. intros kv Hkv. rewrite forallb_forall in H2. apply cat_entry_ok_weaken. apply H2. exact Hkv.
Qed.

(* StructOK implies StructOK-but-for-'#' *)
Lemma struct_ok_weaken sc : struct_ok sc = true -> struct_ok_but_hash sc = true.
Proof.
  unfold struct_ok, struct_ok_but_hash, struct_ok_gen. intros H. apply andb_true_iff in H as [H1 H2].
  rewrite H1. cbn [andb]. apply forallb_forall. intros col Hc. rewrite forallb_forall in H2.
  apply col_ok_weaken. apply H2. exact Hc.
Qed.

Lemma but_hash_no_early_exit sc out : struct_ok_but_hash sc = true -> ~ early_exit true sc out.
Proof.
  intros H [i1 [i2 [H1 [H2 [Ha _]]]]].
  rewrite (structure_clean (chk := false) sc H) in H1. inversion H1; subst i1.
  rewrite (refs_clean_but_hash true sc eq_refl H) in H2. inversion H2; subst i2. discriminate.
Qed.

Lemma screening_clean_no_early_exit fixed sc out i1 i2 :
  validate_structure sc = Ok i1 -> validate_refs fixed sc = Ok i2 -> any_error (i1 ++ i2) = false ->
  ~ early_exit fixed sc out.
Proof.
  intros H1 H2 Ha [j1 [j2 [J1 [J2 [Jb _]]]]]. rewrite H1 in J1. rewrite H2 in J2.
  inversion J1; inversion J2; subst. congruence.
Qed.

Section N3.
Variable V_defs : list str -> list issue.
Variable V_basic : list str -> str -> list issue.
Variable V_defcount : str -> nat.
Variable V_hashes : list str -> str -> nat.
Variable V_full : list str -> str -> list str -> list str -> list issue.
Notation VS j := (validate_sidecar true V_defs V_basic V_defcount V_hashes V_full j).

(* auditor's form: when the screening reports no error, the code is reported *)
Lemma now_fault_value_hash_screened sc name kvs s i1 i2 :
  validate_structure sc = Ok i1 -> validate_refs true sc = Ok i2 -> any_error (i1 ++ i2) = false ->
  In (name, JObj kvs) sc -> lookup s_HED kvs = Some (JStr s) ->
  V_defcount s = 0 -> (forall ds, V_hashes ds s = count ch_hash s) -> count ch_hash s <> 1 ->
  exists out, VS (JObj sc) = Ok out /\ In c_PLACEHOLDER_INVALID (error_codes out).
Proof.
  intros H1 H2 Ha Hin El Hc Hh Hn.
  destruct (now_fault_value_hash V_defs V_basic V_defcount V_hashes V_full sc name kvs s Hin El Hc Hh Hn)
    as [out [Ho [Hp|He]]].
  - exists out. split; assumption.
  - exfalso. apply (screening_clean_no_early_exit true sc out i1 i2 H1 H2 Ha He).
Qed.

Lemma now_fault_category_hash_screened sc name kvs hv key s i1 i2 :
  validate_structure sc = Ok i1 -> validate_refs true sc = Ok i2 -> any_error (i1 ++ i2) = false ->
  In (name, JObj kvs) sc -> lookup s_HED kvs = Some (JObj hv) -> In (key, JStr s) hv ->
  V_defcount s = 0 -> (forall ds, V_hashes ds s = count ch_hash s) -> count ch_hash s <> 0 ->
  exists out, VS (JObj sc) = Ok out /\ In c_PLACEHOLDER_INVALID (error_codes out).
Proof.
  intros H1 H2 Ha Hin El Hkv Hc Hh Hn.
  destruct (now_fault_category_hash V_defs V_basic V_defcount V_hashes V_full sc name kvs hv key s Hin El Hkv Hc Hh Hn)
    as [out [Ho [Hp|He]]].
  - exists out. split; assumption.
  - exfalso. apply (screening_clean_no_early_exit true sc out i1 i2 H1 H2 Ha He).
Qed.

(* the statement's situation: a sidecar that obeys every structural rule
   except the '#' counts -- PLACEHOLDER_INVALID is reported, no disjunct *)
Lemma now_fault_value_hash_wellformed sc name kvs s :
  struct_ok_but_hash sc = true ->
  In (name, JObj kvs) sc -> lookup s_HED kvs = Some (JStr s) ->
  V_defcount s = 0 -> (forall ds, V_hashes ds s = count ch_hash s) -> count ch_hash s <> 1 ->
  exists out, VS (JObj sc) = Ok out /\ In c_PLACEHOLDER_INVALID (error_codes out).
Proof.
  intros H Hin El Hc Hh Hn.
  destruct (now_fault_value_hash V_defs V_basic V_defcount V_hashes V_full sc name kvs s Hin El Hc Hh Hn)
    as [out [Ho [Hp|He]]].
  - exists out. split; assumption.
  - exfalso. apply (but_hash_no_early_exit sc out H He).
Qed.

Lemma now_fault_category_hash_wellformed sc name kvs hv key s :
  struct_ok_but_hash sc = true ->
  In (name, JObj kvs) sc -> lookup s_HED kvs = Some (JObj hv) -> In (key, JStr s) hv ->
  V_defcount s = 0 -> (forall ds, V_hashes ds s = count ch_hash s) -> count ch_hash s <> 0 ->
  exists out, VS (JObj sc) = Ok out /\ In c_PLACEHOLDER_INVALID (error_codes out).
Proof.
  intros H Hin El Hkv Hc Hh Hn.
  destruct (now_fault_category_hash V_defs V_basic V_defcount V_hashes V_full sc name kvs hv key s Hin El Hkv Hc Hh Hn)
    as [out [Ho [Hp|He]]].
  - exists out. split; assumption.
  - exfalso. apply (but_hash_no_early_exit sc out H He).
Qed.

End N3.

(* the faulty examples obey every rule but the '#' count *)
Lemma but_hash_examples :
  struct_ok_but_hash sc_hash0 = true /\ struct_ok sc_hash0 = false /\
  struct_ok_but_hash sc_hash_same_tag = true /\ struct_ok sc_hash_same_tag = false /\
  struct_ok_but_hash sc_good = true.
Proof. repeat split; reflexivity. Qed.

(* for entries obeying the '#' rules the specification-level notion of a
   HED-bearing entry is the validator's *)
Lemma spec_bearing_hed_bearing sc name v :
  col_ok sc (name, v) = true -> spec_bearing v = true -> hed_bearing v = true.
Proof.
  intros H Hs. destruct (col_ok_detect sc name v H) as [c [Hc _]].
  pose proof (spec_bearing_is_hed_column v Hs) as Hi. unfold is_hed_column in Hi. unfold hed_bearing.
  rewrite Hc in *. destruct c; [discriminate | reflexivity | reflexivity].
Qed.

(* ------------------------------------------------------------------ *)
(* the strings that definitions are gathered from (Sidecar.extract_definitions) *)
Lemma ignore_no_strings v : detect_column_type true v = Some CIgnore -> column_strings v = [].
Proof.
  destruct v; try reflexivity. unfold detect_column_type, column_strings.
  destruct (negb (truthy (JObj kvs))) eqn:Et.
  - destruct kvs; [reflexivity | discriminate].
  - destruct (lookup s_HED kvs) as [h|]; [|reflexivity]. destruct h; try discriminate.
    + destruct (true && negb (has_hash s)); discriminate.
    + destruct (true && negb (forallb is_str (map snd kvs0))); discriminate.
Qed.

(* the strings of the HED-bearing entries, in document order *)
Definition bearing_strings (sc : list (str * json)) : list str :=
  flat_map (fun c : str * json => if hed_bearing (snd c) then column_strings (snd c) else []) sc.

Lemma basic_strings_all fixed sc :
  (forall col, In col sc -> good fixed (snd col)) ->
  exists bhs, basic_strings fixed sc = Ok bhs /\ concat (map (map snd) bhs) = bearing_strings sc.
Proof.
  intros Hg. unfold basic_strings.
  destruct (mapM_total (fun col : str * json =>
              get_hed_strings fixed (detect_column_type true (snd col)) (snd col)) sc) as [bhs Hb].
  { intros col Hcol. apply get_basic_total. apply Hg. exact Hcol. }
  exists bhs. split; [exact Hb|]. unfold bearing_strings. rewrite flat_map_concat_map. f_equal.
  apply (mapM_pointwise _ _ _ _ _ Hb). intros [name v] y Hin Hy. cbn [snd] in *.
  unfold hed_bearing. destruct (detect_column_type true v) as [c|] eqn:Ed.
  - destruct (typed_strings fixed v c (Hg _ Hin) Ed) as [hs [Hhs Hm]]. rewrite Hhs in Hy. inversion Hy; subst y.
    destruct c; try exact Hm. rewrite Hm. apply ignore_no_strings. exact Ed.
  - cbn [get_hed_strings] in Hy. inversion Hy. reflexivity.
Qed.

Lemma now_definitions_from_every_string sc :
  exists bhs, basic_strings true sc = Ok bhs /\ concat (map (map snd) bhs) = bearing_strings sc.
Proof. apply basic_strings_all. intros col _. left. reflexivity. Qed.

Lemma flat_map_ext_in' {A B} (f g : A -> list B) l :
  (forall x, In x l -> f x = g x) -> flat_map f l = flat_map g l.
Proof.
  induction l as [|a l IH]; intros H; simpl; [reflexivity|].
  rewrite (H a (or_introl eq_refl)), IH; [reflexivity|]. intros x Hx. apply H. right. exact Hx.
Qed.

Lemma bearing_strings_struct_ok sc : struct_ok sc = true -> bearing_strings sc = doc_strings sc.
Proof.
  intros H. unfold bearing_strings, doc_strings. apply flat_map_ext_in'. intros [name v] Hin. cbn [snd].
  destruct (hed_bearing v) eqn:Eb; [reflexivity|].
  pose proof (struct_ok_cols (chk := true) sc H _ Hin) as Hc.
  destruct (col_ok_detect sc name v Hc) as [c [Hd _]]. unfold hed_bearing in Eb. rewrite Hd in Eb.
  destruct c; try discriminate. symmetry. apply ignore_no_strings. exact Hd.
Qed.
