(* Lemmas about the attribute-string codec (C05 (b)). *)
From Coq Require Import List NArith ZArith Arith Bool Lia ZifyBool.
From HV Require Import Base.Res Base.Str Base.StrOps Model.AttrCodec.
Import ListNotations.

(* ------------------------------------------------------------------ characters *)

Lemma alpha_not_space c : is_alpha c = true -> isspace c = false.
Proof.
  unfold is_alpha, isspace. intro H.
  apply Bool.not_true_is_false. intro Hs. lia.
Qed.

Lemma alpha_memb_false x k : is_alpha x = false -> forallb is_alpha k = true -> memb x k = false.
Proof.
  intros Hx Hk. induction k as [|c t IH]; [reflexivity|].
  simpl in *. apply andb_true_iff in Hk as [H1 H2]. rewrite (IH H2), orb_false_r.
  destruct (N.eqb x c) eqn:E; [|reflexivity]. apply N.eqb_eq in E. subst c. congruence.
Qed.

Lemma str_eqb_refl s : str_eqb s s = true.
Proof. apply str_eqb_spec. reflexivity. Qed.

Lemma str_eqb_sym a b : str_eqb a b = str_eqb b a.
Proof.
  destruct (str_eqb a b) eqn:E1; destruct (str_eqb b a) eqn:E2; try reflexivity.
  - apply str_eqb_spec in E1. subst. rewrite str_eqb_refl in E2. discriminate.
  - apply str_eqb_spec in E2. subst. rewrite str_eqb_refl in E1. discriminate.
Qed.

(* ------------------------------------------------------------------ dict *)

Definition absent {V} (k : str) (d : list (str * V)) : bool :=
  negb (existsb (fun kv => str_eqb (fst kv) k) d).

Lemma dict_get_absent {V} k (d : list (str * V)) : absent k d = true -> dict_get k d = None.
Proof.
  unfold absent. induction d as [|[k' v] t IH]; simpl; intro H; [reflexivity|].
  apply negb_true_iff in H. apply orb_false_iff in H as [H1 H2].
  rewrite H1. apply IH. rewrite H2. reflexivity.
Qed.

Lemma dict_set_absent {V} k (v : V) d : absent k d = true -> dict_set k v d = d ++ [(k, v)].
Proof.
  unfold absent. induction d as [|[k' v'] t IH]; simpl; intro H; [reflexivity|].
  apply negb_true_iff in H. apply orb_false_iff in H as [H1 H2].
  rewrite H1. f_equal. apply IH. rewrite H2. reflexivity.
Qed.

Lemma dict_get_last {V} k (v : V) d : absent k d = true -> dict_get k (d ++ [(k, v)]) = Some v.
Proof.
  unfold absent. induction d as [|[k' v'] t IH]; simpl; intro H.
  - rewrite str_eqb_refl. reflexivity.
  - apply negb_true_iff in H. apply orb_false_iff in H as [H1 H2].
    rewrite H1. apply IH. rewrite H2. reflexivity.
Qed.

Lemma dict_set_last {V} k (v v' : V) d :
  absent k d = true -> dict_set k v' (d ++ [(k, v)]) = d ++ [(k, v')].
Proof.
  unfold absent. induction d as [|[k0 v0] t IH]; simpl; intro H.
  - rewrite str_eqb_refl. reflexivity.
  - apply negb_true_iff in H. apply orb_false_iff in H as [H1 H2].
    rewrite H1. f_equal. apply IH. rewrite H2. reflexivity.
Qed.

Lemma absent_app {V} k (d : list (str * V)) k' v :
  absent k (d ++ [(k', v)]) = absent k d && negb (str_eqb k' k).
Proof. unfold absent. rewrite existsb_app. simpl. rewrite orb_false_r, negb_orb. reflexivity. Qed.

(* ------------------------------------------------------------------ writer shape *)

Lemma format_one_str k v :
  format_one (k, AStr v) = map (fun sv => k ++ ch_eq :: sv) (split_on ch_comma v).
Proof.
  unfold format_one. simpl. destruct (memb ch_comma v) eqn:E; [reflexivity|].
  rewrite (split_on_none _ _ E). reflexivity.
Qed.

Lemma join1_fold (c : N) l x :
  fold_left (fun o s => o ++ c :: s) l x = match l with [] => x | _ => x ++ c :: join [c] l end.
Proof.
  revert x. induction l as [|y l' IH]; intro x; [reflexivity|].
  cbn [fold_left]. rewrite IH. destruct l' as [|z l'']; [reflexivity|].
  cbn [join]. rewrite <- app_assoc. reflexivity.
Qed.

Lemma split_cons_ne c x s :
  N.eqb x c = false ->
  split_on c (x :: s) = match split_on c s with [] => [[x]] | p :: ps => (x :: p) :: ps end.
Proof. intro H. simpl. rewrite H. reflexivity. Qed.

(* the written string splits back into its pieces (up to the blank after each comma) *)
Lemma split_join_pieces p ps :
  Forall (fun q => memb ch_comma q = false) (p :: ps) ->
  split_on ch_comma (join [ch_comma; ch_space] (p :: ps)) = p :: map (cons ch_space) ps.
Proof.
  revert p. induction ps as [|q r IH]; intros p H.
  - simpl. inversion H; subst. apply split_on_none. assumption.
  - inversion H as [|? ? Hp Hrest]; subst.
    change (join [ch_comma; ch_space] (p :: q :: r))
      with (p ++ [ch_comma; ch_space] ++ join [ch_comma; ch_space] (q :: r)).
    change (p ++ [ch_comma; ch_space] ++ join [ch_comma; ch_space] (q :: r))
      with (p ++ ch_comma :: (ch_space :: join [ch_comma; ch_space] (q :: r))).
    rewrite (split_on_app _ _ _ Hp). f_equal.
    rewrite split_cons_ne by reflexivity. rewrite (IH q Hrest). reflexivity.
Qed.

(* ------------------------------------------------------------------ reader on one piece *)

Lemma span_alpha_app k rest :
  forallb is_alpha k = true ->
  match rest with [] => True | c :: _ => is_alpha c = false end ->
  span_alpha (k ++ rest) = (k, rest).
Proof.
  intros Hk Hr. induction k as [|c t IH]; simpl in *.
  - destruct rest as [|c r]; [reflexivity|]. simpl. rewrite Hr. reflexivity.
  - apply andb_true_iff in Hk as [H1 H2]. rewrite H1, (IH H2). reflexivity.
Qed.

Definition val_piece_ok (p : str) : Prop := piece_ok p = true.

Lemma piece_ok_parts p :
  piece_ok p = true ->
  nonempty p = true /\ memb ch_comma p = false /\ memb ch_eq p = false /\ memb ch_nl p = false
  /\ no_outer_ws p = true.
Proof.
  unfold piece_ok. intro H. apply andb_true_iff in H as [H H3]. apply andb_true_iff in H as [H1 H2].
  repeat split; try assumption; eapply none_of_memb; eauto.
Qed.

Lemma parse_step_true acc k :
  key_ok k = true -> absent k acc = true ->
  parse_step acc k = Ok (acc ++ [(k, ATrue)]).
Proof.
  intros Hk Ha. unfold key_ok in Hk. apply andb_true_iff in Hk as [Hne Hal].
  unfold parse_step, validate_attribute_string.
  replace k with (k ++ []) at 1 by apply app_nil_r.
  rewrite (span_alpha_app k [] Hal I). rewrite Hne. cbn [negb andb].
  rewrite (split_on_none ch_eq k) by (apply alpha_memb_false; [reflexivity | exact Hal]).
  rewrite (dict_set_absent _ _ _ Ha). reflexivity.
Qed.

Lemma validate_kv k sv :
  key_ok k = true -> piece_ok sv = true ->
  validate_attribute_string (k ++ ch_eq :: sv) = true
  /\ split_on ch_eq (k ++ ch_eq :: sv) = [k; sv].
Proof.
  intros Hk Hp. unfold key_ok in Hk. apply andb_true_iff in Hk as [Hne Hal].
  destruct (piece_ok_parts _ Hp) as (Hn & _ & Heq & Hnl & _).
  split.
  - unfold validate_attribute_string.
    rewrite (span_alpha_app k (ch_eq :: sv) Hal) by reflexivity.
    rewrite Hne, Hn, Hnl. reflexivity.
  - rewrite split_on_app by (apply alpha_memb_false; [reflexivity | exact Hal]).
    rewrite (split_on_none _ _ Heq). reflexivity.
Qed.

Lemma parse_step_first acc k sv :
  key_ok k = true -> piece_ok sv = true -> absent k acc = true ->
  parse_step acc (k ++ ch_eq :: sv) = Ok (acc ++ [(k, AStr sv)]).
Proof.
  intros Hk Hp Ha. destruct (validate_kv k sv Hk Hp) as [Hv Hs].
  unfold parse_step. rewrite Hv, Hs. cbn [negb].
  rewrite (dict_get_absent _ _ Ha), (dict_set_absent _ _ _ Ha). reflexivity.
Qed.

Lemma parse_step_next acc k old sv :
  key_ok k = true -> piece_ok sv = true -> absent k acc = true ->
  parse_step (acc ++ [(k, AStr old)]) (k ++ ch_eq :: sv)
  = Ok (acc ++ [(k, AStr (old ++ ch_comma :: sv))]).
Proof.
  intros Hk Hp Ha. destruct (validate_kv k sv Hk Hp) as [Hv Hs].
  unfold parse_step. rewrite Hv, Hs. cbn [negb].
  rewrite (dict_get_last _ _ _ Ha), (dict_set_last _ _ _ _ Ha). reflexivity.
Qed.

Lemma parse_loop_app acc l1 l2 :
  parse_loop acc (l1 ++ l2) = bind (parse_loop acc l1) (fun f => parse_loop f l2).
Proof.
  revert acc. induction l1 as [|p ps IH]; intro acc; [reflexivity|].
  cbn [app parse_loop]. destruct (parse_step acc p) as [f|e]; cbn [bind]; [apply IH | reflexivity].
Qed.

Lemma parse_loop_more acc k svs old :
  key_ok k = true -> forallb piece_ok svs = true -> absent k acc = true ->
  parse_loop (acc ++ [(k, AStr old)]) (map (fun sv => k ++ ch_eq :: sv) svs)
  = Ok (acc ++ [(k, AStr (fold_left (fun o s => o ++ ch_comma :: s) svs old))]).
Proof.
  intros Hk Hps Ha. revert old. induction svs as [|sv r IH]; intro old; [reflexivity|].
  simpl in Hps. apply andb_true_iff in Hps as [Hp Hr].
  cbn [map parse_loop fold_left]. rewrite (parse_step_next _ _ _ _ Hk Hp Ha). cbn [bind].
  apply IH. exact Hr.
Qed.

(* all the pieces of one entry *)
Lemma parse_loop_entry acc k v :
  key_ok k = true -> val_ok v = true -> absent k acc = true ->
  parse_loop acc (format_one (k, v)) = Ok (acc ++ [(k, v)]).
Proof.
  intros Hk Hv Ha. destruct v as [|s].
  - cbn [format_one fst snd parse_loop]. rewrite (parse_step_true _ _ Hk Ha). reflexivity.
  - rewrite format_one_str. cbn [val_ok] in Hv.
    pose proof (join_split ch_comma s) as Hj.
    destruct (split_on ch_comma s) as [|sv r] eqn:Es; [exfalso; eapply split_on_nonempty; eauto|].
    simpl in Hv. apply andb_true_iff in Hv as [Hp Hr].
    cbn [map parse_loop]. rewrite (parse_step_first _ _ _ Hk Hp Ha). cbn [bind].
    rewrite (parse_loop_more _ _ _ _ Hk Hr Ha). rewrite join1_fold.
    do 3 f_equal. rewrite <- Hj. destruct r; reflexivity.
Qed.

Lemma existsb_false_in {A} (f : A -> bool) l x : existsb f l = false -> In x l -> f x = false.
Proof.
  induction l as [|y t IH]; intros E Hin; [destruct Hin|].
  simpl in E. apply orb_false_iff in E as [E1 E2]. destruct Hin as [->|Hin]; [exact E1 | auto].
Qed.

Definition entries_ok (b : attrs) : bool := forallb (fun kv => key_ok (fst kv) && val_ok (snd kv)) b.

Lemma parse_loop_all b : forall acc,
  entries_ok b = true -> keys_unique b = true ->
  (forall kv, In kv b -> absent (fst kv) acc = true) ->
  parse_loop acc (flat_map format_one b) = Ok (acc ++ b).
Proof.
  induction b as [|[k v] t IH]; intros acc Hok Hu Hab.
  - simpl. rewrite app_nil_r. reflexivity.
  - cbn [flat_map]. rewrite parse_loop_app.
    simpl in Hok. apply andb_true_iff in Hok as [Hkv Hok]. apply andb_true_iff in Hkv as [Hk Hv].
    cbn [keys_unique] in Hu. apply andb_true_iff in Hu as [Hnk Hu].
    rewrite (parse_loop_entry acc k v Hk Hv (Hab (k, v) (or_introl eq_refl))). cbn [bind].
    rewrite (IH (acc ++ [(k, v)]) Hok Hu).
    + rewrite <- app_assoc. reflexivity.
    + intros kv Hin. rewrite absent_app. rewrite (Hab kv (or_intror Hin)). cbn [andb].
      apply negb_true_iff. rewrite str_eqb_sym.
      apply negb_true_iff in Hnk.
      exact (existsb_false_in _ _ _ Hnk Hin).
Qed.

(* ------------------------------------------------------------------ strip of the pieces *)

Lemma last_app_cons (a : str) c b d : last (a ++ c :: b) d = last (c :: b) d.
Proof.
  induction a as [|x t IH]; [reflexivity|].
  cbn [app]. destruct (t ++ c :: b) eqn:E; [destruct t; discriminate|].
  change (last (x :: n :: l) d) with (last (n :: l) d). exact IH.
Qed.

Lemma last_indep_nonempty (l : str) d1 d2 : l <> [] -> last l d1 = last l d2.
Proof.
  induction l as [|x t IH]; intro H; [congruence|].
  destruct t as [|y t']; [reflexivity|].
  change (last (y :: t') d1 = last (y :: t') d2). apply IH. discriminate.
Qed.

Lemma key_first_last k :
  key_ok k = true -> exists c t, k = c :: t /\ isspace c = false /\ isspace (last k c) = false.
Proof.
  unfold key_ok. intro H. apply andb_true_iff in H as [Hn Ha].
  destruct k as [|c t]; [discriminate|]. exists c, t. split; [reflexivity|].
  assert (Hall : forall x, In x (c :: t) -> is_alpha x = true) by (apply forallb_forall; exact Ha).
  split; apply alpha_not_space; apply Hall; [left; reflexivity|].
  destruct (@exists_last _ (c :: t)) as (l' & a & E); [discriminate|].
  rewrite E. rewrite last_last. rewrite <- E. rewrite E. apply in_or_app. right. left. reflexivity.
Qed.

Lemma piece_no_outer_ws_true k : key_ok k = true -> no_outer_ws k = true.
Proof.
  intro H. destruct (key_first_last k H) as (c & t & -> & H1 & H2).
  unfold no_outer_ws. rewrite H1, H2. reflexivity.
Qed.

Lemma piece_no_outer_ws_kv k sv :
  key_ok k = true -> piece_ok sv = true -> no_outer_ws (k ++ ch_eq :: sv) = true.
Proof.
  intros Hk Hp. destruct (key_first_last k Hk) as (c & t & -> & H1 & _).
  destruct (piece_ok_parts _ Hp) as (Hn & _ & _ & _ & Hw).
  destruct sv as [|x r]; [discriminate|].
  unfold no_outer_ws. cbn [app]. rewrite H1. cbn [negb andb].
  replace (c :: t ++ ch_eq :: x :: r) with ((c :: t ++ [ch_eq]) ++ x :: r)
    by (cbn [app]; rewrite <- app_assoc; reflexivity).
  rewrite last_app_cons.
  unfold no_outer_ws in Hw. apply andb_true_iff in Hw as [_ Hw].
  destruct r as [|y r'].
  - simpl in *. exact Hw.
  - change (last (x :: y :: r') c) with (last (y :: r') c).
    change (last (x :: y :: r') x) with (last (y :: r') x) in Hw.
    rewrite (last_indep_nonempty (y :: r') c x) by discriminate. exact Hw.
Qed.

(* ------------------------------------------------------------------ the round trip *)

Definition good_piece (p : str) : Prop :=
  memb ch_comma p = false /\ no_outer_ws p = true /\ nonempty p = true.

Lemma good_pieces_entry k v :
  key_ok k = true -> val_ok v = true -> Forall good_piece (format_one (k, v)).
Proof.
  intros Hk Hv.
  assert (Hkc : memb ch_comma k = false).
  { unfold key_ok in Hk. apply andb_true_iff in Hk as [_ Ha]. apply alpha_memb_false; [reflexivity | exact Ha]. }
  assert (Hkn : nonempty k = true) by (unfold key_ok in Hk; apply andb_true_iff in Hk; tauto).
  destruct v as [|s].
  - constructor; [|constructor]. repeat split; auto using piece_no_outer_ws_true.
  - rewrite format_one_str. cbn [val_ok] in Hv.
    induction (split_on ch_comma s) as [|sv r IH]; [constructor|].
    simpl in Hv. apply andb_true_iff in Hv as [Hp Hr].
    cbn [map]. constructor; [|apply IH; exact Hr].
    destruct (piece_ok_parts _ Hp) as (_ & Hc & _ & _ & _).
    repeat split.
    + rewrite memb_app, Hkc. simpl. exact Hc.
    + apply piece_no_outer_ws_kv; assumption.
    + destruct k; [discriminate | reflexivity].
Qed.

Lemma good_pieces_all b : entries_ok b = true -> Forall good_piece (flat_map format_one b).
Proof.
  induction b as [|[k v] t IH]; intro H; [constructor|].
  simpl in H. apply andb_true_iff in H as [Hkv Ht]. apply andb_true_iff in Hkv as [Hk Hv].
  cbn [flat_map]. apply Forall_app. split; [apply good_pieces_entry; assumption | apply IH; exact Ht].
Qed.

Lemma map_strip_pieces p ps :
  Forall good_piece (p :: ps) -> map strip (p :: map (cons ch_space) ps) = p :: ps.
Proof.
  intro H. inversion H as [|? ? Hp Hps]; subst.
  cbn [map]. rewrite (strip_id p) by apply Hp. f_equal.
  induction ps as [|q r IH]; [reflexivity|].
  inversion Hps as [|? ? Hq Hr]; subst.
  cbn [map]. rewrite strip_space_cons, (strip_id q) by apply Hq. f_equal. apply IH; [|exact Hr].
  constructor; assumption.
Qed.

Lemma parse_attribute_string_nonempty s :
  nonempty s = true -> parse_attribute_string s = parse_loop [] (map strip (split_on ch_comma s)).
Proof. destruct s; [discriminate | reflexivity]. Qed.

Lemma join_head_nonempty sep (p : str) ps : nonempty p = true -> nonempty (join sep (p :: ps)) = true.
Proof. destruct p; [discriminate|]. intros _. destruct ps; reflexivity. Qed.

Lemma attr_ok_parts b : attr_ok b = true -> keys_unique b = true /\ entries_ok b = true.
Proof. unfold attr_ok. intro H. apply andb_true_iff in H. exact H. Qed.

(* parse (format a) = a, exactly, on the class attr_ok *)
Lemma attr_roundtrip_plain b :
  attr_ok b = true ->
  parse_attribute_string (join [ch_comma; ch_space] (flat_map format_one b)) = Ok b.
Proof.
  intro H. destruct (attr_ok_parts _ H) as [Hu He].
  destruct b as [|kv t]; [reflexivity|].
  pose proof (good_pieces_all _ He) as Hg.
  destruct (flat_map format_one (kv :: t)) as [|p ps] eqn:EP.
  - exfalso. cbn [flat_map] in EP. apply app_eq_nil in EP as [EP _].
    destruct kv as [k [|s]]; [discriminate|].
    rewrite format_one_str in EP. apply map_eq_nil in EP. eapply split_on_nonempty; eauto.
  - assert (Hpn : nonempty p = true) by (inversion Hg as [|? ? Hp _]; apply Hp).
    rewrite parse_attribute_string_nonempty by (apply join_head_nonempty; exact Hpn).
    rewrite split_join_pieces.
    + pose proof (map_strip_pieces _ _ Hg) as Hm. unfold str in *. rewrite Hm. rewrite <- EP.
      exact (parse_loop_all (kv :: t) [] He Hu (fun _ _ => eq_refl)).
    + eapply Forall_impl; [|exact Hg]. intros q Hq. apply Hq.
Qed.

Lemma existsb_filter_false {A} (g f : A -> bool) l : existsb g l = false -> existsb g (filter f l) = false.
Proof.
  induction l as [|x t IH]; intro H; [reflexivity|].
  simpl in H. apply orb_false_iff in H as [H1 H2]. simpl.
  destruct (f x); simpl; [rewrite H1|]; auto.
Qed.

Lemma attr_ok_filter (f : str * aval -> bool) b : attr_ok b = true -> attr_ok (filter f b) = true.
Proof.
  intro H. destruct (attr_ok_parts _ H) as [Hu He]. unfold attr_ok.
  apply andb_true_iff. split.
  - clear He H. induction b as [|[k v] t IH]; [reflexivity|].
    cbn [keys_unique] in Hu. apply andb_true_iff in Hu as [Hn Hu]. simpl.
    destruct (f (k, v)); [|auto]. cbn [keys_unique]. rewrite (IH Hu), andb_true_r.
    apply negb_true_iff. apply existsb_filter_false. apply negb_true_iff. exact Hn.
  - clear Hu H. unfold entries_ok in *. induction b as [|kv t IH]; [reflexivity|].
    simpl in He. apply andb_true_iff in He as [H1 H2]. simpl.
    destruct (f kv); simpl; [rewrite H1|]; auto.
Qed.

(* the writers' formatter followed by the reader, for every writer mode *)
Lemma attr_roundtrip_exact disallowed a :
  attr_ok a = true ->
  parse_attribute_string (format_tag_attributes disallowed a)
  = Ok (filter (fun kv => negb (disallowed (fst kv))) a).
Proof.
  intro H. unfold format_tag_attributes, final_props.
  apply attr_roundtrip_plain. apply attr_ok_filter. exact H.
Qed.

(* ------------------------------------------------------------------ the comparison *)

Lemma dict_get_in_unique (a : attrs) k v :
  keys_unique a = true -> In (k, v) a -> dict_get k a = Some v.
Proof.
  induction a as [|[k0 v0] t IH]; intros Hu Hin; [destruct Hin|].
  cbn [keys_unique] in Hu. apply andb_true_iff in Hu as [Hn Hu].
  cbn [dict_get]. destruct Hin as [E|Hin].
  - inversion E; subst. rewrite str_eqb_refl. reflexivity.
  - destruct (str_eqb k0 k) eqn:Ek.
    + apply str_eqb_spec in Ek. subst k0. apply negb_true_iff in Hn.
      pose proof (existsb_false_in _ _ _ Hn Hin) as Hc. simpl in Hc. rewrite str_eqb_refl in Hc. discriminate.
    + apply IH; assumption.
Qed.

Lemma aval_eqb_refl v : aval_eqb v v = true.
Proof. destruct v; simpl; [reflexivity | apply str_eqb_refl]. Qed.

Lemma compare_refl a : keys_unique a = true -> compare_attributes_no_order a a = true.
Proof.
  intro Hu. unfold compare_attributes_no_order.
  assert (H : dict_eqb aval_eqb a a = true).
  { unfold dict_eqb. rewrite Nat.eqb_refl. cbn [andb]. apply forallb_forall. intros [k v] Hin.
    cbn [fst snd]. rewrite (dict_get_in_unique a k v Hu Hin). apply aval_eqb_refl. }
  rewrite H. reflexivity.
Qed.

Lemma filter_true_all {A} (l : list A) : filter (fun _ => negb false) l = l.
Proof. induction l as [|x t IH]; [reflexivity|]. simpl. f_equal. exact IH. Qed.

(* attr_roundtrip in the form the design states: equal up to the schema's own comparison *)
Lemma attr_roundtrip a :
  attr_ok a = true ->
  exists b, parse_attribute_string (format_tag_attributes (fun _ => false) a) = Ok b
            /\ compare_attributes_no_order b a = true.
Proof.
  intro H. exists a. split.
  - rewrite (attr_roundtrip_exact _ a H). f_equal.
    apply filter_true_all.
  - apply compare_refl. apply (attr_ok_parts _ H).
Qed.
