(* Lemmas for C12 over Model/IssuePaths.v (sidecar and table decoration paths). *)
From Coq Require Import List NArith ZArith Arith Bool Lia ZifyBool Sorting Permutation.
From HV Require Import Base.Res Base.Str Base.IssueTypes Gen.ErrorCodes Model.Issues Model.IssuePaths
                       Proofs.IssuesProofs.
Import ListNotations.

(* ================================================================== A. "every returned issue satisfies P" *)

Definition all_ok (P : issue -> Prop) (r : res (list issue)) : Prop :=
  forall out, r = Ok out -> Forall P out.

Lemma all_ok_Ok P l : Forall P l -> all_ok P (Ok l).
Proof. intros H out E. inversion E; subst. assumption. Qed.

Lemma all_ok_cat P a b : all_ok P a -> all_ok P b -> all_ok P (cat a b).
Proof.
  intros Ha Hb out E. unfold cat in E.
  destruct a as [x|]; simpl in E; [|discriminate].
  destruct b as [y|]; simpl in E; [|discriminate].
  inversion E; subst. apply Forall_app. split; [apply Ha | apply Hb]; reflexivity.
Qed.

Lemma all_ok_cat_map {A} P (f : A -> res (list issue)) l :
  (forall x, In x l -> all_ok P (f x)) -> all_ok P (cat_map f l).
Proof.
  induction l as [|x xs IH]; intros H; simpl.
  - apply all_ok_Ok. constructor.
  - apply all_ok_cat; [apply H; left; reflexivity | apply IH; intros y Hy; apply H; right; assumption].
Qed.

Lemma with_ctx_inv {A} h k v (body : handler -> res A) r :
  with_ctx h k v body = Ok r -> body (push_error_context h k v) = Ok r.
Proof.
  unfold with_ctx. intros E.
  destruct (body (push_error_context h k v)) as [x|]; simpl in E; [|discriminate].
  destruct (pop_error_context (push_error_context h k v)); simpl in E; [|discriminate].
  inversion E; reflexivity.
Qed.

Lemma pop_push h k v : pop_error_context (push_error_context h k v) = Ok h.
Proof.
  unfold pop_error_context, push_error_context. simpl.
  destruct (h_ctx h ++ [(k, _)]) eqn:E.
  - destruct (h_ctx h); discriminate.
  - rewrite <- E. rewrite removelast_last. destruct h; reflexivity.
Qed.

Lemma with_ctx_eq {A} h k v (body : handler -> res A) :
  with_ctx h k v body = body (push_error_context h k v).
Proof.
  unfold with_ctx. rewrite pop_push.
  destruct (body (push_error_context h k v)); reflexivity.
Qed.

Lemma all_ok_with_ctx P h k v body :
  all_ok P (body (push_error_context h k v)) -> all_ok P (with_ctx h k v body).
Proof. rewrite with_ctx_eq. auto. Qed.

Lemma all_ok_with_opt_ctx P h k v body :
  (forall h', all_ok P (body h')) -> all_ok P (with_opt_ctx h k v body).
Proof. intros H. destruct v; simpl; [apply all_ok_with_ctx|]; apply H. Qed.

Lemma all_ok_bind P (a : res (list issue)) (f : list issue -> res (list issue)) :
  (forall x, a = Ok x -> all_ok P (f x)) -> all_ok P (let* x := a in f x).
Proof. intros H out E. destruct a as [x|]; simpl in E; [|discriminate]. exact (H x eq_refl out E). Qed.

Lemma sort_Forall P l rev l' : sort_issues l rev = Ok l' -> Forall P l -> Forall P l'.
Proof.
  intros E H. destruct (sort_stable_sorted _ _ _ E) as (Perm & _).
  eapply Permutation_Forall; eassumption.
Qed.

(* ================================================================== B. handler-independent invariants *)

Definition sc_raw_all (P : issue -> Prop) (inp : sc_input) : Prop :=
  Forall P (si_defs inp) /\
  Forall (fun c => Forall (fun s => Forall P (scs_basic s) /\ Forall (fun cb => Forall P (snd cb)) (scs_combos s))
                          (scc_strs c)) (si_cols inp).

Definition sc_events_all (E : event -> Prop) (inp : sc_input) : Prop :=
  Forall (fun c => Forall E (stc_events c) /\ Forall (fun ke => Forall E (snd ke)) (stc_keys c)) (si_struct inp) /\
  Forall (fun c => Forall (fun s => Forall E (rfs_events s)) (rfc_strs c) /\ Forall E (rfc_self c)) (si_refs inp) /\
  Forall E (si_nested inp) /\
  Forall (fun c => Forall E (snd c)) (si_badspot inp).

Definition tb_raw_all (P : issue -> Prop) (inp : tb_input) : Prop :=
  Forall P (ti_mapping inp) /\
  Forall (fun r => Forall (fun c => Forall P (tbc_basic c)) (tr_cells r) /\ Forall P (tr_full r)) (ti_rows inp) /\
  match ti_onsets inp with Some os => Forall (fun r => Forall P (or_full r)) os | None => True end.

Definition tb_events_all (E : event -> Prop) (inp : tb_input) : Prop :=
  Forall (fun c => Forall (fun re => E (snd re)) (snd c)) (ti_keymissing inp) /\
  Forall E (ti_badrefs inp) /\ Forall E (ti_unordered inp).

Section Invariant.
  Variable fixed : bool.
  Variable P : issue -> Prop.
  Variable E : event -> Prop.
  Hypothesis acfP : forall h l, Forall P l -> all_ok P (add_context_and_filter fixed h l).
  Hypothesis fewcP : forall h e, E e -> all_ok P (fewc fixed h e).

  Lemma fewc_list_ok h es : Forall E es -> all_ok P (cat_map (fewc fixed h) es).
  Proof.
    intros H. apply all_ok_cat_map. intros e He. apply fewcP.
    rewrite Forall_forall in H. auto.
  Qed.

  Lemma structure_ok h cols :
    Forall (fun c => Forall E (stc_events c) /\ Forall (fun ke => Forall E (snd ke)) (stc_keys c)) cols ->
    all_ok P (validate_structure fixed h cols).
  Proof.
    intros H. unfold validate_structure. apply all_ok_cat_map. intros c Hc.
    rewrite Forall_forall in H. destruct (H c Hc) as [H1 H2].
    apply all_ok_with_ctx. apply all_ok_cat; [apply fewc_list_ok; assumption|].
    apply all_ok_cat_map. intros ke Hke. apply all_ok_with_ctx. apply fewc_list_ok.
    rewrite Forall_forall in H2. auto.
  Qed.

  Lemma refs_ok h cols nested :
    Forall (fun c => Forall (fun s => Forall E (rfs_events s)) (rfc_strs c) /\ Forall E (rfc_self c)) cols ->
    Forall E nested -> all_ok P (validate_refs fixed h cols nested).
  Proof.
    intros H Hn. unfold validate_refs. apply all_ok_cat; [|apply fewc_list_ok; assumption].
    apply all_ok_cat_map. intros c Hc. rewrite Forall_forall in H. destruct (H c Hc) as [H1 H2].
    apply all_ok_cat; [|apply fewc_list_ok; assumption].
    apply all_ok_with_ctx. apply all_ok_cat_map. intros s Hs.
    apply all_ok_bind. intros x Hx. apply acfP.
    assert (A : all_ok P (with_opt_ctx (push_error_context h CSidecarCol (str_ctx (rfc_name c))) CSidecarKey
                            (opt_str_ctx (rfs_key s))
                            (fun h3 => with_ctx h3 CHedString (Some (VHed (rfs_hs s)))
                                         (fun h4 => cat_map (fewc fixed h4) (rfs_events s))))).
    { apply all_ok_with_opt_ctx. intros h'. apply all_ok_with_ctx. apply fewc_list_ok.
      rewrite Forall_forall in H1. auto. }
    exact (A x Hx).
  Qed.

  Lemma strings_ok h cols :
    Forall (fun c => Forall (fun s => Forall P (scs_basic s) /\ Forall (fun cb => Forall P (snd cb)) (scs_combos s))
                            (scc_strs c)) cols ->
    all_ok P (validate_strings fixed h cols).
  Proof.
    intros H. unfold validate_strings. apply all_ok_cat_map. intros c Hc.
    rewrite Forall_forall in H. pose proof (H c Hc) as H1.
    apply all_ok_with_ctx. apply all_ok_cat_map. intros s Hs.
    rewrite Forall_forall in H1. destruct (H1 s Hs) as [Hb Hcb].
    apply all_ok_with_opt_ctx. intros h'. apply all_ok_cat.
    - apply all_ok_with_ctx. apply acfP. assumption.
    - apply all_ok_cat_map. intros cb Hin. apply all_ok_with_ctx. apply acfP.
      rewrite Forall_forall in Hcb. auto.
  Qed.

  Lemma badspot_ok h cols :
    Forall (fun c => Forall E (snd c)) cols -> all_ok P (check_definitions_bad_spot fixed h cols).
  Proof.
    intros H. unfold check_definitions_bad_spot. apply all_ok_cat_map. intros c Hc.
    apply all_ok_with_ctx. apply fewc_list_ok. rewrite Forall_forall in H. auto.
  Qed.

  Lemma sidecar_all_ok : forall sort_early h0 inp,
    sc_raw_all P inp -> sc_events_all E inp -> all_ok P (sidecar_validate fixed sort_early h0 inp).
  Proof.
    intros sort_early h0 inp (Hd & Hc) (Hs & Hr & Hn & Hb). unfold sidecar_validate.
    set (h := push_error_context h0 CFile (si_name inp)).
    apply all_ok_bind. intros issues Hi.
    assert (Pi : Forall P issues).
    { refine (all_ok_cat P _ _ _ _ issues Hi); [apply structure_ok | apply refs_ok]; assumption. }
    destruct (check_for_any_errors issues).
    - intros out Eo. destruct (pop_error_context h); simpl in Eo; [|discriminate].
      destruct sort_early; [eapply sort_Forall; eassumption | inversion Eo; subst; assumption].
    - apply all_ok_bind. intros rest Hrest.
      assert (Pr : Forall P rest).
      { refine (all_ok_cat P _ _ _ _ rest Hrest); [apply all_ok_Ok; assumption|].
        apply all_ok_cat; [apply strings_ok | apply badspot_ok]; assumption. }
      intros out Eo. destruct (sort_issues (issues ++ rest) false) as [sorted|] eqn:Es; simpl in Eo; [|discriminate].
      destruct (pop_error_context h); simpl in Eo; [|discriminate]. inversion Eo; subst.
      eapply sort_Forall; [exact Es|]. apply Forall_app. split; assumption.
  Qed.

  (* ---- table *)
  Lemma colstruct_ok h inp : Forall P (ti_mapping inp) -> tb_events_all E inp ->
    all_ok P (validate_column_structure fixed h inp).
  Proof.
    intros Hm (Hk & Hb & _). unfold validate_column_structure.
    apply all_ok_cat; [apply acfP; assumption|]. apply all_ok_cat; [|apply fewc_list_ok; assumption].
    apply all_ok_cat_map. intros c Hc. apply all_ok_with_ctx. apply all_ok_cat_map. intros re Hre.
    apply all_ok_with_ctx. apply fewcP. rewrite Forall_forall in Hk. specialize (Hk c Hc).
    rewrite Forall_forall in Hk. auto.
  Qed.

  Lemma run_cells_ok : forall cells h last r,
    Forall (fun c => Forall P (tbc_basic c)) cells -> Forall P last ->
    run_cells fixed h cells last = Ok r -> Forall P (fst r) /\ Forall P (snd r).
  Proof.
    induction cells as [|c cs IH]; intros h last r Hc Hl Er; simpl in Er.
    - inversion Er; subst. split; [constructor | assumption].
    - inversion Hc; subst. rewrite !with_ctx_eq in Er.
      destruct (add_context_and_filter fixed _ (tbc_basic c)) as [d|] eqn:Ed; simpl in Er; [|discriminate].
      pose proof (acfP _ _ H1 d Ed) as Pd.
      destruct (run_cells fixed h cs d) as [r'|] eqn:Er'; simpl in Er; [|discriminate].
      destruct (IH _ _ _ H2 Pd Er') as [A B]. inversion Er; subst. simpl.
      split; [apply Forall_app; split; assumption | assumption].
  Qed.

  Lemma run_row_ok : forall gate h r out,
    Forall (fun c => Forall P (tbc_basic c)) (tr_cells r) -> Forall P (tr_full r) ->
    run_row gate fixed h r = Ok out -> Forall P (fst out).
  Proof.
    intros gate h r out Hc Hf Er. unfold run_row in Er. rewrite with_ctx_eq in Er.
    destruct (run_cells fixed _ (tr_cells r) []) as [cr|] eqn:Ec; simpl in Er; [|discriminate].
    destruct (run_cells_ok _ _ _ _ Hc (Forall_nil _) Ec) as [A _].
    destruct (gate (snd cr)); [inversion Er; subst; assumption|].
    destruct (_ || tr_masked r); [inversion Er; subst; assumption|].
    destruct (ps_true (tr_rowstr r)); [|inversion Er; subst; assumption].
    rewrite with_ctx_eq in Er.
    destruct (add_context_and_filter fixed _ (tr_full r)) as [d|] eqn:Ed; simpl in Er; [|discriminate].
    inversion Er; subst. simpl. apply Forall_app. split; [assumption | exact (acfP _ _ Hf d Ed)].
  Qed.

  Lemma run_checks_ok : forall gate rows h out,
    Forall (fun r => Forall (fun c => Forall P (tbc_basic c)) (tr_cells r) /\ Forall P (tr_full r)) rows ->
    run_checks gate fixed h rows = Ok out -> Forall P (fst out).
  Proof.
    induction rows as [|r rs IH]; intros h out Hr Er; simpl in Er.
    - inversion Er; subst. constructor.
    - inversion Hr; subst. destruct H1 as [Hc Hf].
      destruct (run_row gate fixed h r) as [a|] eqn:Ea; simpl in Er; [|discriminate].
      destruct (run_checks gate fixed h rs) as [b|] eqn:Eb; simpl in Er; [|discriminate].
      inversion Er; subst. simpl. apply Forall_app. split; [eapply run_row_ok | eapply IH]; eassumption.
  Qed.

  Lemma onset_checks_ok h invalid rows :
    Forall (fun r => Forall P (or_full r)) rows -> all_ok P (run_onset_checks fixed h invalid rows).
  Proof.
    intros H. unfold run_onset_checks. apply all_ok_cat_map. intros r Hr.
    destruct (existsb _ invalid); [apply all_ok_Ok; constructor|].
    apply all_ok_with_ctx. destruct (ps_true (or_str r)); [|apply all_ok_Ok; constructor].
    apply all_ok_with_ctx. apply acfP. rewrite Forall_forall in H. auto.
  Qed.

  Lemma table_all_ok : forall gate h0 inp,
    tb_raw_all P inp -> tb_events_all E inp -> all_ok P (table_validate_gen gate fixed h0 inp).
  Proof.
    intros gate h0 inp (Hm & Hr & Ho) He out Eo. unfold table_validate_gen in Eo.
    set (h := push_error_context h0 CFile (ti_name inp)) in *.
    destruct (validate_column_structure fixed h inp) as [a|] eqn:Ea; simpl in Eo; [|discriminate].
    destruct (cat_map (fewc fixed h) (ti_unordered inp)) as [b|] eqn:Eb; simpl in Eo; [|discriminate].
    destruct (run_checks gate fixed h (ti_rows inp)) as [c|] eqn:Ec; simpl in Eo; [|discriminate].
    destruct (match ti_onsets inp with Some os => run_onset_checks fixed h (snd c) os | None => Ok [] end)
      as [d|] eqn:Ed; simpl in Eo; [|discriminate].
    destruct (pop_error_context h); simpl in Eo; [|discriminate].
    eapply sort_Forall; [exact Eo|].
    repeat (apply Forall_app; split).
    - exact (colstruct_ok h inp Hm He a Ea).
    - destruct He as (_ & _ & Hu). exact (fewc_list_ok h _ Hu b Eb).
    - eapply run_checks_ok; eassumption.
    - destruct (ti_onsets inp) as [os|]; [exact (onset_checks_ok h _ os Ho d Ed) | inversion Ed; constructor].
  Qed.
End Invariant.

(* ================================================================== C. completeness and suffix-once along the paths *)

Definition issue_ok (i : issue) : Prop := i_code i <> [] /\ sev_std i.
Definition event_ok (e : event) : Prop := fst e <> [] /\ a_sev (snd e) = None.

Lemma acf_issue_ok fixed h l : Forall issue_ok l -> all_ok issue_ok (add_context_and_filter fixed h l).
Proof.
  intros H out E. unfold add_context_and_filter in E.
  eapply (mapM_Forall _ issue_ok issue_ok); [| |exact E].
  - intros x y [Hc Hs] Hy. destruct (decorate_fields _ _ _ _ Hy) as (A & B & _).
    unfold issue_ok, sev_std in *. rewrite A, B. auto.
  - destruct (h_warn h); [assumption | apply filter_Forall; assumption].
Qed.

Lemma format_error_fresh : forall table kind a actual i,
  format_error table kind a actual = Ok i -> fresh i /\ i_ctx i = [].
Proof.
  intros table kind a actual i H. unfold format_error in H.
  assert (G : forall obj, fresh obj /\ i_ctx obj = [] ->
            Ok (match actual with Some (c :: cs) => set_code (c :: cs) obj | _ => obj end) = Ok i ->
            fresh i /\ i_ctx i = []).
  { intros obj Ho Eo. inversion Eo; subst. destruct actual as [[|c cs]|]; assumption. }
  destruct (find_kind table kind) as [r|].
  - destruct (k_tag r).
    + destruct (a_tag a); simpl in H; [|discriminate].
      destruct (k_sub r); (eapply G; [|exact H]); repeat split.
    + simpl in H. eapply G; [|exact H]. repeat split.
  - simpl in H. eapply G; [|exact H]. repeat split.
Qed.

Lemma fewc_cases : forall fixed h e out,
  fewc fixed h e = Ok out ->
  exists i, format_error kind_table (fst e) (snd e) None = Ok i /\
    (out = [] /\ h_warn h = false /\ sev_warning <= i_sev i
     \/ (h_warn h = true \/ i_sev i < sev_warning) /\ exists i', decorate_one fixed (h_ctx h) i = Ok i' /\ out = [i']).
Proof.
  intros fixed h e out H. unfold fewc, format_error_with_context in H.
  destruct (format_error kind_table (fst e) (snd e) None) as [i|] eqn:F; cbn [bind] in H; [|discriminate].
  exists i. split; [reflexivity|].
  destruct (h_warn h) eqn:W; cbn [negb andb] in H.
  - right. split; [left; reflexivity|].
    destruct (decorate_one fixed (h_ctx h) i) as [i'|]; cbn [bind] in H; [|discriminate].
    inversion H. eauto.
  - destruct (sev_warning <=? i_sev i) eqn:L.
    + left. inversion H. split; [reflexivity|]. split; [reflexivity|]. apply Nat.leb_le; assumption.
    + right. split; [right; apply Nat.leb_gt; assumption|].
      destruct (decorate_one fixed (h_ctx h) i) as [i'|]; cbn [bind] in H; [|discriminate].
      inversion H. eauto.
Qed.

Lemma fewc_issue_ok fixed h e : event_ok e -> all_ok issue_ok (fewc fixed h e).
Proof.
  intros [Hk Hs] out H. destruct (fewc_cases _ _ _ _ H) as (i & F & [(E & _) | (_ & i' & D & E)]); subst out.
  - constructor.
  - destruct (format_error_complete _ _ _ _ Hk F) as (Hc & Hsev).
    destruct (decorate_fields _ _ _ _ D) as (A & B & _).
    constructor; [|constructor]. unfold issue_ok, sev_std. rewrite A, B. split; [assumption|].
    destruct Hsev as [S | [S | S]]; auto. rewrite Hs in S. discriminate.
Qed.

(* every issue of the two entry points has a code and a standard severity *)
Lemma sidecar_complete : forall fixed sort_early h0 inp,
  sc_raw_all issue_ok inp -> sc_events_all event_ok inp ->
  all_ok issue_ok (sidecar_validate fixed sort_early h0 inp).
Proof.
  intros fixed se h0 inp. apply sidecar_all_ok; [apply acf_issue_ok | apply fewc_issue_ok].
Qed.

Lemma table_complete : forall gate fixed h0 inp,
  tb_raw_all issue_ok inp -> tb_events_all event_ok inp ->
  all_ok issue_ok (table_validate_gen gate fixed h0 inp).
Proof.
  intros gate fixed h0 inp. apply table_all_ok; [apply acf_issue_ok | apply fewc_issue_ok].
Qed.

Lemma fewc_suffix_inv h e : all_ok suffix_inv (fewc true h e).
Proof.
  intros out H. destruct (fewc_cases _ _ _ _ H) as (i & F & [(E & _) | (_ & i' & D & E)]); subst out.
  - constructor.
  - constructor; [|constructor]. eapply decorate_fixed_inv; [|exact D].
    apply fresh_inv. apply (format_error_fresh _ _ _ _ _ F).
Qed.

(* the location suffix appears once iff the issue has offsets, along both paths *)
Lemma sidecar_suffix_once : forall sort_early h0 inp,
  sc_raw_all suffix_inv inp -> all_ok suffix_inv (sidecar_validate true sort_early h0 inp).
Proof.
  intros se h0 inp Hr.
  apply (sidecar_all_ok true suffix_inv (fun _ => True)).
  - intros h l Hl out E. eapply acf_fixed_inv; eassumption.
  - intros h e _. apply fewc_suffix_inv.
  - assumption.
  - destruct inp; unfold sc_events_all; simpl.
    repeat split; apply Forall_forall; intros; repeat split; apply Forall_forall; intros; auto;
      apply Forall_forall; intros; auto.
Qed.

Lemma table_suffix_once : forall gate h0 inp,
  tb_raw_all suffix_inv inp -> all_ok suffix_inv (table_validate_gen gate true h0 inp).
Proof.
  intros gate h0 inp Hr.
  apply (table_all_ok true suffix_inv (fun _ => True)).
  - intros h l Hl out E. eapply acf_fixed_inv; eassumption.
  - intros h e _. apply fewc_suffix_inv.
  - assumption.
  - unfold tb_events_all. repeat split; apply Forall_forall; intros; auto; apply Forall_forall; intros; auto.
Qed.

(* ================================================================== D. errors only = error subset, compositionally *)

Definition erel (f : bool -> res (list issue)) : Prop :=
  forall out, f true = Ok out -> f false = Ok (filter is_error out).

Lemma push_with_warn h w k v :
  push_error_context (with_warn h w) k v = with_warn (push_error_context h k v) w.
Proof. reflexivity. Qed.

Lemma erel_cat f g : erel f -> erel g -> erel (fun w => cat (f w) (g w)).
Proof.
  intros Hf Hg out E. unfold cat in *.
  destruct (f true) as [x|] eqn:Fx; simpl in E; [|discriminate].
  destruct (g true) as [y|] eqn:Gy; simpl in E; [|discriminate].
  inversion E; subst. rewrite (Hf x Fx), (Hg y Gy). simpl. rewrite filter_app. reflexivity.
Qed.

Lemma erel_cat_map {A} (f : bool -> A -> res (list issue)) l :
  (forall x, In x l -> erel (fun w => f w x)) -> erel (fun w => cat_map (f w) l).
Proof.
  induction l as [|x xs IH]; intros H.
  - intros out E. simpl in *. inversion E; reflexivity.
  - simpl. apply (erel_cat (fun w => f w x) (fun w => cat_map (f w) xs)).
    + apply H. left; reflexivity.
    + apply IH. intros y Hy. apply H. right; assumption.
Qed.

Lemma erel_acf fixed h l : erel (fun w => add_context_and_filter fixed (with_warn h w) l).
Proof. intros out E. apply errors_only_commutes. assumption. Qed.

Lemma erel_with_ctx h k v (body : bool -> handler -> res (list issue)) :
  erel (fun w => body w (with_warn (push_error_context h k v) w)) ->
  erel (fun w => with_ctx (with_warn h w) k v (body w)).
Proof.
  intros H out E. rewrite with_ctx_eq in *. rewrite push_with_warn in *. apply H. assumption.
Qed.

Lemma erel_with_opt_ctx h k v (body : bool -> handler -> res (list issue)) :
  (forall h', erel (fun w => body w (with_warn h' w))) ->
  erel (fun w => with_opt_ctx (with_warn h w) k v (body w)).
Proof.
  intros H. destruct v; simpl; [apply erel_with_ctx|]; apply H.
Qed.

Lemma erel_then_acf fixed h f :
  erel f -> erel (fun w => let* n := f w in add_context_and_filter fixed (with_warn h w) n).
Proof.
  intros Hf out E.
  destruct (f true) as [n|] eqn:Fn; simpl in E; [|discriminate].
  rewrite (Hf n Fn). simpl.
  rewrite acf_warn_false, filter_idem, <- acf_warn_false. apply errors_only_commutes. assumption.
Qed.

Lemma sev_std_is_error_cases i : sev_std i ->
  (i_sev i = sev_error /\ is_error i = true /\ (sev_warning <=? i_sev i) = false) \/
  (i_sev i = sev_warning /\ is_error i = false /\ (sev_warning <=? i_sev i) = true).
Proof.
  pose proof severities_distinct as SD. unfold is_error.
  intros [E | E]; rewrite E; [left | right]; repeat split;
    try (apply Nat.leb_le; lia); try (apply Nat.leb_gt; lia).
Qed.

Lemma erel_fewc fixed h e : event_ok e -> erel (fun w => fewc fixed (with_warn h w) e).
Proof.
  intros [Hk Hs] out H.
  destruct (fewc_cases _ _ _ _ H) as (i & F & [(_ & W & _) | (_ & i' & D & E)]); [discriminate W|].
  subst out. simpl in D.
  destruct (format_error_complete _ _ _ _ Hk F) as (_ & Hsev).
  assert (Std : sev_std i).
  { destruct Hsev as [S | [S | S]]; [left | right |]; auto. rewrite Hs in S. discriminate. }
  unfold fewc, format_error_with_context. rewrite F. cbn [bind with_warn h_warn h_ctx negb andb].
  assert (Ei : is_error i' = is_error i) by (eapply decorate_is_error; exact D).
  destruct (sev_std_is_error_cases i Std) as [(_ & A & B) | (_ & A & B)]; rewrite B; cbn [filter].
  - rewrite D. cbn [bind]. rewrite Ei, A. reflexivity.
  - rewrite Ei, A. reflexivity.
Qed.

Lemma erel_fewc_list fixed h es : Forall event_ok es -> erel (fun w => cat_map (fewc fixed (with_warn h w)) es).
Proof.
  intros H. apply (erel_cat_map (fun w e => fewc fixed (with_warn h w) e)).
  intros e He. apply erel_fewc. rewrite Forall_forall in H. auto.
Qed.

(* ------------------------------------------------------------------ stable sort commutes with filtering *)

Section SortFilter.
  Variable A : Type.
  Variable leb : A -> A -> bool.
  Hypothesis leb_total : forall a b, leb a b = true \/ leb b a = true.
  Hypothesis leb_trans : forall a b c, leb a b = true -> leb b c = true -> leb a c = true.
  Variable p : A -> bool.

  Lemma insert_first : forall x l, Forall (fun z => leb x z = true) l -> insert_by leb x l = x :: l.
  Proof. intros x [|y ys] H; [reflexivity|]. inversion H; subst. simpl. rewrite H2. reflexivity. Qed.

  Lemma insert_filter : forall x l, StronglySorted (fun a b => leb a b = true) l ->
    filter p (insert_by leb x l) = if p x then insert_by leb x (filter p l) else filter p l.
  Proof.
    induction l as [|y ys IH]; intros HS.
    - simpl. destruct (p x); reflexivity.
    - inversion HS as [|? ? HS' HF]; subst. cbn [insert_by].
      destruct (leb x y) eqn:Exy.
      + cbn [filter]. destruct (p x) eqn:Px; [|reflexivity].
        destruct (p y) eqn:Py.
        * cbn [insert_by]. rewrite Exy. reflexivity.
        * symmetry. apply insert_first. apply Forall_forall. intros z Hz.
          apply filter_In in Hz as [Hz _]. rewrite Forall_forall in HF.
          eapply leb_trans; [exact Exy | apply HF; assumption].
      + cbn [filter]. rewrite (IH HS').
        destruct (p y) eqn:Py; destruct (p x) eqn:Px; try reflexivity.
        cbn [insert_by]. rewrite Exy. reflexivity.
  Qed.

  Lemma isort_filter : forall l, filter p (isort leb l) = isort leb (filter p l).
  Proof.
    induction l as [|x xs IH]; [reflexivity|].
    cbn [isort filter]. rewrite insert_filter by (apply isort_sorted; assumption).
    rewrite IH. destruct (p x); reflexivity.
  Qed.
End SortFilter.

Lemma forallb_filter {A} (q p : A -> bool) l : forallb q l = true -> forallb q (filter p l) = true.
Proof.
  intros H. rewrite forallb_forall in *. intros x Hx. apply filter_In in Hx as [Hx _]. auto.
Qed.

Lemma all_pairs_filter {A} (q : A -> A -> bool) (p : A -> bool) l :
  all_pairs q l = true -> all_pairs q (filter p l) = true.
Proof.
  induction l as [|x xs IH]; intros H; [reflexivity|].
  cbn [all_pairs] in H. apply andb_true_iff in H as [H1 H2]. cbn [filter].
  destruct (p x); [|auto]. cbn [all_pairs]. rewrite (forallb_filter _ _ _ H1), (IH H2). reflexivity.
Qed.

Lemma sort_filter : forall p l rev l',
  sort_issues l rev = Ok l' -> sort_issues (filter p l) rev = Ok (filter p l').
Proof.
  intros p l rev l' H. unfold sort_issues in *.
  destruct (forallb keys_modelled l) eqn:K; [|discriminate].
  destruct (all_pairs _ l) eqn:C; [|discriminate].
  inversion H; subst.
  rewrite (forallb_filter _ p _ K), (all_pairs_filter _ p _ C).
  rewrite (isort_filter issue (issue_leb rev) (issue_leb_total rev) (issue_leb_trans rev)). reflexivity.
Qed.

(* ------------------------------------------------------------------ sidecar path *)

Lemma erel_structure fixed h cols :
  Forall (fun c => Forall event_ok (stc_events c) /\ Forall (fun ke => Forall event_ok (snd ke)) (stc_keys c)) cols ->
  erel (fun w => validate_structure fixed (with_warn h w) cols).
Proof.
  intros H. unfold validate_structure.
  apply (erel_cat_map (fun w c => with_ctx (with_warn h w) CSidecarCol (str_ctx (stc_name c)) _)).
  intros c Hc. rewrite Forall_forall in H. destruct (H c Hc) as [H1 H2].
  apply (erel_with_ctx h _ _ (fun w h2 => cat (cat_map (fewc fixed h2) (stc_events c)) _)).
  apply (erel_cat (fun w => cat_map (fewc fixed (with_warn _ w)) (stc_events c))).
  - apply erel_fewc_list. assumption.
  - apply (erel_cat_map (fun w ke => with_ctx (with_warn _ w) CSidecarKey (str_ctx (fst ke)) _)).
    intros ke Hke.
    apply (erel_with_ctx _ _ _ (fun w h3 => cat_map (fewc fixed h3) (snd ke))).
    apply erel_fewc_list. rewrite Forall_forall in H2. auto.
Qed.

Lemma erel_refs fixed h cols nested :
  Forall (fun c => Forall (fun s => Forall event_ok (rfs_events s)) (rfc_strs c) /\ Forall event_ok (rfc_self c)) cols ->
  Forall event_ok nested ->
  erel (fun w => validate_refs fixed (with_warn h w) cols nested).
Proof.
  intros H Hn. unfold validate_refs.
  apply (erel_cat (fun w => cat_map _ cols) (fun w => cat_map (fewc fixed (with_warn h w)) nested));
    [|apply erel_fewc_list; assumption].
  apply (erel_cat_map (fun w c => cat (with_ctx (with_warn h w) CSidecarCol (str_ctx (rfc_name c)) _)
                                      (cat_map (fewc fixed (with_warn h w)) (rfc_self c)))).
  intros c Hc. rewrite Forall_forall in H. destruct (H c Hc) as [H1 H2].
  apply (erel_cat (fun w => with_ctx (with_warn h w) CSidecarCol (str_ctx (rfc_name c)) _)
                  (fun w => cat_map (fewc fixed (with_warn h w)) (rfc_self c)));
    [|apply erel_fewc_list; assumption].
  apply (erel_with_ctx h _ _ (fun w h2 => cat_map (fun s => let* n := _ in add_context_and_filter fixed h2 n) (rfc_strs c))).
  set (h2 := push_error_context h CSidecarCol (str_ctx (rfc_name c))).
  apply (erel_cat_map (fun w s => let* n := with_opt_ctx (with_warn h2 w) CSidecarKey (opt_str_ctx (rfs_key s)) _ in
                                  add_context_and_filter fixed (with_warn h2 w) n)).
  intros s Hs.
  apply (erel_then_acf fixed h2 (fun w => with_opt_ctx (with_warn h2 w) CSidecarKey (opt_str_ctx (rfs_key s))
           (fun h3 => with_ctx h3 CHedString (Some (VHed (rfs_hs s))) (fun h4 => cat_map (fewc fixed h4) (rfs_events s))))).
  apply (erel_with_opt_ctx h2 _ _ (fun w h3 => with_ctx h3 CHedString (Some (VHed (rfs_hs s))) _)).
  intros h'.
  apply (erel_with_ctx h' _ _ (fun w h4 => cat_map (fewc fixed h4) (rfs_events s))).
  apply erel_fewc_list. rewrite Forall_forall in H1. auto.
Qed.

Lemma erel_strings fixed h cols : erel (fun w => validate_strings fixed (with_warn h w) cols).
Proof.
  unfold validate_strings.
  apply (erel_cat_map (fun w c => with_ctx (with_warn h w) CSidecarCol (str_ctx (scc_name c)) _)).
  intros c Hc.
  apply (erel_with_ctx h _ _ (fun w h2 => cat_map _ (scc_strs c))).
  set (h2 := push_error_context h CSidecarCol (str_ctx (scc_name c))).
  apply (erel_cat_map (fun w s => with_opt_ctx (with_warn h2 w) CSidecarKey (opt_str_ctx (scs_key s)) _)).
  intros s Hs.
  apply (erel_with_opt_ctx h2 _ _ (fun w h3 => cat (with_ctx h3 CHedString (Some (VHed (scs_hs s))) _) _)).
  intros h'.
  apply (erel_cat (fun w => with_ctx (with_warn h' w) CHedString (Some (VHed (scs_hs s))) _)
                  (fun w => cat_map _ (scs_combos s))).
  - apply (erel_with_ctx h' _ _ (fun w h4 => add_context_and_filter fixed h4 (scs_basic s))).
    apply erel_acf.
  - apply (erel_cat_map (fun w cb => with_ctx (with_warn h' w) CHedString (Some (VHed (fst cb))) _)).
    intros cb Hcb.
    apply (erel_with_ctx h' _ _ (fun w h4 => add_context_and_filter fixed h4 (snd cb))).
    apply erel_acf.
Qed.

Lemma erel_badspot fixed h cols : Forall (fun c => Forall event_ok (snd c)) cols ->
  erel (fun w => check_definitions_bad_spot fixed (with_warn h w) cols).
Proof.
  intros H. unfold check_definitions_bad_spot.
  apply (erel_cat_map (fun w c => with_ctx (with_warn h w) CSidecarCol (str_ctx (fst c)) _)).
  intros c Hc.
  apply (erel_with_ctx h _ _ (fun w h2 => cat_map (fewc fixed h2) (snd c))).
  apply erel_fewc_list. rewrite Forall_forall in H. auto.
Qed.

Lemma issue_ok_std l : Forall issue_ok l -> Forall sev_std l.
Proof. apply Forall_impl. intros a [_ H]. exact H. Qed.

Lemma filter_all_true {A} (p : A -> bool) l : Forall (fun x => p x = true) l -> filter p l = l.
Proof. induction 1; simpl; [reflexivity|]. rewrite H, IHForall. reflexivity. Qed.

(* Sidecar.validate: asking for errors only returns exactly the error subset.  Hypotheses: every
   structural kind is a registered one reported at its default severity, and the definition issues,
   which are appended WITHOUT passing through the handler's filter, are all errors. *)
Lemma sidecar_errors_only : forall fixed sort_early h0 inp out,
  sc_events_all event_ok inp ->
  Forall (fun i => is_error i = true) (si_defs inp) ->
  sidecar_validate fixed sort_early (with_warn h0 true) inp = Ok out ->
  sidecar_validate fixed sort_early (with_warn h0 false) inp = Ok (filter is_error out).
Proof.
  intros fixed se h0 inp out He Hd H. pose proof He as (Hs & Hr & Hn & Hb).
  unfold sidecar_validate in *. rewrite push_with_warn in *.
  set (h := push_error_context h0 CFile (si_name inp)) in *.
  assert (E1 : erel (fun w => cat (validate_structure fixed (with_warn h w) (si_struct inp))
                                  (validate_refs fixed (with_warn h w) (si_refs inp) (si_nested inp)))).
  { apply (erel_cat (fun w => validate_structure fixed (with_warn h w) _)
                    (fun w => validate_refs fixed (with_warn h w) _ _));
      [apply erel_structure | apply erel_refs]; assumption. }
  destruct (cat (validate_structure fixed (with_warn h true) (si_struct inp)) _) as [issues|] eqn:Ei;
    cbn [bind] in H; [|discriminate].
  rewrite (E1 issues Ei). cbn [bind].
  assert (Std : Forall sev_std issues).
  { apply issue_ok_std.
    refine (all_ok_cat issue_ok _ _ _ _ issues Ei).
    - apply (structure_ok fixed issue_ok event_ok (fewc_issue_ok fixed)). assumption.
    - apply (refs_ok fixed issue_ok event_ok (acf_issue_ok fixed) (fewc_issue_ok fixed)); assumption. }
  rewrite (any_errors_filter issues Std).
  destruct (check_for_any_errors issues).
  - unfold h in *. rewrite <- push_with_warn in *. rewrite pop_push in *. cbn [bind] in *.
    destruct se; [apply sort_filter; assumption | inversion H; reflexivity].
  - assert (E2 : erel (fun w => cat (Ok (si_defs inp))
                         (cat (validate_strings fixed (with_warn h w) (si_cols inp))
                              (check_definitions_bad_spot fixed (with_warn h w) (si_badspot inp))))).
    { apply (erel_cat (fun _ => Ok (si_defs inp)) (fun w => cat (validate_strings fixed (with_warn h w) _) _)).
      - intros o Eo. inversion Eo; subst. rewrite (filter_all_true _ _ Hd). reflexivity.
      - apply (erel_cat (fun w => validate_strings fixed (with_warn h w) _)
                        (fun w => check_definitions_bad_spot fixed (with_warn h w) _));
          [apply erel_strings | apply erel_badspot; assumption]. }
    destruct (cat (Ok (si_defs inp)) (cat (validate_strings fixed (with_warn h true) _) _)) as [rest|] eqn:Er;
      cbn [bind] in H; [|discriminate].
    rewrite (E2 rest Er). cbn [bind].
    destruct (sort_issues (issues ++ rest) false) as [sorted|] eqn:Es; cbn [bind] in H; [|discriminate].
    rewrite <- filter_app. rewrite (sort_filter is_error _ _ _ Es). cbn [bind].
    unfold h in *. rewrite <- push_with_warn in *. rewrite pop_push in *. cbn [bind] in *.
    inversion H; reflexivity.
Qed.

(* ------------------------------------------------------------------ table path *)

(* what the test applied to new_column_issues in _run_checks must satisfy *)
Definition gate_respects_filter (gate : list issue -> bool) : Prop :=
  forall l, Forall sev_std l -> gate (filter is_error l) = gate l.

Lemma check_for_any_errors_respects : gate_respects_filter check_for_any_errors.
Proof. exact any_errors_filter. Qed.

Lemma acf_sev_std fixed h l out : Forall sev_std l -> add_context_and_filter fixed h l = Ok out -> Forall sev_std out.
Proof.
  intros H E. unfold add_context_and_filter in E.
  eapply decorate_sev_std; [|exact E]. destruct (h_warn h); [assumption | apply filter_Forall; assumption].
Qed.

Lemma run_cells_errors_only : forall fixed cells h last all lst,
  run_cells fixed (with_warn h true) cells last = Ok (all, lst) ->
  run_cells fixed (with_warn h false) cells (filter is_error last)
  = Ok (filter is_error all, filter is_error lst).
Proof.
  induction cells as [|c cs IH]; intros h last all lst H; simpl in *.
  - inversion H; subst. reflexivity.
  - rewrite !with_ctx_eq in *. rewrite !push_with_warn in *.
    set (h3 := push_error_context (push_error_context h CColumn (Some (tbc_col c))) CHedString
                                  (Some (VHed (tbc_hs c)))) in *.
    destruct (add_context_and_filter fixed (with_warn h3 true) (tbc_basic c)) as [d|] eqn:Ed;
      cbn [bind] in H; [|discriminate].
    rewrite (erel_acf fixed h3 _ d Ed). cbn [bind].
    destruct (run_cells fixed (with_warn h true) cs d) as [[a l']|] eqn:Er; cbn [bind] in H; [|discriminate].
    rewrite (IH _ _ _ _ Er). cbn [bind fst snd]. inversion H; subst. rewrite filter_app. reflexivity.
Qed.


Lemma acf_all_ok_std fixed : forall h l, Forall sev_std l -> all_ok sev_std (add_context_and_filter fixed h l).
Proof. intros h l H out E. eapply acf_sev_std; eassumption. Qed.

Lemma run_row_errors_only : forall gate fixed h r out b,
  gate_respects_filter gate ->
  Forall (fun c => Forall sev_std (tbc_basic c)) (tr_cells r) ->
  run_row gate fixed (with_warn h true) r = Ok (out, b) ->
  run_row gate fixed (with_warn h false) r = Ok (filter is_error out, b).
Proof.
  intros gate fixed h r out b Hg Hstd H. unfold run_row in *.
  rewrite with_ctx_eq in *. rewrite push_with_warn in *.
  set (h2 := push_error_context h CRow (Some (VInt (tr_label r)))) in *.
  destruct (run_cells fixed (with_warn h2 true) (tr_cells r) []) as [[all lst]|] eqn:Ec;
    cbn [bind] in H; [|discriminate].
  pose proof (run_cells_errors_only _ _ _ _ _ _ Ec) as Ec'. cbn [filter] in Ec'.
  rewrite Ec'. cbn [bind fst snd] in *.
  assert (Sl : Forall sev_std lst).
  { exact (proj2 (run_cells_ok fixed sev_std (acf_all_ok_std fixed) _ _ _ _ Hstd (Forall_nil _) Ec)). }
  rewrite (Hg lst Sl).
  destruct (gate lst); [inversion H; reflexivity|].
  destruct (_ || tr_masked r); [inversion H; reflexivity|].
  destruct (ps_true (tr_rowstr r)); [|inversion H; reflexivity].
  rewrite with_ctx_eq in *. rewrite push_with_warn in *.
  destruct (add_context_and_filter fixed (with_warn _ true) (tr_full r)) as [d|] eqn:Ed; cbn [bind] in H; [|discriminate].
  rewrite (erel_acf fixed _ _ d Ed). cbn [bind]. inversion H; subst. rewrite filter_app. reflexivity.
Qed.

Lemma run_checks_errors_only : forall gate fixed rows h out inv,
  gate_respects_filter gate ->
  Forall (fun r => Forall (fun c => Forall sev_std (tbc_basic c)) (tr_cells r)) rows ->
  run_checks gate fixed (with_warn h true) rows = Ok (out, inv) ->
  run_checks gate fixed (with_warn h false) rows = Ok (filter is_error out, inv).
Proof.
  induction rows as [|r rs IH]; intros h out inv Hg Hstd H; simpl in *.
  - inversion H; reflexivity.
  - inversion Hstd as [|? ? Hr1 Hr2]; subst.
    destruct (run_row gate fixed (with_warn h true) r) as [[a ba]|] eqn:Ea; cbn [bind] in H; [|discriminate].
    rewrite (run_row_errors_only _ _ _ _ _ _ Hg Hr1 Ea). cbn [bind].
    destruct (run_checks gate fixed (with_warn h true) rs) as [[b ib]|] eqn:Eb; cbn [bind] in H; [|discriminate].
    rewrite (IH _ _ _ Hg Hr2 Eb). cbn [bind fst snd] in *. inversion H; subst. rewrite filter_app. reflexivity.
Qed.

Lemma erel_onset_checks fixed h invalid rows :
  erel (fun w => run_onset_checks fixed (with_warn h w) invalid rows).
Proof.
  unfold run_onset_checks.
  apply (erel_cat_map (fun w r => if existsb (Nat.eqb (or_orig r)) invalid then Ok [] else
                                   with_ctx (with_warn h w) CRow (Some (VInt (or_label r))) _)).
  intros r Hr. destruct (existsb _ invalid); [intros o Eo; inversion Eo; reflexivity|].
  apply (erel_with_ctx h _ _ (fun w h2 => if ps_true (or_str r) then
           with_ctx h2 CHedString (Some (VHed (ps_hs (or_str r)))) (fun h3 => add_context_and_filter fixed h3 (or_full r))
           else Ok [])).
  destruct (ps_true (or_str r)); [|intros o Eo; inversion Eo; reflexivity].
  apply (erel_with_ctx _ _ _ (fun w h3 => add_context_and_filter fixed h3 (or_full r))).
  apply erel_acf.
Qed.

Lemma erel_colstruct fixed h inp : tb_events_all event_ok inp ->
  erel (fun w => validate_column_structure fixed (with_warn h w) inp).
Proof.
  intros (Hk & Hb & _). unfold validate_column_structure.
  apply (erel_cat (fun w => add_context_and_filter fixed (with_warn h w) (ti_mapping inp))
                  (fun w => cat (cat_map _ (ti_keymissing inp)) (cat_map (fewc fixed (with_warn h w)) (ti_badrefs inp))));
    [apply erel_acf|].
  apply (erel_cat (fun w => cat_map _ (ti_keymissing inp)) (fun w => cat_map (fewc fixed (with_warn h w)) (ti_badrefs inp)));
    [|apply erel_fewc_list; assumption].
  apply (erel_cat_map (fun w c => with_ctx (with_warn h w) CColumn (Some (fst c)) _)).
  intros c Hc.
  apply (erel_with_ctx h _ _ (fun w h2 => cat_map (fun re => with_ctx h2 CRow (Some (VInt (fst re))) (fun h3 => fewc fixed h3 (snd re))) (snd c))).
  set (h2 := push_error_context h CColumn (Some (fst c))).
  apply (erel_cat_map (fun w re => with_ctx (with_warn h2 w) CRow (Some (VInt (fst re))) _)).
  intros re Hre.
  apply (erel_with_ctx h2 _ _ (fun w h3 => fewc fixed h3 (snd re))).
  apply erel_fewc. rewrite Forall_forall in Hk. specialize (Hk c Hc). rewrite Forall_forall in Hk. auto.
Qed.

(* TabularInput.validate: errors only = error subset, for every gate that gives the same verdict
   on a list and on its error subset -- which is why _run_checks must test new_column_issues for
   ERRORS: a surviving warning must not decide whether the row-level checks run *)
Lemma table_errors_only_gen : forall gate fixed h0 inp out,
  gate_respects_filter gate ->
  tb_events_all event_ok inp ->
  Forall (fun r => Forall (fun c => Forall sev_std (tbc_basic c)) (tr_cells r)) (ti_rows inp) ->
  table_validate_gen gate fixed (with_warn h0 true) inp = Ok out ->
  table_validate_gen gate fixed (with_warn h0 false) inp = Ok (filter is_error out).
Proof.
  intros gate fixed h0 inp out Hg He Hstd H. unfold table_validate_gen in *.
  rewrite push_with_warn in *. set (h := push_error_context h0 CFile (ti_name inp)) in *.
  destruct (validate_column_structure fixed (with_warn h true) inp) as [a|] eqn:Ea; cbn [bind] in H; [|discriminate].
  rewrite (erel_colstruct fixed h inp He a Ea). cbn [bind].
  destruct (cat_map (fewc fixed (with_warn h true)) (ti_unordered inp)) as [b|] eqn:Eb; cbn [bind] in H; [|discriminate].
  destruct He as (_ & _ & Hu).
  rewrite (erel_fewc_list fixed h _ Hu b Eb). cbn [bind].
  destruct (run_checks gate fixed (with_warn h true) (ti_rows inp)) as [[c inv]|] eqn:Ec; cbn [bind] in H; [|discriminate].
  rewrite (run_checks_errors_only _ _ _ _ _ _ Hg Hstd Ec). cbn [bind fst snd] in *.
  destruct (match ti_onsets inp with Some os => run_onset_checks fixed (with_warn h true) inv os | None => Ok [] end)
    as [d|] eqn:Ed; cbn [bind] in H; [|discriminate].
  assert (Ed' : match ti_onsets inp with Some os => run_onset_checks fixed (with_warn h false) inv os | None => Ok [] end
                = Ok (filter is_error d)).
  { destruct (ti_onsets inp) as [os|]; [exact (erel_onset_checks fixed h inv os d Ed) | inversion Ed; reflexivity]. }
  rewrite Ed'. cbn [bind].
  unfold h in *. rewrite <- push_with_warn in *. rewrite pop_push in *. cbn [bind] in *.
  rewrite <- !filter_app. apply sort_filter. assumption.
Qed.

Lemma table_errors_only : forall fixed h0 inp out,
  tb_events_all event_ok inp ->
  Forall (fun r => Forall (fun c => Forall sev_std (tbc_basic c)) (tr_cells r)) (ti_rows inp) ->
  table_validate fixed (with_warn h0 true) inp = Ok out ->
  table_validate fixed (with_warn h0 false) inp = Ok (filter is_error out).
Proof. intros fixed h0 inp out. apply table_errors_only_gen. exact check_for_any_errors_respects. Qed.

(* the same set of rows gets its temporal relations validated in both modes *)
Lemma invalid_rows_same : forall gate fixed rows h out inv,
  gate_respects_filter gate ->
  Forall (fun r => Forall (fun c => Forall sev_std (tbc_basic c)) (tr_cells r)) rows ->
  run_checks gate fixed (with_warn h true) rows = Ok (out, inv) ->
  exists out', run_checks gate fixed (with_warn h false) rows = Ok (out', inv).
Proof. intros. eexists. eapply run_checks_errors_only; eassumption. Qed.

(* ------------------------------------------------------------------ why the gate must test for errors *)

Definition wt_warn : issue :=
  create_error_object k_STYLE_WARNING {| m_tag := None; m_frag := None |} sev_warning None None None.
Definition wt_err : issue :=
  create_error_object [84;65;71;95;69;88;80;82;69;83;83;73;79;78;95;82;69;80;69;65;84;69;68]%N
                      {| m_tag := None; m_frag := None |} sev_error None None None.
Definition wt_hs : hstr := HS [114;101;100;44;82;101;100;44;82;101;100]%N [0; 1; 2; 3] [].
Definition wt_input : tb_input :=
  {| ti_name := None; ti_mapping := []; ti_keymissing := []; ti_badrefs := []; ti_unordered := [];
     ti_rows := [ {| tr_id := 0; tr_label := 2%Z;
                     tr_cells := [ {| tbc_col := VStr [72;69;68]%N; tbc_hs := wt_hs; tbc_basic := [wt_warn] |} ];
                     tr_masked := false; tr_rowstr := {| ps_hs := wt_hs; ps_true := true |};
                     tr_full := [wt_err] |} ];
     ti_onsets := None |}.
Definition wt_handler : handler := {| h_ctx := []; h_warn := true |}.

(* with "if new_column_issues:" a surviving warning makes the row skip its row-level checks, and the
   errors-only run reports an error that the run with warnings lacks *)
Lemma table_errors_only_nonempty_gate_refuted :
  exists out_on out_off,
    table_validate_gen gate_nonempty true (with_warn wt_handler true) wt_input = Ok out_on /\
    table_validate_gen gate_nonempty true (with_warn wt_handler false) wt_input = Ok out_off /\
    map i_sev out_on = [sev_warning] /\ map i_sev out_off = [sev_error] /\
    out_off <> filter is_error out_on.
Proof.
  eexists. eexists. split; [vm_compute; reflexivity|]. split; [vm_compute; reflexivity|].
  split; [reflexivity|]. split; [reflexivity|]. vm_compute. discriminate.
Qed.

Lemma gate_nonempty_not_respecting : ~ gate_respects_filter gate_nonempty.
Proof.
  intros H. specialize (H [wt_warn] ltac:(constructor; [right; reflexivity | constructor])).
  vm_compute in H. discriminate.
Qed.

(* the code's own gate on the same input: the law holds *)
Example table_errors_only_witness_ok :
  exists out, table_validate true (with_warn wt_handler true) wt_input = Ok out /\
    map i_sev out = [sev_error; sev_warning] /\
    table_validate true (with_warn wt_handler false) wt_input = Ok (filter is_error out).
Proof. eexists. split; [vm_compute; reflexivity|]. split; vm_compute; reflexivity. Qed.

(* ================================================================== E. output order *)

Lemma sort_sorted l rev l' : sort_issues l rev = Ok l' ->
  StronglySorted (fun a b => issue_leb rev a b = true) l'.
Proof. intros H. exact (proj1 (proj2 (sort_stable_sorted _ _ _ H))). Qed.

Lemma table_output_sorted : forall gate fixed h0 inp out,
  table_validate_gen gate fixed h0 inp = Ok out ->
  StronglySorted (fun a b => issue_leb false a b = true) out.
Proof.
  intros gate fixed h0 inp out H. unfold table_validate_gen in H.
  repeat match type of H with
  | (let* _ := ?a in _) = _ => destruct a; cbn [bind] in H; [|discriminate]
  end.
  eapply sort_sorted. exact H.
Qed.

(* the sidecar path sorts -- except on its early return *)
Lemma sidecar_output_sorted : forall fixed sort_early h0 inp out,
  sidecar_validate fixed sort_early h0 inp = Ok out ->
  StronglySorted (fun a b => issue_leb false a b = true) out \/
  (sort_early = false /\
   exists issues, cat (validate_structure fixed (push_error_context h0 CFile (si_name inp)) (si_struct inp))
                      (validate_refs fixed (push_error_context h0 CFile (si_name inp)) (si_refs inp) (si_nested inp))
                  = Ok issues /\ check_for_any_errors issues = true /\ out = issues).
Proof.
  intros fixed se h0 inp out H. unfold sidecar_validate in H.
  destruct (cat _ _) as [issues|] eqn:Ei; cbn [bind] in H; [|discriminate].
  destruct (check_for_any_errors issues) eqn:G.
  - rewrite pop_push in H. cbn [bind] in H. destruct se.
    + left. eapply sort_sorted. exact H.
    + right. split; [reflexivity|]. exists issues. inversion H; subst. repeat split; assumption.
  - left. destruct (cat (Ok _) _); cbn [bind] in H; [|discriminate].
    destruct (sort_issues _ false) eqn:Es; cbn [bind] in H; [|discriminate].
    rewrite pop_push in H. cbn [bind] in H. inversion H; subst. eapply sort_sorted. exact Es.
Qed.

Lemma sidecar_output_sorted_fixed : forall fixed h0 inp out,
  sidecar_validate fixed true h0 inp = Ok out ->
  StronglySorted (fun a b => issue_leb false a b = true) out.
Proof.
  intros fixed h0 inp out H. destruct (sidecar_output_sorted _ _ _ _ _ H) as [S | [E _]]; [assumption | discriminate].
Qed.

(* the code as it is in /repo (sort_early = code_sorts_early, fix commit 8c0dae9): always sorted.
   Flipping the switch makes this proof fail. *)
Lemma sidecar_output_sorted_current : forall fixed h0 inp out,
  sidecar_validate fixed code_sorts_early h0 inp = Ok out ->
  StronglySorted (fun a b => issue_leb false a b = true) out.
Proof. exact sidecar_output_sorted_fixed. Qed.

(* record of the repaired defect C12-F2 (behaviour before fix commit 8c0dae9, sort_early = false):
   the early return handed back column "b" before column "a" *)
Definition k_blank : str := [98;108;97;110;107;86;97;108;117;101;83;116;114;105;110;103]%N.
Definition ws_input : sc_input :=
  {| si_name := Some (VStr [115]%N);
     si_struct := [ {| stc_name := [98]%N; stc_events := []; stc_keys := [([120]%N, [(k_blank, no_args)])] |};
                    {| stc_name := [97]%N; stc_events := []; stc_keys := [([120]%N, [(k_blank, no_args)])] |} ];
     si_refs := []; si_nested := []; si_defs := []; si_cols := []; si_badspot := [] |}.

Lemma sidecar_early_return_unsorted_refuted :
  exists out, sidecar_validate true false wt_handler ws_input = Ok out /\
    map (key_at CSidecarCol) out = [KT0 [98]%N; KT0 [97]%N] /\
    ~ StronglySorted (fun a b => issue_leb false a b = true) out.
Proof.
  eexists. split; [vm_compute; reflexivity|]. split; [vm_compute; reflexivity|].
  intros S. inversion S as [|? ? _ F]; subst. inversion F as [|? ? L _]; subst.
  vm_compute in L. discriminate.
Qed.

(* ================================================================== F. offsets inside the text of the string context *)

Fixpoint ctx_last (k : ckey) (ctx : list (ckey * cval)) : option cval :=
  match ctx with
  | [] => None
  | (k', v) :: r => match ctx_last k r with
                    | Some x => Some x
                    | None => if ckey_eqb k k' then Some v else None
                    end
  end.

Definition hed_of (h : handler) : option cval := ctx_last CHedString (h_ctx h).

Lemma dict_get_add_context : forall ctx i k,
  dict_get k (i_ctx (add_context_to_errors i ctx)) =
  match ctx_last k ctx with Some v => Some v | None => dict_get k (i_ctx i) end.
Proof.
  unfold add_context_to_errors.
  induction ctx as [|[k' v'] ctx IH]; intros i k; [reflexivity|].
  cbn [fold_left ctx_last fst snd]. rewrite IH. cbn [i_ctx set_ctx].
  destruct (ctx_last k ctx); [reflexivity|]. rewrite dict_get_set.
  destruct (ckey_eqb k k'); reflexivity.
Qed.

Lemma ctx_last_app_single : forall k c k' v,
  ctx_last k (c ++ [(k', v)]) = if ckey_eqb k k' then Some v else ctx_last k c.
Proof.
  induction c as [|[k0 v0] c IH]; intros k' v; simpl.
  - destruct (ckey_eqb k k'); reflexivity.
  - rewrite IH. destruct (ckey_eqb k k'); [reflexivity|]. reflexivity.
Qed.

Lemma hed_of_push_hed h v : hed_of (push_error_context h CHedString (Some v)) = Some v.
Proof. unfold hed_of, push_error_context. cbn [h_ctx]. rewrite ctx_last_app_single. reflexivity. Qed.

Lemma hed_of_push_other h k v : ckey_eqb CHedString k = false ->
  hed_of (push_error_context h k v) = hed_of h.
Proof. intros E. unfold hed_of, push_error_context. cbn [h_ctx]. rewrite ctx_last_app_single, E. reflexivity. Qed.

(* offsets refer to the HED string the issue finally carries: the tag it names occurs in THAT string
   and the offsets lie inside the tag's span there, hence inside that text *)
Definition char_in_ctx (i : issue) : Prop :=
  match i_char i with
  | None => True
  | Some (ci, ce) => exists h src s e, has_hed_ctx i h /\ i_src i = Some src /\
                       get_org_span h src = Some (s, e) /\
                       s <= ci /\ ci <= ce /\ ce <= e /\ e <= length (hs_text h)
  end.

(* located inside its string context, or settled: no further decoration will locate it *)
Definition loc_ok (i : issue) : Prop :=
  char_in_ctx i /\ (i_char i = None -> get_tag_span_to_error_object i = Ok None).

(* what the string validators must deliver for a string h: spans of the tags they name lie in the
   text, tag-relative indices lie in the tag (C01/C02's subject) *)
Definition raw_wf (h : hstr) (i : issue) : Prop :=
  i_char i = None /\
  forall src s e, i_src i = Some src -> get_org_span h src = Some (s, e) ->
    s <= e /\ e <= length (hs_text h) /\ idx_bounds i (e - s).

Lemma span_depends : forall i j,
  dict_get CHedString (i_ctx j) = dict_get CHedString (i_ctx i) -> i_src j = i_src i ->
  get_tag_span_to_error_object j = get_tag_span_to_error_object i.
Proof. intros i j H1 H2. unfold get_tag_span_to_error_object. rewrite H1, H2. reflexivity. Qed.

Lemma update_unlocated : forall i, i_char i = None -> get_tag_span_to_error_object i = Ok None ->
  update_error_with_char_pos true i = Ok i.
Proof. intros i Hc Hs. unfold update_error_with_char_pos. rewrite Hc, Hs. reflexivity. Qed.

Lemma decorate_loc_nohed : forall ctx i i',
  ctx_last CHedString ctx = None -> loc_ok i -> decorate_one true ctx i = Ok i' -> loc_ok i'.
Proof.
  intros ctx i i' Hl [Hc Hs] D. unfold decorate_one in D.
  set (j := add_context_to_errors i ctx) in *.
  destruct (add_context_fields ctx i) as (_ & _ & _ & _ & _ & Fs & Fc & _). fold j in Fs, Fc.
  assert (Hd : dict_get CHedString (i_ctx j) = dict_get CHedString (i_ctx i)).
  { unfold j. rewrite dict_get_add_context, Hl. reflexivity. }
  assert (Lj : loc_ok j).
  { split.
    - unfold char_in_ctx, has_hed_ctx in *. rewrite Fc, Hd, Fs. exact Hc.
    - intro Hn. rewrite (span_depends i j Hd Fs). apply Hs. congruence. }
  destruct (i_char j) as [p|] eqn:Cj.
  - unfold update_error_with_char_pos in D. rewrite Cj in D. inversion D; subst. exact Lj.
  - rewrite (update_unlocated j Cj (proj2 Lj Cj)) in D. inversion D; subst. exact Lj.
Qed.

Lemma decorate_loc_hed : forall ctx h i i',
  ctx_last CHedString ctx = Some (VHed h) -> raw_wf h i -> decorate_one true ctx i = Ok i' -> loc_ok i'.
Proof.
  intros ctx h i i' Hl [Hc Hw] D. unfold decorate_one in D.
  set (j := add_context_to_errors i ctx) in *.
  destruct (add_context_fields ctx i) as (_ & _ & _ & Fi & Fe & Fs & Fc & _). fold j in Fi, Fe, Fs, Fc.
  assert (Hd : has_hed_ctx j h).
  { unfold has_hed_ctx, j. rewrite dict_get_add_context, Hl. reflexivity. }
  assert (Cj : i_char j = None) by congruence.
  unfold update_error_with_char_pos in D. rewrite Cj in D. cbn [andb] in D.
  unfold get_tag_span_to_error_object in D. unfold has_hed_ctx in Hd. rewrite Hd in D.
  assert (Settled : forall x, x = j -> get_tag_span_to_error_object x = Ok None -> loc_ok x).
  { intros x -> G. split; [unfold char_in_ctx; rewrite Cj; exact I | intros _; exact G]. }
  destruct (i_src j) as [src|] eqn:Sj.
  2:{ cbn [bind] in D. inversion D; subst. apply Settled; [reflexivity|].
      unfold get_tag_span_to_error_object. rewrite Hd, Sj. reflexivity. }
  assert (Sspan : get_tag_span_to_error_object j = Ok (match src with SrcInt => None | _ => get_org_span h src end)).
  { unfold get_tag_span_to_error_object. rewrite Hd, Sj. destruct src; reflexivity. }
  assert (Loc : forall s e ns ne, get_org_span h src = Some (s, e) -> s <= ns -> ns <= ne -> ne <= e ->
                loc_ok (set_char ns ne j)).
  { intros s e ns ne G A B Cc.
    destruct (Hw src s e (eq_sym Fs) G) as (L1 & L2 & _).
    split; [|intro N; discriminate N].
    unfold char_in_ctx. cbn [i_char set_char]. exists h, src, s, e.
    split; [exact Hd|]. split; [exact Sj|]. split; [exact G|]. lia. }
  assert (Bounds : forall s e, get_org_span h src = Some (s, e) ->
            s <= s + match i_idx j with Some k => k | None => 0 end /\
            s + match i_idx j with Some k => k | None => 0 end <= match i_idx_end j with Some b => s + b | None => e end /\
            match i_idx_end j with Some b => s + b | None => e end <= e).
  { intros s e G. destruct (Hw src s e (eq_sym Fs) G) as (L1 & L2 & L3).
    unfold idx_bounds in L3. rewrite Fi, Fe. destruct (i_idx_end i); lia. }
  destruct src as [t|id a b ne pr org| |sx].
  - destruct (get_org_span h (SrcTag t)) as [[s e]|] eqn:G; cbn [bind] in D.
    + destruct (t_modified t); inversion D; subst.
      * destruct (Hw _ s e (eq_sym Fs) G) as (L1 & L2 & _). apply (Loc s e); auto; lia.
      * destruct (Bounds s e eq_refl) as (B1 & B2 & B3). apply (Loc s e); auto.
    + inversion D; subst. apply Settled; [reflexivity|]. rewrite Sspan. reflexivity.
  - destruct (get_org_span h (SrcGroup id a b ne pr org)) as [[s e]|] eqn:G; cbn [bind] in D.
    + destruct ne; cbn [bind] in D; [discriminate|]. inversion D; subst.
      destruct (Bounds s e eq_refl) as (B1 & B2 & B3). apply (Loc s e); auto.
    + inversion D; subst. apply Settled; [reflexivity|]. rewrite Sspan. reflexivity.
  - cbn [bind] in D. inversion D; subst. apply Settled; [reflexivity|]. rewrite Sspan. reflexivity.
  - cbn [get_org_span src_id_span bind] in D. inversion D; subst. apply Settled; [reflexivity|].
    rewrite Sspan. reflexivity.
Qed.

Lemma decorate_loc_nosrc : forall ctx i i',
  i_char i = None -> i_src i = None -> decorate_one true ctx i = Ok i' -> loc_ok i'.
Proof.
  intros ctx i i' Hc Hs D. unfold decorate_one in D.
  set (j := add_context_to_errors i ctx) in *.
  destruct (add_context_fields ctx i) as (_ & _ & _ & _ & _ & Fs & Fc & _). fold j in Fs, Fc.
  assert (G : get_tag_span_to_error_object j = Ok None).
  { unfold get_tag_span_to_error_object. rewrite Fs, Hs. destruct (dict_get CHedString (i_ctx j)); reflexivity. }
  assert (Cj : i_char j = None) by congruence.
  rewrite (update_unlocated j Cj G) in D. inversion D; subst.
  split; [unfold char_in_ctx; rewrite Cj; exact I | intros _; exact G].
Qed.

Lemma acf_loc_nohed h l : hed_of h = None -> Forall loc_ok l -> all_ok loc_ok (add_context_and_filter true h l).
Proof.
  intros Hh H out E. unfold add_context_and_filter in E.
  eapply (mapM_Forall _ loc_ok loc_ok); [| |exact E].
  - intros x y Hx Hy. eapply decorate_loc_nohed; eassumption.
  - destruct (h_warn h); [assumption | apply filter_Forall; assumption].
Qed.

Lemma acf_loc_hed h hs l : hed_of h = Some (VHed hs) -> Forall (raw_wf hs) l ->
  all_ok loc_ok (add_context_and_filter true h l).
Proof.
  intros Hh H out E. unfold add_context_and_filter in E.
  eapply (mapM_Forall _ (raw_wf hs) loc_ok); [| |exact E].
  - intros x y Hx Hy. eapply decorate_loc_hed; eassumption.
  - destruct (h_warn h); [assumption | apply filter_Forall; assumption].
Qed.

Lemma format_error_no_tag : forall table kind a actual i,
  a_tag a = None -> format_error table kind a actual = Ok i -> i_src i = None.
Proof.
  intros table kind a actual i Ha H. unfold format_error in H.
  assert (G : forall obj, i_src obj = None ->
            Ok (match actual with Some (c :: cs) => set_code (c :: cs) obj | _ => obj end) = Ok i -> i_src i = None).
  { intros obj Ho Eo. inversion Eo; subst. destruct actual as [[|c cs]|]; assumption. }
  destruct (find_kind table kind) as [r|].
  - destruct (k_tag r).
    + rewrite Ha in H. discriminate.
    + cbn [bind] in H. eapply G; [|exact H]. reflexivity.
  - cbn [bind] in H. eapply G; [|exact H]. reflexivity.
Qed.

Lemma fewc_loc h e : hed_of h = None \/ a_tag (snd e) = None -> all_ok loc_ok (fewc true h e).
Proof.
  intros Hy out H. destruct (fewc_cases _ _ _ _ H) as (i & F & [(E & _) | (_ & i' & D & E)]); subst out.
  - constructor.
  - constructor; [|constructor].
    destruct (format_error_fresh _ _ _ _ _ F) as [[Fc _] Fx].
    destruct Hy as [Hn | Ht].
    + eapply decorate_loc_nohed; [exact Hn| |exact D].
      split; [unfold char_in_ctx; rewrite Fc; exact I|].
      intros _. unfold get_tag_span_to_error_object. rewrite Fx. reflexivity.
    + eapply decorate_loc_nosrc; [exact Fc | exact (format_error_no_tag _ _ _ _ _ Ht F) | exact D].
Qed.

(* ------------------------------------------------------------------ along the paths *)

Definition ev_no_tag (e : event) : Prop := a_tag (snd e) = None.

Lemma fewc_list_loc h es : hed_of h = None \/ Forall ev_no_tag es -> all_ok loc_ok (cat_map (fewc true h) es).
Proof.
  intros H. apply all_ok_cat_map. intros e He. apply fewc_loc.
  destruct H as [H | H]; [left; assumption | right]. rewrite Forall_forall in H. apply H. assumption.
Qed.

Ltac other_key := apply hed_of_push_other; reflexivity.

Lemma structure_loc h cols : hed_of h = None -> all_ok loc_ok (validate_structure true h cols).
Proof.
  intros Hh. unfold validate_structure. apply all_ok_cat_map. intros c Hc.
  apply all_ok_with_ctx.
  assert (H2 : hed_of (push_error_context h CSidecarCol (str_ctx (stc_name c))) = None)
    by (rewrite hed_of_push_other; [assumption | reflexivity]).
  apply all_ok_cat; [apply fewc_list_loc; left; assumption|].
  apply all_ok_cat_map. intros ke Hke. apply all_ok_with_ctx. apply fewc_list_loc. left.
  rewrite hed_of_push_other; [assumption | reflexivity].
Qed.

Lemma refs_loc h cols nested : hed_of h = None ->
  Forall (fun c => Forall (fun s => Forall ev_no_tag (rfs_events s)) (rfc_strs c)) cols ->
  all_ok loc_ok (validate_refs true h cols nested).
Proof.
  intros Hh H. unfold validate_refs. apply all_ok_cat; [|apply fewc_list_loc; left; assumption].
  apply all_ok_cat_map. intros c Hc. rewrite Forall_forall in H. pose proof (H c Hc) as H1.
  apply all_ok_cat; [|apply fewc_list_loc; left; assumption].
  apply all_ok_with_ctx.
  set (h2 := push_error_context h CSidecarCol (str_ctx (rfc_name c))).
  assert (H2 : hed_of h2 = None) by (unfold h2; rewrite hed_of_push_other; [assumption | reflexivity]).
  apply all_ok_cat_map. intros s Hs.
  apply all_ok_bind. intros x Hx. apply acf_loc_nohed; [assumption|].
  assert (A : all_ok loc_ok (with_opt_ctx h2 CSidecarKey (opt_str_ctx (rfs_key s))
                (fun h3 => with_ctx h3 CHedString (Some (VHed (rfs_hs s)))
                             (fun h4 => cat_map (fewc true h4) (rfs_events s))))).
  { apply all_ok_with_opt_ctx. intros h'. apply all_ok_with_ctx. apply fewc_list_loc. right.
    rewrite Forall_forall in H1. auto. }
  exact (A x Hx).
Qed.

Definition sc_strings_wf (cols : list sc_col) : Prop :=
  Forall (fun c => Forall (fun s => Forall (raw_wf (scs_hs s)) (scs_basic s) /\
                                    Forall (fun cb => Forall (raw_wf (fst cb)) (snd cb)) (scs_combos s))
                          (scc_strs c)) cols.

Lemma strings_loc h cols : sc_strings_wf cols -> all_ok loc_ok (validate_strings true h cols).
Proof.
  intros H. unfold validate_strings. apply all_ok_cat_map. intros c Hc.
  unfold sc_strings_wf in H. rewrite Forall_forall in H. pose proof (H c Hc) as H1.
  apply all_ok_with_ctx. apply all_ok_cat_map. intros s Hs.
  rewrite Forall_forall in H1. destruct (H1 s Hs) as [Hb Hcb].
  apply all_ok_with_opt_ctx. intros h'. apply all_ok_cat.
  - apply all_ok_with_ctx. eapply acf_loc_hed; [apply hed_of_push_hed | assumption].
  - apply all_ok_cat_map. intros cb Hin. apply all_ok_with_ctx.
    eapply acf_loc_hed; [apply hed_of_push_hed|]. rewrite Forall_forall in Hcb. auto.
Qed.

Lemma badspot_loc h cols : hed_of h = None -> all_ok loc_ok (check_definitions_bad_spot true h cols).
Proof.
  intros Hh. unfold check_definitions_bad_spot. apply all_ok_cat_map. intros c Hc.
  apply all_ok_with_ctx. apply fewc_list_loc. left. rewrite hed_of_push_other; [assumption | reflexivity].
Qed.

(* Sidecar.validate: every offset lies inside the text of the HED string the issue carries *)
Lemma sidecar_offsets_inside : forall sort_early h0 inp,
  hed_of h0 = None ->
  Forall (fun c => Forall (fun s => Forall ev_no_tag (rfs_events s)) (rfc_strs c)) (si_refs inp) ->
  Forall loc_ok (si_defs inp) ->
  sc_strings_wf (si_cols inp) ->
  all_ok char_in_ctx (sidecar_validate true sort_early h0 inp).
Proof.
  intros se h0 inp Hh Hr Hd Hs out Eo.
  assert (G : Forall loc_ok out).
  { revert out Eo. change (all_ok loc_ok (sidecar_validate true se h0 inp)).
    unfold sidecar_validate.
    set (h := push_error_context h0 CFile (si_name inp)).
    assert (H1 : hed_of h = None) by (unfold h; rewrite hed_of_push_other; [assumption | reflexivity]).
    apply all_ok_bind. intros issues Hi.
    assert (Pi : Forall loc_ok issues).
    { refine (all_ok_cat loc_ok _ _ _ _ issues Hi); [apply structure_loc | apply refs_loc]; assumption. }
    destruct (check_for_any_errors issues).
    - intros out Eo. destruct (pop_error_context h); cbn [bind] in Eo; [|discriminate].
      destruct se; [eapply sort_Forall; eassumption | inversion Eo; subst; assumption].
    - apply all_ok_bind. intros rest Hrest.
      assert (Pr : Forall loc_ok rest).
      { refine (all_ok_cat loc_ok _ _ _ _ rest Hrest); [apply all_ok_Ok; assumption|].
        apply all_ok_cat; [apply strings_loc | apply badspot_loc]; assumption. }
      intros out Eo. destruct (sort_issues (issues ++ rest) false) as [sorted|] eqn:Es; cbn [bind] in Eo; [|discriminate].
      destruct (pop_error_context h); cbn [bind] in Eo; [|discriminate]. inversion Eo; subst.
      eapply sort_Forall; [exact Es|]. apply Forall_app. split; assumption. }
  eapply Forall_impl; [|exact G]. intros a [H _]. exact H.
Qed.

(* ---- table *)
Definition tb_rows_wf (inp : tb_input) : Prop :=
  Forall (fun r => Forall (fun c => Forall (raw_wf (tbc_hs c)) (tbc_basic c)) (tr_cells r) /\
                   Forall (raw_wf (ps_hs (tr_rowstr r))) (tr_full r)) (ti_rows inp) /\
  match ti_onsets inp with
  | Some os => Forall (fun r => Forall (raw_wf (ps_hs (or_str r))) (or_full r)) os
  | None => True
  end.

Lemma run_cells_loc : forall cells h last r,
  Forall (fun c => Forall (raw_wf (tbc_hs c)) (tbc_basic c)) cells -> Forall loc_ok last ->
  run_cells true h cells last = Ok r -> Forall loc_ok (fst r).
Proof.
  induction cells as [|c cs IH]; intros h last r Hc Hl Er; simpl in Er.
  - inversion Er; subst. constructor.
  - inversion Hc as [|? ? Hc1 Hc2]; subst. rewrite !with_ctx_eq in Er.
    destruct (add_context_and_filter true _ (tbc_basic c)) as [d|] eqn:Ed; cbn [bind] in Er; [|discriminate].
    assert (Pd : Forall loc_ok d).
    { eapply acf_loc_hed; [apply hed_of_push_hed | exact Hc1 | exact Ed]. }
    destruct (run_cells true h cs d) as [r'|] eqn:Er'; cbn [bind] in Er; [|discriminate].
    pose proof (IH _ _ _ Hc2 Pd Er') as A. inversion Er; subst. cbn [fst].
    apply Forall_app. split; assumption.
Qed.

Lemma table_offsets_inside : forall gate h0 inp,
  hed_of h0 = None ->
  Forall loc_ok (ti_mapping inp) ->
  tb_rows_wf inp ->
  all_ok char_in_ctx (table_validate_gen gate true h0 inp).
Proof.
  intros gate h0 inp Hh Hm (Hr & Ho) out Eo.
  assert (G : Forall loc_ok out).
  { unfold table_validate_gen in Eo.
    set (h := push_error_context h0 CFile (ti_name inp)) in *.
    assert (H1 : hed_of h = None) by (unfold h; rewrite hed_of_push_other; [assumption | reflexivity]).
    destruct (validate_column_structure true h inp) as [a|] eqn:Ea; cbn [bind] in Eo; [|discriminate].
    destruct (cat_map (fewc true h) (ti_unordered inp)) as [b|] eqn:Eb; cbn [bind] in Eo; [|discriminate].
    destruct (run_checks gate true h (ti_rows inp)) as [c|] eqn:Ec; cbn [bind] in Eo; [|discriminate].
    destruct (match ti_onsets inp with Some os => run_onset_checks true h (snd c) os | None => Ok [] end)
      as [d|] eqn:Ed; cbn [bind] in Eo; [|discriminate].
    destruct (pop_error_context h); cbn [bind] in Eo; [|discriminate].
    eapply sort_Forall; [exact Eo|].
    repeat (apply Forall_app; split).
    - assert (Pa : all_ok loc_ok (validate_column_structure true h inp)); [|exact (Pa a Ea)].
      unfold validate_column_structure.
      apply all_ok_cat; [apply acf_loc_nohed; assumption|].
      apply all_ok_cat; [|apply fewc_list_loc; left; assumption].
      apply all_ok_cat_map. intros cc Hcc. apply all_ok_with_ctx. apply all_ok_cat_map. intros re Hre.
      apply all_ok_with_ctx. apply fewc_loc. left.
      rewrite hed_of_push_other; [|reflexivity]. rewrite hed_of_push_other; [assumption | reflexivity].
    - exact (fewc_list_loc h _ (or_introl H1) b Eb).
    - assert (Pc : forall l, Forall (fun r => Forall (fun c => Forall (raw_wf (tbc_hs c)) (tbc_basic c)) (tr_cells r) /\
                   Forall (raw_wf (ps_hs (tr_rowstr r))) (tr_full r)) l ->
                   forall c, run_checks gate true h l = Ok c -> Forall loc_ok (fst c)); [|exact (Pc _ Hr c Ec)].
      clear Eo Ed d Ec c Hr.
      induction l as [|r rs IH]; intros Hr c Ec; simpl in Ec.
      + inversion Ec; subst. constructor.
      + inversion Hr as [|? ? [Hr1 Hr1'] Hr2]; subst.
        destruct (run_row gate true h r) as [x|] eqn:Ex; cbn [bind] in Ec; [|discriminate].
        destruct (run_checks gate true h rs) as [y|] eqn:Ey; cbn [bind] in Ec; [|discriminate].
        inversion Ec; subst. cbn [fst]. apply Forall_app. split; [|exact (IH Hr2 y eq_refl)].
        unfold run_row in Ex. rewrite with_ctx_eq in Ex.
        destruct (run_cells true _ (tr_cells r) []) as [cr|] eqn:Ecr; cbn [bind] in Ex; [|discriminate].
        pose proof (run_cells_loc _ _ _ _ Hr1 (Forall_nil _) Ecr) as A.
        destruct (gate (snd cr)); [inversion Ex; subst; assumption|].
        destruct (_ || tr_masked r); [inversion Ex; subst; assumption|].
        destruct (ps_true (tr_rowstr r)); [|inversion Ex; subst; assumption].
        rewrite with_ctx_eq in Ex.
        destruct (add_context_and_filter true _ (tr_full r)) as [dd|] eqn:Edd; cbn [bind] in Ex; [|discriminate].
        inversion Ex; subst. cbn [fst]. apply Forall_app. split; [assumption|].
        eapply acf_loc_hed; [apply hed_of_push_hed | exact Hr1' | exact Edd].
    - destruct (ti_onsets inp) as [os|]; [|inversion Ed; constructor].
      assert (Pd : all_ok loc_ok (run_onset_checks true h (snd c) os)); [|exact (Pd d Ed)].
      unfold run_onset_checks. apply all_ok_cat_map. intros r Hin.
      destruct (existsb _ (snd c)); [apply all_ok_Ok; constructor|].
      apply all_ok_with_ctx. destruct (ps_true (or_str r)); [|apply all_ok_Ok; constructor].
      apply all_ok_with_ctx. eapply acf_loc_hed; [apply hed_of_push_hed|].
      rewrite Forall_forall in Ho. auto. }
  eapply Forall_impl; [|exact G]. intros a [H _]. exact H.
Qed.

(* row strings: a tag of part p at local span [a,b) sits, shifted, inside the comma-joined text *)
Lemma join_length_ge : forall pre p post,
  parts_len pre + length (hs_text p) <= length (join [ch_comma] (map hs_text (pre ++ p :: post))).
Proof.
  induction pre as [|q pre IH]; intros p post.
  - cbn [app map parts_len]. destruct (join_cons_app [ch_comma] (hs_text p) (map hs_text post)) as (rest & E & _).
    rewrite E, app_length. lia.
  - cbn [app map parts_len].
    destruct (join_cons_app [ch_comma] (hs_text q) (map hs_text (pre ++ p :: post))) as (rest & E & Er).
    rewrite E, Er by (destruct pre; discriminate). rewrite !app_length. cbn [length].
    specialize (IH p post). lia.
Qed.

Lemma from_strings_span_inside : forall pre p post id a b,
  Forall (fun q => in_original q id = false) pre -> in_original p id = true ->
  a <= b -> b <= length (hs_text p) ->
  exists s e, get_org_span_from_strings (pre ++ p :: post) 0 id a b = Some (s, e) /\
    s <= e /\ e <= length (join [ch_comma] (map hs_text (pre ++ p :: post))) /\
    sub (join [ch_comma] (map hs_text (pre ++ p :: post))) s e = sub (hs_text p) a b.
Proof.
  intros pre p post id a b Hpre Hp Hab Hb.
  exists (a + (0 + parts_len pre)), (b + (0 + parts_len pre)).
  split; [apply from_strings_span; assumption|].
  pose proof (join_length_ge pre p post) as L.
  split; [lia|]. split; [lia|]. cbn [Nat.add]. apply from_strings_slice; assumption.
Qed.

(* ================================================================== G. one HED-string context per decorated list *)

(* the loop over {column}-reference combinations as the code has it: a NEW list per combination *)
Definition combos_own (fixed : bool) (h3 : handler) (combos : list (hstr * list issue)) : res (list issue) :=
  cat_map (fun cb => with_ctx h3 CHedString (Some (VHed (fst cb))) (fun h4 =>
                       add_context_and_filter fixed h4 (snd cb))) combos.

(* the variant "collect, then extend once": one list accumulates over the combinations, so the
   issues of earlier texts are decorated again under the context of every later text *)
Fixpoint combos_accum (fixed : bool) (h3 : handler) (combos : list (hstr * list issue)) (acc : list issue)
  : res (list issue) :=
  match combos with
  | [] => Ok acc
  | cb :: rest =>
      let* d := with_ctx h3 CHedString (Some (VHed (fst cb))) (fun h4 =>
                  add_context_and_filter fixed h4 (acc ++ snd cb)) in
      combos_accum fixed h3 rest d
  end.

Lemma combos_own_loc h3 combos :
  Forall (fun cb => Forall (raw_wf (fst cb)) (snd cb)) combos ->
  all_ok char_in_ctx (combos_own true h3 combos).
Proof.
  intros H out E.
  assert (G : Forall loc_ok out).
  { revert out E. change (all_ok loc_ok (combos_own true h3 combos)). unfold combos_own.
    apply all_ok_cat_map. intros cb Hin. apply all_ok_with_ctx.
    eapply acf_loc_hed; [apply hed_of_push_hed|]. rewrite Forall_forall in H. auto. }
  eapply Forall_impl; [|exact G]. intros a [Ha _]. exact Ha.
Qed.

(* witness: "{stim}, Black, Black" with stim = Blue | Item/Object: the repeated tag is found at 13..18 in the
   first substituted text; re-decorated under the second text it names a string that does not contain it *)
Definition t1_text : str := [66;108;117;101;44;32;66;108;97;99;107;44;32;66;108;97;99;107]%N.
Definition t2_text : str :=
  [73;116;101;109;47;79;98;106;101;99;116;44;32;66;108;97;99;107;44;32;66;108;97;99;107]%N.
Definition t_black : str := [66;108;97;99;107]%N.
Definition hs_t1 : hstr := HS t1_text [0; 1; 2; 3] [].
Definition hs_t2 : hstr := HS t2_text [10; 11; 12; 13] [].
Definition black_tag : srctag :=
  {| t_id := 3; t_start := 13; t_end := 18; t_text := t_black; t_org := t_black; t_modified := false |}.
Definition rep_issue : issue :=
  create_error_object [84;65;71;95;69;88;80;82;69;83;83;73;79;78;95;82;69;80;69;65;84;69;68]%N
                      {| m_tag := Some t_black; m_frag := None |} sev_error None None (Some (SrcTag black_tag)).
Definition wc_combos : list (hstr * list issue) := [(hs_t1, [rep_issue]); (hs_t2, [])].

Lemma combos_accum_refuted :
  Forall (fun cb => Forall (raw_wf (fst cb)) (snd cb)) wc_combos /\
  (exists out, combos_own true wt_handler wc_combos = Ok out /\ Forall char_in_ctx out /\
               map i_char out = [Some (13, 18)]) /\
  exists out i, combos_accum true wt_handler wc_combos [] = Ok out /\ In i out /\
                i_char i = Some (13, 18) /\ has_hed_ctx i hs_t2 /\ ~ char_in_ctx i.
Proof.
  assert (W : Forall (fun cb => Forall (raw_wf (fst cb)) (snd cb)) wc_combos).
  { constructor; [|constructor; [constructor | constructor]].
    constructor; [|constructor]. split; [reflexivity|].
    intros src0 s0 e0 Hs G. cbn [fst] in G. vm_compute in Hs. inversion Hs; subst src0.
    vm_compute in G. inversion G; subst. vm_compute. repeat split; lia. }
  split; [exact W|]. split.
  - destruct (combos_own true wt_handler wc_combos) as [out|] eqn:E; [|vm_compute in E; discriminate].
    exists out. split; [reflexivity|]. split; [exact (combos_own_loc _ _ W out E)|].
    vm_compute in E. inversion E. reflexivity.
  - eexists. eexists. split; [vm_compute; reflexivity|]. split; [left; reflexivity|].
    split; [reflexivity|]. split; [reflexivity|].
    unfold char_in_ctx. cbn [i_char]. intros (h & src & s & e & Hh & Hs & G & _).
    vm_compute in Hh. inversion Hh; subst h. vm_compute in Hs. inversion Hs; subst src.
    vm_compute in G. discriminate.
Qed.

(* _check_definitions_bad_spot issues are sorted into place: column "bcol" (definition in a bad spot)
   comes out before the issue of column "ccol" although it is produced last *)
Definition k_baddef : str :=
  [66;65;68;95;68;69;70;73;78;73;84;73;79;78;95;76;79;67;65;84;73;79;78]%N.
Definition def_tag : source := SrcStr [68;101;102]%N.
Definition wb_input : sc_input :=
  {| si_name := Some (VStr [115]%N); si_struct := []; si_refs := []; si_nested := []; si_defs := [];
     si_cols := [ {| scc_name := [99;99;111;108]%N;
                     scc_strs := [ {| scs_key := None; scs_hs := wt_hs; scs_basic := [wt_warn]; scs_combos := [] |} ] |} ];
     si_badspot := [ ([98;99;111;108]%N,
                      [(k_baddef, {| a_tag := Some def_tag; a_idx := 0; a_idx_end := None; a_sev := None |})]) ] |}.

Example sidecar_badspot_sorted_into_place :
  exists out, sidecar_validate true true wt_handler wb_input = Ok out /\
    map (key_at CSidecarCol) out = [KT0 [98;99;111;108]%N; KT0 [99;99;111;108]%N] /\
    StronglySorted (fun a b => issue_leb false a b = true) out.
Proof.
  destruct (sidecar_validate true true wt_handler wb_input) as [out|] eqn:E; [|vm_compute in E; discriminate].
  exists out. split; [reflexivity|]. split.
  - vm_compute in E. inversion E. reflexivity.
  - eapply sidecar_output_sorted_fixed. exact E.
Qed.
