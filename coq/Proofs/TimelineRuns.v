(* Inductive proof (ALL files) that the file pipeline of Model/Timeline.v with the
   repaired, stable sort processes exactly one time point per effective time:
   grouping a list that is sorted by onset with _indexed_dict_from_onsets /
   _filter_by_index_list merges its runs of equal onsets. *)
From Coq Require Import List NArith Arith Bool Lia Permutation Sorted.
From HV Require Import Base.Res Base.Str Model.Onset Model.Timeline
  Proofs.OnsetProofs Proofs.TimelineProofs.
Import ListNotations.

(* ------------------------------------------------------------------ *)
(* Runs                                                                *)
(* ------------------------------------------------------------------ *)
Definition run_time (r : list entry) : N := match r with e :: _ => e_time e | [] => 0%N end.

Definition run_ok (r : list entry) : Prop := r <> [] /\ forall e, In e r -> e_time e = run_time r.

Definition runs_ok (rs : list (list entry)) : Prop :=
  Forall run_ok rs /\ StronglySorted N.lt (map run_time rs).

(* a list sorted by time is the concatenation of its runs of equal time *)
Lemma sorted_runs es :
  Sorted (fun a b => (e_time a <= e_time b)%N) es -> exists rs, concat rs = es /\ runs_ok rs.
Proof.
  induction es as [|e es IH]; intro Hs.
  - exists []. split; [reflexivity|]. split; constructor.
  - inversion Hs as [|? ? Hs' Hh]; subst. destruct (IH Hs') as [rs [Hc [Hf Hst]]].
    destruct rs as [|r rs].
    + cbn in Hc. subst es. exists [[e]]. split; [reflexivity|]. split.
      * constructor; [|constructor]. split; [discriminate|]. intros x [Hx | []]. subst. reflexivity.
      * cbn. constructor; constructor.
    + inversion Hf as [|? ? Hr Hf']; subst. destruct Hr as [Hne Hall].
      destruct r as [|e1 r1]; [contradiction Hne; reflexivity|].
      cbn [concat app] in Hh. inversion Hh as [|? ? Hle]; subst.
      cbn [map run_time] in Hst. inversion Hst as [|? ? Hst' Hlt]; subst.
      destruct (N.eqb (e_time e) (e_time e1)) eqn:E.
      * apply N.eqb_eq in E. exists ((e :: e1 :: r1) :: rs). split; [reflexivity|]. split.
        -- constructor; [|exact Hf']. split; [discriminate|]. cbn [run_time].
           intros x [Hx | Hx]; [subst; reflexivity|]. rewrite E. apply (Hall x Hx).
        -- cbn [map run_time]. rewrite E. constructor; assumption.
      * apply N.eqb_neq in E. exists ([e] :: (e1 :: r1) :: rs). split; [reflexivity|]. split.
        -- constructor; [|exact Hf]. split; [discriminate|]. intros x [Hx | []]. subst. reflexivity.
        -- cbn [map run_time]. constructor; [constructor; assumption|].
           constructor; [lia|]. eapply Forall_impl; [|exact Hlt]. cbn. intros a Ha. lia.
Qed.

Lemma run_times r : run_ok r -> map e_time r = repeat (run_time r) (length r).
Proof.
  intros [_ H]. revert H. generalize (run_time r). induction r as [|e r IH]; intros t H; [reflexivity|].
  cbn [map length repeat]. f_equal; [apply H; left; reflexivity | apply IH; intros x Hx; apply H; right; exact Hx].
Qed.

Lemma lt_sorted_nodup l : StronglySorted N.lt l -> NoDup l.
Proof.
  induction 1 as [|a l Hs IH Hf]; constructor; [|exact IH].
  intro Hin. rewrite Forall_forall in Hf. specialize (Hf a Hin). lia.
Qed.

(* ------------------------------------------------------------------ *)
(* _indexed_dict_from_onsets on runs                                   *)
(* ------------------------------------------------------------------ *)
Fixpoint dict_of_runs (i : nat) (rs : list (list entry)) : list (N * list nat) :=
  match rs with
  | [] => []
  | r :: rs' => (run_time r, seq i (length r)) :: dict_of_runs (i + length r) rs'
  end.

Lemma indexed_loop_app a : forall b i d,
  indexed_loop i (a ++ b) d = indexed_loop (i + length a) b (indexed_loop i a d).
Proof.
  induction a as [|o a IH]; intros b i d; cbn [app indexed_loop length].
  - rewrite Nat.add_0_r. reflexivity.
  - rewrite IH. f_equal. lia.
Qed.

Lemma dict_append_new k i d : ~ In k (map fst d) -> dict_append k i d = d ++ [(k, [i])].
Proof.
  induction d as [|[k' l] r IH]; intro H; cbn [dict_append app]; [reflexivity|].
  cbn [map fst In] in H. destruct (N.eqb k k') eqn:E.
  - apply N.eqb_eq in E. exfalso. apply H. left. symmetry. exact E.
  - rewrite IH; [reflexivity|]. intro Hc. apply H. right. exact Hc.
Qed.

Lemma dict_append_last k i d l :
  ~ In k (map fst d) -> dict_append k i (d ++ [(k, l)]) = d ++ [(k, l ++ [i])].
Proof.
  induction d as [|[k' l'] r IH]; intro H; cbn [dict_append app].
  - rewrite N.eqb_refl. reflexivity.
  - cbn [map fst In] in H. destruct (N.eqb k k') eqn:E.
    + apply N.eqb_eq in E. exfalso. apply H. left. symmetry. exact E.
    + rewrite IH; [reflexivity|]. intro Hc. apply H. right. exact Hc.
Qed.

Lemma loop_run t d : ~ In t (map fst d) -> forall n i l,
  indexed_loop i (repeat t n) (d ++ [(t, l)]) = d ++ [(t, l ++ seq i n)].
Proof.
  intro H. induction n as [|n IH]; intros i l; cbn [repeat indexed_loop seq].
  - rewrite app_nil_r. reflexivity.
  - rewrite dict_append_last by exact H. rewrite IH. rewrite <- app_assoc. reflexivity.
Qed.

Lemma loop_runs rs : forall i d,
  Forall run_ok rs -> NoDup (map run_time rs) ->
  (forall r, In r rs -> ~ In (run_time r) (map fst d)) ->
  indexed_loop i (map e_time (concat rs)) d = d ++ dict_of_runs i rs.
Proof.
  induction rs as [|r rs IH]; intros i d Hf Hnd Hd; cbn [concat map indexed_loop dict_of_runs].
  - rewrite app_nil_r. reflexivity.
  - inversion Hf as [|? ? Hr Hf']; subst. cbn [map] in Hnd. inversion Hnd as [|? ? Hnin Hnd']; subst.
    rewrite map_app, indexed_loop_app, map_length. rewrite (run_times r Hr).
    assert (Hrd : ~ In (run_time r) (map fst d)) by (apply Hd; left; reflexivity).
    destruct Hr as [Hne _]. destruct r as [|e r']; [contradiction Hne; reflexivity|].
    cbn [length repeat indexed_loop]. rewrite dict_append_new by exact Hrd.
    rewrite loop_run by exact Hrd. cbn [app].
    change (i :: seq (S i) (length r')) with (seq i (S (length r'))).
    rewrite IH; [rewrite <- app_assoc; reflexivity | exact Hf' | exact Hnd'|].
    intros r0 Hr0. rewrite map_app. cbn [map fst]. intro Hc. apply in_app_or in Hc.
    destruct Hc as [Hc | [Hc | []]].
    + apply (Hd r0); [right; exact Hr0 | exact Hc].
    + apply Hnin. rewrite Hc. apply in_map. exact Hr0.
Qed.

Lemma indexed_dict_runs rs :
  runs_ok rs -> indexed_dict_from_onsets (map e_time (concat rs)) = dict_of_runs 0 rs.
Proof.
  intros [Hf Hs]. unfold indexed_dict_from_onsets.
  rewrite loop_runs; [reflexivity | exact Hf | apply lt_sorted_nodup; exact Hs | intros r _ []].
Qed.

(* ------------------------------------------------------------------ *)
(* _filter_by_index_list on runs                                       *)
(* ------------------------------------------------------------------ *)
Definition series_of_run (r : list entry) : list (list (option marker)) :=
  match r with
  | [] => []
  | _ :: r' => flat_map e_groups r :: map (fun _ => []) r'
  end.

Lemma join_run r : forall pre post,
  mapM (fun i => match nth_error (pre ++ r ++ post) i with
                 | Some e => Ok (e_groups e)
                 | None => Exn KeyError
                 end) (seq (length pre) (length r)) = Ok (map e_groups r).
Proof.
  induction r as [|e r IH]; intros pre post; [reflexivity|].
  cbn [length seq mapM app]. rewrite nth_error_app2 by lia. rewrite Nat.sub_diag. cbn [nth_error bind].
  specialize (IH (pre ++ [e]) post). rewrite app_length in IH. cbn [length] in IH.
  rewrite Nat.add_1_r in IH. rewrite <- app_assoc in IH. cbn [app] in IH. rewrite IH. reflexivity.
Qed.

Lemma join_groups_run pre r post :
  join_groups (pre ++ r ++ post) (seq (length pre) (length r)) = Ok (flat_map e_groups r).
Proof.
  unfold join_groups. rewrite join_run. cbn [bind]. rewrite flat_map_concat_map. reflexivity.
Qed.

Lemma set_nth_app {B} (S : list B) x y T : set_nth (length S) x (S ++ y :: T) = S ++ x :: T.
Proof. induction S as [|a S IH]; cbn [length app set_nth]; [reflexivity | rewrite IH; reflexivity]. Qed.

Lemma filter_loop_step data k i n d series :
  filter_loop data ((k, seq i (S n)) :: d) series =
  (let* joined := join_groups data (seq i (S n)) in filter_loop data d (set_nth i joined series)).
Proof. reflexivity. Qed.

Lemma filter_loop_runs rs : forall pre (sr : list (list (option marker))),
  Forall run_ok rs -> length sr = length pre ->
  filter_loop (pre ++ concat rs) (dict_of_runs (length pre) rs) (sr ++ map (fun _ => []) (concat rs))
  = Ok (sr ++ flat_map series_of_run rs).
Proof.
  induction rs as [|r rs IH]; intros pre sr Hf Hl.
  - reflexivity.
  - inversion Hf as [|? ? Hr Hf']; subst. destruct Hr as [Hne _].
    destruct r as [|e r']; [contradiction Hne; reflexivity|].
    cbn [concat dict_of_runs flat_map length]. rewrite filter_loop_step.
    pose proof (join_groups_run pre (e :: r') (concat rs)) as Hj. cbn [length] in Hj. rewrite Hj. cbn [bind].
    rewrite map_app. cbn [map app]. rewrite <- Hl at 2. rewrite set_nth_app.
    specialize (IH (pre ++ e :: r') (sr ++ flat_map e_groups (e :: r') :: map (fun _ => []) r') Hf').
    rewrite !app_length in IH. cbn [length] in IH. rewrite map_length in IH.
    rewrite <- !app_assoc in IH. cbn [app] in IH. cbn [series_of_run].
    apply IH. rewrite Hl. reflexivity.
Qed.

Definition lines_of_run (r : list entry) : list (nat * list (option marker)) :=
  match r with
  | [] => []
  | e :: r' => (e_orig e, flat_map e_groups r) :: map (fun x => (e_orig x, [])) r'
  end.

Lemma combine_app' {X Y} (a1 : list X) : forall (b1 : list Y) a2 b2,
  length a1 = length b1 -> combine (a1 ++ a2) (b1 ++ b2) = combine a1 b1 ++ combine a2 b2.
Proof.
  induction a1 as [|x a1 IH]; intros [|y b1] a2 b2 H; try discriminate; [reflexivity|].
  cbn [app combine]. f_equal. apply IH. cbn in H. lia.
Qed.

Lemma combine_runs rs :
  Forall run_ok rs ->
  combine (map e_orig (concat rs)) (flat_map series_of_run rs) = flat_map lines_of_run rs.
Proof.
  induction rs as [|r rs IH]; intro Hf; [reflexivity|].
  inversion Hf as [|? ? Hr Hf']; subst. cbn [concat flat_map]. rewrite map_app.
  rewrite combine_app'.
  - rewrite IH by exact Hf'. f_equal. destruct r as [|e r']; [reflexivity|].
    cbn [map series_of_run lines_of_run combine]. f_equal.
    clear. induction r' as [|x r' IH']; [reflexivity|]. cbn [map combine]. rewrite IH'. reflexivity.
  - rewrite map_length. destruct r as [|e r']; [reflexivity|]. cbn [series_of_run length]. rewrite map_length. reflexivity.
Qed.

Lemma filter_by_index_list_runs rs :
  runs_ok rs ->
  filter_by_index_list (concat rs) (indexed_dict_from_onsets (map e_time (concat rs)))
  = Ok (flat_map lines_of_run rs).
Proof.
  intro H. rewrite (indexed_dict_runs rs H). destruct H as [Hf _]. unfold filter_by_index_list.
  pose proof (filter_loop_runs rs [] [] Hf eq_refl) as Hl. cbn [app length] in Hl. rewrite Hl.
  cbn [bind]. rewrite combine_runs by exact Hf. reflexivity.
Qed.

(* ------------------------------------------------------------------ *)
(* _run_onset_checks: the emptied lines are skipped                    *)
(* ------------------------------------------------------------------ *)
Definition tp_of_run (r : list entry) : list (nat * list (option marker)) :=
  match r with
  | [] => []
  | e :: _ => [(e_orig e, flat_map e_groups r)]
  end.

Lemma roc_skip_empties inv (l : list entry) : forall st rest,
  run_onset_checks inv st (map (fun x => (e_orig x, [])) l ++ rest) = run_onset_checks inv st rest.
Proof.
  induction l as [|x l IH]; intros st rest; [reflexivity|].
  cbn [map app run_onset_checks]. destruct (nat_mem (e_orig x) inv); apply IH.
Qed.

Lemma roc_runs inv rs : forall st,
  run_onset_checks inv st (flat_map lines_of_run rs) = run_onset_checks inv st (flat_map tp_of_run rs).
Proof.
  induction rs as [|r rs IH]; intro st; [reflexivity|].
  cbn [flat_map]. destruct r as [|e r']; [apply IH|].
  cbn [lines_of_run tp_of_run app run_onset_checks].
  destruct (nat_mem (e_orig e) inv).
  - rewrite roc_skip_empties. apply IH.
  - destruct (flat_map e_groups (e :: r')) as [|g gs].
    + rewrite roc_skip_empties. apply IH.
    + destruct (validate_temporal_relations st (temporal_markers (g :: gs))) as [st1 iss].
      rewrite roc_skip_empties, IH. reflexivity.
Qed.

(* ------------------------------------------------------------------ *)
(* runs = one time point per time value that occurs, in increasing order *)
(* ------------------------------------------------------------------ *)
Definition tp_at (es : list entry) (t : N) : list (nat * list (option marker)) :=
  match filter (fun e => N.eqb (e_time e) t) es with
  | [] => []
  | (e :: _) as ls => [(e_orig e, flat_map e_groups ls)]
  end.

Lemma filter_run_same r : run_ok r -> filter (fun e => N.eqb (e_time e) (run_time r)) r = r.
Proof.
  intros [_ H]. revert H. generalize (run_time r). induction r as [|e r IH]; intros t H; [reflexivity|].
  cbn [filter]. rewrite (H e (or_introl eq_refl)), N.eqb_refl. f_equal. apply IH. intros x Hx. apply H. right. exact Hx.
Qed.

Lemma filter_run_other r t : run_ok r -> run_time r <> t -> filter (fun e => N.eqb (e_time e) t) r = [].
Proof.
  intros [_ H] Hne. revert H Hne. generalize (run_time r). induction r as [|e r IH]; intros t0 H Hne; [reflexivity|].
  cbn [filter]. rewrite (H e (or_introl eq_refl)). destruct (N.eqb t0 t) eqn:E; [apply N.eqb_eq in E; contradiction|].
  apply (IH t0); [intros x Hx; apply H; right; exact Hx | exact Hne].
Qed.

Lemma filter_runs_none rs t :
  Forall run_ok rs -> (forall r, In r rs -> run_time r <> t) ->
  filter (fun e => N.eqb (e_time e) t) (concat rs) = [].
Proof.
  induction rs as [|r rs IH]; intros Hf Hn; [reflexivity|]. inversion Hf; subst.
  cbn [concat]. rewrite filter_app, filter_run_other, IH; try assumption; try reflexivity.
  - intros r0 Hr0. apply Hn. right. exact Hr0.
  - apply Hn. left. reflexivity.
Qed.

Lemma flat_map_ext_in' {X Y} (f g : X -> list Y) l :
  (forall x, In x l -> f x = g x) -> flat_map f l = flat_map g l.
Proof.
  induction l as [|a l IH]; intro H; [reflexivity|]. cbn [flat_map].
  rewrite (H a (or_introl eq_refl)), IH; [reflexivity|]. intros x Hx. apply H. right. exact Hx.
Qed.

Lemma tp_at_nil ts : flat_map (tp_at []) ts = [].
Proof. induction ts as [|t ts IH]; [reflexivity | exact IH]. Qed.

Lemma tp_runs ts : forall rs,
  StronglySorted N.lt ts -> runs_ok rs -> (forall r, In r rs -> In (run_time r) ts) ->
  flat_map (tp_at (concat rs)) ts = flat_map tp_of_run rs.
Proof.
  induction ts as [|t ts IH]; intros rs Hts [Hf Hs] Hin.
  - destruct rs as [|r rs]; [reflexivity|]. exfalso. apply (Hin r). left. reflexivity.
  - inversion Hts as [|? ? Hts' Hlt]; subst. rewrite Forall_forall in Hlt.
    destruct rs as [|r rs].
    + cbn [concat]. rewrite tp_at_nil. reflexivity.
    + inversion Hf as [|? ? Hr Hf']; subst. cbn [map] in Hs. inversion Hs as [|? ? Hs' Hgt]; subst.
      rewrite Forall_forall in Hgt.
      assert (Hgt' : forall r0, In r0 rs -> (run_time r < run_time r0)%N).
      { intros r0 Hr0. apply Hgt. apply in_map. exact Hr0. }
      cbn [flat_map]. destruct (N.eqb (run_time r) t) eqn:E.
      * apply N.eqb_eq in E. subst t.
        (* this time value is the first run *)
        assert (Hhead : tp_at (concat (r :: rs)) (run_time r) = tp_of_run r).
        { unfold tp_at. cbn [concat]. rewrite filter_app, (filter_run_same r Hr).
          rewrite filter_runs_none; [|exact Hf' | intros r0 Hr0; specialize (Hgt' r0 Hr0); lia].
          rewrite app_nil_r. destruct r; reflexivity. }
        rewrite Hhead. f_equal.
        rewrite <- (IH rs Hts' (conj Hf' Hs')).
        -- apply flat_map_ext_in'. intros t' Ht'. specialize (Hlt t' Ht'). unfold tp_at. cbn [concat].
           rewrite filter_app, (filter_run_other r t' Hr) by lia. reflexivity.
        -- intros r0 Hr0. destruct (Hin r0 (or_intror Hr0)) as [Hc | Hc]; [|exact Hc].
           specialize (Hgt' r0 Hr0). lia.
      * apply N.eqb_neq in E.
        (* no run has this time value *)
        assert (Hrt : In (run_time r) ts).
        { destruct (Hin r (or_introl eq_refl)) as [Hc | Hc]; [congruence | exact Hc]. }
        assert (Htl : (t < run_time r)%N) by (apply Hlt; exact Hrt).
        assert (Hnone : tp_at (concat (r :: rs)) t = []).
        { unfold tp_at. rewrite filter_runs_none; [reflexivity | exact Hf|].
          intros r0 [Hr0 | Hr0]; [subst; exact E | specialize (Hgt' r0 Hr0); lia]. }
        rewrite Hnone. cbn [app].
        rewrite (IH (r :: rs) Hts' (conj Hf Hs)); [reflexivity|].
        intros r0 Hr0. destruct (Hin r0 Hr0) as [Hc | Hc]; [|exact Hc].
        destruct Hr0 as [Hr0 | Hr0]; [subst; congruence | specialize (Hgt' r0 Hr0); lia].
Qed.

(* the candidate time values 0..max *)
Lemma range_sorted n : forall a, StronglySorted N.lt (map N.of_nat (seq a n)).
Proof.
  induction n as [|n IH]; intro a; cbn [seq map]; [constructor|]. constructor; [apply IH|].
  apply Forall_forall. intros x Hx. apply in_map_iff in Hx. destruct Hx as [y [Hy Hin]].
  apply in_seq in Hin. subst. lia.
Qed.

Lemma max_time_ge es e : In e es -> (e_time e <= max_time es)%N.
Proof.
  induction es as [|x es IH]; intros []; cbn [max_time fold_right].
  - subst. lia.
  - specialize (IH H). unfold max_time in IH. lia.
Qed.

Lemma in_range t m : (t <= m)%N -> In t (map N.of_nat (seq 0 (S (N.to_nat m)))).
Proof.
  intro H. apply in_map_iff. exists (N.to_nat t). split; [apply N2Nat.id|]. apply in_seq. lia.
Qed.

Lemma max_time_perm a b : Permutation a b -> max_time a = max_time b.
Proof.
  induction 1 as [|x l l' Hp IH|x y l|l l' l'' Hp1 IH1 Hp2 IH2].
  - reflexivity.
  - unfold max_time in *. cbn [fold_right]. rewrite IH. reflexivity.
  - unfold max_time. cbn [fold_right]. lia.
  - rewrite IH1. exact IH2.
Qed.

(* ------------------------------------------------------------------ *)
(* The theorem                                                         *)
(* ------------------------------------------------------------------ *)

Lemma spec_tps_sorted irows :
  spec_time_points irows =
  flat_map (tp_at (stable_sort e_time (split_entries irows)))
           (map N.of_nat (seq 0 (S (N.to_nat (max_time (stable_sort e_time (split_entries irows))))))).
Proof.
  unfold spec_time_points. rewrite <- (max_time_perm _ _ (sort_perm e_time (split_entries irows))).
  pose proof (processing_order_is_stable_sort irows) as H. cbn zeta in H. destruct H as [_ [_ [_ [_ Hst]]]].
  apply flat_map_ext. intro t. unfold tp_at, lines_at. rewrite (Hst t). reflexivity.
Qed.

(* effective_time: for EVERY time-ordered file, the repaired pipeline (whatever tie orders the platform
   would have chosen: they are no longer consulted) processes exactly one time point per effective time
   that occurs, in increasing time order, holding every group (rows in file order, then Delay groups in
   file order) whose effective time it is, reported at the row of its first line, skipping time points
   whose first line belongs to a failed row. *)
Theorem effective_time rows perm1 perm2 :
  needs_sorting rows = false -> process_file true perm1 perm2 rows = Ok (spec_file rows).
Proof.
  intro Hs. unfold process_file, process_file_from, spec_file. rewrite Hs. cbn [bind sort_dataframe_by_onsets].
  set (irows := index_from 0 rows).
  set (es := stable_sort e_time (split_entries irows)).
  destruct (sorted_runs es (sort_sorted e_time (split_entries irows))) as [rs [Hc Hok]].
  rewrite spec_tps_sorted. fold es. rewrite <- Hc.
  rewrite (filter_by_index_list_runs rs Hok). cbn [bind]. f_equal.
  rewrite roc_runs. f_equal. symmetry. apply tp_runs.
  - apply range_sorted.
  - exact Hok.
  - intros r Hr. apply in_range. destruct Hok as [Hf _]. rewrite Forall_forall in Hf.
    destruct (Hf r Hr) as [Hne Hall]. destruct r as [|e r']; [contradiction Hne; reflexivity|].
    cbn [run_time]. apply max_time_ge. apply in_concat. exists (e :: r'). split; [exact Hr | left; reflexivity].
Qed.

(* the unrepaired code agrees with it whenever the platform's sort happened to keep the file order *)
Corollary effective_time_order_preserving rows :
  needs_sorting rows = false -> process_file false None None rows = Ok (spec_file rows).
Proof. intro H. rewrite <- (effective_time rows None None H). reflexivity. Qed.

(* RECORD OF THE REPAIRED DEFECT C10-F1 (behaviour before fix commit 29fcd01): for the unrepaired code the statement was false -- a tie order that
   the platform's sort may legitimately return (it is a sorting order) gives another outcome *)
Definition f1_rows : list row :=
  [mkRow 1 [] [(NoDelay, Some (mk Onset nA))]; mkRow 1 [] [(NoDelay, Some (mk Offset nA))]].

Theorem effective_time_unrepaired_refuted :
  exists rows perm2 out,
    needs_sorting rows = false /\ process_file false None (Some perm2) rows = Ok out /\ out <> spec_file rows.
Proof.
  exists f1_rows, [1; 0].
  eexists. split; [reflexivity|]. split; [vm_compute; reflexivity|]. vm_compute. intro H. discriminate H.
Qed.
