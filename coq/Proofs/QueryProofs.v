(* Proofs about Model/Query.v (property C15): connectives, term modes,
   sibling order. *)
From Coq Require Import List NArith Arith Bool Lia Permutation Relations.
From HV Require Import Base.Res Base.Str Model.Query.
Import ListNotations.

(* ---------------------------------------------------------------- generalities *)

Lemma nonempty_true {A} (l : list A) : nonempty l = true <-> l <> [].
Proof. destruct l; simpl; split; intro H; try congruence; try discriminate; reflexivity. Qed.

Lemma nonempty_app {A} (a b : list A) : nonempty (a ++ b) = nonempty a || nonempty b.
Proof. destruct a; simpl; [reflexivity | reflexivity]. Qed.

Lemma nonempty_in {A} (l : list A) : nonempty l = true <-> exists x, In x l.
Proof.
  destruct l as [|x l]; simpl; split; intro H; try discriminate.
  - destruct H as (x & []).
  - exists x; auto.
  - reflexivity.
Qed.

(* nested induction principle for [node] *)
Section NodeInd.
  Variable P : node -> Prop.
  Hypothesis Htag : forall i terms s o, P (Tag i terms s o).
  Hypothesis Hgroup : forall i ch, Forall P ch -> P (Group i ch).
  Fixpoint node_ind' (n : node) : P n :=
    match n with
    | Tag i terms s o => Htag i terms s o
    | Group i ch =>
        Hgroup i ch ((fix go (l : list node) : Forall P l :=
                        match l with
                        | [] => Forall_nil P
                        | x :: xs => Forall_cons x (node_ind' x) (go xs)
                        end) ch)
    end.
End NodeInd.

(* ---------------------------------------------------------------- sibling order *)

(* one reordering step: the children of one group, at any depth, are permuted *)
Inductive sperm1 : node -> node -> Prop :=
| sp_here i ch ch' : Permutation ch ch' -> sperm1 (Group i ch) (Group i ch')
| sp_inside i pre x y post :
    sperm1 x y -> sperm1 (Group i (pre ++ x :: post)) (Group i (pre ++ y :: post)).

(* [sperm a b]: b is a with the children of any groups (at any level) reordered *)
Definition sperm : node -> node -> Prop := clos_refl_trans node sperm1.


Section Fx.
Variable fx : bool.   (* true: current code; false: behaviour before fix commits 81fa420, 1bd4096, 0643166 *)

(* ---------------------------------------------------------------- A || B *)

Lemma or_groups_nonempty g1 g2 : nonempty (or_groups fx g1 g2) = nonempty g1 || nonempty g2.
Proof.
  unfold or_groups. rewrite nonempty_app.
  destruct g2 as [|o g2]; simpl.
  - rewrite orb_false_r. destruct g1; reflexivity.
  - rewrite !orb_true_r. reflexivity.
Qed.

(* 'A || B' matches iff A or B does (every annotation, every A, B, both modes) *)
Lemma or_iff_mode t a b ex root :
  nonempty (handle fx (EOr t a b) ex root) = nonempty (handle fx a ex root) || nonempty (handle fx b ex root).
Proof. simpl. apply or_groups_nonempty. Qed.

Lemma or_iff t a b root : matches fx (EOr t a b) root = matches fx a root || matches fx b root.
Proof. unfold matches. apply or_iff_mode. Qed.

(* ---------------------------------------------------------------- A && B *)

(* same group object, no shared child *)
Definition compat (r o : sres) : bool :=
  Nat.eqb (gid r) (gid o) && negb (overlap (sr_tags r) (sr_tags o)).

Lemma merge_step_eq g acc o :
  merge_step fx g acc o =
  if compat g o then
    (if existsb (has_same_tags fx (merge_and_result g o)) acc then acc else acc ++ [merge_and_result g o])
  else acc.
Proof.
  unfold merge_step, compat.
  destruct (Nat.eqb (gid g) (gid o)); simpl; [|reflexivity].
  destruct (overlap (sr_tags g) (sr_tags o)); reflexivity.
Qed.

Lemma ids_eq_refl l : ids_eq l l = true.
Proof. induction l as [|x l IH]; simpl; [reflexivity | rewrite Nat.eqb_refl; exact IH]. Qed.

Lemma has_same_tags_refl r : has_same_tags fx r r = true.
Proof.
  unfold has_same_tags, group_eq. rewrite ids_eq_refl. destruct fx; rewrite Nat.eqb_refl; reflexivity.
Qed.

(* inner loop: the accumulator only grows *)
Lemma inner_mono g g2 : forall acc x, In x acc -> In x (fold_left (merge_step fx g) g2 acc).
Proof.
  induction g2 as [|o g2 IH]; intros acc x Hx; simpl; [assumption|].
  apply IH. rewrite merge_step_eq.
  destruct (compat g o); [|assumption].
  destruct (existsb _ acc); [assumption | apply in_or_app; left; assumption].
Qed.

(* S1: whatever is added is the merge of a compatible pair *)
Lemma inner_sound g g2 : forall acc m,
  In m (fold_left (merge_step fx g) g2 acc) ->
  In m acc \/ exists o, In o g2 /\ compat g o = true /\ m = merge_and_result g o.
Proof.
  induction g2 as [|o g2 IH]; intros acc m Hm; simpl in Hm; [left; assumption|].
  apply IH in Hm. destruct Hm as [Hm | (o' & Ho' & Hc & He)].
  - rewrite merge_step_eq in Hm.
    destruct (compat g o) eqn:Hc; [|left; assumption].
    destruct (existsb _ acc); [left; assumption|].
    apply in_app_or in Hm. destruct Hm as [Hm | [Hm | []]]; [left; assumption|].
    right. exists o. split; [left; reflexivity | split; [assumption | symmetry; assumption]].
  - right. exists o'. split; [right; assumption | split; assumption].
Qed.

(* S2: every compatible pair is represented (up to has_same_tags) *)
Lemma inner_complete g g2 : forall acc o,
  In o g2 -> compat g o = true ->
  exists m', In m' (fold_left (merge_step fx g) g2 acc) /\ has_same_tags fx (merge_and_result g o) m' = true.
Proof.
  induction g2 as [|o0 g2 IH]; intros acc o Ho Hc; [destruct Ho|].
  simpl. destruct Ho as [Ho | Ho].
  - subst o0. rewrite merge_step_eq, Hc.
    destruct (existsb (has_same_tags fx (merge_and_result g o)) acc) eqn:He.
    + apply existsb_exists in He. destruct He as (m' & Hin & Hs).
      exists m'. split; [apply inner_mono; assumption | assumption].
    + exists (merge_and_result g o). split; [|apply has_same_tags_refl].
      apply inner_mono. apply in_or_app; right; left; reflexivity.
  - apply IH; assumption.
Qed.

Lemma outer_mono g2 g1 : forall acc x,
  In x acc -> In x (fold_left (fun acc g => fold_left (merge_step fx g) g2 acc) g1 acc).
Proof.
  induction g1 as [|g g1 IH]; intros acc x Hx; simpl; [assumption|].
  apply IH. apply inner_mono. assumption.
Qed.

Lemma outer_sound g2 g1 : forall acc m,
  In m (fold_left (fun acc g => fold_left (merge_step fx g) g2 acc) g1 acc) ->
  In m acc \/ exists r o, In r g1 /\ In o g2 /\ compat r o = true /\ m = merge_and_result r o.
Proof.
  induction g1 as [|g g1 IH]; intros acc m Hm; simpl in Hm; [left; assumption|].
  apply IH in Hm. destruct Hm as [Hm | (r & o & Hr & Ho & Hc & He)].
  - apply inner_sound in Hm. destruct Hm as [Hm | (o & Ho & Hc & He)]; [left; assumption|].
    right. exists g, o. split; [left; reflexivity | auto].
  - right. exists r, o. split; [right; assumption | auto].
Qed.

Lemma outer_complete g2 g1 : forall acc r o,
  In r g1 -> In o g2 -> compat r o = true ->
  exists m', In m' (fold_left (fun acc g => fold_left (merge_step fx g) g2 acc) g1 acc) /\
             has_same_tags fx (merge_and_result r o) m' = true.
Proof.
  induction g1 as [|g g1 IH]; intros acc r o Hr Ho Hc; [destruct Hr|].
  simpl. destruct Hr as [Hr | Hr].
  - subst g. destruct (inner_complete r g2 acc o Ho Hc) as (m' & Hin & Hs).
    exists m'. split; [apply outer_mono; assumption | assumption].
  - apply IH; assumption.
Qed.

(* ExpressionAnd.merge_and_groups, S1 and S2 *)
Lemma merge_sound g1 g2 m :
  In m (merge_and_groups fx g1 g2) ->
  exists r o, In r g1 /\ In o g2 /\ compat r o = true /\ m = merge_and_result r o.
Proof.
  intro Hm. apply outer_sound in Hm. destruct Hm as [[] | H]. exact H.
Qed.

Lemma merge_complete g1 g2 r o :
  In r g1 -> In o g2 -> compat r o = true ->
  exists m', In m' (merge_and_groups fx g1 g2) /\ has_same_tags fx (merge_and_result r o) m' = true.
Proof. apply outer_complete. Qed.

Lemma merge_nonempty g1 g2 :
  nonempty (merge_and_groups fx g1 g2) = true <->
  exists r o, In r g1 /\ In o g2 /\ compat r o = true.
Proof.
  rewrite nonempty_in. split.
  - intros (m & Hm). apply merge_sound in Hm. destruct Hm as (r & o & Hr & Ho & Hc & _).
    exists r, o; auto.
  - intros (r & o & Hr & Ho & Hc).
    destruct (merge_complete g1 g2 r o Hr Ho Hc) as (m' & Hin & _). exists m'; exact Hin.
Qed.

Lemma handle_and t a b ex root :
  handle fx (EAnd t a b) ex root = merge_and_groups fx (handle fx a ex root) (handle fx b ex root).
Proof. simpl. destruct (handle fx a ex root); reflexivity. Qed.

(* 'A && B' matches exactly when A and B have results on the same group that
   share no child ("via distinct tags") *)
Lemma and_iff_distinct_mode t a b ex root :
  nonempty (handle fx (EAnd t a b) ex root) = true <->
  exists r o, In r (handle fx a ex root) /\ In o (handle fx b ex root) /\
              gid r = gid o /\ overlap (sr_tags r) (sr_tags o) = false.
Proof.
  rewrite handle_and, merge_nonempty. split; intros (r & o & Hr & Ho & H); exists r, o.
  - unfold compat in H. apply andb_true_iff in H. destruct H as [H1 H2].
    apply Nat.eqb_eq in H1. apply negb_true_iff in H2. auto.
  - destruct H as [H1 H2]. unfold compat. rewrite H1, Nat.eqb_refl, H2. auto.
Qed.

Lemma and_iff_distinct t a b root :
  matches fx (EAnd t a b) root = true <->
  exists r o, In r (handle fx a false root) /\ In o (handle fx b false root) /\
              gid r = gid o /\ overlap (sr_tags r) (sr_tags o) = false.
Proof. unfold matches. apply and_iff_distinct_mode. Qed.

Lemma id_in_spec x l : id_in x l = true <-> exists y, In y l /\ nid y = nid x.
Proof.
  unfold id_in. rewrite existsb_exists. split; intros (y & Hy & H); exists y; split; auto.
  - apply Nat.eqb_eq; assumption.
  - apply Nat.eqb_eq; assumption.
Qed.

Lemma overlap_spec a b :
  overlap a b = true <-> exists x y, In x a /\ In y b /\ nid x = nid y.
Proof.
  unfold overlap. rewrite existsb_exists. split.
  - intros (x & Hx & H). apply id_in_spec in H. destruct H as (y & Hy & He). exists x, y; auto.
  - intros (x & y & Hx & Hy & He). exists x. split; [assumption|]. apply id_in_spec. exists y; auto.
Qed.

Lemma overlap_sym a b : overlap a b = overlap b a.
Proof.
  apply eq_true_iff_eq. rewrite !overlap_spec.
  split; intros (x & y & Hx & Hy & He); exists y, x; auto.
Qed.

Lemma compat_sym r o : compat r o = compat o r.
Proof. unfold compat. rewrite overlap_sym, (Nat.eqb_sym (gid r)). reflexivity. Qed.

(* 'A && B' is symmetric as a match verdict *)
Lemma and_symmetric_mode t t' a b ex root :
  nonempty (handle fx (EAnd t a b) ex root) = nonempty (handle fx (EAnd t' b a) ex root).
Proof.
  apply eq_true_iff_eq. rewrite !handle_and, !merge_nonempty.
  split; intros (r & o & Hr & Ho & Hc); exists o, r; rewrite compat_sym; auto.
Qed.

Lemma and_symmetric t t' a b root : matches fx (EAnd t a b) root = matches fx (EAnd t' b a) root.
Proof. unfold matches. apply and_symmetric_mode. Qed.

(* 'A && B' matches only if both do *)
Lemma and_implies_both t a b root :
  matches fx (EAnd t a b) root = true -> matches fx a root = true /\ matches fx b root = true.
Proof.
  intro H. apply and_iff_distinct in H. destruct H as (r & o & Hr & Ho & _).
  unfold matches. rewrite !nonempty_in. split; eexists; eassumption.
Qed.

(* ---------------------------------------------------------------- term modes *)

(* the parent of every tag found under a group is a non-empty group *)
Lemma tags_ctx_parent n : forall c0 t c,
  In (t, c) (tags_ctx c0 n) ->
  (n = t /\ c = c0) \/ exists g rest, c = g :: rest /\ children g <> [].
Proof.
  induction n as [i terms s o | i ch IH] using node_ind'; intros c0 t c Hin.
  - simpl in Hin. destruct Hin as [Hin | []]. inversion Hin; subst. left; auto.
  - simpl in Hin. apply in_flat_map in Hin. destruct Hin as (x & Hx & Hin).
    rewrite Forall_forall in IH. destruct (IH x Hx _ _ _ Hin) as [[_ Hc] | H].
    + right. exists (Group i ch), c0. split; [assumption|]. simpl. intro He; subst ch. destruct Hx.
    + right. exact H.
Qed.

Lemma climb_nonempty tags g rest : children g <> [] -> climb tags (g :: rest) <> [].
Proof. simpl. destruct (children g); [congruence | discriminate]. Qed.

Lemma all_tags_parent i ch t c :
  In (t, c) (all_tags (Group i ch)) -> exists g rest, c = g :: rest /\ children g <> [].
Proof.
  unfold all_tags. simpl. intro Hin. apply in_flat_map in Hin. destruct Hin as (x & Hx & Hin).
  apply tags_ctx_parent in Hin. destruct Hin as [[_ Hc] | H]; [|exact H].
  exists (Group i ch), []. split; [assumption|]. simpl. intro He; subst ch. destruct Hx.
Qed.

Lemma climb_found_nonempty (P : node * chain -> bool) (l : list (node * chain)) :
  (forall t c, In (t, c) l -> exists g rest, c = g :: rest /\ children g <> []) ->
  nonempty (flat_map (fun tc : list node * chain => climb (fst tc) (snd tc))
                     (map (fun tc : node * chain => ([fst tc], snd tc)) (filter P l))) = existsb P l.
Proof.
  induction l as [|[t c] l IH]; intro Hpar; [reflexivity|].
  simpl. destruct (P (t, c)) eqn:HP.
  - simpl. rewrite nonempty_app.
    destruct (Hpar t c (or_introl eq_refl)) as (g & rest & Hc & Hch). subst c.
    assert (Hne : nonempty (climb [t] (g :: rest)) = true).
    { apply nonempty_true. apply climb_nonempty. assumption. }
    rewrite Hne. reflexivity.
  - simpl. apply IH. intros t' c' Hin. apply (Hpar t' c'). right; assumption.
Qed.

(* a search term without at-sign: the verdict is "some tag of the annotation matches" *)
Lemma term_matches tok mode text i ch :
  term_info tok = (mode, false, text) ->
  matches fx (ETerm tok) (Group i ch) =
  existsb (fun tc => tag_matches mode text (fst tc)) (all_tags (Group i ch)).
Proof.
  intro Hinfo. unfold matches. cbn [handle]. unfold term_results. rewrite Hinfo.
  apply climb_found_nonempty. intros t c Hin. exact (all_tags_parent i ch t c Hin).
Qed.

(* the three documented modes, spelled out on one tag *)
Lemma tag_matches_modes text i terms short org :
  (tag_matches 0 text (Tag i terms short org) = true <-> In (fold text) terms) /\
  (tag_matches 1 text (Tag i terms short org) = true <-> fold short = fold text) /\
  (tag_matches 2 text (Tag i terms short org) = true <-> exists rest, fold short = fold text ++ rest).
Proof.
  split; [|split]; simpl.
  - rewrite existsb_exists. split.
    + intros (x & Hx & He). apply str_eqb_spec in He. subst x. assumption.
    + intro H. exists (fold text). split; [assumption | apply str_eqb_spec; reflexivity].
  - apply str_eqb_spec.
  - generalize (fold short). generalize (fold text). clear.
    intro p. induction p as [|x p IH]; intros s; simpl.
    + split; [intros _; exists s; reflexivity | reflexivity].
    + destruct s as [|y s]; [split; [discriminate | intros (rest & H); discriminate]|].
      rewrite andb_true_iff, IH, N.eqb_eq. split.
      * intros (He & rest & Hr). subst. exists rest. reflexivity.
      * intros (rest & Hr). inversion Hr; subst. split; [reflexivity | exists rest; reflexivity].
Qed.

(* ---------------------------------------------------------------- results live in the annotation *)

Definition valid (root : node) (c : chain) : Prop := In c (all_groups root).

Lemma groups_ctx_tail n : forall c0 g p rest,
  In (g :: p :: rest) (groups_ctx c0 n) -> p :: rest = c0 \/ In (p :: rest) (groups_ctx c0 n).
Proof.
  induction n as [i terms s o | i ch IH] using node_ind'; intros c0 g p rest Hin; [destruct Hin|].
  simpl in Hin. destruct Hin as [Hin | Hin].
  - inversion Hin; subst. left; reflexivity.
  - apply in_flat_map in Hin. destruct Hin as (x & Hx & Hin).
    rewrite Forall_forall in IH. apply (IH x Hx) in Hin. right. simpl. destruct Hin as [Hin | Hin].
    + left. symmetry; assumption.
    + right. apply in_flat_map. exists x; split; assumption.
Qed.

Lemma valid_tail root g p rest : valid root (g :: p :: rest) -> valid root (p :: rest).
Proof.
  unfold valid, all_groups. intro H. apply groups_ctx_tail in H. destruct H as [H | H]; [discriminate | assumption].
Qed.

Lemma tags_ctx_valid n : forall c0 t c,
  In (t, c) (tags_ctx c0 n) -> c = c0 \/ In c (groups_ctx c0 n).
Proof.
  induction n as [i terms s o | i ch IH] using node_ind'; intros c0 t c Hin.
  - simpl in Hin. destruct Hin as [Hin | []]. inversion Hin; subst. left; reflexivity.
  - simpl in Hin. apply in_flat_map in Hin. destruct Hin as (x & Hx & Hin).
    rewrite Forall_forall in IH. apply (IH x Hx) in Hin. right. simpl. destruct Hin as [Hin | Hin].
    + left. symmetry; assumption.
    + right. apply in_flat_map. exists x; split; assumption.
Qed.

Lemma all_tags_valid i ch t c : In (t, c) (all_tags (Group i ch)) -> valid (Group i ch) c.
Proof.
  intro Hin. destruct (all_tags_parent i ch t c Hin) as (g & rest & Hc & _).
  unfold all_tags in Hin. apply tags_ctx_valid in Hin. destruct Hin as [Hin | Hin]; [subst; discriminate | exact Hin].
Qed.

Lemma climb_valid root : forall c tags r,
  valid root c -> In r (climb tags c) -> valid root (sr_chain r).
Proof.
  induction c as [|g rest IH]; intros tags r Hv Hin; [destruct Hin|].
  simpl in Hin. destruct (children g); [destruct Hin|].
  destruct Hin as [Hin | Hin]; [subst r; exact Hv|].
  destruct rest as [|p rest']; [destruct Hin|].
  apply IH with [g]; [apply valid_tail with g; exact Hv | exact Hin].
Qed.

Lemma parent_groups_valid root rs r :
  (forall x, In x rs -> valid root (sr_chain x)) -> In r (parent_groups rs) -> valid root (sr_chain r).
Proof.
  intros Hv Hin. unfold parent_groups in Hin. apply in_flat_map in Hin. destruct Hin as (x & Hx & Hin).
  specialize (Hv x Hx). destruct (sr_chain x) as [|g [|p rest]]; try destruct Hin.
  destruct (children p); [destruct Hin|]. destruct Hin as [Hin | []]. subst r. simpl.
  apply valid_tail with g; exact Hv.
Qed.

Lemma merge_valid root g1 g2 m :
  (forall x, In x g1 -> valid root (sr_chain x)) -> In m (merge_and_groups fx g1 g2) -> valid root (sr_chain m).
Proof.
  intros Hv Hin. apply merge_sound in Hin. destruct Hin as (r & o & Hr & _ & _ & He). subst m. simpl. apply Hv; exact Hr.
Qed.

(* every result of every expression refers to a group of the annotation *)
Lemma handle_valid i ch e : forall ex r,
  In r (handle fx e ex (Group i ch)) -> valid (Group i ch) (sr_chain r).
Proof.
  set (root := Group i ch).
  induction e as [tok | tok | tok a IHa b IHb | tok a IHa b IHb | tok a IHa | tok a IHa | tok a IHa | tok a IHa
                 | tok a IHa b IHb]; intros ex r Hin.
  - (* term *)
    cbn [handle] in Hin. unfold term_results in Hin.
    destruct (term_info tok) as [[mode nil_] text].
    set (found0 := map (fun tc : node * chain => ([fst tc], snd tc))
                       (filter (fun tc => tag_matches mode text (fst tc)) (all_tags root))) in Hin.
    assert (H0 : forall tc, In tc found0 -> valid root (snd tc)).
    { intros tc Htc. unfold found0 in Htc. apply in_map_iff in Htc. destruct Htc as ([t c] & He & Htc).
      apply filter_In in Htc. destruct Htc as [Htc _]. subst tc. simpl.
      apply all_tags_valid with t. exact Htc. }
    set (found := if nil_ then match found0 with _ :: _ => [] | [] => map (fun c => ([], c)) (all_groups root) end
                  else found0) in Hin.
    assert (H1 : forall tc : list node * chain, In tc found -> valid root (snd tc)).
    { intros tc Htc. unfold found in Htc. destruct nil_; [|apply H0; exact Htc].
      destruct found0; [|destruct Htc]. apply in_map_iff in Htc. destruct Htc as (c & He & Hc). subst tc. exact Hc. }
    destruct ex.
    + apply in_map_iff in Hin. destruct Hin as (tc & He & Htc). subst r. simpl. apply H1; exact Htc.
    + apply in_flat_map in Hin. destruct Hin as (tc & Htc & Hin).
      apply climb_valid with (snd tc) (fst tc); [apply H1; exact Htc | exact Hin].
  - (* wildcard *)
    cbn [handle] in Hin. unfold wild_results in Hin.
    destruct (match length tok with 1 => _ | _ => _ end) as [p|]; [|destruct Hin].
    apply in_flat_map in Hin. destruct Hin as (c & Hc & Hin).
    apply in_map_iff in Hin. destruct Hin as (x & He & _). subst r. exact Hc.
  - (* and *)
    rewrite handle_and in Hin. apply merge_valid with (handle fx a ex root) (handle fx b ex root); [apply IHa | exact Hin].
  - (* or *)
    cbn [handle] in Hin. unfold or_groups in Hin. apply in_app_or in Hin. destruct Hin as [Hin | Hin].
    + apply filter_In in Hin. destruct Hin as [Hin _]. apply IHa with ex; exact Hin.
    + apply IHb with ex; exact Hin.
  - (* negation *)
    cbn [handle] in Hin. unfold negate in Hin. apply in_map_iff in Hin. destruct Hin as (c & He & Hc).
    apply filter_In in Hc. destruct Hc as [Hc _]. subst r. exact Hc.
  - cbn [handle] in Hin. apply parent_groups_valid with (handle fx a false root); [apply IHa | exact Hin].
  - cbn [handle] in Hin. apply parent_groups_valid with (handle fx a true root); [apply IHa | exact Hin].
  - cbn [handle] in Hin. cbv zeta in Hin.
    destruct (filter_exact (handle fx a true root)) eqn:Hf; [destruct Hin|].
    rewrite <- Hf in Hin. apply parent_groups_valid with (filter_exact (handle fx a true root)); [|exact Hin].
    intros x Hx. apply filter_In in Hx. destruct Hx as [Hx _]. apply IHa with true; exact Hx.
  - cbn [handle] in Hin. cbv zeta in Hin.
    destruct (filter_exact (handle fx b true root)) eqn:Hf.
    + apply parent_groups_valid with (filter_exact (merge_and_groups fx (handle fx b true root) (handle fx a true root))); [|exact Hin].
      intros x Hx. apply filter_In in Hx. destruct Hx as [Hx _].
      apply merge_valid with (handle fx b true root) (handle fx a true root); [apply IHb | exact Hx].
    + rewrite <- Hf in Hin. apply parent_groups_valid with (filter_exact (handle fx b true root)); [|exact Hin].
      intros x Hx. apply filter_In in Hx. destruct Hx as [Hx _]. apply IHb with true; exact Hx.
Qed.

(* ---------------------------------------------------------------- associativity of && *)

(* no two distinct groups of the annotation compare equal (HedGroup.__eq__) *)
Definition distinct_groups (root : node) : Prop :=
  forall c1 c2, In c1 (all_groups root) -> In c2 (all_groups root) ->
                group_eq c1 c2 = true -> chain_gid c1 = chain_gid c2.

Lemma same_tags_safe root r m :
  fx = true \/ distinct_groups root -> valid root (sr_chain r) -> valid root (sr_chain m) ->
  has_same_tags fx r m = true -> gid r = gid m /\ ids_eq (sr_tags r) (sr_tags m) = true.
Proof.
  intros Hd Hr Hm H. unfold has_same_tags in H. apply andb_true_iff in H. destruct H as [H1 H2].
  split; [|assumption].
  destruct Hd as [Hd | Hd].
  - subst fx. apply Nat.eqb_eq in H1. exact H1.
  - destruct fx; [apply Nat.eqb_eq in H1; exact H1 | apply Hd; assumption].
Qed.

Lemma ids_eq_has a : forall b k, ids_eq a b = true ->
  ((exists x, In x a /\ nid x = k) <-> (exists x, In x b /\ nid x = k)).
Proof.
  induction a as [|x a IH]; intros [|y b] k H; simpl in H; try discriminate.
  - split; intros (z & [] & _).
  - apply andb_true_iff in H. destruct H as [H1 H2]. apply Nat.eqb_eq in H1. specialize (IH b k H2).
    split; intros (z & [Hz | Hz] & Hk).
    + subst z. exists y. split; [left; reflexivity | congruence].
    + destruct (proj1 IH (ex_intro _ z (conj Hz Hk))) as (w & Hw & Hwk). exists w. split; [right; assumption | assumption].
    + subst z. exists x. split; [left; reflexivity | congruence].
    + destruct (proj2 IH (ex_intro _ z (conj Hz Hk))) as (w & Hw & Hwk). exists w. split; [right; assumption | assumption].
Qed.

Lemma overlap_ids a a' b : ids_eq a a' = true -> overlap a b = overlap a' b.
Proof.
  intro H. apply eq_true_iff_eq. rewrite !overlap_spec. split.
  - intros (x & y & Hx & Hy & He).
    destruct (proj1 (ids_eq_has a a' (nid x) H) (ex_intro _ x (conj Hx eq_refl))) as (w & Hw & Hwk).
    exists w, y. split; [assumption | split; [assumption | congruence]].
  - intros (x & y & Hx & Hy & He).
    destruct (proj2 (ids_eq_has a a' (nid x) H) (ex_intro _ x (conj Hx eq_refl))) as (w & Hw & Hwk).
    exists w, y. split; [assumption | split; [assumption | congruence]].
Qed.

Lemma compat_ids r r' c :
  gid r = gid r' -> ids_eq (sr_tags r) (sr_tags r') = true -> compat r c = compat r' c.
Proof. intros Hg Hi. unfold compat. rewrite Hg, (overlap_ids _ _ _ Hi). reflexivity. Qed.

Lemma insert_by_str_in x l y : In y (insert_by_str x l) <-> y = x \/ In y l.
Proof.
  assert (Hs : x = y <-> y = x) by (split; intro; symmetry; assumption).
  induction l as [|z l IH]; simpl.
  - tauto.
  - destruct (str_ltb (node_str x) (node_str z)); simpl.
    + tauto.
    + rewrite IH. tauto.
Qed.

Lemma sort_by_str_in l y : In y (sort_by_str l) <-> In y l.
Proof.
  unfold sort_by_str.
  assert (H : forall acc, In y (fold_left (fun acc x => insert_by_str x acc) l acc) <-> In y l \/ In y acc).
  { induction l as [|x l IH]; intro acc; simpl.
    - tauto.
    - rewrite IH, insert_by_str_in.
      assert (Hs : x = y <-> y = x) by (split; intro; symmetry; assumption). tauto. }
  rewrite H. simpl. tauto.
Qed.

(* the children used by a merged result are those of both parts *)
Lemma merged_overlap r o c :
  overlap (sr_tags (merge_and_result r o)) c = overlap (sr_tags r) c || overlap (sr_tags o) c.
Proof.
  apply eq_true_iff_eq. rewrite orb_true_iff, !overlap_spec. simpl. split.
  - intros (x & y & Hx & Hy & He). apply (proj1 (sort_by_str_in _ _)) in Hx. apply in_app_or in Hx. destruct Hx as [Hx | Hx].
    + left. exists x, y; auto.
    + apply filter_In in Hx. destruct Hx as [Hx _]. right. exists x, y; auto.
  - intros [(x & y & Hx & Hy & He) | (x & y & Hx & Hy & He)].
    + exists x, y. split; [apply (proj2 (sort_by_str_in _ _)); apply in_or_app; left; exact Hx | auto].
    + destruct (id_in x (sr_tags r)) eqn:Hi.
      * apply id_in_spec in Hi. destruct Hi as (z & Hz & Hzk).
        exists z, y. split; [apply (proj2 (sort_by_str_in _ _)); apply in_or_app; left; exact Hz | split; [exact Hy | congruence]].
      * exists x, y. split; [|auto]. apply (proj2 (sort_by_str_in _ _)). apply in_or_app. right.
        apply filter_In. split; [exact Hx | rewrite Hi; reflexivity].
Qed.

Lemma compat_merged_l r o c :
  compat r o = true -> compat (merge_and_result r o) c = compat r c && compat o c.
Proof.
  intro Hc. unfold compat in *. apply andb_true_iff in Hc. destruct Hc as [Hg _]. apply Nat.eqb_eq in Hg.
  rewrite merged_overlap. unfold gid in *. simpl. rewrite <- Hg.
  destruct (Nat.eqb (chain_gid (sr_chain r)) (chain_gid (sr_chain c))); simpl; [|reflexivity].
  rewrite negb_orb. reflexivity.
Qed.

Lemma compat_merged_r a r o :
  compat r o = true -> compat a (merge_and_result r o) = compat a r && compat a o.
Proof. intro Hc. rewrite !(compat_sym a). apply compat_merged_l. exact Hc. Qed.

Lemma merge3_left root RA RB RC :
  fx = true \/ distinct_groups root ->
  (forall x, In x RA -> valid root (sr_chain x)) ->
  (nonempty (merge_and_groups fx (merge_and_groups fx RA RB) RC) = true <->
   exists a b c, In a RA /\ In b RB /\ In c RC /\ compat a b = true /\ compat a c = true /\ compat b c = true).
Proof.
  intros Hd HA. rewrite merge_nonempty. split.
  - intros (m & c & Hm & Hc & Hmc). apply merge_sound in Hm. destruct Hm as (a & b & Ha & Hb & Hab & He). subst m.
    rewrite (compat_merged_l _ _ _ Hab) in Hmc. apply andb_true_iff in Hmc. destruct Hmc as [H1 H2].
    exists a, b, c. auto 7.
  - intros (a & b & c & Ha & Hb & Hc & Hab & Hac & Hbc).
    destruct (merge_complete RA RB a b Ha Hb Hab) as (m' & Hm' & Hs).
    assert (Hv' : valid root (sr_chain m')) by (apply merge_valid with RA RB; assumption).
    assert (Hv : valid root (sr_chain (merge_and_result a b))) by (simpl; apply HA; exact Ha).
    destruct (same_tags_safe root _ _ Hd Hv Hv' Hs) as [Hg Hi].
    exists m', c. split; [exact Hm' | split; [exact Hc|]].
    rewrite <- (compat_ids _ _ c Hg Hi), (compat_merged_l _ _ _ Hab), Hac, Hbc. reflexivity.
Qed.

Lemma merge3_right root RA RB RC :
  fx = true \/ distinct_groups root ->
  (forall x, In x RB -> valid root (sr_chain x)) ->
  (nonempty (merge_and_groups fx RA (merge_and_groups fx RB RC)) = true <->
   exists a b c, In a RA /\ In b RB /\ In c RC /\ compat a b = true /\ compat a c = true /\ compat b c = true).
Proof.
  intros Hd HB. rewrite merge_nonempty. split.
  - intros (a & m & Ha & Hm & Ham). apply merge_sound in Hm. destruct Hm as (b & c & Hb & Hc & Hbc & He). subst m.
    rewrite (compat_merged_r _ _ _ Hbc) in Ham. apply andb_true_iff in Ham. destruct Ham as [H1 H2].
    exists a, b, c. auto 7.
  - intros (a & b & c & Ha & Hb & Hc & Hab & Hac & Hbc).
    destruct (merge_complete RB RC b c Hb Hc Hbc) as (m' & Hm' & Hs).
    assert (Hv' : valid root (sr_chain m')) by (apply merge_valid with RB RC; assumption).
    assert (Hv : valid root (sr_chain (merge_and_result b c))) by (simpl; apply HB; exact Hb).
    destruct (same_tags_safe root _ _ Hd Hv Hv' Hs) as [Hg Hi].
    exists a, m'. split; [exact Ha | split; [exact Hm'|]].
    rewrite compat_sym, <- (compat_ids _ _ a Hg Hi), (compat_merged_l _ _ _ Hbc), (compat_sym b), (compat_sym c), Hab, Hac.
    reflexivity.
Qed.

Lemma and_assoc_general t1 t2 t3 t4 a b c i ch :
  fx = true \/ distinct_groups (Group i ch) ->
  matches fx (EAnd t1 (EAnd t2 a b) c) (Group i ch) = matches fx (EAnd t3 a (EAnd t4 b c)) (Group i ch).
Proof.
  intro Hd. unfold matches. apply eq_true_iff_eq. rewrite !handle_and.
  rewrite (merge3_left (Group i ch)), (merge3_right (Group i ch)); [reflexivity | exact Hd | | exact Hd |].
  - intros x Hx. apply handle_valid with b false; exact Hx.
  - intros x Hx. apply handle_valid with a false; exact Hx.
Qed.

(* ---------------------------------------------------------------- sibling order, terms and || *)

Lemma tags_fst_chain n : forall c c', map fst (tags_ctx c n) = map fst (tags_ctx c' n).
Proof.
  induction n as [i terms s o | i ch IH] using node_ind'; intros c c'; [reflexivity|].
  simpl. generalize (Group i ch :: c) (Group i ch :: c'). intros d d'.
  induction IH as [|x l Hx Hl IHl]; [reflexivity|].
  simpl. rewrite !map_app. f_equal; [apply Hx | exact IHl].
Qed.

Lemma flat_tags_perm (c c' : chain) l l' :
  Permutation l l' ->
  Permutation (map fst (flat_map (tags_ctx c) l)) (map fst (flat_map (tags_ctx c') l')).
Proof.
  intro H. induction H as [|x l l' H IH | x y l | l l' l'' H1 IH1 H2 IH2].
  - apply Permutation_refl.
  - simpl. rewrite !map_app, (tags_fst_chain x c c'). apply Permutation_app_head. exact IH.
  - simpl. rewrite !map_app, (tags_fst_chain x c c'), (tags_fst_chain y c c').
    rewrite !app_assoc. apply Permutation_app.
    + apply Permutation_app_comm.
    + clear. induction l as [|z l IHl]; [apply Permutation_refl|].
      simpl. rewrite !map_app, (tags_fst_chain z c c'). apply Permutation_app_head. exact IHl.
  - apply Permutation_trans with (map fst (flat_map (tags_ctx c') l')); [exact IH1|].
    apply Permutation_trans with (map fst (flat_map (tags_ctx c) l')).
    + clear. induction l' as [|z l IHl]; [apply Permutation_refl|].
      simpl. rewrite !map_app, (tags_fst_chain z c' c). apply Permutation_app_head. exact IHl.
    + exact IH2.
Qed.

(* one reordering step permutes the list of all tags (whatever the context chain) *)
Lemma sperm1_tags a b : sperm1 a b ->
  forall c c', Permutation (map fst (tags_ctx c a)) (map fst (tags_ctx c' b)).
Proof.
  intro H. induction H as [i ch ch' Hp | i pre x y post Hxy IH]; intros c c'; simpl.
  - apply flat_tags_perm. exact Hp.
  - rewrite !flat_map_app. simpl. rewrite !map_app.
    apply Permutation_app; [apply flat_tags_perm; apply Permutation_refl|].
    apply Permutation_app; [apply IH | apply flat_tags_perm; apply Permutation_refl].
Qed.

Lemma sperm1_group a b : sperm1 a b -> is_tag a = false /\ is_tag b = false.
Proof. intro H. destruct H; split; reflexivity. Qed.

Lemma sperm_tags a b : sperm a b ->
  (is_tag a = false -> is_tag b = false) /\
  Permutation (map fst (all_tags a)) (map fst (all_tags b)).
Proof.
  intro H. induction H as [a b H | a | a b c H1 IH1 H2 IH2].
  - split; [intros _; apply (sperm1_group a b H) | apply sperm1_tags; exact H].
  - split; [auto | apply Permutation_refl].
  - destruct IH1 as [G1 P1]. destruct IH2 as [G2 P2].
    split; [auto | apply Permutation_trans with (map fst (all_tags b)); assumption].
Qed.

Lemma existsb_perm {A} (P : A -> bool) l l' : Permutation l l' -> existsb P l = existsb P l'.
Proof.
  intro H. induction H as [|x l l' H IH | x y l | l l' l'' H1 IH1 H2 IH2]; simpl.
  - reflexivity.
  - rewrite IH; reflexivity.
  - destruct (P x), (P y); reflexivity.
  - congruence.
Qed.

Lemma existsb_map_fst (P : node -> bool) (l : list (node * chain)) :
  existsb (fun tc => P (fst tc)) l = existsb P (map fst l).
Proof. induction l as [|x l IH]; simpl; [reflexivity | rewrite IH; reflexivity]. Qed.

(* queries built from search terms (any of the three modes, no at-sign) with || *)
Fixpoint term_or_query (e : expr) : bool :=
  match e with
  | ETerm tok => negb (snd (fst (term_info tok)))
  | EOr _ a b => term_or_query a && term_or_query b
  | _ => false
  end.

Lemma sibling_order_terms_or e : term_or_query e = true ->
  forall a b, sperm a b -> is_tag a = false -> matches fx e a = matches fx e b.
Proof.
  induction e as [tok | tok | tok x IHx y IHy | tok x IHx y IHy | tok x IHx | tok x IHx | tok x IHx | tok x IHx
                 | tok x IHx y IHy]; intro Hq; try discriminate; intros a b Hs Ha.
  - simpl in Hq. destruct (term_info tok) as [[mode nil_] text] eqn:Hinfo. simpl in Hq.
    destruct nil_; [discriminate|].
    destruct (sperm_tags a b Hs) as [Hg Hp]. specialize (Hg Ha).
    destruct a as [|i ch]; [discriminate|]. destruct b as [|j ch']; [discriminate|].
    rewrite (term_matches tok mode text i ch Hinfo), (term_matches tok mode text j ch' Hinfo).
    rewrite !existsb_map_fst. apply existsb_perm. exact Hp.
  - simpl in Hq. apply andb_true_iff in Hq. destruct Hq as [Hx Hy].
    rewrite !or_iff, (IHx Hx a b Hs Ha), (IHy Hy a b Hs Ha). reflexivity.
Qed.

End Fx.

(* witness of C15-F1 *)
Definition w_red (i : nat) : node := Tag i [[99; 111; 108; 111; 114]%N; [114; 101; 100]%N] [82; 101; 100]%N [82; 101; 100]%N.
Definition w_blue (i : nat) : node := Tag i [[99; 111; 108; 111; 114]%N; [98; 108; 117; 101]%N] [66; 108; 117; 101]%N [66; 108; 117; 101]%N.
(* (Red,Blue),(Red,Blue) *)
Definition w_ann1 : node := Group 0 [Group 1 [w_red 2; w_blue 3]; Group 4 [w_red 5; w_blue 6]].
(* (Red,Blue),(Blue,Red): the second group reordered *)
Definition w_ann2 : node := Group 0 [Group 1 [w_red 2; w_blue 3]; Group 4 [w_blue 6; w_red 5]].
(* [~Green && ~Item] && [~Green && ~Item] *)
Definition w_query : str := [91; 126; 71; 114; 101; 101; 110; 32; 38; 38; 32; 126; 73; 116; 101; 109; 93; 32; 38; 38; 32; 91; 126; 71; 114; 101; 101; 110; 32; 38; 38; 32; 126; 73; 116; 101; 109; 93]%N.

Lemma w_sperm : sperm w_ann1 w_ann2.
Proof.
  apply rt_step. unfold w_ann1, w_ann2.
  apply (sp_inside 0 [Group 1 [w_red 2; w_blue 3]] (Group 4 [w_red 5; w_blue 6]) (Group 4 [w_blue 6; w_red 5]) []).
  apply sp_here. apply perm_swap.
Qed.


(* the hypothesis is met by a nested annotation with two different groups *)
Lemma w_ann2_distinct : distinct_groups w_ann2.
Proof.
  intros c1 c2 H1 H2. unfold all_groups in H1, H2. simpl in H1, H2.
  destruct H1 as [H1 | [H1 | [H1 | []]]]; destruct H2 as [H2 | [H2 | [H2 | []]]]; subst c1 c2;
    vm_compute; intro H; try reflexivity; discriminate.
Qed.

