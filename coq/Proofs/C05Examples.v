(* Concrete data for the C05 examples: real lines of the bundled schemas and the witnesses of the
   boundary / refuted statements.  All proofs are kernel evaluations. *)
From Coq Require Import List NArith ZArith Bool Lia.
From HV Require Import Base.Res Base.Str Base.StrOps Model.AttrCodec Model.WikiCodec Model.Traversal.
Import ListNotations.

Definition ex_name : str := [83;101;110;115;111;114;121;45;101;118;101;110;116]%N.
Definition ex_desc : str := [83;111;109;101;116;104;105;110;103;32;112;101;114;99;101;105;118;97;98;108;101;32;98;121;32;116;104;101;32;112;97;114;116;105;99;105;112;97;110;116;46;32;65;110;32;101;118;101;110;116;32;109;101;97;110;116;32;116;111;32;98;101;32;97;110;32;101;120;112;101;114;105;109;101;110;116;97;108;32;115;116;105;109;117;108;117;115;32;115;104;111;117;108;100;32;105;110;99;108;117;100;101;32;116;104;101;32;116;97;103;32;84;97;115;107;45;112;114;111;112;101;114;116;121;47;84;97;115;107;45;101;118;101;110;116;45;114;111;108;101;47;69;120;112;101;114;105;109;101;110;116;97;108;45;115;116;105;109;117;108;117;115;46]%N.
Definition k_suggested : str := [115;117;103;103;101;115;116;101;100;84;97;103]%N.
Definition v_suggested : str := [84;97;115;107;45;101;118;101;110;116;45;114;111;108;101;44;83;101;110;115;111;114;121;45;112;114;101;115;101;110;116;97;116;105;111;110]%N.
Definition k_hedId : str := [104;101;100;73;100]%N.
Definition v_hedId : str := [72;69;68;95;48;48;49;50;48;48;50]%N.
Definition ex_line : str := [42;32;83;101;110;115;111;114;121;45;101;118;101;110;116;32;60;110;111;119;105;107;105;62;123;115;117;103;103;101;115;116;101;100;84;97;103;61;84;97;115;107;45;101;118;101;110;116;45;114;111;108;101;44;32;115;117;103;103;101;115;116;101;100;84;97;103;61;83;101;110;115;111;114;121;45;112;114;101;115;101;110;116;97;116;105;111;110;44;32;104;101;100;73;100;61;72;69;68;95;48;48;49;50;48;48;50;125;32;91;83;111;109;101;116;104;105;110;103;32;112;101;114;99;101;105;118;97;98;108;101;32;98;121;32;116;104;101;32;112;97;114;116;105;99;105;112;97;110;116;46;32;65;110;32;101;118;101;110;116;32;109;101;97;110;116;32;116;111;32;98;101;32;97;110;32;101;120;112;101;114;105;109;101;110;116;97;108;32;115;116;105;109;117;108;117;115;32;115;104;111;117;108;100;32;105;110;99;108;117;100;101;32;116;104;101;32;116;97;103;32;84;97;115;107;45;112;114;111;112;101;114;116;121;47;84;97;115;107;45;101;118;101;110;116;45;114;111;108;101;47;69;120;112;101;114;105;109;101;110;116;97;108;45;115;116;105;109;117;108;117;115;46;93;60;47;110;111;119;105;107;105;62]%N.
Definition ex_attr_string : str := [115;117;103;103;101;115;116;101;100;84;97;103;61;84;97;115;107;45;101;118;101;110;116;45;114;111;108;101;44;32;115;117;103;103;101;115;116;101;100;84;97;103;61;83;101;110;115;111;114;121;45;112;114;101;115;101;110;116;97;116;105;111;110;44;32;104;101;100;73;100;61;72;69;68;95;48;48;49;50;48;48;50]%N.
Definition d_lt : str := [83;112;105;107;121;32;40;60;55;48;32;109;115;44;32;109;101;97;115;117;114;101;100;32;97;116;32;116;104;101;32;98;97;115;101;108;105;110;101;41;46;32;40;83;111;117;114;99;101;58;32;66;101;110;105;99;122;107;121;32;101;97;32;50;48;49;55;44;32;84;97;98;108;101;32;56;46;41]%N.
Definition n_spiky : str := [83;112;105;107;121]%N.
Definition d_lead : str := [32;108;101;97;100]%N.
Definition d_lead_stripped : str := [108;101;97;100]%N.
Definition d_extend : str := [112;108;101;97;115;101;32;101;120;116;101;110;100;32;104;101;114;101]%N.
Definition d_nowiki : str := [97;32;60;110;111;119;105;107;105;62;32;98]%N.
Definition d_nowiki_gone : str := [97;32;32;98]%N.
Definition k_a : str := [97]%N.
Definition v_beqc : str := [98;61;99]%N.
Definition v_b : str := [98]%N.
Definition s_abc : str := [97;61;98;61;99]%N.
Definition s_a_ab : str := [97;44;32;97;61;98]%N.
Definition v_sp_b : str := [98;32]%N.   (* b followed by a blank *)
Definition v_xey : str := [120;44;44;121]%N.
Definition n_zork : str := [90;111;114;107;116;97;103]%N.
Definition lib_two : str := [116;101;115;116;108;105;98;44;115;99;111;114;101]%N.
Definition lib_one : str := [115;99;111;114;101]%N.
Definition ws83 : str := [56;46;51;46;48]%N.

Definition no_dis : str -> bool := fun _ => false.

(* HED8.3.0, tag Event/Sensory-event as the MediaWiki writer emits it *)
Definition ex_attrs : attrs := [(k_suggested, AStr v_suggested); (k_hedId, AStr v_hedId)].

Lemma ex_hyps :
  name_ok ex_name = true /\ desc_ok (Some ex_desc) = true /\ attr_ok ex_attrs = true
  /\ wiki_text_ok (format_tag_attributes no_dis ex_attrs) = true
  /\ write_tag_line no_dis ex_name 1 ex_attrs (Some ex_desc) = Some ex_line
  /\ row_free_of_reserved false ex_name ex_line = true /\ row_free_of_reserved true ex_name ex_line = true.
Proof. vm_compute. repeat split; reflexivity. Qed.

Lemma ex_read : forall fixed, read_tag_line fixed ex_line = Ok (Some (mkParsed false 1 ex_name ex_attrs (Some ex_desc))).
Proof. intros [|]; vm_compute; reflexivity. Qed.

Lemma ex_attr : format_tag_attributes no_dis ex_attrs = ex_attr_string
                /\ parse_attribute_string ex_attr_string = Ok ex_attrs.
Proof. vm_compute. split; reflexivity. Qed.

(* HED_score_2.0.0: a description with a '<' is inside the class *)
Lemma ex_lt_in_class : desc_ok (Some d_lt) = true /\ schema_text_ok d_lt = true.
Proof. vm_compute. split; reflexivity. Qed.

(* ---- boundary of the attribute grammar ---- *)
Lemma attr_eq_truncates :
  parse_attribute_string s_abc = Ok [(k_a, AStr v_b)] /\
  parse_attribute_string (format_tag_attributes no_dis [(k_a, AStr v_beqc)]) = Ok [(k_a, AStr v_b)].
Proof. vm_compute. split; reflexivity. Qed.

(* a trailing blank of a value is lost (a leading one survives: the strip is applied to name=value) *)
Lemma attr_outer_blank_stripped :
  parse_attribute_string (format_tag_attributes no_dis [(k_a, AStr v_sp_b)]) = Ok [(k_a, AStr v_b)].
Proof. vm_compute. reflexivity. Qed.

Lemma attr_empty_piece_rejected :
  parse_attribute_string (format_tag_attributes no_dis [(k_a, AStr v_xey)]) = Exn ValueError.
Proof. vm_compute. reflexivity. Qed.

Lemma attr_bool_then_value_raises : parse_attribute_string s_a_ab = Exn TypeError.
Proof. vm_compute. reflexivity. Qed.

(* ---- records: before 4719ff8 (C05-F1) and 784517a (C05-F3) the schema text class was wider than the round-trip class ---- *)
Definition line_of (d : str) : str :=
  match write_tag_line no_dis n_zork 1 [] (Some d) with Some l => l | None => [] end.

Lemma desc_outer_blank_lost :
  schema_text_ok d_lead = true /\
  read_tag_line false (line_of d_lead) = Ok (Some (mkParsed false 1 n_zork [] (Some d_lead_stripped))).
Proof. vm_compute. split; reflexivity. Qed.

Lemma desc_extend_here_refused :
  schema_text_ok d_extend = true /\ read_tag_line false (line_of d_extend) = Exn HedFileError.
Proof. vm_compute. split; reflexivity. Qed.

Lemma desc_nowiki_removed :
  schema_text_ok d_nowiki = true /\
  read_tag_line false (line_of d_nowiki) = Ok (Some (mkParsed false 1 n_zork [] (Some d_nowiki_gone))).
Proof. vm_compute. split; reflexivity. Qed.

(* the full-strength statement over the schema's own text class is false of the faithful model *)
Lemma wiki_line_roundtrip_schema_class_refuted :
  exists d, schema_text_ok d = true /\ d <> [] /\
            read_tag_line false (line_of d) <> Ok (Some (mkParsed false 1 n_zork [] (Some d))).
Proof.
  exists d_lead. split; [vm_compute; reflexivity|]. split; [discriminate|].
  destruct desc_outer_blank_lost as [_ H]. rewrite H. intro E. inversion E.
Qed.

(* ---- the same witnesses on the current code (after 4719ff8 and 784517a) ---- *)
(* F1: the XML reader now delivers the stripped description, which round-trips *)
Lemma desc_outer_blank_after_fix :
  xml_read_desc true d_lead = Some d_lead_stripped /\
  read_tag_line true (match write_tag_line no_dis n_zork 1 [] (xml_read_desc true d_lead) with Some l => l | None => [] end)
  = Ok (Some (mkParsed false 1 n_zork [] (xml_read_desc true d_lead))).
Proof. vm_compute. split; reflexivity. Qed.

(* F3: 'extend here' inside a description is read back unchanged *)
Lemma desc_extend_here_after_fix :
  read_tag_line true (line_of d_extend) = Ok (Some (mkParsed false 1 n_zork [] (Some d_extend))).
Proof. vm_compute. reflexivity. Qed.

(* what stays a limit after the repairs: nowiki words inside a description are still deleted *)
Lemma desc_nowiki_still_removed :
  schema_text_ok d_nowiki = true /\
  read_tag_line true (line_of d_nowiki) = Ok (Some (mkParsed false 1 n_zork [] (Some d_nowiki_gone))).
Proof. vm_compute. split; reflexivity. Qed.


(* ---- a small tree of HED8.3.0 through the whole tag section (writer, then reader) ---- *)
Definition n_event : str := [69;118;101;110;116]%N.
Definition d_event : str := [83;111;109;101;116;104;105;110;103;32;116;104;97;116;32;104;97;112;112;101;110;115;32;97;116;32;97;32;103;105;118;101;110;32;116;105;109;101;32;97;110;100;32;40;116;121;112;105;99;97;108;108;121;41;32;112;108;97;99;101;46]%N.
Definition n_agent_action : str := [65;103;101;110;116;45;97;99;116;105;111;110]%N.
Definition sec_items : list tag_item :=
  [ mkItem [n_event] [(k_suggested, AStr [84;97;115;107;45;112;114;111;112;101;114;116;121]%N)] (Some d_event);
    mkItem [n_event; ex_name] ex_attrs (Some ex_desc);
    mkItem [n_event; ex_name; n_zork] [] None;
    mkItem [n_event; n_agent_action] [] (Some d_lt) ].

Definition sec_lines : list str :=
  Eval vm_compute in
    flat_map (fun o => match o with Some l => [l] | None => [] end) (write_tag_section no_dis sec_items).

Lemma ex_section :
  exists lines,
    write_tag_section no_dis sec_items = map Some lines /\
    Forall (fun e => name_ok (last (ti_path e) []) = true /\ desc_ok (ti_desc e) = true /\ attr_ok (ti_attrs e) = true
                     /\ wiki_text_ok (format_tag_attributes no_dis (ti_attrs e)) = true) sec_items /\
    Forall2 (fun e line => row_free_of_reserved true (last (ti_path e) []) line = true) sec_items lines /\
    paths_parents_first [] (map ti_path sec_items) /\
    read_tag_section true [] lines = Ok sec_items.
Proof.
  exists sec_lines. split; [vm_compute; reflexivity|].
  split; [repeat constructor|].
  split; [repeat constructor|].
  split; [cbn [paths_parents_first map ti_path sec_items]; repeat split; first [discriminate | reflexivity | (simpl; lia)] | vm_compute; reflexivity].
Qed.

(* ---- traversal: a small partnered library ---- *)
Definition t_base := mkTag [1] false None [5].
Definition t_base_child := mkTag [1; 2] false (Some ([1], false)) [].
Definition t_lib_rooted := mkTag [1; 2; 3] true (Some ([1; 2], false)) [a_inLibrary; 7].
Definition t_lib_child := mkTag [1; 2; 3; 4] true (Some ([1; 2; 3], true)) [a_inLibrary].
Definition ex_tags := [t_base; t_base_child; t_lib_rooted; t_lib_child].

Lemma ex_unmerged :
  map (fun w => (te_name (w_entry w), w_level w, w_parent w, w_attrs w))
      (output_tags (compute_flags ws83 false) ex_tags)
  = [([1; 2; 3], 0%Z, None, [7]); ([1; 2; 3; 4], 1%Z, Some [1; 2; 3], [])].
Proof. vm_compute. reflexivity. Qed.

Lemma ex_merged :
  map (fun w => (te_name (w_entry w), w_level w, w_attrs w))
      (output_tags (compute_flags ws83 true) ex_tags)
  = [([1], 0%Z, [5]); ([1; 2], 1%Z, []); ([1; 2; 3], 2%Z, [a_inLibrary; 7]); ([1; 2; 3; 4], 3%Z, [a_inLibrary])].
Proof. vm_compute. reflexivity. Qed.

Lemma ex_multi_library :
  process_schema lib_two ws83 true ex_tags [] [] = Exn HedFileError /\
  is_ok (process_schema lib_one ws83 true ex_tags [] []) = true.
Proof. vm_compute. split; reflexivity. Qed.
