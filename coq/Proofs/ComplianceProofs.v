(* C14 -- lemmas about Model/Compliance.v *)
From Coq Require Import List NArith ZArith Bool Arith Lia.
From HV Require Import Base.Res Base.Str Base.C14Base Gen.ComplianceTables Model.Compliance.
Import ListNotations.

(* ------------------------------------------------------------------ generic *)

Lemma concat_mapM_in {A B} (f : A -> res (list B)) (l : list A) (r : list B) (x : A) :
  concat_mapM f l = Ok r -> In x l -> exists a, f x = Ok a /\ incl a r.
Proof.
  revert r; induction l as [|y l IH]; intros r H Hin; [destruct Hin|].
  cbn [concat_mapM] in H. destruct (f y) as [a|] eqn:Hf; cbn [bind] in H; [|discriminate].
  destruct (concat_mapM f l) as [b|] eqn:Hc; cbn [bind] in H; [|discriminate].
  inversion H; subst. destruct Hin as [->|Hin].
  - exists a; split; [assumption|]. intros z Hz; apply in_or_app; left; exact Hz.
  - destruct (IH b eq_refl Hin) as (a' & Ha & Hi). exists a'; split; [assumption|].
    intros z Hz; apply in_or_app; right; apply Hi; exact Hz.
Qed.

Lemma concat_mapM_errors {A} (f g : A -> res (list issue)) (l : list A) :
  (forall x, In x l -> g x = errors_of (f x)) -> concat_mapM g l = errors_of (concat_mapM f l).
Proof.
  induction l as [|y l IH]; intros H; [reflexivity|].
  cbn [concat_mapM]. rewrite (H y (or_introl eq_refl)).
  rewrite IH by (intros x Hx; apply H; right; exact Hx).
  destruct (f y) as [a|]; cbn [bind errors_of]; [|reflexivity].
  destruct (concat_mapM f l) as [b|]; cbn [bind errors_of]; [|reflexivity].
  now rewrite filter_app.
Qed.

Lemma filter_flat_map {A B} (p : B -> bool) (f : A -> list B) (l : list A) :
  filter p (flat_map f l) = flat_map (fun x => filter p (f x)) l.
Proof. induction l as [|x l IH]; cbn; [reflexivity|]. now rewrite filter_app, IH. Qed.

Lemma flat_map_ext_in {A B} (f g : A -> list B) (l : list A) :
  (forall x, In x l -> f x = g x) -> flat_map f l = flat_map g l.
Proof.
  induction l as [|x l IH]; intros H; cbn; [reflexivity|].
  rewrite (H x (or_introl eq_refl)), IH; [reflexivity|]. intros y Hy; apply H; right; exact Hy.
Qed.

Lemma dict_get_in {V} (k : str) (v : V) (d : list (str * V)) :
  dict_get k d = Some v -> In (k, v) d.
Proof.
  induction d as [|[k' v'] d IH]; cbn; [discriminate|].
  destruct (str_eqb k k') eqn:E; intros H.
  - apply str_eqb_spec in E; subst. inversion H; subst. left; reflexivity.
  - right; apply IH; exact H.
Qed.

Lemma in_all_sections (s : section) : In s all_sections.
Proof. destruct s; cbn; tauto. Qed.

Lemma mem_str_true_iff (x : str) (l : list str) : mem_str x l = true <-> In x l.
Proof.
  induction l as [|y l IH]; cbn; [split; [discriminate|tauto]|].
  rewrite orb_true_iff, IH, str_eqb_spec. split; intros [H|H]; auto.
Qed.

Lemma mem_str_false_iff (x : str) (l : list str) : mem_str x l = false <-> ~ In x l.
Proof.
  rewrite <- mem_str_true_iff. destruct (mem_str x l); split; intros H; try reflexivity; try discriminate.
  exfalso; apply H; reflexivity.
Qed.

(* ------------------------------------------------------------------ warnings off = the errors *)

Lemma is_error_ctx (i : issue) sec tag attr :
  is_error (mkIssue (i_kind i) (i_sev i) sec tag attr) = is_error i.
Proof. reflexivity. Qed.

Lemma acf_off sec tag attr (l : list issue) :
  add_context_and_filter false sec tag attr l
  = filter is_error (add_context_and_filter true sec tag attr l).
Proof.
  unfold add_context_and_filter. induction l as [|i l IH]; [reflexivity|].
  cbn [filter map]. rewrite is_error_ctx. destruct (is_error i); cbn [map]; rewrite IH; reflexivity.
Qed.

Lemma run_validators_off E I L e a vs :
  run_validators E I false L e a vs = errors_of (run_validators E I true L e a vs).
Proof.
  unfold run_validators. apply concat_mapM_errors. intros v _.
  destruct (run_validator E I L v e a) as [ks|]; cbn [bind errors_of]; [|reflexivity].
  now rewrite acf_off.
Qed.

Lemma check_unknown_off e :
  check_unknown_attributes false e = filter is_error (check_unknown_attributes true e).
Proof.
  unfold check_unknown_attributes. rewrite filter_flat_map. apply flat_map_ext_in.
  intros x _. apply acf_off.
Qed.

Lemma check_entry_off E I L e :
  check_tag_entry_attributes E I false L e = errors_of (check_tag_entry_attributes E I true L e).
Proof.
  unfold check_tag_entry_attributes.
  rewrite (concat_mapM_errors (fun kv => run_validators E I true L e (fst kv) (get_validators L (fst kv))))
    by (intros x _; apply run_validators_off).
  destruct (concat_mapM _ (le_attrs e)) as [r|]; cbn [bind errors_of]; [|reflexivity].
  now rewrite filter_app, check_unknown_off.
Qed.

Lemma check_attributes_off E I L :
  check_attributes E I false L = errors_of (check_attributes E I true L).
Proof.
  unfold check_attributes. apply concat_mapM_errors. intros sec _.
  apply concat_mapM_errors. intros e _. apply check_entry_off.
Qed.

Lemma check_duplicate_off L :
  check_duplicate_names false L = filter is_error (check_duplicate_names true L).
Proof.
  unfold check_duplicate_names. rewrite filter_flat_map. apply flat_map_ext_in. intros sd _.
  rewrite filter_flat_map. apply flat_map_ext_in. intros nd _. apply acf_off.
Qed.

Lemma prerelease_off E L :
  check_if_prerelease_version E false L = errors_of (check_if_prerelease_version E true L).
Proof.
  unfold check_if_prerelease_version.
  match goal with |- bind ?x _ = errors_of (bind ?x _) => destruct x as [i1|] end;
    cbn [bind errors_of]; [|reflexivity].
  match goal with |- bind ?x _ = errors_of (bind ?x _) => destruct x as [i2|] end;
    cbn [bind errors_of]; [|reflexivity].
  now rewrite acf_off.
Qed.

Lemma check_loaded_off E L :
  check_loaded E false L = errors_of (check_loaded E true L).
Proof.
  unfold check_loaded.
  destruct (id_validator_init E L) as [I|]; cbn [bind errors_of]; [|reflexivity].
  rewrite prerelease_off.
  destruct (check_if_prerelease_version E true L) as [pre|]; cbn [bind errors_of]; [|reflexivity].
  rewrite check_attributes_off.
  destruct (check_attributes E I true L) as [at_|]; cbn [bind errors_of]; [|reflexivity].
  now rewrite !filter_app, check_duplicate_off.
Qed.

Lemma check_compliance_off E S :
  check_compliance E false S = errors_of (check_compliance E true S).
Proof.
  unfold check_compliance. destruct (load E S) as [L|]; cbn [bind errors_of]; [|reflexivity].
  apply check_loaded_off.
Qed.

(* with warnings off, everything that is returned is an error *)
Lemma check_compliance_off_all_errors E S l :
  check_compliance E false S = Ok l -> Forall (fun i => is_error i = true) l.
Proof.
  rewrite check_compliance_off. destruct (check_compliance E true S) as [l'|]; cbn [errors_of]; [|discriminate].
  intros H; inversion H; subst. apply Forall_forall. intros i Hi. apply filter_In in Hi. tauto.
Qed.

(* ------------------------------------------------------------------ a finding of a rule reaches the result *)

Lemma validator_issue_reported E L issues sec e a val v k :
  check_loaded E true L = Ok issues ->
  In e (section_values L sec) ->
  dict_get a (le_attrs e) = Some val ->
  In v (get_validators L a) ->
  (forall I ks, id_validator_init E L = Ok I -> run_validator E I L v e a = Ok ks -> In k ks) ->
  In (mkIssue k SevWarning (Some (le_sec e)) (Some (le_name e)) (Some a)) issues.
Proof.
  intros Hc He Ha Hv Hk. unfold check_loaded in Hc.
  destruct (id_validator_init E L) as [I|] eqn:HI; cbn [bind] in Hc; [|discriminate].
  destruct (check_if_prerelease_version E true L) as [pre|]; cbn [bind] in Hc; [|discriminate].
  destruct (check_attributes E I true L) as [at_|] eqn:Hat; cbn [bind] in Hc; [|discriminate].
  inversion Hc; subst issues. apply in_or_app; right; apply in_or_app; left.
  unfold check_attributes in Hat.
  destruct (concat_mapM_in _ _ _ sec Hat (in_all_sections sec)) as (a1 & H1 & I1).
  destruct (concat_mapM_in _ _ _ e H1 He) as (a2 & H2 & I2).
  apply I1, I2. unfold check_tag_entry_attributes in H2.
  destruct (concat_mapM _ (le_attrs e)) as [r|] eqn:Hr; cbn [bind] in H2; [|discriminate].
  inversion H2; subst a2. apply in_or_app; right.
  destruct (concat_mapM_in _ _ _ (a, val) Hr (dict_get_in _ _ _ Ha)) as (a3 & H3 & I3).
  apply I3. cbn [fst] in H3. unfold run_validators in H3.
  destruct (concat_mapM_in _ _ _ v H3 Hv) as (a4 & H4 & I4).
  apply I4. destruct (run_validator E I L v e a) as [ks|] eqn:Hrv; cbn [bind] in H4; [|discriminate].
  inversion H4; subst a4. unfold add_context_and_filter.
  apply in_map_iff. exists (mkIssue k SevWarning None None None). split; [reflexivity|].
  apply in_map_iff. exists k. split; [reflexivity|]. exact (Hk I ks eq_refl Hrv).
Qed.

Lemma reported_code E L issues sec e a val v k :
  check_loaded E true L = Ok issues ->
  In e (section_values L sec) ->
  dict_get a (le_attrs e) = Some val ->
  In v (get_validators L a) ->
  (forall I ks, id_validator_init E L = Ok I -> run_validator E I L v e a = Ok ks -> In k ks) ->
  exists i, In i issues /\ i_code i = kind_code k /\ i_sev i = SevWarning
            /\ i_sec i = Some (le_sec e) /\ i_tag i = Some (le_name e) /\ i_attr i = Some a.
Proof.
  intros. eexists. split; [eapply validator_issue_reported; eassumption|]. cbn. repeat split.
Qed.

(* an undeclared attribute is reported as an error, whatever the warning switch *)
Lemma unknown_attribute_reported E warn L issues sec e a :
  check_loaded E warn L = Ok issues ->
  In e (section_values L sec) ->
  In a (le_unknown e) ->
  In (mkIssue K_SCHEMA_ATTRIBUTE_INVALID SevError (Some (le_sec e)) (Some (le_name e)) None) issues.
Proof.
  intros Hc He Ha. unfold check_loaded in Hc.
  destruct (id_validator_init E L) as [I|]; cbn [bind] in Hc; [|discriminate].
  destruct (check_if_prerelease_version E warn L) as [pre|]; cbn [bind] in Hc; [|discriminate].
  destruct (check_attributes E I warn L) as [at_|] eqn:Hat; cbn [bind] in Hc; [|discriminate].
  inversion Hc; subst issues. apply in_or_app; right; apply in_or_app; left.
  unfold check_attributes in Hat.
  destruct (concat_mapM_in _ _ _ sec Hat (in_all_sections sec)) as (a1 & H1 & I1).
  destruct (concat_mapM_in _ _ _ e H1 He) as (a2 & H2 & I2).
  apply I1, I2. unfold check_tag_entry_attributes in H2.
  destruct (concat_mapM _ (le_attrs e)) as [r|] eqn:Hr; cbn [bind] in H2; [|discriminate].
  inversion H2; subst a2. apply in_or_app; left.
  unfold check_unknown_attributes. apply in_flat_map. exists a. split; [exact Ha|].
  unfold add_context_and_filter, format_error. destruct warn; cbn; left; reflexivity.
Qed.

(* a recorded duplicate is reported as an error, whatever the warning switch *)
Definition dup_kind (ents : list (str * bool)) : kind :=
  if existsb (fun b => b) (map snd ents) && existsb negb (map snd ents)
  then K_SCHEMA_DUPLICATE_FROM_LIBRARY else K_SCHEMA_DUPLICATE_NODE.

Lemma in_dups_reordered (L : lschema) sd :
  In sd (l_dups L) ->
  In sd (fold_right (fun sec acc => match filter (fun sd => section_eqb (fst sd) sec) (l_dups L) with
                                   | [] => acc
                                   | l => l ++ acc
                                   end) [] all_sections).
Proof.
  intros Hin.
  assert (G : forall secs, In (fst sd) secs ->
              In sd (fold_right (fun sec acc => match filter (fun sd => section_eqb (fst sd) sec) (l_dups L) with
                                               | [] => acc
                                               | l => l ++ acc
                                               end) [] secs)).
  { induction secs as [|s secs IH]; intros Hs; [destruct Hs|]. cbn [fold_right].
    destruct Hs as [Hs|Hs].
    - assert (Hf : In sd (filter (fun sd0 => section_eqb (fst sd0) s) (l_dups L))).
      { apply filter_In. split; [exact Hin|]. subst s. destruct (fst sd); reflexivity. }
      destruct (filter (fun sd0 => section_eqb (fst sd0) s) (l_dups L)) as [|x xs]; [destruct Hf|].
      apply in_or_app; left; exact Hf.
    - specialize (IH Hs).
      destruct (filter (fun sd0 => section_eqb (fst sd0) s) (l_dups L)) as [|x xs]; [exact IH|].
      apply in_or_app; right; exact IH. }
  apply G, in_all_sections.
Qed.

Lemma duplicate_reported E warn L issues sec d name ents :
  check_loaded E warn L = Ok issues ->
  In (sec, d) (l_dups L) -> In (name, ents) d ->
  In (mkIssue (dup_kind ents) SevError None None None) issues.
Proof.
  intros Hc Hd Hn. unfold check_loaded in Hc.
  destruct (id_validator_init E L) as [I|]; cbn [bind] in Hc; [|discriminate].
  destruct (check_if_prerelease_version E warn L) as [pre|]; cbn [bind] in Hc; [|discriminate].
  destruct (check_attributes E I warn L) as [at_|]; cbn [bind] in Hc; [|discriminate].
  inversion Hc; subst issues. apply in_or_app; right; apply in_or_app; right.
  unfold check_duplicate_names. apply in_flat_map. exists (sec, d). split; [apply in_dups_reordered; exact Hd|].
  apply in_flat_map. exists (name, ents). split; [exact Hn|].
  cbn [snd fst]. fold (dup_kind ents).
  unfold add_context_and_filter, format_error, dup_kind.
  destruct (existsb (fun b => b) (map snd ents) && existsb negb (map snd ents)); destruct warn; cbn; left; reflexivity.
Qed.

Lemma dup_kind_uniform ents :
  (forall x y, In x ents -> In y ents -> snd x = snd y) -> dup_kind ents = K_SCHEMA_DUPLICATE_NODE.
Proof.
  intros H. unfold dup_kind.
  destruct (existsb (fun b => b) (map snd ents)) eqn:E1; [|reflexivity].
  destruct (existsb negb (map snd ents)) eqn:E2; [|reflexivity]. exfalso.
  apply existsb_exists in E1 as (b1 & Hb1 & T1). apply existsb_exists in E2 as (b2 & Hb2 & T2).
  apply in_map_iff in Hb1 as (x & Hx & Hxi). apply in_map_iff in Hb2 as (y & Hy & Hyi).
  specialize (H x y Hxi Hyi). rewrite Hx, Hy in H. cbn in T1. rewrite <- H, T1 in T2. discriminate.
Qed.

(* ------------------------------------------------------------------ which validators run (translated tables) *)

Lemma table_new_in a v : In v (table_get a validators_new) -> forall L, l_is83 L = true -> In v (get_validators L a).
Proof. intros H L E. unfold get_validators. rewrite E. apply in_or_app; left; exact H. Qed.

Lemma table_old_in a v : In v (table_get a validators_old) -> forall L, l_is83 L = false -> In v (get_validators L a).
Proof. intros H L E. unfold get_validators. rewrite E. apply in_or_app; left; exact H. Qed.

Lemma table_both_in a v :
  In v (table_get a validators_new) -> In v (table_get a validators_old) -> forall L, In v (get_validators L a).
Proof.
  intros H1 H2 L. destruct (l_is83 L) eqn:E; [apply table_new_in|apply table_old_in]; assumption.
Qed.

(* 8.3 rule set: the range properties of the attribute's own definition select validators *)
Lemma range_validator_in L a ae p pv v :
  l_is83 L = true -> lookup L SecAttributes a = Some ae ->
  In (p, pv) (le_attrs ae) -> In v (table_get p range_validators) ->
  In v (get_validators L a).
Proof.
  intros E Hl Hp Hv. unfold get_validators. rewrite E, Hl.
  apply in_or_app; right; apply in_or_app; right; apply in_or_app; right.
  unfold get_range_validators. apply in_flat_map. exists (p, pv). split; assumption.
Qed.

Lemma hed_id_validator_in L : l_is83 L = true -> In V_verify_tag_id (get_validators L HedKey_HedID).
Proof.
  intros E. unfold get_validators. rewrite E.
  apply in_or_app; right; apply in_or_app; right; apply in_or_app; left. left; reflexivity.
Qed.

(* ------------------------------------------------------------------ the rules, one by one: sound and complete *)

(* in_library_check *)
Lemma in_library_check_spec L e a :
  exists ks, in_library_check L e a = Ok ks /\
  (In K_SCHEMA_IN_LIBRARY_INVALID ks <->
   match dict_get a (le_attrs e) with
   | Some (VStr s) => ~ In s (split_comma (l_library L))
   | Some VFlag => True
   | None => ~ In [] (split_comma (l_library L))
   end).
Proof.
  unfold in_library_check. eexists; split; [reflexivity|].
  destruct (dict_get a (le_attrs e)) as [[|s]|].
  - cbn; tauto.
  - destruct (mem_str s _) eqn:M.
    + apply mem_str_true_iff in M. cbn; tauto.
    + apply mem_str_false_iff in M. cbn; tauto.
  - destruct (mem_str [] _) eqn:M.
    + apply mem_str_true_iff in M. cbn; tauto.
    + apply mem_str_false_iff in M. cbn; tauto.
Qed.

(* conversion_factor: reported iff the value is not a float text or its float is <= 0.0 *)
Definition bad_conversion_factor (v : aval) : Prop :=
  match v with
  | VFlag => True
  | VStr s => match parse_float (replace_caret s) with
              | None => True
              | Some x => float_le_zero x = true
              end
  end.

Lemma conversion_factor_spec L e a :
  exists ks, conversion_factor L e a = Ok ks /\
  (In K_SCHEMA_CONVERSION_FACTOR_NOT_POSITIVE ks <->
   exists v, dict_get a (le_attrs e) = Some v /\ bad_conversion_factor v).
Proof.
  unfold conversion_factor, bad_conversion_factor.
  destruct (dict_get a (le_attrs e)) as [[|s]|].
  - eexists; split; [reflexivity|]. split; [intros _; exists VFlag; tauto|cbn; tauto].
  - destruct (parse_float (replace_caret s)) as [x|] eqn:P.
    + destruct (float_le_zero x) eqn:Z; eexists; (split; [reflexivity|]).
      * split; [intros _; exists (VStr s); rewrite P; tauto|cbn; tauto].
      * split; [cbn; tauto|]. intros (v & Hv & B). inversion Hv; subst. rewrite P in B. congruence.
    + eexists; split; [reflexivity|]. split; [intros _; exists (VStr s); rewrite P; tauto|cbn; tauto].
  - eexists; split; [reflexivity|]. split; [cbn; tauto|]. intros (v & Hv & _); discriminate.
Qed.

(* allowed_characters_check *)
Lemma allowed_characters_spec L e a s :
  dict_get a (le_attrs e) = Some (VStr s) ->
  exists ks, allowed_characters_check L e a = Ok ks /\
  (In K_SCHEMA_ALLOWED_CHARACTERS_INVALID ks <->
   exists c, In c (split_comma s) /\ ~ In c character_type_names /\ length c <> 1%nat).
Proof.
  intros H. unfold allowed_characters_check. rewrite H. eexists; split; [reflexivity|].
  rewrite in_flat_map. split.
  - intros (c & Hc & Hin). exists c. split; [exact Hc|].
    destruct (mem_str c character_type_names) eqn:M; cbn in Hin; [destruct Hin|].
    destruct (Nat.eqb (length c) 1) eqn:N; cbn in Hin; [destruct Hin|].
    apply mem_str_false_iff in M. apply Nat.eqb_neq in N. tauto.
  - intros (c & Hc & Hn & Hl). exists c. split; [exact Hc|].
    apply mem_str_false_iff in Hn. apply Nat.eqb_neq in Hl. rewrite Hn, Hl. cbn. left; reflexivity.
Qed.

(* tag_is_placeholder_check: class attributes on a node that is not a '#' placeholder *)
Lemma placeholder_spec L e a :
  le_sec e = SecTags ->
  exists ks, tag_is_placeholder_check L e a = Ok ks /\
  (In K_SCHEMA_NON_PLACEHOLDER_HAS_CLASS ks <-> ends_with slash_hash (le_name e) = false).
Proof.
  intros Hs. unfold tag_is_placeholder_check. rewrite Hs. eexists; split; [reflexivity|].
  destruct (ends_with slash_hash (le_name e)).
  - split; [|discriminate]. intros H. cbn [app] in H. apply in_app_or in H. destruct H as [H|H].
    + destruct (le_parent e); [|destruct H].
      match type of H with In _ (match ?x with [] => _ | _ => _ end) => destruct x end; cbn in H; [tauto|].
      destruct H as [H|[]]; discriminate.
    + destruct (index_of_tag (le_name e) (l_tags L) 0); [|destruct H].
      match type of H with In _ (match ?x with [] => _ | _ => _ end) => destruct x end; cbn in H; [tauto|].
      destruct H as [H|[]]; discriminate.
  - split; [reflexivity|]. intros _. left; reflexivity.
Qed.

(* item_exists_check: an item that names no entry of the target section *)
Lemma item_exists_spec sec L e a s ks :
  (sec = SecTags \/ sec = SecUnitClasses \/ sec = SecValueClasses) ->
  dict_get a (le_attrs e) = Some (VStr s) ->
  item_exists_check sec L e a = Ok ks ->
  (In K_SCHEMA_GENERIC_ATTRIBUTE_VALUE_INVALID ks <->
   exists item, In item (split_comma s) /\ item <> [] /\ lookup L sec item = None).
Proof.
  intros Hsec Hd. unfold item_exists_check. rewrite Hd.
  generalize (split_comma s) as items. intros items; revert ks.
  induction items as [|it items IH]; intros ks H.
  - cbn in H. inversion H; subst. split; [intros []|]. intros (item & [] & _).
  - cbn [concat_mapM] in H.
    match type of H with bind ?x _ = _ => destruct x as [k1|] eqn:H1 end; cbn [bind] in H; [|discriminate].
    match type of H with bind ?x _ = _ => destruct x as [k2|] eqn:H2 end; cbn [bind] in H; [|discriminate].
    inversion H; subst ks. specialize (IH k2 eq_refl).
    rewrite in_app_iff, IH. split.
    + intros [Hin|(item & Hi & Hne & Hl)].
      * exists it. split; [left; reflexivity|].
        destruct it as [|c it']; [inversion H1; subst; destruct Hin|]. split; [discriminate|].
        destruct Hsec as [->|[->| ->]];
          (destruct (lookup L _ (c :: it')) as [ie|]; [|reflexivity];
           destruct (has_attr ie HedKey_DeprecatedFrom && negb (has_attr e HedKey_DeprecatedFrom));
           inversion H1; subst; cbn in Hin; exfalso; intuition discriminate).
      * exists item. split; [right; exact Hi|]. tauto.
    + intros (item & [<-|Hi] & Hne & Hl).
      * left. destruct it as [|c it']; [congruence|].
        destruct Hsec as [->|[->| ->]]; rewrite Hl in H1; inversion H1; subst; left; reflexivity.
      * right. exists item. tauto.
Qed.

(* unit_exists: default units that are not a unit of the class *)
Lemma unit_exists_spec L e a u :
  le_sec e = SecUnitClasses -> dict_get a (le_attrs e) = Some (VStr u) ->
  exists ks, unit_exists L e a = Ok ks /\
  (In K_SCHEMA_DEFAULT_UNITS_INVALID ks <-> u <> [] /\ get_derivative_unit_entry L e u = None).
Proof.
  intros Hs Hd. unfold unit_exists. rewrite Hs, Hd.
  destruct (get_derivative_unit_entry L e u) as [ue|].
  - destruct (has_attr ue HedKey_DeprecatedFrom && negb (has_attr e HedKey_DeprecatedFrom));
      eexists; (split; [reflexivity|]); (split; [intros H; cbn in H; exfalso; intuition discriminate|intros [_ H]; discriminate]).
  - destruct u as [|c u']; eexists; (split; [reflexivity|]).
    + split; [intros []|intros [H _]; congruence].
    + split; [intros _; split; [discriminate|reflexivity]|intros _; left; reflexivity].
Qed.

(* tag_is_deprecated_check: the deprecatedFrom value is unknown, or not older than the schema *)
Lemma deprecated_unknown_fires E L e a s ks :
  dict_get a (le_attrs e) = Some (VStr s) ->
  ~ In s (versions_for E (entry_library L e)) ->
  tag_is_deprecated_check E L e a = Ok ks -> In K_SCHEMA_DEPRECATED_INVALID ks.
Proof.
  intros Hd Hn. unfold tag_is_deprecated_check. rewrite Hd.
  cbv zeta.
  apply mem_str_false_iff in Hn. rewrite Hn. cbn [negb bind]. intros H. inversion H; subst.
  left; reflexivity.
Qed.

Lemma deprecated_not_older_fires E L e a s lv v1 v2 ks :
  dict_get a (le_attrs e) = Some (VStr s) ->
  schema_version_for_library L (entry_library L e) = Some lv -> lv <> [] ->
  parse_version lv = Ok v1 -> parse_version s = Ok v2 -> version_leb v1 v2 = true ->
  tag_is_deprecated_check E L e a = Ok ks -> In K_SCHEMA_DEPRECATED_INVALID ks.
Proof.
  intros Hd Hl Hne P1 P2 Hle. unfold tag_is_deprecated_check. rewrite Hd.
  cbv zeta.
  destruct (negb (mem_str s (versions_for E (entry_library L e)))).
  - cbn [bind]. intros H; inversion H; subst. left; reflexivity.
  - rewrite Hl. destruct lv as [|c lv']; [congruence|]. rewrite P1, P2. cbn [bind]. rewrite Hle. cbn [bind].
    intros H; inversion H; subst. left; reflexivity.
Qed.

(* the rule is silent about the value when the version is known and older *)
Lemma deprecated_ok_silent E L e a s lv v1 v2 ks :
  dict_get a (le_attrs e) = Some (VStr s) ->
  In s (versions_for E (entry_library L e)) ->
  schema_version_for_library L (entry_library L e) = Some lv -> lv <> [] ->
  parse_version lv = Ok v1 -> parse_version s = Ok v2 -> version_leb v1 v2 = false ->
  tag_is_deprecated_check E L e a = Ok ks -> ~ In K_SCHEMA_DEPRECATED_INVALID ks.
Proof.
  intros Hd Hin Hl Hne P1 P2 Hle. unfold tag_is_deprecated_check. rewrite Hd.
  cbv zeta.
  apply mem_str_true_iff in Hin. rewrite Hin. cbn [negb].
  rewrite Hl. destruct lv as [|c lv']; [congruence|]. rewrite P1, P2. cbn [bind]. rewrite Hle. cbn [bind].
  intros H; inversion H; subst. cbn [app]. intros Hk.
  destruct (children_entries L e) as [cs|]; [|destruct Hk].
  apply in_flat_map in Hk as (c0 & _ & Hc0). destruct (has_attr c0 a); [destruct Hc0|].
  destruct Hc0 as [Hc0|[]]; discriminate.
Qed.

(* verify_tag_id: out of the library's range *)
Lemma hed_id_range_fires I L e a s nid k lo hi ks :
  dict_get a (le_attrs e) = Some (VStr s) ->
  parse_int (remove_prefix s hed_prefix) = Some nid ->
  tag_library_key e = Some k -> dict_get k (id_data I) = Some (lo, hi) ->
  (nid < lo \/ hi < nid)%Z ->
  verify_tag_id I L e a = Ok ks -> In K_SCHEMA_HED_ID_INVALID ks.
Proof.
  intros Hd Hp Hk Hr Hout. unfold verify_tag_id. cbv zeta. rewrite Hk.
  match goal with |- bind ?x _ = _ -> _ => destruct x as [old|] end; cbn [bind]; [|discriminate].
  rewrite Hd, Hp, Hr. intros H; inversion H; subst. apply in_or_app; right.
  assert (Hb : ((nid <? lo)%Z || (hi <? nid)%Z) = true).
  { apply orb_true_iff. destruct Hout; [left|right]; apply Z.ltb_lt; assumption. }
  rewrite Hb. left; reflexivity.
Qed.

Lemma hed_id_not_a_number_fires I L e a s ks :
  dict_get a (le_attrs e) = Some (VStr s) ->
  parse_int (remove_prefix s hed_prefix) = None ->
  verify_tag_id I L e a = Ok ks -> In K_SCHEMA_HED_ID_INVALID ks.
Proof.
  intros Hd Hp. unfold verify_tag_id. cbv zeta.
  match goal with |- bind ?x _ = _ -> _ => destruct x as [old|] end; cbn [bind]; [|discriminate].
  rewrite Hd, Hp. intros H; inversion H; subst. left; reflexivity.
Qed.

(* a changed hedId: the previous version records a different (non-zero) number for the entry *)
Lemma hed_id_changed_fires I L e a s nid k Lp oe os oid ks :
  dict_get a (le_attrs e) = Some (VStr s) ->
  parse_int (remove_prefix s hed_prefix) = Some nid ->
  tag_library_key e = Some k -> dict_get k (id_prev I) = Some Lp ->
  lookup Lp (le_sec e) (le_name e) = Some oe ->
  dict_get HedKey_HedID (le_attrs oe) = Some (VStr os) ->
  parse_int (remove_prefix os hed_prefix) = Some oid -> oid <> 0%Z -> oid <> nid ->
  verify_tag_id I L e a = Ok ks -> In K_SCHEMA_HED_ID_INVALID ks.
Proof.
  intros Hd Hp Hk Hprev Hl Ho Hop Hz Hne. unfold verify_tag_id. cbv zeta.
  rewrite Hk, Hprev, Hl, Ho, Hop. cbn [bind]. rewrite Hd, Hp.
  intros H; inversion H; subst. apply in_or_app; left.
  apply Z.eqb_neq in Hz. apply Z.eqb_neq in Hne. rewrite Hz, Hne. left; reflexivity.
Qed.

(* ------------------------------------------------------------------ seeded faults are reported
   Each lemma: in ANY loaded schema L whose check does not raise, an entry e that the check visits
   (any section, any position) and that carries the fault is reported with the kind's code, at that
   entry and attribute.  [codes] is what the caller of check_compliance sees. *)

Definition codes (l : list issue) : list str := map i_code l.

Lemma in_codes k sv sec tag attr issues :
  In (mkIssue k sv sec tag attr) issues -> In (kind_code k) (codes issues).
Proof. intros H. unfold codes. apply in_map_iff. eexists; split; [|exact H]. reflexivity. Qed.

Ltac in_tab := vm_compute; repeat ((left; reflexivity) || right).

(* 1. duplicated node name *)
Lemma seeded_duplicate E warn L issues sec d name ents :
  check_loaded E warn L = Ok issues ->
  In (sec, d) (l_dups L) -> In (name, ents) d ->
  (forall x y, In x ents -> In y ents -> snd x = snd y) ->
  In (kind_code K_SCHEMA_DUPLICATE_NODE) (codes (filter is_error issues)).
Proof.
  intros Hc Hd Hn Hu. pose proof (duplicate_reported _ _ _ _ _ _ _ _ Hc Hd Hn) as H.
  rewrite (dup_kind_uniform _ Hu) in H.
  apply (in_codes _ SevError None None None). apply filter_In. split; [exact H|reflexivity].
Qed.

(* 2. attribute that is not declared for the section *)
Lemma seeded_undeclared E warn L issues sec e a :
  check_loaded E warn L = Ok issues ->
  In e (section_values L sec) -> In a (le_unknown e) ->
  In (kind_code K_SCHEMA_ATTRIBUTE_INVALID) (codes (filter is_error issues)).
Proof.
  intros Hc He Ha. pose proof (unknown_attribute_reported _ _ _ _ _ _ _ Hc He Ha) as H.
  eapply in_codes. apply filter_In. split; [exact H|reflexivity].
Qed.

(* 3. unit class / value class / suggested or related tag that does not exist *)
Lemma item_validator_old_tag L a :
  l_is83 L = false -> a = HedKey_SuggestedTag \/ a = HedKey_RelatedTag ->
  In (V_item_exists_check SecTags) (get_validators L a).
Proof. intros E [-> | ->]; apply table_old_in; try exact E; in_tab. Qed.

Lemma item_validator_old_unit_class L :
  l_is83 L = false -> In (V_item_exists_check SecUnitClasses) (get_validators L HedKey_UnitClass).
Proof. intros E; apply table_old_in; try exact E; in_tab. Qed.

Lemma item_validator_old_value_class L :
  l_is83 L = false -> In (V_item_exists_check SecValueClasses) (get_validators L HedKey_ValueClass).
Proof. intros E; apply table_old_in; try exact E; in_tab. Qed.

(* 8.3 rule set: the attribute's definition carries tagRange / unitClassRange / valueClassRange *)
Lemma item_validator_new L a ae pv tsec p :
  l_is83 L = true -> lookup L SecAttributes a = Some ae -> In (p, pv) (le_attrs ae) ->
  (p = HedKey_TagRange /\ tsec = SecTags) \/ (p = HedKey_UnitClassRange /\ tsec = SecUnitClasses)
  \/ (p = HedKey_ValueClassRange /\ tsec = SecValueClasses) ->
  In (V_item_exists_check tsec) (get_validators L a).
Proof.
  intros E Hl Hp H. eapply range_validator_in; try eassumption.
  destruct H as [[-> ->]|[[-> ->]|[-> ->]]]; in_tab.
Qed.

Lemma seeded_unknown_item E L issues sec e a s tsec item :
  check_loaded E true L = Ok issues ->
  In e (section_values L sec) ->
  dict_get a (le_attrs e) = Some (VStr s) ->
  In (V_item_exists_check tsec) (get_validators L a) ->
  (tsec = SecTags \/ tsec = SecUnitClasses \/ tsec = SecValueClasses) ->
  In item (split_comma s) -> item <> [] -> lookup L tsec item = None ->
  In (kind_code K_SCHEMA_GENERIC_ATTRIBUTE_VALUE_INVALID) (codes issues).
Proof.
  intros Hc He Ha Hv Ht Hi Hne Hl. eapply in_codes.
  eapply validator_issue_reported; try eassumption.
  intros I ks _ Hr. cbn [run_validator] in Hr.
  apply (item_exists_spec _ _ _ _ _ _ Ht Ha Hr). exists item. tauto.
Qed.

(* 4. class attributes on a node that is not a '#' placeholder *)
Lemma seeded_class_on_non_placeholder E L issues sec e a val :
  check_loaded E true L = Ok issues ->
  In e (section_values L sec) -> le_sec e = SecTags ->
  dict_get a (le_attrs e) = Some val ->
  a = HedKey_UnitClass \/ a = HedKey_ValueClass \/ a = HedKey_TakesValue ->
  ends_with slash_hash (le_name e) = false ->
  In (kind_code K_SCHEMA_NON_PLACEHOLDER_HAS_CLASS) (codes issues).
Proof.
  intros Hc He Hs Ha Hk Hn. eapply in_codes.
  eapply (validator_issue_reported _ _ _ _ _ _ _ V_tag_is_placeholder_check); try eassumption.
  - destruct Hk as [-> |[-> | ->]]; apply table_both_in; in_tab.
  - intros I ks _ Hr. cbn [run_validator] in Hr.
    destruct (placeholder_spec L e a Hs) as (ks' & Hk' & Hiff). rewrite Hk' in Hr. inversion Hr; subst.
    apply Hiff. exact Hn.
Qed.

(* 5. deprecatedFrom: unknown version / not older than the schema *)
Lemma deprecated_validator_in L : In V_tag_is_deprecated_check (get_validators L HedKey_DeprecatedFrom).
Proof. apply table_both_in; in_tab. Qed.

Lemma seeded_deprecated_unknown E L issues sec e s :
  check_loaded E true L = Ok issues ->
  In e (section_values L sec) ->
  dict_get HedKey_DeprecatedFrom (le_attrs e) = Some (VStr s) ->
  ~ In s (versions_for E (entry_library L e)) ->
  In (kind_code K_SCHEMA_DEPRECATED_INVALID) (codes issues).
Proof.
  intros Hc He Ha Hn. eapply in_codes.
  eapply (validator_issue_reported _ _ _ _ _ _ _ V_tag_is_deprecated_check); try eassumption.
  - apply deprecated_validator_in.
  - intros I ks _ Hr. cbn [run_validator] in Hr. eapply deprecated_unknown_fires; eassumption.
Qed.

Lemma seeded_deprecated_not_older E L issues sec e s lv v1 v2 :
  check_loaded E true L = Ok issues ->
  In e (section_values L sec) ->
  dict_get HedKey_DeprecatedFrom (le_attrs e) = Some (VStr s) ->
  schema_version_for_library L (entry_library L e) = Some lv -> lv <> [] ->
  parse_version lv = Ok v1 -> parse_version s = Ok v2 -> version_leb v1 v2 = true ->
  In (kind_code K_SCHEMA_DEPRECATED_INVALID) (codes issues).
Proof.
  intros Hc He Ha Hl Hne P1 P2 Hle. eapply in_codes.
  eapply (validator_issue_reported _ _ _ _ _ _ _ V_tag_is_deprecated_check); try eassumption.
  - apply deprecated_validator_in.
  - intros I ks _ Hr. cbn [run_validator] in Hr. eapply deprecated_not_older_fires; eassumption.
Qed.

(* 6. non-positive conversion factor *)
Lemma seeded_conversion_factor E L issues sec e val :
  check_loaded E true L = Ok issues ->
  In e (section_values L sec) ->
  dict_get HedKey_ConversionFactor (le_attrs e) = Some val -> bad_conversion_factor val ->
  In (kind_code K_SCHEMA_CONVERSION_FACTOR_NOT_POSITIVE) (codes issues).
Proof.
  intros Hc He Ha Hb. eapply in_codes.
  eapply (validator_issue_reported _ _ _ _ _ _ _ V_conversion_factor); try eassumption.
  - apply table_both_in; in_tab.
  - intros I ks _ Hr. cbn [run_validator] in Hr.
    destruct (conversion_factor_spec L e HedKey_ConversionFactor) as (ks' & Hk' & Hiff).
    rewrite Hk' in Hr. inversion Hr; subst. apply Hiff. exists val. tauto.
Qed.

(* 7. default units that are not a unit of the class *)
Lemma unit_validator_old L : l_is83 L = false -> In V_unit_exists (get_validators L HedKey_DefaultUnits).
Proof. intros E; apply table_old_in; try exact E; in_tab. Qed.

Lemma unit_validator_new L a ae pv :
  l_is83 L = true -> lookup L SecAttributes a = Some ae -> In (HedKey_UnitRange, pv) (le_attrs ae) ->
  In V_unit_exists (get_validators L a).
Proof. intros E Hl Hp. eapply range_validator_in; try eassumption. in_tab. Qed.

Lemma seeded_default_units E L issues sec e a u :
  check_loaded E true L = Ok issues ->
  In e (section_values L sec) -> le_sec e = SecUnitClasses ->
  dict_get a (le_attrs e) = Some (VStr u) ->
  In V_unit_exists (get_validators L a) ->
  u <> [] -> get_derivative_unit_entry L e u = None ->
  In (kind_code K_SCHEMA_DEFAULT_UNITS_INVALID) (codes issues).
Proof.
  intros Hc He Hs Ha Hv Hne Hg. eapply in_codes.
  eapply validator_issue_reported; try eassumption.
  intros I ks _ Hr. cbn [run_validator] in Hr.
  destruct (unit_exists_spec L e a u Hs Ha) as (ks' & Hk' & Hiff). rewrite Hk' in Hr. inversion Hr; subst.
  apply Hiff. tauto.
Qed.

(* 8. unknown allowedCharacter value *)
Lemma seeded_allowed_character E L issues sec e s c :
  check_loaded E true L = Ok issues ->
  In e (section_values L sec) ->
  dict_get HedKey_AllowedCharacter (le_attrs e) = Some (VStr s) ->
  In c (split_comma s) -> ~ In c character_type_names -> length c <> 1%nat ->
  In (kind_code K_SCHEMA_ALLOWED_CHARACTERS_INVALID) (codes issues).
Proof.
  intros Hc He Ha Hi Hn Hl. eapply in_codes.
  eapply (validator_issue_reported _ _ _ _ _ _ _ V_allowed_characters_check); try eassumption.
  - apply table_both_in; in_tab.
  - intros I ks _ Hr. cbn [run_validator] in Hr.
    destruct (allowed_characters_spec L e _ s Ha) as (ks' & Hk' & Hiff). rewrite Hk' in Hr. inversion Hr; subst.
    apply Hiff. exists c. tauto.
Qed.

(* 9. foreign inLibrary name *)
Lemma seeded_in_library E L issues sec e s :
  check_loaded E true L = Ok issues ->
  In e (section_values L sec) ->
  dict_get HedKey_InLibrary (le_attrs e) = Some (VStr s) ->
  ~ In s (split_comma (l_library L)) ->
  In (kind_code K_SCHEMA_IN_LIBRARY_INVALID) (codes issues).
Proof.
  intros Hc He Ha Hn. eapply in_codes.
  eapply (validator_issue_reported _ _ _ _ _ _ _ V_in_library_check); try eassumption.
  - apply table_both_in; in_tab.
  - intros I ks _ Hr. cbn [run_validator] in Hr.
    destruct (in_library_check_spec L e HedKey_InLibrary) as (ks' & Hk' & Hiff).
    rewrite Hk' in Hr. inversion Hr; subst. apply Hiff. rewrite Ha. exact Hn.
Qed.

(* 10. hedId out of the library's range / changed with respect to the previous version (8.3 rule set) *)
Lemma seeded_hed_id_range E L I issues sec e s nid k lo hi :
  check_loaded E true L = Ok issues -> l_is83 L = true ->
  id_validator_init E L = Ok I ->
  In e (section_values L sec) ->
  dict_get HedKey_HedID (le_attrs e) = Some (VStr s) ->
  parse_int (remove_prefix s hed_prefix) = Some nid ->
  tag_library_key e = Some k -> dict_get k (id_data I) = Some (lo, hi) ->
  (nid < lo \/ hi < nid)%Z ->
  In (kind_code K_SCHEMA_HED_ID_INVALID) (codes issues).
Proof.
  intros Hc H83 HI He Ha Hp Hk Hr Hout. eapply in_codes.
  eapply (validator_issue_reported _ _ _ _ _ _ _ V_verify_tag_id); try eassumption.
  - apply hed_id_validator_in; exact H83.
  - intros I' ks HI' Hrun. rewrite HI in HI'. inversion HI'; subst I'. cbn [run_validator] in Hrun.
    exact (hed_id_range_fires I L e _ s nid k lo hi ks Ha Hp Hk Hr Hout Hrun).
Qed.

Lemma seeded_hed_id_changed E L I issues sec e s nid k Lp oe os oid :
  check_loaded E true L = Ok issues -> l_is83 L = true ->
  id_validator_init E L = Ok I ->
  In e (section_values L sec) ->
  dict_get HedKey_HedID (le_attrs e) = Some (VStr s) ->
  parse_int (remove_prefix s hed_prefix) = Some nid ->
  tag_library_key e = Some k -> dict_get k (id_prev I) = Some Lp ->
  lookup Lp (le_sec e) (le_name e) = Some oe ->
  dict_get HedKey_HedID (le_attrs oe) = Some (VStr os) ->
  parse_int (remove_prefix os hed_prefix) = Some oid -> oid <> 0%Z -> oid <> nid ->
  In (kind_code K_SCHEMA_HED_ID_INVALID) (codes issues).
Proof.
  intros Hc H83 HI He Ha Hp Hk Hprev Hl Ho Hop Hz Hne. eapply in_codes.
  eapply (validator_issue_reported _ _ _ _ _ _ _ V_verify_tag_id); try eassumption.
  - apply hed_id_validator_in; exact H83.
  - intros I' ks HI' Hrun. rewrite HI in HI'. inversion HI'; subst I'. cbn [run_validator] in Hrun.
    exact (hed_id_changed_fires I L e _ s nid k Lp oe os oid ks Ha Hp Hk Hprev Hl Ho Hop Hz Hne Hrun).
Qed.

(* every finding of an attribute rule is a warning: none survives warnings off *)
Lemma attribute_findings_are_warnings E I L e a vs l i :
  run_validators E I true L e a vs = Ok l -> In i l -> i_sev i = SevWarning.
Proof.
  unfold run_validators. revert l. induction vs as [|v vs IH]; intros l H Hi.
  - inversion H; subst. destruct Hi.
  - cbn [concat_mapM] in H.
    destruct (run_validator E I L v e a) as [ks|]; cbn [bind] in H; [|discriminate].
    match type of H with bind ?x _ = _ => destruct x as [b|] eqn:Hb end; cbn [bind] in H; [|discriminate].
    inversion H; subst l. apply in_app_or in Hi. destruct Hi as [Hi|Hi].
    + unfold add_context_and_filter in Hi. apply in_map_iff in Hi as (j & <- & Hj).
      apply in_map_iff in Hj as (k & <- & _). reflexivity.
    + eapply IH; [reflexivity|exact Hi].
Qed.
