(* C14 -- lemmas about Model/Compliance.v *)
From Coq Require Import List NArith ZArith Bool Arith Lia.
From HV Require Import Base.Res Base.Str Base.C14Base Gen.ComplianceTables Model.Compliance.
Import ListNotations.

(* ------------------------------------------------------------------ generic *)

Lemma concat_mapM_in {A B} (f : A -> res (list B)) (l : list A) (r : list B) (x : A) :
  concat_mapM f l = Ok r -> In x l -> exists a, f x = Ok a /\ incl a r.
Proof.
  revert r; induction l as [|y l IH]; intros r H Hin; [destruct Hin|].
  cbn [concat_mapM] in H. destruct (f y) as [a|] eqn:Hf; cbn [bind] in H; [|discriminate].
  destruct (concat_mapM f l) as [b|] eqn:Hc; cbn [bind] in H; [|discriminate].
  inversion H; subst. destruct Hin as [->|Hin].
  - exists a; split; [assumption|]. intros z Hz; apply in_or_app; left; exact Hz.
  - destruct (IH b eq_refl Hin) as (a' & Ha & Hi). exists a'; split; [assumption|].
    intros z Hz; apply in_or_app; right; apply Hi; exact Hz.
Qed.

Lemma concat_mapM_errors {A} (f g : A -> res (list issue)) (l : list A) :
  (forall x, In x l -> g x = errors_of (f x)) -> concat_mapM g l = errors_of (concat_mapM f l).
Proof.
  induction l as [|y l IH]; intros H; [reflexivity|].
  cbn [concat_mapM]. rewrite (H y (or_introl eq_refl)).
  rewrite IH by (intros x Hx; apply H; right; exact Hx).
  destruct (f y) as [a|]; cbn [bind errors_of]; [|reflexivity].
  destruct (concat_mapM f l) as [b|]; cbn [bind errors_of]; [|reflexivity].
  now rewrite filter_app.
Qed.

Lemma filter_flat_map {A B} (p : B -> bool) (f : A -> list B) (l : list A) :
  filter p (flat_map f l) = flat_map (fun x => filter p (f x)) l.
Proof. induction l as [|x l IH]; cbn; [reflexivity|]. now rewrite filter_app, IH. Qed.

Lemma flat_map_ext_in {A B} (f g : A -> list B) (l : list A) :
  (forall x, In x l -> f x = g x) -> flat_map f l = flat_map g l.
Proof.
  induction l as [|x l IH]; intros H; cbn; [reflexivity|].
  rewrite (H x (or_introl eq_refl)), IH; [reflexivity|]. intros y Hy; apply H; right; exact Hy.
Qed.

Lemma dict_get_in {V} (k : str) (v : V) (d : list (str * V)) :
  dict_get k d = Some v -> In (k, v) d.
Proof.
  induction d as [|[k' v'] d IH]; cbn; [discriminate|].
  destruct (str_eqb k k') eqn:E; intros H.
  - apply str_eqb_spec in E; subst. inversion H; subst. left; reflexivity.
  - right; apply IH; exact H.
Qed.

Lemma in_all_sections (s : section) : In s all_sections.
Proof. destruct s; cbn; tauto. Qed.

Lemma mem_str_true_iff (x : str) (l : list str) : mem_str x l = true <-> In x l.
Proof.
  induction l as [|y l IH]; cbn; [split; [discriminate|tauto]|].
  rewrite orb_true_iff, IH, str_eqb_spec. split; intros [H|H]; auto.
Qed.

Lemma mem_str_false_iff (x : str) (l : list str) : mem_str x l = false <-> ~ In x l.
Proof.
  rewrite <- mem_str_true_iff. destruct (mem_str x l); split; intros H; try reflexivity; try discriminate.
  exfalso; apply H; reflexivity.
Qed.

(* ------------------------------------------------------------------ warnings off = the errors *)

Lemma is_error_ctx (i : issue) sec tag attr :
  is_error (mkIssue (i_kind i) (i_sev i) sec tag attr) = is_error i.
Proof. reflexivity. Qed.

Lemma acf_off sec tag attr (l : list issue) :
  add_context_and_filter false sec tag attr l
  = filter is_error (add_context_and_filter true sec tag attr l).
Proof.
  unfold add_context_and_filter. induction l as [|i l IH]; [reflexivity|].
  cbn [filter map]. rewrite is_error_ctx. destruct (is_error i); cbn [map]; rewrite IH; reflexivity.
Qed.

Lemma run_validators_off fx E I L e a vs :
  run_validators fx E I false L e a vs = errors_of (run_validators fx E I true L e a vs).
Proof.
  unfold run_validators. apply concat_mapM_errors. intros v _.
  destruct (run_validator fx E I L v e a) as [ks|]; cbn [bind errors_of]; [|reflexivity].
  now rewrite acf_off.
Qed.

Lemma check_unknown_off e :
  check_unknown_attributes false e = filter is_error (check_unknown_attributes true e).
Proof.
  unfold check_unknown_attributes. rewrite filter_flat_map. apply flat_map_ext_in.
  intros x _. apply acf_off.
Qed.

Lemma check_entry_off fx E I L e :
  check_tag_entry_attributes fx E I false L e = errors_of (check_tag_entry_attributes fx E I true L e).
Proof.
  unfold check_tag_entry_attributes.
  rewrite (concat_mapM_errors (fun kv => if skip_attribute fx e (fst kv) then Ok []
                                         else run_validators fx E I true L e (fst kv) (get_validators L (fst kv))))
    by (intros x _; destruct (skip_attribute fx e (fst x)); [reflexivity|apply run_validators_off]).
  destruct (concat_mapM _ (le_attrs e)) as [r|]; cbn [bind errors_of]; [|reflexivity].
  now rewrite filter_app, check_unknown_off.
Qed.

Lemma check_attributes_off fx E I L :
  check_attributes fx E I false L = errors_of (check_attributes fx E I true L).
Proof.
  unfold check_attributes. apply concat_mapM_errors. intros sec _.
  apply concat_mapM_errors. intros e _. apply check_entry_off.
Qed.

Lemma check_duplicate_off L :
  check_duplicate_names false L = filter is_error (check_duplicate_names true L).
Proof.
  unfold check_duplicate_names. rewrite filter_flat_map. apply flat_map_ext_in. intros sd _.
  rewrite filter_flat_map. apply flat_map_ext_in. intros nd _. apply acf_off.
Qed.

Lemma prerelease_off E L :
  check_if_prerelease_version E false L = errors_of (check_if_prerelease_version E true L).
Proof.
  unfold check_if_prerelease_version.
  match goal with |- bind ?x _ = errors_of (bind ?x _) => destruct x as [i1|] end;
    cbn [bind errors_of]; [|reflexivity].
  match goal with |- bind ?x _ = errors_of (bind ?x _) => destruct x as [i2|] end;
    cbn [bind errors_of]; [|reflexivity].
  now rewrite acf_off.
Qed.

Lemma check_loaded_off fx E L :
  check_loaded fx E false L = errors_of (check_loaded fx E true L).
Proof.
  unfold check_loaded.
  destruct (id_validator_init E L) as [I|]; cbn [bind errors_of]; [|reflexivity].
  rewrite prerelease_off.
  destruct (check_if_prerelease_version E true L) as [pre|]; cbn [bind errors_of]; [|reflexivity].
  rewrite check_attributes_off.
  destruct (check_attributes fx E I true L) as [at_|]; cbn [bind errors_of]; [|reflexivity].
  now rewrite !filter_app, check_duplicate_off.
Qed.

Lemma check_compliance_off fx E S :
  check_compliance fx E false S = errors_of (check_compliance fx E true S).
Proof.
  unfold check_compliance. destruct (load E S) as [L|]; cbn [bind errors_of]; [|reflexivity].
  apply check_loaded_off.
Qed.

(* with warnings off, everything that is returned is an error *)
Lemma check_compliance_off_all_errors fx E S l :
  check_compliance fx E false S = Ok l -> Forall (fun i => is_error i = true) l.
Proof.
  rewrite check_compliance_off. destruct (check_compliance fx E true S) as [l'|]; cbn [errors_of]; [|discriminate].
  intros H; inversion H; subst. apply Forall_forall. intros i Hi. apply filter_In in Hi. tauto.
Qed.

(* ------------------------------------------------------------------ a finding of a rule reaches the result *)

Lemma validator_issue_reported fx E L issues sec e a val v k :
  check_loaded fx E true L = Ok issues ->
  In e (section_values L sec) ->
  dict_get a (le_attrs e) = Some val ->
  skip_attribute fx e a = false ->
  In v (get_validators L a) ->
  (forall I ks, id_validator_init E L = Ok I -> run_validator fx E I L v e a = Ok ks -> In k ks) ->
  In (mkIssue k SevWarning (Some (le_sec e)) (Some (le_name e)) (Some a)) issues.
Proof.
  intros Hc He Ha Hsk Hv Hk. unfold check_loaded in Hc.
  destruct (id_validator_init E L) as [I|] eqn:HI; cbn [bind] in Hc; [|discriminate].
  destruct (check_if_prerelease_version E true L) as [pre|]; cbn [bind] in Hc; [|discriminate].
  destruct (check_attributes fx E I true L) as [at_|] eqn:Hat; cbn [bind] in Hc; [|discriminate].
  inversion Hc; subst issues. apply in_or_app; right; apply in_or_app; left.
  unfold check_attributes in Hat.
  destruct (concat_mapM_in _ _ _ sec Hat (in_all_sections sec)) as (a1 & H1 & I1).
  destruct (concat_mapM_in _ _ _ e H1 He) as (a2 & H2 & I2).
  apply I1, I2. unfold check_tag_entry_attributes in H2.
  destruct (concat_mapM _ (le_attrs e)) as [r|] eqn:Hr; cbn [bind] in H2; [|discriminate].
  inversion H2; subst a2. apply in_or_app; right.
  destruct (concat_mapM_in _ _ _ (a, val) Hr (dict_get_in _ _ _ Ha)) as (a3 & H3 & I3).
  apply I3. cbn [fst] in H3. rewrite Hsk in H3. unfold run_validators in H3.
  destruct (concat_mapM_in _ _ _ v H3 Hv) as (a4 & H4 & I4).
  apply I4. destruct (run_validator fx E I L v e a) as [ks|] eqn:Hrv; cbn [bind] in H4; [|discriminate].
  inversion H4; subst a4. unfold add_context_and_filter.
  apply in_map_iff. exists (mkIssue k SevWarning None None None). split; [reflexivity|].
  apply in_map_iff. exists k. split; [reflexivity|]. exact (Hk I ks eq_refl Hrv).
Qed.

Lemma reported_code fx E L issues sec e a val v k :
  check_loaded fx E true L = Ok issues ->
  In e (section_values L sec) ->
  dict_get a (le_attrs e) = Some val ->
  skip_attribute fx e a = false ->
  In v (get_validators L a) ->
  (forall I ks, id_validator_init E L = Ok I -> run_validator fx E I L v e a = Ok ks -> In k ks) ->
  exists i, In i issues /\ i_code i = kind_code k /\ i_sev i = SevWarning
            /\ i_sec i = Some (le_sec e) /\ i_tag i = Some (le_name e) /\ i_attr i = Some a.
Proof.
  intros. eexists. split; [eapply validator_issue_reported; eassumption|]. cbn. repeat split.
Qed.

(* an undeclared attribute is reported as an error, whatever the warning switch *)
Lemma unknown_attribute_reported fx E warn L issues sec e a :
  check_loaded fx E warn L = Ok issues ->
  In e (section_values L sec) ->
  In a (le_unknown e) ->
  In (mkIssue K_SCHEMA_ATTRIBUTE_INVALID SevError (Some (le_sec e)) (Some (le_name e)) None) issues.
Proof.
  intros Hc He Ha. unfold check_loaded in Hc.
  destruct (id_validator_init E L) as [I|]; cbn [bind] in Hc; [|discriminate].
  destruct (check_if_prerelease_version E warn L) as [pre|]; cbn [bind] in Hc; [|discriminate].
  destruct (check_attributes fx E I warn L) as [at_|] eqn:Hat; cbn [bind] in Hc; [|discriminate].
  inversion Hc; subst issues. apply in_or_app; right; apply in_or_app; left.
  unfold check_attributes in Hat.
  destruct (concat_mapM_in _ _ _ sec Hat (in_all_sections sec)) as (a1 & H1 & I1).
  destruct (concat_mapM_in _ _ _ e H1 He) as (a2 & H2 & I2).
  apply I1, I2. unfold check_tag_entry_attributes in H2.
  destruct (concat_mapM _ (le_attrs e)) as [r|] eqn:Hr; cbn [bind] in H2; [|discriminate].
  inversion H2; subst a2. apply in_or_app; left.
  unfold check_unknown_attributes. apply in_flat_map. exists a. split; [exact Ha|].
  unfold add_context_and_filter, format_error. destruct warn; cbn; left; reflexivity.
Qed.

(* a recorded duplicate is reported as an error, whatever the warning switch *)
Definition dup_kind (ents : list (str * bool)) : kind :=
  if existsb (fun b => b) (map snd ents) && existsb negb (map snd ents)
  then K_SCHEMA_DUPLICATE_FROM_LIBRARY else K_SCHEMA_DUPLICATE_NODE.

Lemma in_dups_reordered (L : lschema) sd :
  In sd (l_dups L) ->
  In sd (fold_right (fun sec acc => match filter (fun sd => section_eqb (fst sd) sec) (l_dups L) with
                                   | [] => acc
                                   | l => l ++ acc
                                   end) [] all_sections).
Proof.
  intros Hin.
  assert (G : forall secs, In (fst sd) secs ->
              In sd (fold_right (fun sec acc => match filter (fun sd => section_eqb (fst sd) sec) (l_dups L) with
                                               | [] => acc
                                               | l => l ++ acc
                                               end) [] secs)).
  { induction secs as [|s secs IH]; intros Hs; [destruct Hs|]. cbn [fold_right].
    destruct Hs as [Hs|Hs].
    - assert (Hf : In sd (filter (fun sd0 => section_eqb (fst sd0) s) (l_dups L))).
      { apply filter_In. split; [exact Hin|]. subst s. destruct (fst sd); reflexivity. }
      destruct (filter (fun sd0 => section_eqb (fst sd0) s) (l_dups L)) as [|x xs]; [destruct Hf|].
      apply in_or_app; left; exact Hf.
    - specialize (IH Hs).
      destruct (filter (fun sd0 => section_eqb (fst sd0) s) (l_dups L)) as [|x xs]; [exact IH|].
      apply in_or_app; right; exact IH. }
  apply G, in_all_sections.
Qed.

Lemma duplicate_reported fx E warn L issues sec d name ents :
  check_loaded fx E warn L = Ok issues ->
  In (sec, d) (l_dups L) -> In (name, ents) d ->
  In (mkIssue (dup_kind ents) SevError None None None) issues.
Proof.
  intros Hc Hd Hn. unfold check_loaded in Hc.
  destruct (id_validator_init E L) as [I|]; cbn [bind] in Hc; [|discriminate].
  destruct (check_if_prerelease_version E warn L) as [pre|]; cbn [bind] in Hc; [|discriminate].
  destruct (check_attributes fx E I warn L) as [at_|]; cbn [bind] in Hc; [|discriminate].
  inversion Hc; subst issues. apply in_or_app; right; apply in_or_app; right.
  unfold check_duplicate_names. apply in_flat_map. exists (sec, d). split; [apply in_dups_reordered; exact Hd|].
  apply in_flat_map. exists (name, ents). split; [exact Hn|].
  cbn [snd fst]. fold (dup_kind ents).
  unfold add_context_and_filter, format_error, dup_kind.
  destruct (existsb (fun b => b) (map snd ents) && existsb negb (map snd ents)); destruct warn; cbn; left; reflexivity.
Qed.

Lemma dup_kind_uniform ents :
  (forall x y, In x ents -> In y ents -> snd x = snd y) -> dup_kind ents = K_SCHEMA_DUPLICATE_NODE.
Proof.
  intros H. unfold dup_kind.
  destruct (existsb (fun b => b) (map snd ents)) eqn:E1; [|reflexivity].
  destruct (existsb negb (map snd ents)) eqn:E2; [|reflexivity]. exfalso.
  apply existsb_exists in E1 as (b1 & Hb1 & T1). apply existsb_exists in E2 as (b2 & Hb2 & T2).
  apply in_map_iff in Hb1 as (x & Hx & Hxi). apply in_map_iff in Hb2 as (y & Hy & Hyi).
  specialize (H x y Hxi Hyi). rewrite Hx, Hy in H. cbn in T1. rewrite <- H, T1 in T2. discriminate.
Qed.

(* ------------------------------------------------------------------ which validators run (translated tables) *)

Lemma table_new_in a v : In v (table_get a validators_new) -> forall L, l_is83 L = true -> In v (get_validators L a).
Proof. intros H L E. unfold get_validators. rewrite E. apply in_or_app; left; exact H. Qed.

Lemma table_old_in a v : In v (table_get a validators_old) -> forall L, l_is83 L = false -> In v (get_validators L a).
Proof. intros H L E. unfold get_validators. rewrite E. apply in_or_app; left; exact H. Qed.

Lemma table_both_in a v :
  In v (table_get a validators_new) -> In v (table_get a validators_old) -> forall L, In v (get_validators L a).
Proof.
  intros H1 H2 L. destruct (l_is83 L) eqn:E; [apply table_new_in|apply table_old_in]; assumption.
Qed.

(* 8.3 rule set: the range properties of the attribute's own definition select validators *)
Lemma range_validator_in L a ae p pv v :
  l_is83 L = true -> lookup L SecAttributes a = Some ae ->
  In (p, pv) (le_attrs ae) -> In v (table_get p range_validators) ->
  In v (get_validators L a).
Proof.
  intros E Hl Hp Hv. unfold get_validators. rewrite E, Hl.
  apply in_or_app; right; apply in_or_app; right; apply in_or_app; right.
  unfold get_range_validators. apply in_flat_map. exists (p, pv). split; assumption.
Qed.

Lemma hed_id_validator_in L : l_is83 L = true -> In V_verify_tag_id (get_validators L HedKey_HedID).
Proof.
  intros E. unfold get_validators. rewrite E.
  apply in_or_app; right; apply in_or_app; right; apply in_or_app; left. left; reflexivity.
Qed.

(* ------------------------------------------------------------------ the rules, one by one: sound and complete *)

(* in_library_check *)
Lemma in_library_check_spec L e a :
  exists ks, in_library_check L e a = Ok ks /\
  (In K_SCHEMA_IN_LIBRARY_INVALID ks <->
   match dict_get a (le_attrs e) with
   | Some (VStr s) => ~ In s (split_comma (l_library L))
   | Some VFlag => True
   | None => ~ In [] (split_comma (l_library L))
   end).
Proof.
  unfold in_library_check. eexists; split; [reflexivity|].
  destruct (dict_get a (le_attrs e)) as [[|s]|].
  - cbn; tauto.
  - destruct (mem_str s _) eqn:M.
    + apply mem_str_true_iff in M. cbn; tauto.
    + apply mem_str_false_iff in M. cbn; tauto.
  - destruct (mem_str [] _) eqn:M.
    + apply mem_str_true_iff in M. cbn; tauto.
    + apply mem_str_false_iff in M. cbn; tauto.
Qed.

(* conversion_factor: reported iff the value is not a float text or its float is <= 0.0 *)
Definition bad_conversion_factor (v : aval) : Prop :=
  match v with
  | VFlag => True
  | VStr s => match parse_float (replace_caret s) with
              | None => True
              | Some x => float_le_zero x = true
              end
  end.

Lemma conversion_factor_spec L e a :
  exists ks, conversion_factor L e a = Ok ks /\
  (In K_SCHEMA_CONVERSION_FACTOR_NOT_POSITIVE ks <->
   exists v, dict_get a (le_attrs e) = Some v /\ bad_conversion_factor v).
Proof.
  unfold conversion_factor, bad_conversion_factor.
  destruct (dict_get a (le_attrs e)) as [[|s]|].
  - eexists; split; [reflexivity|]. split; [intros _; exists VFlag; tauto|cbn; tauto].
  - destruct (parse_float (replace_caret s)) as [x|] eqn:P.
    + destruct (float_le_zero x) eqn:Z; eexists; (split; [reflexivity|]).
      * split; [intros _; exists (VStr s); rewrite P; tauto|cbn; tauto].
      * split; [cbn; tauto|]. intros (v & Hv & B). inversion Hv; subst. rewrite P in B. congruence.
    + eexists; split; [reflexivity|]. split; [intros _; exists (VStr s); rewrite P; tauto|cbn; tauto].
  - eexists; split; [reflexivity|]. split; [cbn; tauto|]. intros (v & Hv & _); discriminate.
Qed.

(* allowed_characters_check *)
Lemma allowed_characters_spec L e a s :
  dict_get a (le_attrs e) = Some (VStr s) ->
  exists ks, allowed_characters_check L e a = Ok ks /\
  (In K_SCHEMA_ALLOWED_CHARACTERS_INVALID ks <->
   exists c, In c (split_comma s) /\ ~ In c character_type_names /\ length c <> 1%nat).
Proof.
  intros H. unfold allowed_characters_check. rewrite H. eexists; split; [reflexivity|].
  rewrite in_flat_map. split.
  - intros (c & Hc & Hin). exists c. split; [exact Hc|].
    destruct (mem_str c character_type_names) eqn:M; cbn in Hin; [destruct Hin|].
    destruct (Nat.eqb (length c) 1) eqn:N; cbn in Hin; [destruct Hin|].
    apply mem_str_false_iff in M. apply Nat.eqb_neq in N. tauto.
  - intros (c & Hc & Hn & Hl). exists c. split; [exact Hc|].
    apply mem_str_false_iff in Hn. apply Nat.eqb_neq in Hl. rewrite Hn, Hl. cbn. left; reflexivity.
Qed.

(* tag_is_placeholder_check: class attributes on a node that is not a '#' placeholder *)
Lemma placeholder_spec L e a :
  le_sec e = SecTags ->
  exists ks, tag_is_placeholder_check L e a = Ok ks /\
  (In K_SCHEMA_NON_PLACEHOLDER_HAS_CLASS ks <-> ends_with slash_hash (le_name e) = false).
Proof.
  intros Hs. unfold tag_is_placeholder_check. rewrite Hs. eexists; split; [reflexivity|].
  destruct (ends_with slash_hash (le_name e)).
  - split; [|discriminate]. intros H. cbn [app] in H. apply in_app_or in H. destruct H as [H|H].
    + destruct (le_parent e); [|destruct H].
      match type of H with In _ (match ?x with [] => _ | _ => _ end) => destruct x end; cbn in H; [tauto|].
      destruct H as [H|[]]; discriminate.
    + destruct (index_of_tag (le_name e) (l_tags L) 0); [|destruct H].
      match type of H with In _ (match ?x with [] => _ | _ => _ end) => destruct x end; cbn in H; [tauto|].
      destruct H as [H|[]]; discriminate.
  - split; [reflexivity|]. intros _. left; reflexivity.
Qed.

(* item_exists_check: an item that names no entry of the target section *)
Lemma item_exists_spec sec L e a s ks :
  (sec = SecTags \/ sec = SecUnitClasses \/ sec = SecValueClasses) ->
  dict_get a (le_attrs e) = Some (VStr s) ->
  item_exists_check sec L e a = Ok ks ->
  (In K_SCHEMA_GENERIC_ATTRIBUTE_VALUE_INVALID ks <->
   exists item, In item (split_comma s) /\ item <> [] /\ lookup L sec item = None).
Proof.
  intros Hsec Hd. unfold item_exists_check. rewrite Hd.
  generalize (split_comma s) as items. intros items; revert ks.
  induction items as [|it items IH]; intros ks H.
  - cbn in H. inversion H; subst. split; [intros []|]. intros (item & [] & _).
  - cbn [concat_mapM] in H.
    match type of H with bind ?x _ = _ => destruct x as [k1|] eqn:H1 end; cbn [bind] in H; [|discriminate].
    match type of H with bind ?x _ = _ => destruct x as [k2|] eqn:H2 end; cbn [bind] in H; [|discriminate].
    inversion H; subst ks. specialize (IH k2 eq_refl).
    rewrite in_app_iff, IH. split.
    + intros [Hin|(item & Hi & Hne & Hl)].
      * exists it. split; [left; reflexivity|].
        destruct it as [|c it']; [inversion H1; subst; destruct Hin|]. split; [discriminate|].
        destruct Hsec as [->|[->| ->]];
          (destruct (lookup L _ (c :: it')) as [ie|]; [|reflexivity];
           destruct (has_attr ie HedKey_DeprecatedFrom && negb (has_attr e HedKey_DeprecatedFrom));
           inversion H1; subst; cbn in Hin; exfalso; intuition discriminate).
      * exists item. split; [right; exact Hi|]. tauto.
    + intros (item & [<-|Hi] & Hne & Hl).
      * left. destruct it as [|c it']; [congruence|].
        destruct Hsec as [->|[->| ->]]; rewrite Hl in H1; inversion H1; subst; left; reflexivity.
      * right. exists item. tauto.
Qed.

(* unit_exists: default units that are not a unit of the class *)
Lemma unit_exists_spec L e a u :
  le_sec e = SecUnitClasses -> dict_get a (le_attrs e) = Some (VStr u) ->
  exists ks, unit_exists L e a = Ok ks /\
  (In K_SCHEMA_DEFAULT_UNITS_INVALID ks <-> u <> [] /\ get_derivative_unit_entry L e u = None).
Proof.
  intros Hs Hd. unfold unit_exists. rewrite Hs, Hd.
  destruct (get_derivative_unit_entry L e u) as [ue|].
  - destruct (has_attr ue HedKey_DeprecatedFrom && negb (has_attr e HedKey_DeprecatedFrom));
      eexists; (split; [reflexivity|]); (split; [intros H; cbn in H; exfalso; intuition discriminate|intros [_ H]; discriminate]).
  - destruct u as [|c u']; eexists; (split; [reflexivity|]).
    + split; [intros []|intros [H _]; congruence].
    + split; [intros _; split; [discriminate|reflexivity]|intros _; left; reflexivity].
Qed.

(* tag_is_deprecated_check: the deprecatedFrom value is unknown, or not older than the schema *)
Lemma deprecated_unknown_fires fx E L e a s ks :
  dict_get a (le_attrs e) = Some (VStr s) ->
  ~ In s (versions_for E (entry_library fx L e)) ->
  tag_is_deprecated_check fx E L e a = Ok ks -> In K_SCHEMA_DEPRECATED_INVALID ks.
Proof.
  intros Hd Hn. unfold tag_is_deprecated_check. rewrite Hd.
  cbv zeta.
  apply mem_str_false_iff in Hn. rewrite Hn. cbn [negb bind]. intros H. inversion H; subst.
  left; reflexivity.
Qed.

Lemma deprecated_not_older_fires fx E L e a s lv v1 v2 ks :
  dict_get a (le_attrs e) = Some (VStr s) ->
  schema_version_for_library L (entry_library fx L e) = Some lv -> lv <> [] ->
  parse_version lv = Ok v1 -> parse_version s = Ok v2 -> version_leb v1 v2 = true ->
  tag_is_deprecated_check fx E L e a = Ok ks -> In K_SCHEMA_DEPRECATED_INVALID ks.
Proof.
  intros Hd Hl Hne P1 P2 Hle. unfold tag_is_deprecated_check. rewrite Hd.
  cbv zeta.
  destruct (negb (mem_str s (versions_for E (entry_library fx L e)))).
  - cbn [bind]. intros H; inversion H; subst. left; reflexivity.
  - rewrite Hl. destruct lv as [|c lv']; [congruence|]. rewrite P1, P2. cbn [bind]. rewrite Hle. cbn [bind].
    intros H; inversion H; subst. left; reflexivity.
Qed.

(* the rule is silent about the value when the version is known and older *)
Lemma deprecated_ok_silent fx E L e a s lv v1 v2 ks :
  dict_get a (le_attrs e) = Some (VStr s) ->
  In s (versions_for E (entry_library fx L e)) ->
  schema_version_for_library L (entry_library fx L e) = Some lv -> lv <> [] ->
  parse_version lv = Ok v1 -> parse_version s = Ok v2 -> version_leb v1 v2 = false ->
  tag_is_deprecated_check fx E L e a = Ok ks -> ~ In K_SCHEMA_DEPRECATED_INVALID ks.
Proof.
  intros Hd Hin Hl Hne P1 P2 Hle. unfold tag_is_deprecated_check. rewrite Hd.
  cbv zeta.
  apply mem_str_true_iff in Hin. rewrite Hin. cbn [negb].
  rewrite Hl. destruct lv as [|c lv']; [congruence|]. rewrite P1, P2. cbn [bind]. rewrite Hle. cbn [bind].
  intros H; inversion H; subst. cbn [app]. intros Hk.
  destruct (children_entries L e) as [cs|]; [|destruct Hk].
  apply in_flat_map in Hk as (c0 & _ & Hc0). destruct (has_attr c0 a); [destruct Hc0|].
  destruct Hc0 as [Hc0|[]]; discriminate.
Qed.

(* verify_tag_id: out of the library's range *)
Lemma hed_id_range_fires fx I L e a s nid k lo hi ks :
  dict_get a (le_attrs e) = Some (VStr s) ->
  parse_int (remove_prefix s hed_prefix) = Some nid ->
  tag_library_key fx e = Some k -> dict_get k (id_data I) = Some (lo, hi) ->
  (nid < lo \/ hi < nid)%Z ->
  verify_tag_id fx I L e a = Ok ks -> In K_SCHEMA_HED_ID_INVALID ks.
Proof.
  intros Hd Hp Hk Hr Hout. unfold verify_tag_id. cbv zeta. rewrite Hk.
  match goal with |- bind ?x _ = _ -> _ => destruct x as [old|] end; cbn [bind]; [|discriminate].
  rewrite Hd, Hp, Hr. intros H; inversion H; subst. apply in_or_app; right.
  assert (Hb : ((nid <? lo)%Z || (hi <? nid)%Z) = true).
  { apply orb_true_iff. destruct Hout; [left|right]; apply Z.ltb_lt; assumption. }
  rewrite Hb. left; reflexivity.
Qed.

Lemma hed_id_not_a_number_fires fx I L e a s ks :
  dict_get a (le_attrs e) = Some (VStr s) ->
  parse_int (remove_prefix s hed_prefix) = None ->
  verify_tag_id fx I L e a = Ok ks -> In K_SCHEMA_HED_ID_INVALID ks.
Proof.
  intros Hd Hp. unfold verify_tag_id. cbv zeta.
  match goal with |- bind ?x _ = _ -> _ => destruct x as [old|] end; cbn [bind]; [|discriminate].
  rewrite Hd, Hp. intros H; inversion H; subst. left; reflexivity.
Qed.

(* a changed hedId: the previous version records a different (non-zero) number for the entry *)
Lemma hed_id_changed_fires fx I L e a s nid k Lp oe os oid ks :
  dict_get a (le_attrs e) = Some (VStr s) ->
  parse_int (remove_prefix s hed_prefix) = Some nid ->
  tag_library_key fx e = Some k -> dict_get k (id_prev I) = Some Lp ->
  lookup Lp (le_sec e) (le_name e) = Some oe ->
  dict_get HedKey_HedID (le_attrs oe) = Some (VStr os) ->
  parse_int (remove_prefix os hed_prefix) = Some oid -> oid <> 0%Z -> oid <> nid ->
  verify_tag_id fx I L e a = Ok ks -> In K_SCHEMA_HED_ID_INVALID ks.
Proof.
  intros Hd Hp Hk Hprev Hl Ho Hop Hz Hne. unfold verify_tag_id. cbv zeta.
  rewrite Hk, Hprev, Hl, Ho, Hop. cbn [bind]. rewrite Hd, Hp.
  intros H; inversion H; subst. apply in_or_app; left.
  apply Z.eqb_neq in Hz. apply Z.eqb_neq in Hne. rewrite Hz, Hne. left; reflexivity.
Qed.

(* ------------------------------------------------------------------ library id ranges of the validator *)

Lemma str_eqb_refl (a : str) : str_eqb a a = true.
Proof. apply str_eqb_spec; reflexivity. Qed.

Lemma str_eqb_false_neq (a b : str) : str_eqb a b = false <-> a <> b.
Proof.
  split.
  - intros H Heq. subst. rewrite str_eqb_refl in H. discriminate.
  - intros H. destruct (str_eqb a b) eqn:E; [|reflexivity]. apply str_eqb_spec in E. contradiction.
Qed.

Lemma dict_get_set_same {V} (k : str) (v : V) (d : list (str * V)) : dict_get k (dict_set k v d) = Some v.
Proof.
  induction d as [|[k' v'] d IH]; cbn.
  - now rewrite str_eqb_refl.
  - destruct (str_eqb k k') eqn:E; cbn; rewrite E; [reflexivity|exact IH].
Qed.

Lemma dict_get_set_other {V} (k k0 : str) (v : V) (d : list (str * V)) :
  k <> k0 -> dict_get k (dict_set k0 v d) = dict_get k d.
Proof.
  intros Hne. induction d as [|[k' v'] d IH]; cbn.
  - apply str_eqb_false_neq in Hne. now rewrite Hne.
  - destruct (str_eqb k0 k') eqn:E; cbn.
    + apply str_eqb_spec in E; subst k'. apply str_eqb_false_neq in Hne. now rewrite Hne.
    + destruct (str_eqb k k'); [reflexivity|exact IH].
Qed.

Lemma add_range_get E k lib r ld :
  dict_get k (env_ranges E) = Some r ->
  (k = lib \/ dict_get k ld = Some r) -> dict_get k (add_range E lib ld) = Some r.
Proof.
  intros Hr H. unfold add_range. destruct (str_eqb k lib) eqn:Ek.
  - apply str_eqb_spec in Ek; subst lib. rewrite Hr. apply dict_get_set_same.
  - apply str_eqb_false_neq in Ek. destruct H as [H|H]; [contradiction|].
    destruct (dict_get lib (env_ranges E)); [rewrite dict_get_set_other by exact Ek|]; exact H.
Qed.

Lemma fold_id_step_exn E l e : fold_left (id_step E) l (Exn e) = Exn e.
Proof. induction l as [|x l IH]; [reflexivity|]. cbn. exact IH. Qed.

Lemma fold_id_step_ranges E l pv0 ld0 pv ld k r :
  fold_left (id_step E) l (Ok (pv0, ld0)) = Ok (pv, ld) ->
  dict_get k (env_ranges E) = Some r ->
  (In k (map snd l) \/ dict_get k ld0 = Some r) -> dict_get k ld = Some r.
Proof.
  revert pv0 ld0. induction l as [|[ver lib] l IH]; intros pv0 ld0 H Hr Hin.
  - cbn in H. inversion H; subst. destruct Hin as [[]|Hin]; exact Hin.
  - cbn [fold_left] in H. unfold id_step at 2 in H. cbn [bind fst snd] in H.
    destruct (get_previous_version E ver lib) as [p|e]; cbn [bind] in H;
      [|rewrite fold_id_step_exn in H; discriminate].
    eapply IH; [exact H|exact Hr|].
    destruct Hin as [[Hk|Hk]|Hk].
    + right. apply add_range_get; [exact Hr|left; symmetry; exact Hk].
    + left; exact Hk.
    + destruct (str_eqb k lib) eqn:Ek.
      * right. apply add_range_get; [exact Hr|left]. apply str_eqb_spec; exact Ek.
      * right. apply add_range_get; [exact Hr|right; exact Hk].
Qed.

(* the validator knows the id range of every library named in the schema header *)
Lemma id_data_of_init E L I k r :
  id_validator_init E L = Ok I ->
  In k (map snd (zip_str (split_comma (l_version L)) (split_comma (l_library L)))) ->
  dict_get k (env_ranges E) = Some r ->
  dict_get k (id_data I) = Some r.
Proof.
  intros H Hin Hr. unfold id_validator_init in H.
  destruct (fold_left (id_step E) _ (Ok ([], []))) as [[pv ld]|] eqn:Hf; cbn [bind] in H; [|discriminate].
  pose proof (fold_id_step_ranges _ _ _ _ _ _ _ _ Hf Hr (or_introl Hin)) as Hld.
  destruct (id_standard_step E L (pv, ld)) as [[pv2 ld2]|] eqn:Hs; cbn [bind] in H; [|discriminate].
  match type of H with bind ?x _ = _ => destruct x as [prev|] end; cbn [bind] in H; [|discriminate].
  inversion H; subst I. cbn [id_data snd].
  unfold id_standard_step in Hs. cbn [fst snd] in Hs.
  destruct (dict_get [] pv); [inversion Hs; subst; exact Hld|].
  destruct (l_with_standard L); [inversion Hs; subst; exact Hld|].
  destruct (get_previous_version E _ []); cbn [bind] in Hs; [|discriminate].
  inversion Hs; subst. apply add_range_get; [exact Hr|right; exact Hld].
Qed.

(* a schema with a single library name (every bundled schema): the header's library has its range *)
Lemma id_data_single_library E L I r :
  id_validator_init E L = Ok I ->
  split_comma (l_library L) = [l_library L] -> split_comma (l_version L) = [l_version L] ->
  dict_get (l_library L) (env_ranges E) = Some r ->
  dict_get (l_library L) (id_data I) = Some r.
Proof.
  intros H Hl Hv Hr. eapply id_data_of_init; [exact H| |exact Hr].
  rewrite Hl, Hv. cbn. left; reflexivity.
Qed.

(* ------------------------------------------------------------------ when the check does not raise *)

Lemma concat_mapM_total {A B} (f : A -> res (list B)) (l : list A) :
  (forall x, In x l -> exists a, f x = Ok a) -> exists r, concat_mapM f l = Ok r.
Proof.
  induction l as [|x l IH]; intros H; [exists []; reflexivity|].
  destruct (H x (or_introl eq_refl)) as (a & Ha).
  destruct IH as (b & Hb); [intros y Hy; apply H; right; exact Hy|].
  exists (a ++ b). cbn [concat_mapM]. rewrite Ha; cbn [bind]. rewrite Hb; reflexivity.
Qed.

(* the semantic versions the deprecation rule compares can be read *)
Definition versions_parse (fx : fixes) (E : env) (L : lschema) (e : lentry) (a : str) : Prop :=
  forall s lv, dict_get a (le_attrs e) = Some (VStr s) ->
               In s (versions_for E (entry_library fx L e)) ->
               schema_version_for_library L (entry_library fx L e) = Some lv -> lv <> [] ->
               (exists v1, parse_version lv = Ok v1) /\ (exists v2, parse_version s = Ok v2).

(* the previous version of the schema does not record a value-less hedId for the entry *)
Definition old_id_has_value (fx : fixes) (I : idenv) (e : lentry) : Prop :=
  forall k Lp oe, tag_library_key fx e = Some k -> dict_get k (id_prev I) = Some Lp ->
                  lookup Lp (le_sec e) (le_name e) = Some oe ->
                  dict_get HedKey_HedID (le_attrs oe) <> Some VFlag.

(* what each rule needs of the entry it is run on: its entry class and a string (not value-less) value *)
Definition applicable (fx : fixes) (E : env) (I : idenv) (L : lschema) (v : validator) (e : lentry) (a : str)
  : Prop :=
  match v with
  | V_tag_is_placeholder_check => le_sec e = SecTags
  | V_item_exists_check sec =>
      dict_get a (le_attrs e) <> Some VFlag /\ (sec = SecTags \/ sec = SecUnitClasses \/ sec = SecValueClasses)
  | V_tag_is_deprecated_check => versions_parse fx E L e a
  | V_unit_exists => le_sec e = SecUnitClasses /\ dict_get a (le_attrs e) <> Some VFlag
  | V_allowed_characters_check => dict_get a (le_attrs e) <> Some VFlag
  | V_verify_tag_id => dict_get a (le_attrs e) <> Some VFlag /\ old_id_has_value fx I e
  | V_tag_exists_base_schema_check => dict_get a (le_attrs e) = None
  | V_conversion_factor | V_in_library_check | V_attribute_is_deprecated | V_is_numeric_value => True
  end.

Lemma applicable_total fx E I L v e a :
  applicable fx E I L v e a -> exists ks, run_validator fx E I L v e a = Ok ks.
Proof.
  destruct v; cbn [applicable run_validator]; intros H.
  - unfold tag_is_placeholder_check. rewrite H. eexists; reflexivity.
  - destruct H as [Hv Hs]. unfold item_exists_check.
    destruct (dict_get a (le_attrs e)) as [[|s]|]; [congruence| |];
      (apply concat_mapM_total; intros item _; destruct item as [|c it]; [eexists; reflexivity|];
       destruct Hs as [->|[->| ->]];
       (destruct (lookup L _ (c :: it)) as [ie|]; [|eexists; reflexivity];
        destruct (has_attr ie HedKey_DeprecatedFrom && negb (has_attr e HedKey_DeprecatedFrom)); eexists; reflexivity)).
  - unfold tag_is_deprecated_check. cbv zeta.
    destruct (dict_get a (le_attrs e)) as [[|s]|] eqn:Hd; cbn [bind]; try (eexists; reflexivity).
    destruct (mem_str s (versions_for E (entry_library fx L e))) eqn:M; cbn [negb bind]; [|eexists; reflexivity].
    destruct (schema_version_for_library L (entry_library fx L e)) as [lv|] eqn:Hl; cbn [bind]; [|eexists; reflexivity].
    destruct lv as [|c lv']; cbn [bind]; [eexists; reflexivity|].
    apply mem_str_true_iff in M.
    destruct (H s (c :: lv') Hd M Hl ltac:(discriminate)) as ((v1 & P1) & (v2 & P2)).
    rewrite P1, P2; cbn [bind]. destruct (version_leb v1 v2); cbn [bind]; eexists; reflexivity.
  - destruct H as [Hs Hv]. unfold unit_exists. rewrite Hs.
    destruct (dict_get a (le_attrs e)) as [[|u]|]; [congruence| |eexists; reflexivity].
    destruct (get_derivative_unit_entry L e u) as [ue|].
    + destruct (has_attr ue HedKey_DeprecatedFrom && negb (has_attr e HedKey_DeprecatedFrom)); eexists; reflexivity.
    + destruct u; eexists; reflexivity.
  - destruct (conversion_factor_spec L e a) as (ks & Hk & _). exists ks; exact Hk.
  - unfold allowed_characters_check. destruct (dict_get a (le_attrs e)) as [[|s]|]; [congruence| |]; eexists; reflexivity.
  - destruct (in_library_check_spec L e a) as (ks & Hk & _). exists ks; exact Hk.
  - unfold attribute_is_deprecated. destruct (lookup L _ a) as [ae|]; [|eexists; reflexivity].
    destruct (has_attr ae HedKey_DeprecatedFrom && negb (has_attr e HedKey_DeprecatedFrom)); eexists; reflexivity.
  - unfold is_numeric_value. destruct (dict_get a (le_attrs e)) as [[|s]|]; [eexists; reflexivity| |];
      destruct (parse_float _); eexists; reflexivity.
  - destruct H as [Hv Ho]. unfold verify_tag_id. cbv zeta.
    assert (Hold : exists o, (match (match (match tag_library_key fx e with
                                           | Some k => dict_get k (id_prev I) | None => None end) with
                                    | Some Lp => match lookup Lp (le_sec e) (le_name e) with
                                                 | Some oe => dict_get HedKey_HedID (le_attrs oe)
                                                 | None => None end
                                    | None => None end) with
                             | None => Ok None
                             | Some VFlag => Exn AttributeError
                             | Some (VStr s) => match parse_int (remove_prefix s hed_prefix) with
                                                | Some z => Ok (Some (IdInt z))
                                                | None => Ok (Some IdRaw) end
                             end) = Ok o).
    { destruct (tag_library_key fx e) as [k|] eqn:Hk; [|eexists; reflexivity].
      destruct (dict_get k (id_prev I)) as [Lp|] eqn:Hp; [|eexists; reflexivity].
      destruct (lookup Lp (le_sec e) (le_name e)) as [oe|] eqn:Hl; [|eexists; reflexivity].
      specialize (Ho k Lp oe Hk Hp Hl).
      destruct (dict_get HedKey_HedID (le_attrs oe)) as [[|s]|]; [congruence| |eexists; reflexivity].
      destruct (parse_int _); eexists; reflexivity. }
    destruct Hold as (o & Hold). rewrite Hold. cbn [bind].
    destruct (dict_get a (le_attrs e)) as [[|s]|]; [congruence| |eexists; reflexivity].
    destruct (parse_int _); eexists; reflexivity.
  - unfold tag_exists_base_schema_check. rewrite H. eexists; reflexivity.
Qed.

(* every rule that is run meets an entry of the class and a value of the type it was written for *)
Definition well_valued (fx : fixes) (E : env) (I : idenv) (L : lschema) : Prop :=
  forall sec e a val v,
    In e (section_values L sec) -> In (a, val) (le_attrs e) -> skip_attribute fx e a = false ->
    In v (get_validators L a) -> applicable fx E I L v e a.

Lemma check_attributes_total fx E I warn L :
  well_valued fx E I L -> exists r, check_attributes fx E I warn L = Ok r.
Proof.
  intros W. unfold check_attributes. apply concat_mapM_total. intros sec _.
  apply concat_mapM_total. intros e He. unfold check_tag_entry_attributes.
  assert (T : exists r, concat_mapM (fun kv => if skip_attribute fx e (fst kv) then Ok []
                                                else run_validators fx E I warn L e (fst kv) (get_validators L (fst kv)))
                                     (le_attrs e) = Ok r).
  { apply concat_mapM_total. intros [a val] Hin. cbn [fst].
    destruct (skip_attribute fx e a) eqn:Hsk; [eexists; reflexivity|].
    unfold run_validators. apply concat_mapM_total. intros v Hv.
    destruct (applicable_total fx E I L v e a (W sec e a val v He Hin Hsk Hv)) as (ks & Hk).
    rewrite Hk. cbn [bind]. eexists; reflexivity. }
  destruct T as (r & Hr). rewrite Hr. cbn [bind]. eexists; reflexivity.
Qed.

Lemma check_loaded_total fx E L I pre :
  id_validator_init E L = Ok I -> check_if_prerelease_version E true L = Ok pre ->
  well_valued fx E I L -> exists issues, check_loaded fx E true L = Ok issues.
Proof.
  intros HI Hp W. unfold check_loaded. rewrite HI; cbn [bind]. rewrite Hp; cbn [bind].
  destruct (check_attributes_total fx E I true L W) as (r & Hr). rewrite Hr; cbn [bind]. eexists; reflexivity.
Qed.

(* ------------------------------------------------------------------ seeded faults are reported
   Each lemma: in ANY loaded schema L whose check does not raise, an entry e that the check visits
   (any section, any position) and that carries the fault is reported with the kind's code, at that
   entry and attribute.  [codes] is what the caller of check_compliance sees.  [skip_attribute fx e a
   = false]: the attribute is declared for the section (otherwise the fault IS the undeclared attribute). *)

Definition codes (l : list issue) : list str := map i_code l.

Lemma in_codes k sv sec tag attr issues :
  In (mkIssue k sv sec tag attr) issues -> In (kind_code k) (codes issues).
Proof. intros H. unfold codes. apply in_map_iff. eexists; split; [|exact H]. reflexivity. Qed.

Ltac in_tab := vm_compute; repeat ((left; reflexivity) || right).

(* 1. duplicated node name *)
Lemma seeded_duplicate fx E warn L issues sec d name ents :
  check_loaded fx E warn L = Ok issues ->
  In (sec, d) (l_dups L) -> In (name, ents) d ->
  (forall x y, In x ents -> In y ents -> snd x = snd y) ->
  In (kind_code K_SCHEMA_DUPLICATE_NODE) (codes (filter is_error issues)).
Proof.
  intros Hc Hd Hn Hu. pose proof (duplicate_reported _ _ _ _ _ _ _ _ _ Hc Hd Hn) as H.
  rewrite (dup_kind_uniform _ Hu) in H.
  apply (in_codes _ SevError None None None). apply filter_In. split; [exact H|reflexivity].
Qed.

(* 2. attribute that is not declared for the section *)
Lemma seeded_undeclared fx E warn L issues sec e a :
  check_loaded fx E warn L = Ok issues ->
  In e (section_values L sec) -> In a (le_unknown e) ->
  In (kind_code K_SCHEMA_ATTRIBUTE_INVALID) (codes (filter is_error issues)).
Proof.
  intros Hc He Ha. pose proof (unknown_attribute_reported _ _ _ _ _ _ _ _ Hc He Ha) as H.
  eapply in_codes. apply filter_In. split; [exact H|reflexivity].
Qed.

(* 3. unit class / value class / suggested or related tag that does not exist *)
Lemma item_validator_old_tag L a :
  l_is83 L = false -> a = HedKey_SuggestedTag \/ a = HedKey_RelatedTag ->
  In (V_item_exists_check SecTags) (get_validators L a).
Proof. intros E [-> | ->]; apply table_old_in; try exact E; in_tab. Qed.

Lemma item_validator_old_unit_class L :
  l_is83 L = false -> In (V_item_exists_check SecUnitClasses) (get_validators L HedKey_UnitClass).
Proof. intros E; apply table_old_in; try exact E; in_tab. Qed.

Lemma item_validator_old_value_class L :
  l_is83 L = false -> In (V_item_exists_check SecValueClasses) (get_validators L HedKey_ValueClass).
Proof. intros E; apply table_old_in; try exact E; in_tab. Qed.

(* 8.3 rule set: the attribute's definition carries tagRange / unitClassRange / valueClassRange *)
Lemma item_validator_new L a ae pv tsec p :
  l_is83 L = true -> lookup L SecAttributes a = Some ae -> In (p, pv) (le_attrs ae) ->
  (p = HedKey_TagRange /\ tsec = SecTags) \/ (p = HedKey_UnitClassRange /\ tsec = SecUnitClasses)
  \/ (p = HedKey_ValueClassRange /\ tsec = SecValueClasses) ->
  In (V_item_exists_check tsec) (get_validators L a).
Proof.
  intros E Hl Hp H. eapply range_validator_in; try eassumption.
  destruct H as [[-> ->]|[[-> ->]|[-> ->]]]; in_tab.
Qed.

Lemma seeded_unknown_item fx E L issues sec e a s tsec item :
  check_loaded fx E true L = Ok issues ->
  In e (section_values L sec) ->
  dict_get a (le_attrs e) = Some (VStr s) -> skip_attribute fx e a = false ->
  In (V_item_exists_check tsec) (get_validators L a) ->
  (tsec = SecTags \/ tsec = SecUnitClasses \/ tsec = SecValueClasses) ->
  In item (split_comma s) -> item <> [] -> lookup L tsec item = None ->
  In (kind_code K_SCHEMA_GENERIC_ATTRIBUTE_VALUE_INVALID) (codes issues).
Proof.
  intros Hc He Ha Hsk Hv Ht Hi Hne Hl. eapply in_codes.
  eapply validator_issue_reported; try eassumption.
  intros I ks _ Hr. cbn [run_validator] in Hr.
  apply (item_exists_spec _ _ _ _ _ _ Ht Ha Hr). exists item. tauto.
Qed.

(* 4. class attributes on a node that is not a '#' placeholder *)
Lemma seeded_class_on_non_placeholder fx E L issues sec e a val :
  check_loaded fx E true L = Ok issues ->
  In e (section_values L sec) -> le_sec e = SecTags ->
  dict_get a (le_attrs e) = Some val -> skip_attribute fx e a = false ->
  a = HedKey_UnitClass \/ a = HedKey_ValueClass \/ a = HedKey_TakesValue ->
  ends_with slash_hash (le_name e) = false ->
  In (kind_code K_SCHEMA_NON_PLACEHOLDER_HAS_CLASS) (codes issues).
Proof.
  intros Hc He Hs Ha Hsk Hk Hn. eapply in_codes.
  eapply (validator_issue_reported _ _ _ _ _ _ _ _ V_tag_is_placeholder_check); try eassumption.
  - destruct Hk as [-> |[-> | ->]]; apply table_both_in; in_tab.
  - intros I ks _ Hr. cbn [run_validator] in Hr.
    destruct (placeholder_spec L e a Hs) as (ks' & Hk' & Hiff). rewrite Hk' in Hr. inversion Hr; subst.
    apply Hiff. exact Hn.
Qed.

(* 5. deprecatedFrom: unknown version / not older than the schema *)
Lemma deprecated_validator_in L : In V_tag_is_deprecated_check (get_validators L HedKey_DeprecatedFrom).
Proof. apply table_both_in; in_tab. Qed.

Lemma seeded_deprecated_unknown fx E L issues sec e s :
  check_loaded fx E true L = Ok issues ->
  In e (section_values L sec) ->
  dict_get HedKey_DeprecatedFrom (le_attrs e) = Some (VStr s) ->
  skip_attribute fx e HedKey_DeprecatedFrom = false ->
  ~ In s (versions_for E (entry_library fx L e)) ->
  In (kind_code K_SCHEMA_DEPRECATED_INVALID) (codes issues).
Proof.
  intros Hc He Ha Hsk Hn. eapply in_codes.
  eapply (validator_issue_reported _ _ _ _ _ _ _ _ V_tag_is_deprecated_check); try eassumption.
  - apply deprecated_validator_in.
  - intros I ks _ Hr. cbn [run_validator] in Hr. eapply deprecated_unknown_fires; eassumption.
Qed.

Lemma seeded_deprecated_not_older fx E L issues sec e s lv v1 v2 :
  check_loaded fx E true L = Ok issues ->
  In e (section_values L sec) ->
  dict_get HedKey_DeprecatedFrom (le_attrs e) = Some (VStr s) ->
  skip_attribute fx e HedKey_DeprecatedFrom = false ->
  schema_version_for_library L (entry_library fx L e) = Some lv -> lv <> [] ->
  parse_version lv = Ok v1 -> parse_version s = Ok v2 -> version_leb v1 v2 = true ->
  In (kind_code K_SCHEMA_DEPRECATED_INVALID) (codes issues).
Proof.
  intros Hc He Ha Hsk Hl Hne P1 P2 Hle. eapply in_codes.
  eapply (validator_issue_reported _ _ _ _ _ _ _ _ V_tag_is_deprecated_check); try eassumption.
  - apply deprecated_validator_in.
  - intros I ks _ Hr. cbn [run_validator] in Hr.
    exact (deprecated_not_older_fires fx E L e _ s lv v1 v2 ks Ha Hl Hne P1 P2 Hle Hr).
Qed.

(* 6. non-positive conversion factor *)
Lemma seeded_conversion_factor fx E L issues sec e val :
  check_loaded fx E true L = Ok issues ->
  In e (section_values L sec) ->
  dict_get HedKey_ConversionFactor (le_attrs e) = Some val ->
  skip_attribute fx e HedKey_ConversionFactor = false -> bad_conversion_factor val ->
  In (kind_code K_SCHEMA_CONVERSION_FACTOR_NOT_POSITIVE) (codes issues).
Proof.
  intros Hc He Ha Hsk Hb. eapply in_codes.
  eapply (validator_issue_reported _ _ _ _ _ _ _ _ V_conversion_factor); try eassumption.
  - apply table_both_in; in_tab.
  - intros I ks _ Hr. cbn [run_validator] in Hr.
    destruct (conversion_factor_spec L e HedKey_ConversionFactor) as (ks' & Hk' & Hiff).
    rewrite Hk' in Hr. inversion Hr; subst. apply Hiff. exists val. tauto.
Qed.

(* 7. default units that are not a unit of the class *)
Lemma unit_validator_old L : l_is83 L = false -> In V_unit_exists (get_validators L HedKey_DefaultUnits).
Proof. intros E; apply table_old_in; try exact E; in_tab. Qed.

Lemma unit_validator_new L a ae pv :
  l_is83 L = true -> lookup L SecAttributes a = Some ae -> In (HedKey_UnitRange, pv) (le_attrs ae) ->
  In V_unit_exists (get_validators L a).
Proof. intros E Hl Hp. eapply range_validator_in; try eassumption. in_tab. Qed.

Lemma seeded_default_units fx E L issues sec e a u :
  check_loaded fx E true L = Ok issues ->
  In e (section_values L sec) -> le_sec e = SecUnitClasses ->
  dict_get a (le_attrs e) = Some (VStr u) -> skip_attribute fx e a = false ->
  In V_unit_exists (get_validators L a) ->
  u <> [] -> get_derivative_unit_entry L e u = None ->
  In (kind_code K_SCHEMA_DEFAULT_UNITS_INVALID) (codes issues).
Proof.
  intros Hc He Hs Ha Hsk Hv Hne Hg. eapply in_codes.
  eapply validator_issue_reported; try eassumption.
  intros I ks _ Hr. cbn [run_validator] in Hr.
  destruct (unit_exists_spec L e a u Hs Ha) as (ks' & Hk' & Hiff). rewrite Hk' in Hr. inversion Hr; subst.
  apply Hiff. tauto.
Qed.

(* 8. unknown allowedCharacter value *)
Lemma seeded_allowed_character fx E L issues sec e s c :
  check_loaded fx E true L = Ok issues ->
  In e (section_values L sec) ->
  dict_get HedKey_AllowedCharacter (le_attrs e) = Some (VStr s) ->
  skip_attribute fx e HedKey_AllowedCharacter = false ->
  In c (split_comma s) -> ~ In c character_type_names -> length c <> 1%nat ->
  In (kind_code K_SCHEMA_ALLOWED_CHARACTERS_INVALID) (codes issues).
Proof.
  intros Hc He Ha Hsk Hi Hn Hl. eapply in_codes.
  eapply (validator_issue_reported _ _ _ _ _ _ _ _ V_allowed_characters_check); try eassumption.
  - apply table_both_in; in_tab.
  - intros I ks _ Hr. cbn [run_validator] in Hr.
    destruct (allowed_characters_spec L e _ s Ha) as (ks' & Hk' & Hiff). rewrite Hk' in Hr. inversion Hr; subst.
    apply Hiff. exists c. tauto.
Qed.

(* 9. foreign inLibrary name *)
Lemma seeded_in_library fx E L issues sec e s :
  check_loaded fx E true L = Ok issues ->
  In e (section_values L sec) ->
  dict_get HedKey_InLibrary (le_attrs e) = Some (VStr s) ->
  skip_attribute fx e HedKey_InLibrary = false ->
  ~ In s (split_comma (l_library L)) ->
  In (kind_code K_SCHEMA_IN_LIBRARY_INVALID) (codes issues).
Proof.
  intros Hc He Ha Hsk Hn. eapply in_codes.
  eapply (validator_issue_reported _ _ _ _ _ _ _ _ V_in_library_check); try eassumption.
  - apply table_both_in; in_tab.
  - intros I ks _ Hr. cbn [run_validator] in Hr.
    destruct (in_library_check_spec L e HedKey_InLibrary) as (ks' & Hk' & Hiff).
    rewrite Hk' in Hr. inversion Hr; subst. apply Hiff. rewrite Ha. exact Hn.
Qed.

(* 10. hedId out of the library's range / changed with respect to the previous version (8.3 rule set) *)
Lemma seeded_hed_id_range fx E L I issues sec e s nid k lo hi :
  check_loaded fx E true L = Ok issues -> l_is83 L = true ->
  id_validator_init E L = Ok I ->
  In e (section_values L sec) ->
  dict_get HedKey_HedID (le_attrs e) = Some (VStr s) -> skip_attribute fx e HedKey_HedID = false ->
  parse_int (remove_prefix s hed_prefix) = Some nid ->
  tag_library_key fx e = Some k -> dict_get k (id_data I) = Some (lo, hi) ->
  (nid < lo \/ hi < nid)%Z ->
  In (kind_code K_SCHEMA_HED_ID_INVALID) (codes issues).
Proof.
  intros Hc H83 HI He Ha Hsk Hp Hk Hr Hout. eapply in_codes.
  eapply (validator_issue_reported _ _ _ _ _ _ _ _ V_verify_tag_id); try eassumption.
  - apply hed_id_validator_in; exact H83.
  - intros I' ks HI' Hrun. rewrite HI in HI'. inversion HI'; subst I'. cbn [run_validator] in Hrun.
    exact (hed_id_range_fires fx I L e _ s nid k lo hi ks Ha Hp Hk Hr Hout Hrun).
Qed.

(* with the repair: a library entry -- nested or not -- whose OWN inLibrary value names a library of the
   header that has an id range in library_data.json *)
Lemma seeded_hed_id_range_own_library E L issues sec e s nid k lo hi :
  check_loaded fixed_all E true L = Ok issues -> l_is83 L = true ->
  In e (section_values L sec) ->
  dict_get HedKey_HedID (le_attrs e) = Some (VStr s) -> skip_attribute fixed_all e HedKey_HedID = false ->
  parse_int (remove_prefix s hed_prefix) = Some nid ->
  dict_get HedKey_InLibrary (le_attrs e) = Some (VStr k) ->
  In k (map snd (zip_str (split_comma (l_version L)) (split_comma (l_library L)))) ->
  dict_get k (env_ranges E) = Some (lo, hi) ->
  (nid < lo \/ hi < nid)%Z ->
  In (kind_code K_SCHEMA_HED_ID_INVALID) (codes issues).
Proof.
  intros Hc H83 He Ha Hsk Hp Hlib Hin Hr Hout.
  destruct (id_validator_init E L) as [I|] eqn:HI.
  - eapply (seeded_hed_id_range fixed_all E L I); try eassumption.
    + unfold tag_library_key, library_value. cbn [fx_own_library fixed_all]. rewrite Hlib. reflexivity.
    + eapply id_data_of_init; eassumption.
  - unfold check_loaded in Hc. rewrite HI in Hc. discriminate.
Qed.

Lemma seeded_hed_id_changed fx E L I issues sec e s nid k Lp oe os oid :
  check_loaded fx E true L = Ok issues -> l_is83 L = true ->
  id_validator_init E L = Ok I ->
  In e (section_values L sec) ->
  dict_get HedKey_HedID (le_attrs e) = Some (VStr s) -> skip_attribute fx e HedKey_HedID = false ->
  parse_int (remove_prefix s hed_prefix) = Some nid ->
  tag_library_key fx e = Some k -> dict_get k (id_prev I) = Some Lp ->
  lookup Lp (le_sec e) (le_name e) = Some oe ->
  dict_get HedKey_HedID (le_attrs oe) = Some (VStr os) ->
  parse_int (remove_prefix os hed_prefix) = Some oid -> oid <> 0%Z -> oid <> nid ->
  In (kind_code K_SCHEMA_HED_ID_INVALID) (codes issues).
Proof.
  intros Hc H83 HI He Ha Hsk Hp Hk Hprev Hl Ho Hop Hz Hne. eapply in_codes.
  eapply (validator_issue_reported _ _ _ _ _ _ _ _ V_verify_tag_id); try eassumption.
  - apply hed_id_validator_in; exact H83.
  - intros I' ks HI' Hrun. rewrite HI in HI'. inversion HI'; subst I'. cbn [run_validator] in Hrun.
    exact (hed_id_changed_fires fx I L e _ s nid k Lp oe os oid ks Ha Hp Hk Hprev Hl Ho Hop Hz Hne Hrun).
Qed.

(* every finding of an attribute rule is a warning: none survives warnings off *)
Lemma attribute_findings_are_warnings fx E I L e a vs l i :
  run_validators fx E I true L e a vs = Ok l -> In i l -> i_sev i = SevWarning.
Proof.
  unfold run_validators. revert l. induction vs as [|v vs IH]; intros l H Hi.
  - inversion H; subst. destruct Hi.
  - cbn [concat_mapM] in H.
    destruct (run_validator fx E I L v e a) as [ks|]; cbn [bind] in H; [|discriminate].
    match type of H with bind ?x _ = _ => destruct x as [b|] eqn:Hb end; cbn [bind] in H; [|discriminate].
    inversion H; subst l. apply in_app_or in Hi. destruct Hi as [Hi|Hi].
    + unfold add_context_and_filter in Hi. apply in_map_iff in Hi as (j & <- & Hj).
      apply in_map_iff in Hj as (k & <- & _). reflexivity.
    + eapply IH; [reflexivity|exact Hi].
Qed.

(* ------------------------------------------------------------------ the FULL seeded-fault statements for
   the repaired code: no "does not raise" hypothesis.  What remains is stated by its cause:
     - the environment can be read (HedIDValidator.__init__ and the prerelease check succeed: the versions in
       the header and in the cache listing are MAJOR.MINOR.PATCH, the previous version can be loaded);
     - [well_valued]: every DECLARED attribute of every visited entry meets rules written for its entry class
       and value type (undeclared attributes are no longer looked at, so seeding one cannot break this). *)
Definition checkable (E : env) (L : lschema) : Prop :=
  exists I pre, id_validator_init E L = Ok I /\ check_if_prerelease_version E true L = Ok pre
                /\ well_valued fixed_all E I L.

Lemma full_of_partial E L (P : list issue -> Prop) :
  checkable E L -> (forall issues, check_loaded fixed_all E true L = Ok issues -> P issues) ->
  exists issues, check_loaded fixed_all E true L = Ok issues /\ P issues.
Proof.
  intros (I & pre & HI & Hp & W) H.
  destruct (check_loaded_total fixed_all E L I pre HI Hp W) as (issues & Hc).
  exists issues. split; [exact Hc|apply H; exact Hc].
Qed.

Lemma seeded_undeclared_full E L sec e a :
  checkable E L -> In e (section_values L sec) -> In a (le_unknown e) ->
  exists issues, check_loaded fixed_all E true L = Ok issues
                 /\ In (kind_code K_SCHEMA_ATTRIBUTE_INVALID) (codes (filter is_error issues)).
Proof. intros C He Ha. apply full_of_partial; [exact C|]. intros issues Hc. eapply seeded_undeclared; eassumption. Qed.

Lemma seeded_duplicate_full E L sec d name ents :
  checkable E L -> In (sec, d) (l_dups L) -> In (name, ents) d ->
  (forall x y, In x ents -> In y ents -> snd x = snd y) ->
  exists issues, check_loaded fixed_all E true L = Ok issues
                 /\ In (kind_code K_SCHEMA_DUPLICATE_NODE) (codes (filter is_error issues)).
Proof. intros C Hd Hn Hu. apply full_of_partial; [exact C|]. intros issues Hc. eapply seeded_duplicate; eassumption. Qed.

Lemma seeded_in_library_full E L sec e s :
  checkable E L -> In e (section_values L sec) ->
  dict_get HedKey_InLibrary (le_attrs e) = Some (VStr s) ->
  skip_attribute fixed_all e HedKey_InLibrary = false ->
  ~ In s (split_comma (l_library L)) ->
  exists issues, check_loaded fixed_all E true L = Ok issues
                 /\ In (kind_code K_SCHEMA_IN_LIBRARY_INVALID) (codes issues).
Proof. intros C He Ha Hsk Hn. apply full_of_partial; [exact C|]. intros issues Hc. eapply seeded_in_library; eassumption. Qed.

Lemma seeded_conversion_factor_full E L sec e val :
  checkable E L -> In e (section_values L sec) ->
  dict_get HedKey_ConversionFactor (le_attrs e) = Some val ->
  skip_attribute fixed_all e HedKey_ConversionFactor = false -> bad_conversion_factor val ->
  exists issues, check_loaded fixed_all E true L = Ok issues
                 /\ In (kind_code K_SCHEMA_CONVERSION_FACTOR_NOT_POSITIVE) (codes issues).
Proof. intros C He Ha Hsk Hb. apply full_of_partial; [exact C|]. intros issues Hc. eapply seeded_conversion_factor; eassumption. Qed.

Lemma seeded_class_on_non_placeholder_full E L sec e a val :
  checkable E L -> In e (section_values L sec) -> le_sec e = SecTags ->
  dict_get a (le_attrs e) = Some val -> skip_attribute fixed_all e a = false ->
  a = HedKey_UnitClass \/ a = HedKey_ValueClass \/ a = HedKey_TakesValue ->
  ends_with slash_hash (le_name e) = false ->
  exists issues, check_loaded fixed_all E true L = Ok issues
                 /\ In (kind_code K_SCHEMA_NON_PLACEHOLDER_HAS_CLASS) (codes issues).
Proof.
  intros C He Hs Ha Hsk Hk Hn. apply full_of_partial; [exact C|]. intros issues Hc.
  eapply seeded_class_on_non_placeholder; eassumption.
Qed.

Lemma seeded_unknown_item_full E L sec e a s tsec item :
  checkable E L -> In e (section_values L sec) ->
  dict_get a (le_attrs e) = Some (VStr s) -> skip_attribute fixed_all e a = false ->
  In (V_item_exists_check tsec) (get_validators L a) ->
  (tsec = SecTags \/ tsec = SecUnitClasses \/ tsec = SecValueClasses) ->
  In item (split_comma s) -> item <> [] -> lookup L tsec item = None ->
  exists issues, check_loaded fixed_all E true L = Ok issues
                 /\ In (kind_code K_SCHEMA_GENERIC_ATTRIBUTE_VALUE_INVALID) (codes issues).
Proof.
  intros C He Ha Hsk Hv Ht Hi Hne Hl. apply full_of_partial; [exact C|]. intros issues Hc.
  eapply seeded_unknown_item; eassumption.
Qed.

Lemma seeded_deprecated_unknown_full E L sec e s :
  checkable E L -> In e (section_values L sec) ->
  dict_get HedKey_DeprecatedFrom (le_attrs e) = Some (VStr s) ->
  skip_attribute fixed_all e HedKey_DeprecatedFrom = false ->
  ~ In s (versions_for E (entry_library fixed_all L e)) ->
  exists issues, check_loaded fixed_all E true L = Ok issues
                 /\ In (kind_code K_SCHEMA_DEPRECATED_INVALID) (codes issues).
Proof.
  intros C He Ha Hsk Hn. apply full_of_partial; [exact C|]. intros issues Hc.
  eapply seeded_deprecated_unknown; eassumption.
Qed.

Lemma seeded_deprecated_not_older_full E L sec e s lv v1 v2 :
  checkable E L -> In e (section_values L sec) ->
  dict_get HedKey_DeprecatedFrom (le_attrs e) = Some (VStr s) ->
  skip_attribute fixed_all e HedKey_DeprecatedFrom = false ->
  schema_version_for_library L (entry_library fixed_all L e) = Some lv -> lv <> [] ->
  parse_version lv = Ok v1 -> parse_version s = Ok v2 -> version_leb v1 v2 = true ->
  exists issues, check_loaded fixed_all E true L = Ok issues
                 /\ In (kind_code K_SCHEMA_DEPRECATED_INVALID) (codes issues).
Proof.
  intros C He Ha Hsk Hl Hne P1 P2 Hle. apply full_of_partial; [exact C|]. intros issues Hc.
  eapply seeded_deprecated_not_older; eassumption.
Qed.

Lemma seeded_default_units_full E L sec e a u :
  checkable E L -> In e (section_values L sec) -> le_sec e = SecUnitClasses ->
  dict_get a (le_attrs e) = Some (VStr u) -> skip_attribute fixed_all e a = false ->
  In V_unit_exists (get_validators L a) ->
  u <> [] -> get_derivative_unit_entry L e u = None ->
  exists issues, check_loaded fixed_all E true L = Ok issues
                 /\ In (kind_code K_SCHEMA_DEFAULT_UNITS_INVALID) (codes issues).
Proof.
  intros C He Hs Ha Hsk Hv Hne Hg. apply full_of_partial; [exact C|]. intros issues Hc.
  eapply seeded_default_units; eassumption.
Qed.

Lemma seeded_allowed_character_full E L sec e s c :
  checkable E L -> In e (section_values L sec) ->
  dict_get HedKey_AllowedCharacter (le_attrs e) = Some (VStr s) ->
  skip_attribute fixed_all e HedKey_AllowedCharacter = false ->
  In c (split_comma s) -> ~ In c character_type_names -> length c <> 1%nat ->
  exists issues, check_loaded fixed_all E true L = Ok issues
                 /\ In (kind_code K_SCHEMA_ALLOWED_CHARACTERS_INVALID) (codes issues).
Proof.
  intros C He Ha Hsk Hi Hn Hl. apply full_of_partial; [exact C|]. intros issues Hc.
  eapply seeded_allowed_character; eassumption.
Qed.

Lemma seeded_hed_id_range_full E L sec e s nid k lo hi :
  checkable E L -> l_is83 L = true -> In e (section_values L sec) ->
  dict_get HedKey_HedID (le_attrs e) = Some (VStr s) -> skip_attribute fixed_all e HedKey_HedID = false ->
  parse_int (remove_prefix s hed_prefix) = Some nid ->
  dict_get HedKey_InLibrary (le_attrs e) = Some (VStr k) ->
  In k (map snd (zip_str (split_comma (l_version L)) (split_comma (l_library L)))) ->
  dict_get k (env_ranges E) = Some (lo, hi) ->
  (nid < lo \/ hi < nid)%Z ->
  exists issues, check_loaded fixed_all E true L = Ok issues
                 /\ In (kind_code K_SCHEMA_HED_ID_INVALID) (codes issues).
Proof.
  intros C H83 He Ha Hsk Hp Hlib Hin Hr Hout. apply full_of_partial; [exact C|]. intros issues Hc.
  eapply seeded_hed_id_range_own_library; eassumption.
Qed.

Lemma seeded_hed_id_changed_full E L I sec e s nid k Lp oe os oid :
  checkable E L -> l_is83 L = true -> id_validator_init E L = Ok I ->
  In e (section_values L sec) ->
  dict_get HedKey_HedID (le_attrs e) = Some (VStr s) -> skip_attribute fixed_all e HedKey_HedID = false ->
  parse_int (remove_prefix s hed_prefix) = Some nid ->
  tag_library_key fixed_all e = Some k -> dict_get k (id_prev I) = Some Lp ->
  lookup Lp (le_sec e) (le_name e) = Some oe ->
  dict_get HedKey_HedID (le_attrs oe) = Some (VStr os) ->
  parse_int (remove_prefix os hed_prefix) = Some oid -> oid <> 0%Z -> oid <> nid ->
  exists issues, check_loaded fixed_all E true L = Ok issues
                 /\ In (kind_code K_SCHEMA_HED_ID_INVALID) (codes issues).
Proof.
  intros C H83 HI He Ha Hsk Hp Hk Hprev Hl Ho Hop Hz Hne. apply full_of_partial; [exact C|]. intros issues Hc.
  eapply seeded_hed_id_changed; eassumption.
Qed.

(* ------------------------------------------------------------------ the range rule of verify_tag_id, edges
   included: with no previous version of the entry's library to compare with, the hedId number n is
   reported exactly when n < lo or hi < n for the library's range (lo, hi) -- both bounds are inside
   the range, and the number 0 (HED_0000000) is treated like any other number. *)
Lemma verify_tag_id_range_iff fx I L e a s nid k lo hi ks :
  dict_get a (le_attrs e) = Some (VStr s) ->
  parse_int (remove_prefix s hed_prefix) = Some nid ->
  tag_library_key fx e = Some k -> dict_get k (id_data I) = Some (lo, hi) ->
  dict_get k (id_prev I) = None ->
  verify_tag_id fx I L e a = Ok ks ->
  (In K_SCHEMA_HED_ID_INVALID ks <-> (nid < lo \/ hi < nid)%Z).
Proof.
  intros Hd Hp Hk Hr Hprev. unfold verify_tag_id. cbv zeta. rewrite Hk, Hprev. cbn [bind].
  rewrite Hd, Hp, Hr. intros H; inversion H; subst. cbn [app].
  destruct ((nid <? lo)%Z || (hi <? nid)%Z) eqn:B.
  - split; [intros _|intros _; left; reflexivity].
    apply orb_true_iff in B. destruct B as [B|B]; apply Z.ltb_lt in B; [left|right]; exact B.
  - split; [intros []|]. apply orb_false_iff in B. destruct B as [B1 B2].
    apply Z.ltb_ge in B1. apply Z.ltb_ge in B2. intros [Hc|Hc]; lia.
Qed.

Lemma verify_tag_id_zero_reported fx I L e a s k lo hi ks :
  dict_get a (le_attrs e) = Some (VStr s) ->
  parse_int (remove_prefix s hed_prefix) = Some 0%Z ->
  tag_library_key fx e = Some k -> dict_get k (id_data I) = Some (lo, hi) -> (0 < lo)%Z ->
  verify_tag_id fx I L e a = Ok ks -> In K_SCHEMA_HED_ID_INVALID ks.
Proof.
  intros Hd Hp Hk Hr Hlo Hv.
  exact (hed_id_range_fires fx I L e a s 0%Z k lo hi ks Hd Hp Hk Hr (or_introl Hlo) Hv).
Qed.

(* ------------------------------------------------------------------ item_exists_check and deprecation
   What the code does: a missing item is reported for EVERY entry, deprecated or not; the only place where
   the entry's own deprecatedFrom matters is the "refers to a deprecated item" finding, which is suppressed
   for an entry that is itself deprecated. *)
Lemma item_exists_deprecated_spec sec L e a s ks :
  (sec = SecTags \/ sec = SecUnitClasses \/ sec = SecValueClasses) ->
  dict_get a (le_attrs e) = Some (VStr s) ->
  item_exists_check sec L e a = Ok ks ->
  (In K_SCHEMA_ATTRIBUTE_VALUE_DEPRECATED ks <->
   exists item ie, In item (split_comma s) /\ item <> [] /\ lookup L sec item = Some ie
                   /\ has_attr ie HedKey_DeprecatedFrom = true /\ has_attr e HedKey_DeprecatedFrom = false).
Proof.
  intros Hsec Hd. unfold item_exists_check. rewrite Hd.
  generalize (split_comma s) as items. intros items; revert ks.
  induction items as [|it items IH]; intros ks H.
  - cbn in H. inversion H; subst. split; [intros []|]. intros (item & ie & [] & _).
  - cbn [concat_mapM] in H.
    match type of H with bind ?x _ = _ => destruct x as [k1|] eqn:H1 end; cbn [bind] in H; [|discriminate].
    match type of H with bind ?x _ = _ => destruct x as [k2|] eqn:H2 end; cbn [bind] in H; [|discriminate].
    inversion H; subst ks. specialize (IH k2 eq_refl).
    rewrite in_app_iff, IH. split.
    + intros [Hin|(item & ie & Hi & Hne & Hl & Hd1 & Hd2)].
      * destruct it as [|c it']; [inversion H1; subst; destruct Hin|].
        assert (G : exists ie, lookup L sec (c :: it') = Some ie /\ has_attr ie HedKey_DeprecatedFrom = true
                               /\ has_attr e HedKey_DeprecatedFrom = false).
        { destruct Hsec as [->|[->| ->]];
            (destruct (lookup L _ (c :: it')) as [ie|] eqn:Hl0;
             [|inversion H1; subst; cbn in Hin; exfalso; intuition discriminate];
             destruct (has_attr ie HedKey_DeprecatedFrom) eqn:D1; cbn [andb] in H1;
             [|inversion H1; subst; destruct Hin];
             destruct (has_attr e HedKey_DeprecatedFrom) eqn:D2; cbn [negb] in H1;
             [inversion H1; subst; destruct Hin|];
             exists ie; repeat split; first [assumption|reflexivity]). }
        destruct G as (ie & Hl & D1 & D2). exists (c :: it'), ie.
        split; [left; reflexivity|]. split; [discriminate|]. tauto.
      * exists item, ie. split; [right; exact Hi|]. tauto.
    + intros (item & ie & [<-|Hi] & Hne & Hl & D1 & D2).
      * left. destruct it as [|c it']; [congruence|].
        destruct Hsec as [->|[->| ->]]; rewrite Hl, D1, D2 in H1; inversion H1; subst; left; reflexivity.
      * right. exists item, ie. tauto.
Qed.

(* the instance the statement needs: a missing item on a DEPRECATED entry is reported like on any other *)
Lemma item_missing_reported_on_deprecated_entry sec L e a s ks item :
  (sec = SecTags \/ sec = SecUnitClasses \/ sec = SecValueClasses) ->
  has_attr e HedKey_DeprecatedFrom = true ->
  dict_get a (le_attrs e) = Some (VStr s) ->
  item_exists_check sec L e a = Ok ks ->
  In item (split_comma s) -> item <> [] -> lookup L sec item = None ->
  In K_SCHEMA_GENERIC_ATTRIBUTE_VALUE_INVALID ks.
Proof.
  intros Hsec _ Hd Hk Hi Hne Hl. apply (item_exists_spec _ _ _ _ _ _ Hsec Hd Hk). exists item. tauto.
Qed.

(* ------------------------------------------------------------------ which attributes the loader records
   as undeclared: exactly those that are not among the valid attributes OF THE ENTRY'S OWN SECTION
   (HedSchema._get_attributes_for_section); a declaration for another section does not count. *)

Lemma map_name_filter_map (P : lentry -> bool) (g : lentry -> lentry) (l : list lentry) :
  (forall x, P (g x) = P x) -> (forall x, le_name (g x) = le_name x) ->
  map le_name (filter P (map g l)) = map le_name (filter P l).
Proof.
  intros HP Hn. induction l as [|x l IH]; [reflexivity|]. cbn [map filter]. rewrite HP.
  destruct (P x); cbn [map]; rewrite ?Hn, IH; reflexivity.
Qed.

Lemma valid_attributes_set_unknown is83 a1 a2 b1 b2 props attrs sec :
  valid_attributes is83 (map (set_unknown a1 a2) props) (map (set_unknown b1 b2) attrs) sec
  = valid_attributes is83 props attrs sec.
Proof.
  unfold valid_attributes, names_with.
  destruct sec; try destruct is83;
    repeat rewrite map_name_filter_map by (intros; reflexivity); reflexivity.
Qed.

Lemma in_set_unknown v1 v2 e a :
  In a (le_unknown (set_unknown v1 v2 e)) <-> In a (map fst (le_attrs e)) /\ ~ In a v1 /\ ~ In a v2.
Proof.
  cbn [set_unknown le_unknown]. rewrite filter_In, andb_true_iff, !negb_true_iff, !mem_str_false_iff. tauto.
Qed.

(* the loaded schema in terms of the registered raw sections *)
Lemma load_base_sections E S L p83 :
  load E S = Ok L -> version_ge_83 S = Ok p83 ->
  exists props attrs mods vcs units,
    let va b := valid_attributes b props attrs in
    l_props L = map (set_unknown (va (l_is83 L) SecProperties) []) props
    /\ l_attrs L = map (set_unknown (va (l_is83 L) SecAttributes) []) attrs
    /\ l_mods L = map (set_unknown (va p83 SecUnitModifiers) (va (l_is83 L) SecUnitModifiers)) mods
    /\ l_vclasses L = map (set_unknown (va p83 SecValueClasses) (va (l_is83 L) SecValueClasses)) vcs
    /\ l_units L = map (set_unknown (va p83 SecUnits) []) units.
Proof.
  intros H Hv. unfold load in H. rewrite Hv in H.
  destruct (rs_unmerged S && _); [discriminate|]. cbn [bind] in H.
  destruct (register_generic S SecProperties _ (rs_props S) [] []) as [props d_props].
  destruct (register_generic S SecAttributes _ (rs_attrs S) [] []) as [attrs d_attrs].
  destruct (register_generic S SecUnitModifiers _ (rs_mods S) [] []) as [mods d_mods].
  destruct (register_uclasses S (rs_uclasses S) [] [] []) as [[ucs0 runits] d_ucs].
  destruct (register_generic S SecUnits unit_key runits [] []) as [units0 d_units].
  destruct (register_generic S SecValueClasses _ (rs_vclasses S) [] []) as [vcs d_vcs].
  destruct (register_tags S (rs_tags S) _) as [st|]; cbn [bind] in H; [|discriminate].
  match type of H with bind ?x _ = _ => destruct x as [ucs2|] end; cbn [bind] in H; [|discriminate].
  inversion H; subst L. cbn [l_props l_attrs l_mods l_vclasses l_units l_is83].
  exists props, attrs, mods, vcs, units0. cbv zeta. repeat split; reflexivity.
Qed.

Definition declared_for (b : bool) (L : lschema) (sec : section) : list str :=
  valid_attributes b (l_props L) (l_attrs L) sec.

(* unit modifiers and value classes (entries of the base class: cleaned again in finalize_entry) *)
Lemma load_unknown_modifiers_value_classes E S L p83 sec e a :
  load E S = Ok L -> version_ge_83 S = Ok p83 ->
  sec = SecUnitModifiers \/ sec = SecValueClasses -> In e (section_all L sec) ->
  (In a (le_unknown e) <->
   In a (map fst (le_attrs e)) /\ ~ In a (declared_for p83 L sec) /\ ~ In a (declared_for (l_is83 L) L sec)).
Proof.
  intros H Hv Hsec He.
  destruct (load_base_sections E S L p83 H Hv) as (props & attrs & mods & vcs & units & Hp & Ha & Hm & Hc & Hu).
  cbv zeta in *. unfold declared_for. rewrite Hp, Ha, !valid_attributes_set_unknown.
  destruct Hsec as [-> | ->]; cbn [section_all] in He.
  - rewrite Hm in He. apply in_map_iff in He as (e0 & <- & _). rewrite in_set_unknown; cbn [set_unknown le_attrs]; tauto.
  - rewrite Hc in He. apply in_map_iff in He as (e0 & <- & _). rewrite in_set_unknown; cbn [set_unknown le_attrs]; tauto.
Qed.

(* attribute and property definitions *)
Lemma load_unknown_definitions E S L p83 sec e a :
  load E S = Ok L -> version_ge_83 S = Ok p83 ->
  sec = SecAttributes \/ sec = SecProperties -> In e (section_all L sec) ->
  (In a (le_unknown e) <-> In a (map fst (le_attrs e)) /\ ~ In a (declared_for (l_is83 L) L sec)).
Proof.
  intros H Hv Hsec He.
  destruct (load_base_sections E S L p83 H Hv) as (props & attrs & mods & vcs & units & Hp & Ha & Hm & Hc & Hu).
  cbv zeta in *. unfold declared_for. rewrite Hp, Ha, !valid_attributes_set_unknown.
  destruct Hsec as [-> | ->]; cbn [section_all] in He.
  - rewrite Ha in He. apply in_map_iff in He as (e0 & <- & _). rewrite in_set_unknown; cbn [set_unknown le_attrs In]; tauto.
  - rewrite Hp in He. apply in_map_iff in He as (e0 & <- & _). rewrite in_set_unknown; cbn [set_unknown le_attrs In]; tauto.
Qed.

(* units (UnitEntry.finalize_entry does not clean: the load-time verdict stands) *)
Lemma load_unknown_units E S L p83 e a :
  load E S = Ok L -> version_ge_83 S = Ok p83 -> In e (l_units L) ->
  (In a (le_unknown e) <-> In a (map fst (le_attrs e)) /\ ~ In a (declared_for p83 L SecUnits)).
Proof.
  intros H Hv He.
  destruct (load_base_sections E S L p83 H Hv) as (props & attrs & mods & vcs & units & Hp & Ha & Hm & Hc & Hu).
  cbv zeta in *. unfold declared_for. rewrite Hp, Ha, !valid_attributes_set_unknown.
  rewrite Hu in He. apply in_map_iff in He as (e0 & <- & _). rewrite in_set_unknown; cbn [set_unknown le_attrs In]; tauto.
Qed.

(* tags (HedTagEntry.finalize_entry does not clean either) *)
Lemma load_unknown_tags E S L p83 e a :
  load E S = Ok L -> version_ge_83 S = Ok p83 -> In e (l_tags L) ->
  (In a (le_unknown e) <-> In a (map fst (le_attrs e)) /\ ~ In a (declared_for p83 L SecTags)).
Proof.
  intros H Hv He. unfold load in H. rewrite Hv in H.
  destruct (rs_unmerged S && _); [discriminate|]. cbn [bind] in H.
  destruct (register_generic S SecProperties _ (rs_props S) [] []) as [props d_props].
  destruct (register_generic S SecAttributes _ (rs_attrs S) [] []) as [attrs d_attrs].
  destruct (register_generic S SecUnitModifiers _ (rs_mods S) [] []) as [mods d_mods].
  destruct (register_uclasses S (rs_uclasses S) [] [] []) as [[ucs0 runits] d_ucs].
  destruct (register_generic S SecUnits unit_key runits [] []) as [units0 d_units].
  destruct (register_generic S SecValueClasses _ (rs_vclasses S) [] []) as [vcs d_vcs].
  destruct (register_tags S (rs_tags S) _) as [st|]; cbn [bind] in H; [|discriminate].
  match type of H with bind ?x _ = _ => destruct x as [ucs2|] end; cbn [bind] in H; [|discriminate].
  inversion H; subst L. clear H. unfold declared_for. cbn [l_props l_attrs l_tags] in *.
  rewrite valid_attributes_set_unknown.
  apply in_map_iff in He as ([i [e0 [p t]]] & <- & _). cbn [le_unknown le_attrs].
  rewrite filter_In, negb_true_iff, mem_str_false_iff. tauto.
Qed.

(* in_library_check reads the header's library list of the schema and the entry's own value: two schemas with
   the same header library give the same verdict, whatever else they contain *)
Lemma in_library_depends_on_header_only L1 L2 e a :
  l_library L1 = l_library L2 -> in_library_check L1 e a = in_library_check L2 e a.
Proof. intros H. unfold in_library_check. rewrite H. reflexivity. Qed.

(* ------------------------------------------------------------------ [checkable] is decidable: a boolean
   checker, sound for [well_valued] / [checkable], so that the premise of the seeded-fault theorems can be
   ESTABLISHED for concrete schemas by kernel evaluation (Proofs/C14Ex_*.v) *)

Definition not_flag (e : lentry) (a : str) : bool :=
  match dict_get a (le_attrs e) with Some VFlag => false | _ => true end.

Lemma not_flag_sound e a : not_flag e a = true -> dict_get a (le_attrs e) <> Some VFlag.
Proof. unfold not_flag. destruct (dict_get a (le_attrs e)) as [[|s]|]; intros H; congruence. Qed.

Definition versions_parseb (fx : fixes) (E : env) (L : lschema) (e : lentry) (a : str) : bool :=
  match dict_get a (le_attrs e) with
  | Some (VStr s) =>
      if mem_str s (versions_for E (entry_library fx L e)) then
        match schema_version_for_library L (entry_library fx L e) with
        | Some (c :: lv') => is_ok (parse_version (c :: lv')) && is_ok (parse_version s)
        | _ => true
        end
      else true
  | _ => true
  end.

Lemma is_ok_true {A} (r : res A) : is_ok r = true -> exists v, r = Ok v.
Proof. destruct r; [eexists; reflexivity|discriminate]. Qed.

Lemma versions_parseb_sound fx E L e a : versions_parseb fx E L e a = true -> versions_parse fx E L e a.
Proof.
  unfold versions_parseb, versions_parse. intros H s lv Hd Hin Hl Hne. rewrite Hd in H.
  apply mem_str_true_iff in Hin. rewrite Hin, Hl in H. destruct lv as [|c lv']; [congruence|].
  apply andb_true_iff in H as [H1 H2]. split; apply is_ok_true; assumption.
Qed.

Definition old_id_has_valueb (fx : fixes) (I : idenv) (e : lentry) : bool :=
  match tag_library_key fx e with
  | Some k => match dict_get k (id_prev I) with
              | Some Lp => match lookup Lp (le_sec e) (le_name e) with
                           | Some oe => match dict_get HedKey_HedID (le_attrs oe) with
                                        | Some VFlag => false
                                        | _ => true
                                        end
                           | None => true
                           end
              | None => true
              end
  | None => true
  end.

Lemma old_id_has_valueb_sound fx I e : old_id_has_valueb fx I e = true -> old_id_has_value fx I e.
Proof.
  unfold old_id_has_valueb, old_id_has_value. intros H k Lp oe Hk Hp Hl. rewrite Hk, Hp, Hl in H.
  destruct (dict_get HedKey_HedID (le_attrs oe)) as [[|s]|]; congruence.
Qed.

Definition item_section (sec : section) : bool :=
  match sec with SecTags | SecUnitClasses | SecValueClasses => true | _ => false end.

Definition applicableb (fx : fixes) (E : env) (I : idenv) (L : lschema) (v : validator) (e : lentry) (a : str)
  : bool :=
  match v with
  | V_tag_is_placeholder_check => section_eqb (le_sec e) SecTags
  | V_item_exists_check sec => not_flag e a && item_section sec
  | V_tag_is_deprecated_check => versions_parseb fx E L e a
  | V_unit_exists => section_eqb (le_sec e) SecUnitClasses && not_flag e a
  | V_allowed_characters_check => not_flag e a
  | V_verify_tag_id => not_flag e a && old_id_has_valueb fx I e
  | V_tag_exists_base_schema_check => match dict_get a (le_attrs e) with None => true | Some _ => false end
  | V_conversion_factor | V_in_library_check | V_attribute_is_deprecated | V_is_numeric_value => true
  end.

Lemma section_eqb_true a b : section_eqb a b = true -> a = b.
Proof. destruct a, b; cbn; congruence. Qed.

Lemma applicableb_sound fx E I L v e a : applicableb fx E I L v e a = true -> applicable fx E I L v e a.
Proof.
  destruct v; cbn [applicableb applicable]; intros H; try exact Logic.I.
  - apply section_eqb_true; exact H.
  - apply andb_true_iff in H as [H1 H2]. split; [apply not_flag_sound; exact H1|].
    destruct sec; cbn in H2; try discriminate; tauto.
  - apply versions_parseb_sound; exact H.
  - apply andb_true_iff in H as [H1 H2]. split; [apply section_eqb_true; exact H1|apply not_flag_sound; exact H2].
  - apply not_flag_sound; exact H.
  - apply andb_true_iff in H as [H1 H2]. split; [apply not_flag_sound; exact H1|apply old_id_has_valueb_sound; exact H2].
  - destruct (dict_get a (le_attrs e)); [discriminate|reflexivity].
Qed.

Definition well_valuedb (fx : fixes) (E : env) (I : idenv) (L : lschema) : bool :=
  forallb (fun sec =>
             forallb (fun e =>
                        forallb (fun kv => skip_attribute fx e (fst kv)
                                           || forallb (fun v => applicableb fx E I L v e (fst kv))
                                                      (get_validators L (fst kv)))
                                (le_attrs e))
                     (section_values L sec))
          all_sections.

Lemma well_valuedb_sound fx E I L : well_valuedb fx E I L = true -> well_valued fx E I L.
Proof.
  unfold well_valuedb, well_valued. intros H sec e a val v He Ha Hsk Hv.
  rewrite forallb_forall in H. specialize (H sec (in_all_sections sec)).
  rewrite forallb_forall in H. specialize (H e He).
  rewrite forallb_forall in H. specialize (H (a, val) Ha). cbn [fst] in H.
  rewrite Hsk in H. cbn [orb] in H. rewrite forallb_forall in H.
  apply applicableb_sound. exact (H v Hv).
Qed.

(* one pass over a raw schema: load it, initialise the id validator, run the check with warnings on and decide
   [well_valued] -- the error-severity issues and the verdict of the checker *)
Definition evaluate (E : env) (S : rschema) : res (list issue * bool) :=
  let* L := load E S in
  let* ide := id_validator_init E L in
  let* pre := check_if_prerelease_version E true L in
  let* at_ := check_attributes fixed_all E ide true L in
  Ok (filter is_error (pre ++ at_ ++ check_duplicate_names true L), well_valuedb fixed_all E ide L).

Lemma evaluate_sound E S errs :
  evaluate E S = Ok (errs, true) ->
  errors_of (check_compliance fixed_all E true S) = Ok errs
  /\ exists L, load E S = Ok L /\ checkable E L.
Proof.
  unfold evaluate, check_compliance, check_loaded.
  destruct (load E S) as [L|]; cbn [bind]; [|discriminate].
  destruct (id_validator_init E L) as [I|] eqn:HI; cbn [bind]; [|discriminate].
  destruct (check_if_prerelease_version E true L) as [pre|] eqn:Hp; cbn [bind]; [|discriminate].
  destruct (check_attributes fixed_all E I true L) as [at_|]; cbn [bind errors_of]; [|discriminate].
  intros H. inversion H as [[H1 H2]]. split; [reflexivity|].
  exists L. split; [reflexivity|]. exists I, pre. repeat split; try assumption.
  apply well_valuedb_sound; exact H2.
Qed.

(* finding a visited entry by name *)
Definition find_entry (L : lschema) (sec : section) (name : str) : option lentry :=
  find (fun e => str_eqb (le_name e) name) (section_values L sec).

Lemma find_entry_in L sec name e : find_entry L sec name = Some e -> In e (section_values L sec).
Proof. unfold find_entry. intros H. apply find_some in H. tauto. Qed.

(* ------------------------------------------------------------------ a one-attribute seed preserves [checkable]
   L' is L with ONE entry e of section sec replaced by e', which differs from e in the single attribute a
   (added, or its value changed); header and attribute definitions are untouched.  Then the premise of the
   seeded-fault theorems carries over from the compliant schema to the seeded one, provided the seeded
   attribute itself is either undeclared for the section (it is then not looked at) or meets the rules written
   for it (a string value on an entry of the right class), and the entry's own inLibrary value is unchanged
   (the deprecation and hedId rules of the OTHER attributes of the entry consult it). *)

Record same_frame (L L' : lschema) : Prop := mkFrame {
  sf_version : l_version L' = l_version L;
  sf_library : l_library L' = l_library L;
  sf_with_standard : l_with_standard L' = l_with_standard L;
  sf_is83 : l_is83 L' = l_is83 L;
  sf_attrs : l_attrs L' = l_attrs L
}.

Lemma same_frame_validators L L' a : same_frame L L' -> get_validators L' a = get_validators L a.
Proof.
  intros [Hv Hl Hw H8 Ha]. unfold get_validators. rewrite H8. unfold lookup. cbn [section_all]. rewrite Ha. reflexivity.
Qed.

Lemma same_frame_init E L L' : same_frame L L' -> id_validator_init E L' = id_validator_init E L.
Proof.
  intros [Hv Hl Hw H8 Ha]. unfold id_validator_init, id_standard_step. rewrite Hv, Hl, Hw. reflexivity.
Qed.

Lemma same_frame_prerelease E w L L' :
  same_frame L L' -> check_if_prerelease_version E w L' = check_if_prerelease_version E w L.
Proof. intros [Hv Hl Hw H8 Ha]. unfold check_if_prerelease_version. rewrite Hv, Hl, Hw. reflexivity. Qed.

Lemma same_frame_entry_library L L' e e' :
  same_frame L L' ->
  dict_get HedKey_InLibrary (le_attrs e') = dict_get HedKey_InLibrary (le_attrs e) ->
  entry_library fixed_all L' e' = entry_library fixed_all L e.
Proof.
  intros [Hv Hl Hw H8 Ha] Hi. unfold entry_library, library_value. cbn [fx_own_library fixed_all].
  rewrite Hi, Hw, Hl. reflexivity.
Qed.

Lemma same_frame_schema_version L L' lib :
  same_frame L L' -> schema_version_for_library L' lib = schema_version_for_library L lib.
Proof. intros [Hv Hl Hw H8 Ha]. unfold schema_version_for_library. rewrite Hv, Hl, Hw. reflexivity. Qed.

Lemma applicable_ext E I L L' v e e' a0 :
  same_frame L L' -> le_sec e' = le_sec e -> le_name e' = le_name e ->
  dict_get a0 (le_attrs e') = dict_get a0 (le_attrs e) ->
  dict_get HedKey_InLibrary (le_attrs e') = dict_get HedKey_InLibrary (le_attrs e) ->
  applicable fixed_all E I L v e a0 -> applicable fixed_all E I L' v e' a0.
Proof.
  intros F Hs Hn Hd Hi. destruct v; cbn [applicable]; rewrite ?Hs, ?Hd; try tauto.
  - unfold versions_parse. rewrite Hd, (same_frame_entry_library L L' e e' F Hi), (same_frame_schema_version L L' _ F).
    tauto.
  - intros [H1 H2]. split; [exact H1|]. unfold old_id_has_value, tag_library_key, library_value in *.
    cbn [fx_own_library fixed_all] in *. rewrite Hi, Hs, Hn. exact H2.
Qed.

Definition one_attribute_seed (L L' : lschema) (sec : section) (e e' : lentry) (a : str) : Prop :=
  same_frame L L' /\ le_sec e' = le_sec e /\ le_name e' = le_name e
  /\ (forall s x, In x (section_values L' s) -> In x (section_values L s) \/ (s = sec /\ x = e'))
  /\ In e (section_values L sec)
  /\ (forall a0, a0 <> a -> dict_get a0 (le_attrs e') = dict_get a0 (le_attrs e))
  /\ (forall a0 v0, In (a0, v0) (le_attrs e') -> a0 = a \/ exists v1, In (a0, v1) (le_attrs e))
  /\ (forall a0, a0 <> a -> skip_attribute fixed_all e' a0 = false -> skip_attribute fixed_all e a0 = false).

Lemma seed_preserves_checkable E L L' sec e e' a :
  checkable E L -> one_attribute_seed L L' sec e e' a ->
  dict_get HedKey_InLibrary (le_attrs e') = dict_get HedKey_InLibrary (le_attrs e) ->
  (skip_attribute fixed_all e' a = true
   \/ forall I v, id_validator_init E L = Ok I -> In v (get_validators L a) -> applicable fixed_all E I L' v e' a) ->
  checkable E L'.
Proof.
  intros (I & pre & HI & Hp & W) (F & Hs & Hn & Hvals & He & Hsame & Hkeys & Hskip) Hlib Hseed.
  exists I, pre. rewrite (same_frame_init E L L' F), (same_frame_prerelease E true L L' F).
  split; [exact HI|]. split; [exact Hp|].
  intros s x a0 val v Hx Ha0 Hsk Hv. rewrite (same_frame_validators L L' a0 F) in Hv.
  destruct (Hvals s x Hx) as [Hold|[-> ->]].
  - eapply applicable_ext; try reflexivity; [exact F|]. exact (W s x a0 val v Hold Ha0 Hsk Hv).
  - destruct (str_eqb a0 a) eqn:Ea.
    + apply str_eqb_spec in Ea; subst a0. destruct Hseed as [Hu|Ha]; [congruence|]. exact (Ha I v HI Hv).
    + apply str_eqb_false_neq in Ea.
      destruct (Hkeys a0 val Ha0) as [->|(v1 & Hin)]; [congruence|].
      eapply (applicable_ext E I L L' v e e' a0 F Hs Hn (Hsame a0 Ea) Hlib).
      exact (W sec e a0 v1 v He Hin (Hskip a0 Ea Hsk) Hv).
Qed.

(* ------------------------------------------------------------------ which attributes carry the existence /
   unit rule in a concrete loaded schema (decidable; evaluated for bundled schemas in Proofs/C14Ex_*.v) *)
Definition has_item_rule (L : lschema) (a : str) (tsec : section) : bool :=
  existsb (fun v => match v with V_item_exists_check s => section_eqb s tsec | _ => false end) (get_validators L a).

Lemma has_item_rule_sound L a tsec :
  has_item_rule L a tsec = true -> In (V_item_exists_check tsec) (get_validators L a).
Proof.
  unfold has_item_rule. intros H. apply existsb_exists in H as (v & Hv & Hm).
  destruct v; try discriminate. apply section_eqb_true in Hm. subst. exact Hv.
Qed.

Definition has_unit_rule (L : lschema) (a : str) : bool :=
  existsb (fun v => match v with V_unit_exists => true | _ => false end) (get_validators L a).

Lemma has_unit_rule_sound L a : has_unit_rule L a = true -> In V_unit_exists (get_validators L a).
Proof.
  unfold has_unit_rule. intros H. apply existsb_exists in H as (v & Hv & Hm). destruct v; try discriminate. exact Hv.
Qed.

(* the four reference attributes and defaultUnits carry their rules *)
Definition reference_rules_present (L : lschema) : bool :=
  has_item_rule L HedKey_SuggestedTag SecTags && has_item_rule L HedKey_RelatedTag SecTags
  && has_item_rule L HedKey_UnitClass SecUnitClasses && has_item_rule L HedKey_ValueClass SecValueClasses
  && has_unit_rule L HedKey_DefaultUnits.

Lemma reference_rules_present_sound L :
  reference_rules_present L = true ->
  In (V_item_exists_check SecTags) (get_validators L HedKey_SuggestedTag)
  /\ In (V_item_exists_check SecTags) (get_validators L HedKey_RelatedTag)
  /\ In (V_item_exists_check SecUnitClasses) (get_validators L HedKey_UnitClass)
  /\ In (V_item_exists_check SecValueClasses) (get_validators L HedKey_ValueClass)
  /\ In V_unit_exists (get_validators L HedKey_DefaultUnits).
Proof.
  unfold reference_rules_present. rewrite !andb_true_iff. intros ((((H1 & H2) & H3) & H4) & H5).
  repeat split; try (apply has_item_rule_sound; assumption). apply has_unit_rule_sound; assumption.
Qed.

Definition loaded_has_reference_rules (E : env) (S : rschema) : bool :=
  match load E S with Ok L => reference_rules_present L | Exn _ => false end.

Lemma loaded_has_reference_rules_sound E S :
  loaded_has_reference_rules E S = true ->
  exists L, load E S = Ok L
  /\ In (V_item_exists_check SecTags) (get_validators L HedKey_SuggestedTag)
  /\ In (V_item_exists_check SecTags) (get_validators L HedKey_RelatedTag)
  /\ In (V_item_exists_check SecUnitClasses) (get_validators L HedKey_UnitClass)
  /\ In (V_item_exists_check SecValueClasses) (get_validators L HedKey_ValueClass)
  /\ In V_unit_exists (get_validators L HedKey_DefaultUnits).
Proof.
  unfold loaded_has_reference_rules. destruct (load E S) as [L|]; [|discriminate]. intros H.
  exists L. split; [reflexivity|]. apply reference_rules_present_sound; exact H.
Qed.

(* ------------------------------------------------------------------ exhibiting [one_attribute_seed]
   A decidable-by-evaluation description of the commonest seed: L' is L except that the entry called [name]
   of section [sec] has one more attribute (a, v), recorded as undeclared.  All components are equalities of
   closed terms, so for two concrete raw schemas the kernel decides them by evaluation. *)
Definition frame_of (L : lschema) : str * str * str * bool * list lentry :=
  (l_version L, l_library L, l_with_standard L, l_is83 L, l_attrs L).

Definition replaced (sec : section) (name : str) (e' : lentry) (L : lschema) (s : section) : list lentry :=
  if section_eqb s sec
  then map (fun x => if str_eqb (le_name x) name then e' else x) (section_values L s)
  else section_values L s.

Definition appended_seed (L L' : lschema) (sec : section) (name a : str) (v : aval) : Prop :=
  match find_entry L sec name, find_entry L' sec name with
  | Some e, Some e' =>
      frame_of L' = frame_of L
      /\ map (section_values L') all_sections = map (replaced sec name e' L) all_sections
      /\ le_sec e' = le_sec e
      /\ le_attrs e' = le_attrs e ++ [(a, v)]
      /\ le_unknown e' = le_unknown e ++ [a]
      /\ dict_get a (le_attrs e) = None
      /\ str_eqb a HedKey_InLibrary = false
  | _, _ => False
  end.

Lemma map_eq_in {A B} (f g : A -> B) (l : list A) x : map f l = map g l -> In x l -> f x = g x.
Proof.
  induction l as [|y l IH]; intros H Hin; [destruct Hin|]. cbn in H. inversion H.
  destruct Hin as [->|Hin]; [assumption|apply IH; assumption].
Qed.

Lemma dict_get_app_other {V} (a0 a : str) (v : V) (l : list (str * V)) :
  a0 <> a -> dict_get a0 (l ++ [(a, v)]) = dict_get a0 l.
Proof.
  intros Hne. induction l as [|[k w] l IH]; cbn.
  - apply str_eqb_false_neq in Hne. now rewrite Hne.
  - destruct (str_eqb a0 k); [reflexivity|exact IH].
Qed.

Lemma mem_str_app x l1 l2 : mem_str x (l1 ++ l2) = mem_str x l1 || mem_str x l2.
Proof. induction l1 as [|y l1 IH]; cbn; [reflexivity|]. rewrite IH. now rewrite orb_assoc. Qed.

Lemma find_entry_name L sec name e : find_entry L sec name = Some e -> le_name e = name.
Proof. unfold find_entry. intros H. apply find_some in H as [_ H]. apply str_eqb_spec; exact H. Qed.

Lemma appended_seed_sound L L' sec name a v :
  appended_seed L L' sec name a v ->
  exists e e', find_entry L sec name = Some e /\ find_entry L' sec name = Some e'
               /\ one_attribute_seed L L' sec e e' a
               /\ dict_get HedKey_InLibrary (le_attrs e') = dict_get HedKey_InLibrary (le_attrs e)
               /\ skip_attribute fixed_all e' a = true.
Proof.
  unfold appended_seed. destruct (find_entry L sec name) as [e|] eqn:Fe; [|tauto].
  destruct (find_entry L' sec name) as [e'|] eqn:Fe'; [|tauto].
  intros (Hf & Hv & Hs & Ha & Hu & Hnew & Hlib).
  exists e, e'. split; [reflexivity|]. split; [reflexivity|].
  assert (Hne_lib : HedKey_InLibrary <> a).
  { intros <-. rewrite str_eqb_refl in Hlib. discriminate. }
  split; [|split].
  - unfold one_attribute_seed. unfold frame_of in Hf. inversion Hf as [[H1 H2 H3 H4 H5]].
    split; [constructor; assumption|]. split; [exact Hs|].
    split; [rewrite (find_entry_name _ _ _ _ Fe), (find_entry_name _ _ _ _ Fe'); reflexivity|].
    split.
    { intros s x Hx. pose proof (map_eq_in _ _ _ s Hv (in_all_sections s)) as Hs'. rewrite Hs' in Hx.
      unfold replaced in Hx. destruct (section_eqb s sec) eqn:Es; [|left; exact Hx].
      apply section_eqb_true in Es. subst s. apply in_map_iff in Hx as (x0 & Hx0 & Hin).
      destruct (str_eqb (le_name x0) name); [right; split; [reflexivity|symmetry; exact Hx0]|left; subst; exact Hin]. }
    split; [eapply find_entry_in; exact Fe|].
    split; [intros a0 Hne; rewrite Ha; apply dict_get_app_other; exact Hne|].
    split.
    { intros a0 v0 Hin. rewrite Ha in Hin. apply in_app_or in Hin as [Hin|[Hin|[]]].
      - right. exists v0. exact Hin.
      - left. inversion Hin. reflexivity. }
    intros a0 Hne. unfold skip_attribute. cbn [fx_skip_undeclared fixed_all andb]. rewrite Hu, mem_str_app.
    intros H. apply orb_false_iff in H. tauto.
  - rewrite Ha. apply dict_get_app_other. exact Hne_lib.
  - unfold skip_attribute. cbn [fx_skip_undeclared fixed_all andb]. rewrite Hu, mem_str_app. cbn [mem_str].
    rewrite str_eqb_refl. cbn. apply orb_true_r.
Qed.

(* the same for two raw schemas, with the conclusion drawn THROUGH seed_preserves_checkable *)
Definition appended_seed_raw (E : env) (S S' : rschema) (sec : section) (name a : str) (v : aval) : Prop :=
  match load E S, load E S' with
  | Ok L, Ok L' => appended_seed L L' sec name a v
  | _, _ => False
  end.

Lemma checkable_of_appended_seed E S S' sec name a v :
  (exists L, load E S = Ok L /\ checkable E L) ->
  appended_seed_raw E S S' sec name a v ->
  exists L', load E S' = Ok L' /\ checkable E L'.
Proof.
  intros (L & HL & Hc) H. unfold appended_seed_raw in H. rewrite HL in H.
  destruct (load E S') as [L'|]; [|tauto]. exists L'. split; [reflexivity|].
  destruct (appended_seed_sound _ _ _ _ _ _ H) as (e & e' & _ & _ & Hseed & Hlib & Hskip).
  exact (seed_preserves_checkable E L L' sec e e' a Hc Hseed Hlib (or_introl Hskip)).
Qed.
