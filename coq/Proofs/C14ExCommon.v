(* C14 -- shared definitions of the kernel evaluations (Proofs/C14Ex_*.v) *)
From Coq Require Import List NArith ZArith.
From HV Require Import Base.Res Base.Str Base.C14Base Gen.ComplianceTables Model.Compliance
     Proofs.ComplianceProofs Gen.C14_Env.
Import ListNotations.

(* the environment of the bundled package with the given loadable previous versions *)
Definition bundled_env (loadable : list (str * rschema)) : env :=
  mkEnv known_versions id_ranges plurals loadable.

(* the code as it now is (both repairs): no error-severity issue, and nothing at all with warnings off *)
Definition no_error (E : env) (S : rschema) : Prop :=
  errors_of (check_compliance fixed_all E true S) = Ok [] /\ check_compliance fixed_all E false S = Ok [].

Lemma no_error_of_errors E S :
  errors_of (check_compliance fixed_all E true S) = Ok [] -> no_error E S.
Proof. intros H. split; [exact H|]. rewrite check_compliance_off. exact H. Qed.

Definition res_codes (r : res (list issue)) : res (list str) :=
  match r with Ok l => Ok (codes l) | Exn e => Exn e end.

(* Seed = add one attribute to the tag of a given long name / append one tag *)
Definition add_tag_attr (S : rschema) (name : str) (kv : str * aval) : rschema :=
  mkS (rs_version S) (rs_library S) (rs_with_standard S) (rs_unmerged S)
      (rs_props S) (rs_attrs S) (rs_mods S) (rs_uclasses S) (rs_vclasses S)
      (map (fun r => if str_eqb (re_name r) name then mkE (re_name r) (re_attrs r ++ [kv]) else r) (rs_tags S)).

Definition add_tag (S : rschema) (r : rentry) : rschema :=
  mkS (rs_version S) (rs_library S) (rs_with_standard S) (rs_unmerged S)
      (rs_props S) (rs_attrs S) (rs_mods S) (rs_uclasses S) (rs_vclasses S) (rs_tags S ++ [r]).

Definition has_tag (S : rschema) (name : str) : bool := existsb (fun r => str_eqb (re_name r) name) (rs_tags S).

Lemma check_compliance_loaded fx E warn S issues :
  check_compliance fx E warn S = Ok issues -> exists L, load E S = Ok L /\ check_loaded fx E warn L = Ok issues.
Proof.
  unfold check_compliance. destruct (load E S) as [L|]; cbn [bind]; [|discriminate].
  intros H. exists L. split; [reflexivity|exact H].
Qed.

(* the id ranges of the translated library_data.json (Gen/C14_Env.v), and "HED_0000000" is the number 0 *)
Lemma bundled_id_ranges :
  dict_get [] id_ranges = Some (10000, 39999)%Z
  /\ dict_get [115; 99; 111; 114; 101]%N id_ranges = Some (40000, 59999)%Z      (* score *)
  /\ parse_int (remove_prefix [72;69;68;95;48;48;48;48;48;48;48]%N hed_prefix) = Some 0%Z.
Proof. repeat split; reflexivity. Qed.
