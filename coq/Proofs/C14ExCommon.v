(* C14 -- shared definitions of the kernel evaluations (Proofs/C14Ex_*.v) *)
From Coq Require Import List NArith ZArith Bool.
From HV Require Import Base.Res Base.Str Base.C14Base Gen.ComplianceTables Model.Compliance
     Proofs.ComplianceProofs Gen.C14_Env.
Import ListNotations.

(* the environment of the bundled package with the given loadable previous versions *)
Definition bundled_env (loadable : list (str * rschema)) : env :=
  mkEnv known_versions id_ranges plurals loadable.

(* the code as it is in /repo (fixed_all: fix commits 55e2b09, 5844fee): no error-severity issue, and nothing at all with warnings off *)
Definition no_error (E : env) (S : rschema) : Prop :=
  errors_of (check_compliance fixed_all E true S) = Ok [] /\ check_compliance fixed_all E false S = Ok [].

Lemma no_error_of_errors E S :
  errors_of (check_compliance fixed_all E true S) = Ok [] -> no_error E S.
Proof. intros H. split; [exact H|]. rewrite check_compliance_off. exact H. Qed.

Definition res_codes (r : res (list issue)) : res (list str) :=
  match r with Ok l => Ok (codes l) | Exn e => Exn e end.

(* Seed = add one attribute to the tag of a given long name / append one tag *)
Definition add_tag_attr (S : rschema) (name : str) (kv : str * aval) : rschema :=
  mkS (rs_version S) (rs_library S) (rs_with_standard S) (rs_unmerged S)
      (rs_props S) (rs_attrs S) (rs_mods S) (rs_uclasses S) (rs_vclasses S)
      (map (fun r => if str_eqb (re_name r) name then mkE (re_name r) (re_attrs r ++ [kv]) else r) (rs_tags S)).

Definition add_tag (S : rschema) (r : rentry) : rschema :=
  mkS (rs_version S) (rs_library S) (rs_with_standard S) (rs_unmerged S)
      (rs_props S) (rs_attrs S) (rs_mods S) (rs_uclasses S) (rs_vclasses S) (rs_tags S ++ [r]).

Definition has_tag (S : rschema) (name : str) : bool := existsb (fun r => str_eqb (re_name r) name) (rs_tags S).

Lemma check_compliance_loaded fx E warn S issues :
  check_compliance fx E warn S = Ok issues -> exists L, load E S = Ok L /\ check_loaded fx E warn L = Ok issues.
Proof.
  unfold check_compliance. destruct (load E S) as [L|]; cbn [bind]; [|discriminate].
  intros H. exists L. split; [reflexivity|exact H].
Qed.

(* the id ranges of the translated library_data.json (Gen/C14_Env.v), and "HED_0000000" is the number 0 *)
Lemma bundled_id_ranges :
  dict_get [] id_ranges = Some (10000, 39999)%Z
  /\ dict_get [115; 99; 111; 114; 101]%N id_ranges = Some (40000, 59999)%Z      (* score *)
  /\ parse_int (remove_prefix [72;69;68;95;48;48;48;48;48;48;48]%N hed_prefix) = Some 0%Z.
Proof. repeat split; reflexivity. Qed.

(* ------------------------------------------------------------------ going THROUGH the seeded-fault theorems:
   boolean witnesses that collect every premise of a theorem for a concrete raw schema (evaluated in the kernel
   by the example files), and their soundness: the theorem then yields the conclusion. *)

Definition with_entry (E : env) (S : rschema) (sec : section) (name : str) (k : lschema -> lentry -> bool) : bool :=
  match evaluate E S, load E S with
  | Ok (_, true), Ok L => match find_entry L sec name with Some e => k L e | None => false end
  | _, _ => false
  end.

Lemma with_entry_sound E S sec name k :
  with_entry E S sec name k = true ->
  exists L e, load E S = Ok L /\ checkable E L /\ In e (section_values L sec) /\ k L e = true.
Proof.
  unfold with_entry. destruct (evaluate E S) as [[errs b]|] eqn:He; [|discriminate].
  destruct b; [|discriminate]. destruct (load E S) as [L|] eqn:HL; [|discriminate].
  destruct (find_entry L sec name) as [e|] eqn:Hf; [|discriminate]. intros Hk.
  destruct (evaluate_sound _ _ _ He) as (_ & L' & HL' & Hc). rewrite HL in HL'. inversion HL'; subst L'.
  exists L, e. repeat split; try assumption. eapply find_entry_in; exact Hf.
Qed.

(* foreign inLibrary name *)
Definition in_library_premises (lib : str) (L : lschema) (e : lentry) : bool :=
  match dict_get HedKey_InLibrary (le_attrs e) with
  | Some (VStr s) => str_eqb s lib && negb (mem_str s (split_comma (l_library L)))
                     && negb (skip_attribute fixed_all e HedKey_InLibrary)
  | _ => false
  end.

Lemma in_library_through_theorem E S sec name lib :
  with_entry E S sec name (in_library_premises lib) = true ->
  exists L issues, load E S = Ok L /\ check_loaded fixed_all E true L = Ok issues
                   /\ In (kind_code K_SCHEMA_IN_LIBRARY_INVALID) (codes issues).
Proof.
  intros W. destruct (with_entry_sound _ _ _ _ _ W) as (L & e & HL & Hc & He & Hk).
  unfold in_library_premises in Hk. destruct (dict_get HedKey_InLibrary (le_attrs e)) as [[|s]|] eqn:Hd; try discriminate.
  apply andb_true_iff in Hk as [Hk H3]. apply andb_true_iff in Hk as [_ H2].
  apply negb_true_iff in H2. apply negb_true_iff in H3. apply mem_str_false_iff in H2.
  destruct (seeded_in_library_full E L sec e s Hc He Hd H3 H2) as (issues & Hi & Hin).
  exists L, issues. tauto.
Qed.

(* undeclared attribute *)
Definition undeclared_premises (a : str) (L : lschema) (e : lentry) : bool := mem_str a (le_unknown e).

Lemma undeclared_through_theorem E S sec name a :
  with_entry E S sec name (undeclared_premises a) = true ->
  exists L issues, load E S = Ok L /\ check_loaded fixed_all E true L = Ok issues
                   /\ In (kind_code K_SCHEMA_ATTRIBUTE_INVALID) (codes (filter is_error issues)).
Proof.
  intros W. destruct (with_entry_sound _ _ _ _ _ W) as (L & e & HL & Hc & He & Hk).
  apply mem_str_true_iff in Hk.
  destruct (seeded_undeclared_full E L sec e a Hc He Hk) as (issues & Hi & Hin).
  exists L, issues. tauto.
Qed.

(* hedId out of the range of the entry's own library *)
Definition hed_id_premises (E : env) (L : lschema) (e : lentry) : bool :=
  l_is83 L && negb (skip_attribute fixed_all e HedKey_HedID) &&
  match dict_get HedKey_HedID (le_attrs e), dict_get HedKey_InLibrary (le_attrs e) with
  | Some (VStr s), Some (VStr k) =>
      match parse_int (remove_prefix s hed_prefix), dict_get k (env_ranges E) with
      | Some nid, Some (lo, hi) =>
          mem_str k (map snd (zip_str (split_comma (l_version L)) (split_comma (l_library L))))
          && ((nid <? lo)%Z || (hi <? nid)%Z)
      | _, _ => false
      end
  | _, _ => false
  end.

Lemma hed_id_through_theorem E S sec name :
  with_entry E S sec name (hed_id_premises E) = true ->
  exists L issues, load E S = Ok L /\ check_loaded fixed_all E true L = Ok issues
                   /\ In (kind_code K_SCHEMA_HED_ID_INVALID) (codes issues).
Proof.
  intros W. destruct (with_entry_sound _ _ _ _ _ W) as (L & e & HL & Hc & He & Hk).
  unfold hed_id_premises in Hk. apply andb_true_iff in Hk as [Hk H3]. apply andb_true_iff in Hk as [H1 H2].
  apply negb_true_iff in H2.
  destruct (dict_get HedKey_HedID (le_attrs e)) as [[|s]|] eqn:Hd; try discriminate.
  destruct (dict_get HedKey_InLibrary (le_attrs e)) as [[|k]|] eqn:Hlib; try discriminate.
  destruct (parse_int (remove_prefix s hed_prefix)) as [nid|] eqn:Hp; try discriminate.
  destruct (dict_get k (env_ranges E)) as [[lo hi]|] eqn:Hr; try discriminate.
  apply andb_true_iff in H3 as [H4 H5]. apply mem_str_true_iff in H4.
  assert (Hout : (nid < lo \/ hi < nid)%Z).
  { apply orb_true_iff in H5. destruct H5 as [H5|H5]; apply Z.ltb_lt in H5; tauto. }
  destruct (seeded_hed_id_range_full E L sec e s nid k lo hi Hc H1 He Hd H2 Hp Hlib H4 Hr Hout) as (issues & Hi & Hin).
  exists L, issues. tauto.
Qed.
