(* C11 -- specification predicates, well-formedness check and lemmas for Model/Units.v *)
From Coq Require Import List NArith ZArith QArith Bool Lia.
From HV Require Import Base.Res Base.Str Model.Units.
Import ListNotations.

(* ================================================================== specification side *)

(* an SI prefix the unit permits (the statement's "SI prefix the unit permits") *)
Definition permitted (U : unitdef) (m : moddef) : bool :=
  u_si U && (if u_symbol U then m_si_sym m else m_si_mod m).

Definition mod_name (M : option moddef) : str :=
  match M with Some m => m_name m | None => [] end.

Definition mod_ok (S : uschema) (U : unitdef) (M : option moddef) : Prop :=
  match M with None => True | Some m => In m (s_mods S) /\ permitted U m = true end.

(* text [t] spells unit [U], optionally preceded by prefix [M]:
   a symbol exactly as declared; a name in singular or plural, in any letter case *)
Definition spells (S : uschema) (U : unitdef) (M : option moddef) (t : str) : Prop :=
  mod_ok S U M /\
  if u_symbol U then t = mod_name M ++ u_name U
  else casefold t = casefold (mod_name M ++ u_name U) \/ casefold t = casefold (mod_name M ++ u_plural U).

(* some unit of the classes [cs] is spelled by [t]; [pre] selects prefix-type units *)
Definition spelled_in (S : uschema) (cs : list classdef) (pre : bool) (t : str) : Prop :=
  exists C U M, In C cs /\ In U (c_units C) /\ spells S U M t /\ u_prefix U = pre.

Definition is_some {A} (o : option A) : bool := match o with Some _ => true | None => false end.

(* the declared factors, read as the schema means them *)
Definition unit_factor (U : unitdef) : option Q :=
  match u_factor U with Some t => factor_spec t | None => None end.
Definition mod_factor (M : option moddef) : option Q :=
  match M with None => Some 1%Q | Some m => factor_spec (factor_text (m_factor m)) end.

(* ------------------------------------------------------------------ well-formedness (boolean, kernel-evaluated) *)

Definition wf_unit (S : uschema) (U : unitdef) : bool :=
  match units_getitem S (u_name U) with
  | Some U' => Bool.eqb (u_si U') (u_si U) && Bool.eqb (u_symbol U') (u_symbol U)
  | None => false
  end
  && (u_symbol U || str_eqb (casefold (u_plural U)) (u_plural U))
  && match u_factor U with Some t => is_some (factor_spec t) | None => true end.

Definition wf_mod (m : moddef) : bool :=
  (negb (m_si_mod m) || str_eqb (casefold (m_name m)) (m_name m))
  && is_some (factor_spec (factor_text (m_factor m))).

Definition wf_schema (S : uschema) : bool :=
  forallb (wf_unit S) (all_units S) && forallb wf_mod (s_mods S).

(* the text has a single reading among the unit classes [cs] *)
Definition with_key (S : uschema) (cs : list classdef) (k : str) : list entry :=
  filter (fun e => str_eqb (e_key e) k) (tag_entries S cs).

Definition unamb (S : uschema) (cs : list classdef) (t : str) : bool :=
  (length (with_key S cs t) <=? 1)%nat && (length (with_key S cs (casefold t)) <=? 1)%nat
  && (length (cands S cs t) <=? 1)%nat.

Definition no_caret (t : str) : bool := negb (existsb (fun c => (c =? 94)%N) t).

(* ================================================================== generic lemmas *)

Lemma str_eqb_refl s : str_eqb s s = true.
Proof. apply str_eqb_spec. reflexivity. Qed.

Lemma casefold_app a b : casefold (a ++ b) = casefold a ++ casefold b.
Proof. unfold casefold, lower. apply map_app. Qed.

Lemma lower_ch_idem c : lower_ch (lower_ch c) = lower_ch c.
Proof.
  unfold lower_ch.
  destruct ((65 <=? c)%N && (c <=? 90)%N) eqn:E.
  - apply andb_true_iff in E as [E1 E2]. apply N.leb_le in E1. apply N.leb_le in E2.
    destruct ((65 <=? c + 32)%N && (c + 32 <=? 90)%N) eqn:E'; [|reflexivity].
    apply andb_true_iff in E' as [_ E4]. apply N.leb_le in E4. lia.
  - rewrite E. reflexivity.
Qed.

Lemma casefold_idem s : casefold (casefold s) = casefold s.
Proof.
  unfold casefold, lower. rewrite map_map. apply map_ext. intro c. apply lower_ch_idem.
Qed.

Lemma filter_le1_unique {A} (p : A -> bool) (l : list A) :
  (length (filter p l) <= 1)%nat ->
  forall a b, In a l -> In b l -> p a = true -> p b = true -> a = b.
Proof.
  induction l as [|x r IH]; intros Hlen a b Ha Hb Pa Pb; [destruct Ha|].
  simpl in Hlen. destruct (p x) eqn:Px.
  - simpl in Hlen.
    assert (Hnil : filter p r = []) by (destruct (filter p r); [reflexivity | simpl in Hlen; lia]).
    assert (Hnone : forall y, In y r -> p y = true -> False).
    { intros y Hy Py. assert (Hin : In y (filter p r)) by (apply filter_In; split; assumption).
      rewrite Hnil in Hin. destruct Hin. }
    destruct Ha as [Ha|Ha]; destruct Hb as [Hb|Hb]; subst; try reflexivity;
      exfalso; eauto.
  - destruct Ha as [Ha|Ha]; [subst; congruence|].
    destruct Hb as [Hb|Hb]; [subst; congruence|].
    apply IH; assumption.
Qed.

(* ------------------------------------------------------------------ dict_get *)

Lemma dict_get_map_some {B} (f : entry -> B) (l : list entry) (k : str) (v : B) :
  dict_get (map (fun e => (e_key e, f e)) l) k = Some v ->
  exists e, In e l /\ e_key e = k /\ f e = v.
Proof.
  induction l as [|x r IH]; simpl; intro H; [discriminate|].
  destruct (dict_get (map (fun e => (e_key e, f e)) r) k) eqn:E.
  - inversion H; subst. destruct (IH eq_refl) as [e [He [Hk Hf]]]. exists e. auto.
  - destruct (str_eqb (e_key x) k) eqn:K; [|discriminate].
    inversion H; subst. apply str_eqb_spec in K. exists x. auto.
Qed.

Lemma dict_get_map_in {B} (f : entry -> B) (l : list entry) (e : entry) :
  In e l ->
  exists e', In e' l /\ e_key e' = e_key e /\
             dict_get (map (fun e => (e_key e, f e)) l) (e_key e) = Some (f e').
Proof.
  induction l as [|x r IH]; intro H; [destruct H|].
  simpl. destruct (dict_get (map (fun e0 => (e_key e0, f e0)) r) (e_key e)) eqn:E.
  - apply dict_get_map_some in E. destruct E as [e' [He' [Hk Hf]]].
    exists e'. subst. auto.
  - destruct H as [H|H].
    + subst. rewrite str_eqb_refl. exists e. auto.
    + destruct (IH H) as [e' [_ [_ Hd]]]. congruence.
Qed.

Lemma dict_get_map_none {B} (f : entry -> B) (l : list entry) (k : str) :
  dict_get (map (fun e => (e_key e, f e)) l) k = None ->
  forall e, In e l -> e_key e <> k.
Proof.
  intros H e He Hk. subst.
  destruct (dict_get_map_in f l e He) as [e' [_ [_ Hd]]]. congruence.
Qed.

(* ------------------------------------------------------------------ blanks *)

Definition no_space (s : str) : Prop := has_space s = false.

Lemma split_last_space_none s : no_space s -> split_last_space s = None.
Proof.
  unfold no_space. induction s as [|c r IH]; simpl; intro H; [reflexivity|].
  apply orb_false_iff in H as [H1 H2]. rewrite (IH H2), H1. reflexivity.
Qed.

Lemma split_last_space_app a b :
  no_space b -> split_last_space (a ++ 32%N :: b) = Some (a, b).
Proof.
  intro Hb. induction a as [|c r IH]; simpl.
  - rewrite (split_last_space_none b Hb). reflexivity.
  - rewrite IH. reflexivity.
Qed.

Lemma rpartition_app a b : no_space b -> rpartition_space (a ++ 32%N :: b) = (a, b).
Proof. intro Hb. unfold rpartition_space. rewrite split_last_space_app; auto. Qed.

Lemma rpartition_none s : no_space s -> rpartition_space s = ([], s).
Proof. intro H. unfold rpartition_space. rewrite split_last_space_none; auto. Qed.

Lemma first_word_app a b : no_space a -> first_word (a ++ 32%N :: b) = a.
Proof.
  unfold no_space. induction a as [|c r IH]; simpl; intro H; [reflexivity|].
  apply orb_false_iff in H as [H1 H2]. rewrite H1, (IH H2). reflexivity.
Qed.

Lemma has_space_app a b : has_space (a ++ 32%N :: b) = true.
Proof.
  unfold has_space. rewrite existsb_app. simpl. rewrite orb_true_r. reflexivity.
Qed.

(* ================================================================== derived entries *)

Lemma wf_unit_of S U : wf_schema S = true -> In U (all_units S) -> wf_unit S U = true.
Proof.
  unfold wf_schema. intros H HU. apply andb_true_iff in H as [H _].
  rewrite forallb_forall in H. auto.
Qed.

Lemma wf_mod_of S m : wf_schema S = true -> In m (s_mods S) -> wf_mod m = true.
Proof.
  unfold wf_schema. intros H Hm. apply andb_true_iff in H as [_ H].
  rewrite forallb_forall in H. auto.
Qed.

Lemma all_units_in S C U : In C (s_classes S) -> In U (c_units C) -> In U (all_units S).
Proof. intros HC HU. unfold all_units. apply in_flat_map. exists C. auto. Qed.

Lemma mods_of_unit S U : wf_unit S U = true ->
  forall m, In m (get_modifiers_for_unit S (u_name U)) <-> In m (s_mods S) /\ permitted U m = true.
Proof.
  unfold wf_unit. intros H m.
  apply andb_true_iff in H as [H _]. apply andb_true_iff in H as [H _].
  unfold get_modifiers_for_unit, permitted.
  destruct (units_getitem S (u_name U)) as [U'|] eqn:E; [|discriminate].
  apply andb_true_iff in H as [H1 H2]. apply eqb_prop in H1. apply eqb_prop in H2.
  rewrite H1, H2.
  destruct (u_si U); simpl.
  - destruct (u_symbol U); rewrite filter_In; tauto.
  - split; [intros []|intros [_ F]; discriminate].
Qed.

Lemma nonsym_mod_fold m : wf_mod m = true -> m_si_mod m = true -> casefold (m_name m) = m_name m.
Proof.
  unfold wf_mod. intros H Hs. apply andb_true_iff in H as [H _]. rewrite Hs in H. simpl in H.
  apply str_eqb_spec. exact H.
Qed.

Lemma plural_fold S U : wf_unit S U = true -> u_symbol U = false -> casefold (u_plural U) = u_plural U.
Proof.
  unfold wf_unit. intros H Hs. apply andb_true_iff in H as [H _]. apply andb_true_iff in H as [_ H].
  rewrite Hs in H. simpl in H. apply str_eqb_spec. exact H.
Qed.

Lemma base_units_sym U : u_symbol U = true -> base_units U = [u_name U].
Proof. unfold base_units. intro H. rewrite H. reflexivity. Qed.

Lemma base_units_nonsym U : u_symbol U = false ->
  forall b, In b (base_units U) <-> b = lower (u_name U) \/ b = u_plural U.
Proof.
  unfold base_units. intros H b. rewrite H.
  destruct (str_eqb (u_plural U) (lower (u_name U))) eqn:E; simpl.
  - apply str_eqb_spec in E. rewrite E. intuition.
  - intuition.
Qed.

Lemma unit_entries_unit S U e : In e (unit_entries S U) -> e_unit e = U.
Proof.
  unfold unit_entries. intro H. apply in_flat_map in H as [b [_ H]].
  destruct H as [H|H]; [subst; reflexivity|].
  apply in_map_iff in H as [m [H _]]. subst. reflexivity.
Qed.

Lemma unit_entries_char S U e :
  In e (unit_entries S U) <->
  exists b, In b (base_units U) /\
    (e = mkEntry b U None \/
     exists m, In m (get_modifiers_for_unit S (u_name U)) /\ e = mkEntry (m_name m ++ b) U (Some m)).
Proof.
  unfold unit_entries. rewrite in_flat_map. split.
  - intros [b [Hb H]]. exists b. split; [exact Hb|].
    destruct H as [H|H]; [left; auto|]. right.
    apply in_map_iff in H as [m [H Hm]]. exists m. auto.
  - intros [b [Hb H]]. exists b. split; [exact Hb|].
    destruct H as [H|[m [Hm H]]]; [left; auto|]. right.
    apply in_map_iff. exists m. auto.
Qed.

Lemma class_entries_in S C e :
  In e (class_entries S C) <-> exists U, In U (c_units C) /\ In e (unit_entries S U).
Proof. unfold class_entries. apply in_flat_map. Qed.

Lemma tag_entries_in S cs e :
  In e (tag_entries S cs) <-> exists C, In C cs /\ In e (class_entries S C).
Proof. unfold tag_entries. apply in_flat_map. Qed.

Lemma cands_in S cs t e :
  In e (cands S cs t) <-> In e (tag_entries S cs) /\ entry_matches t e = true.
Proof. unfold cands. apply filter_In. Qed.

(* a derived key that matches the text is a spelling in the sense of the statement ... *)
Lemma entry_spells S U t e :
  wf_schema S = true -> In U (all_units S) ->
  In e (unit_entries S U) -> entry_matches t e = true -> spells S U (e_mod e) t.
Proof.
  intros Hwf HU He Hm.
  pose proof (wf_unit_of S U Hwf HU) as HwU.
  pose proof (mods_of_unit S U HwU) as Hmods.
  pose proof (unit_entries_unit S U e He) as Hu.
  unfold entry_matches in Hm. rewrite Hu in Hm.
  apply unit_entries_char in He as [b [Hb He]].
  unfold spells. destruct (u_symbol U) eqn:Hs.
  - rewrite (base_units_sym U Hs) in Hb. destruct Hb as [Hb|[]]. subst b.
    apply str_eqb_spec in Hm.
    destruct He as [He|[m [Hmm He]]]; subst e; simpl in *.
    + split; [exact I|]. symmetry. exact Hm.
    + split; [apply Hmods; exact Hmm|]. symmetry. exact Hm.
  - apply str_eqb_spec in Hm.
    apply (base_units_nonsym U Hs) in Hb.
    pose proof (plural_fold S U HwU Hs) as Hpl.
    destruct He as [He|[m [Hmm He]]]; subst e; simpl in *.
    + split; [exact I|]. destruct Hb as [Hb|Hb]; subst b.
      * left. symmetry. exact Hm.
      * right. rewrite Hpl. symmetry. exact Hm.
    + apply Hmods in Hmm. split; [exact Hmm|].
      destruct Hmm as [Hin Hp].
      assert (Hf : casefold (m_name m) = m_name m).
      { apply nonsym_mod_fold; [eapply wf_mod_of; eauto|].
        unfold permitted in Hp. rewrite Hs in Hp. apply andb_true_iff in Hp as [_ Hp]. exact Hp. }
      rewrite !casefold_app, Hf, Hpl.
      destruct Hb as [Hb|Hb]; subst b; [left|right]; symmetry; exact Hm.
Qed.

(* ... and every spelling is a derived key that matches the text *)
Lemma spells_entry S U M t :
  wf_schema S = true -> In U (all_units S) -> spells S U M t ->
  exists e, In e (unit_entries S U) /\ e_mod e = M /\ e_unit e = U /\ entry_matches t e = true.
Proof.
  intros Hwf HU [Hok Hsp].
  pose proof (wf_unit_of S U Hwf HU) as HwU.
  pose proof (mods_of_unit S U HwU) as Hmods.
  destruct (u_symbol U) eqn:Hs.
  - exists (mkEntry (mod_name M ++ u_name U) U M). simpl.
    split; [|split; [reflexivity|split; [reflexivity|]]].
    + apply unit_entries_char. exists (u_name U). rewrite (base_units_sym U Hs).
      split; [left; reflexivity|].
      destruct M as [m|]; simpl; [right|left; reflexivity].
      exists m. split; [apply Hmods; exact Hok|reflexivity].
    + unfold entry_matches. simpl. rewrite Hs. apply str_eqb_spec. symmetry. exact Hsp.
  - pose proof (plural_fold S U HwU Hs) as Hpl.
    assert (Hf : casefold (mod_name M) = mod_name M).
    { destruct M as [m|]; simpl; [|reflexivity].
      destruct Hok as [Hin Hp]. apply nonsym_mod_fold; [eapply wf_mod_of; eauto|].
      unfold permitted in Hp. rewrite Hs in Hp. apply andb_true_iff in Hp as [_ Hp]. exact Hp. }
    rewrite !casefold_app, Hf, Hpl in Hsp.
    assert (Hb : exists b, In b (base_units U) /\ casefold t = mod_name M ++ b).
    { destruct Hsp as [H|H].
      - exists (lower (u_name U)). split; [apply (base_units_nonsym U Hs); left; reflexivity|exact H].
      - exists (u_plural U). split; [apply (base_units_nonsym U Hs); right; reflexivity|exact H]. }
    destruct Hb as [b [Hb Hk]].
    exists (mkEntry (mod_name M ++ b) U M). simpl.
    split; [|split; [reflexivity|split; [reflexivity|]]].
    + apply unit_entries_char. exists b. split; [exact Hb|].
      destruct M as [m|]; simpl; [right|left; reflexivity].
      exists m. split; [apply Hmods; exact Hok|reflexivity].
    + unfold entry_matches. simpl. rewrite Hs. apply str_eqb_spec. symmetry. exact Hk.
Qed.

(* ================================================================== class-level lookup *)

Lemma gdue_some S C t U :
  get_derivative_unit_entry S C t = Some U ->
  exists e, In e (class_entries S C) /\ e_unit e = U /\ entry_matches t e = true.
Proof.
  unfold get_derivative_unit_entry, class_derivative_units.
  set (d := map (fun e => (e_key e, e_unit e)) (class_entries S C)).
  assert (Hsecond :
    match dict_get d (casefold t) with
    | Some U0 => if u_symbol U0 then None else Some U0
    | None => None
    end = Some U ->
    exists e, In e (class_entries S C) /\ e_unit e = U /\ entry_matches t e = true).
  { destruct (dict_get d (casefold t)) as [U2|] eqn:E2; [|discriminate].
    destruct (u_symbol U2) eqn:S2; [discriminate|].
    intro H. inversion H; subst U2.
    apply dict_get_map_some in E2 as [e [He [Hk Hu]]].
    exists e. split; [exact He|]. split; [exact Hu|].
    unfold entry_matches. rewrite Hu, S2. apply str_eqb_spec. exact Hk. }
  destruct (dict_get d t) as [U1|] eqn:E1; [|exact Hsecond].
  destruct (u_symbol U1) eqn:S1; [|exact Hsecond].
  intro H. inversion H; subst U1.
  apply dict_get_map_some in E1 as [e [He [Hk Hu]]].
  exists e. split; [exact He|]. split; [exact Hu|].
  unfold entry_matches. rewrite Hu, S1. apply str_eqb_spec. exact Hk.
Qed.

Lemma unamb_keys S cs t :
  unamb S cs t = true ->
  (forall a b, In a (tag_entries S cs) -> In b (tag_entries S cs) -> e_key a = t -> e_key b = t -> a = b) /\
  (forall a b, In a (tag_entries S cs) -> In b (tag_entries S cs) ->
               e_key a = casefold t -> e_key b = casefold t -> a = b) /\
  (forall a b, In a (cands S cs t) -> In b (cands S cs t) -> a = b).
Proof.
  unfold unamb. intro H. apply andb_true_iff in H as [H H3]. apply andb_true_iff in H as [H1 H2].
  apply Nat.leb_le in H1. apply Nat.leb_le in H2. apply Nat.leb_le in H3.
  split; [|split].
  - intros a b Ha Hb Ka Kb.
    apply (filter_le1_unique _ _ H1 a b Ha Hb); apply str_eqb_spec; assumption.
  - intros a b Ha Hb Ka Kb.
    apply (filter_le1_unique _ _ H2 a b Ha Hb); apply str_eqb_spec; assumption.
  - intros a b Ha Hb. unfold cands in *.
    apply filter_In in Ha as [Ha Pa]. apply filter_In in Hb as [Hb Pb].
    apply (filter_le1_unique _ _ H3 a b Ha Hb Pa Pb).
Qed.

Lemma gdue_unique S cs C t e :
  In C cs -> unamb S cs t = true ->
  In e (class_entries S C) -> entry_matches t e = true ->
  get_derivative_unit_entry S C t = Some (e_unit e).
Proof.
  intros HC Hun He Hm.
  destruct (unamb_keys S cs t Hun) as [Hk1 [Hk2 Hc]].
  assert (Hin : forall x, In x (class_entries S C) -> In x (tag_entries S cs)).
  { intros x Hx. apply tag_entries_in. exists C. auto. }
  unfold get_derivative_unit_entry, class_derivative_units.
  set (d := map (fun e => (e_key e, e_unit e)) (class_entries S C)).
  pose proof Hm as Hm'. unfold entry_matches in Hm'.
  destruct (u_symbol (e_unit e)) eqn:Hs; apply str_eqb_spec in Hm'.
  - destruct (dict_get_map_in e_unit (class_entries S C) e He) as [e' [He' [Hk Hd]]].
    fold d in Hd. rewrite Hm' in Hd, Hk.
    assert (e' = e) by (apply Hk1; auto). subst e'.
    rewrite Hd, Hs. reflexivity.
  - destruct (dict_get_map_in e_unit (class_entries S C) e He) as [e' [He' [Hk Hd]]].
    fold d in Hd. rewrite Hm' in Hd, Hk.
    assert (e' = e) by (apply Hk2; auto). subst e'.
    rewrite Hd, Hs.
    destruct (dict_get d t) as [U1|] eqn:E1; [|reflexivity].
    destruct (u_symbol U1) eqn:S1; [|reflexivity].
    exfalso. apply dict_get_map_some in E1 as [e1 [He1 [Hk1' Hu1]]].
    assert (e1 = e).
    { apply Hc; apply cands_in; split; auto.
      unfold entry_matches. rewrite Hu1, S1. apply str_eqb_spec. exact Hk1'. }
    subst e1. congruence.
Qed.

(* ================================================================== more on blanks *)

Lemma split_first_space_app a b :
  no_space a -> split_first_space (a ++ 32%N :: b) = Some (a, b).
Proof.
  unfold no_space. induction a as [|c r IH]; simpl; intro H; [reflexivity|].
  apply orb_false_iff in H as [H1 H2]. rewrite H1, (IH H2). reflexivity.
Qed.

Lemma partition_app a b : no_space a -> partition_space (a ++ 32%N :: b) = (a, b).
Proof. intro H. unfold partition_space. rewrite split_first_space_app; auto. Qed.

Lemma split_first_space_none s : no_space s -> split_first_space s = None.
Proof.
  unfold no_space. induction s as [|c r IH]; simpl; intro H; [reflexivity|].
  apply orb_false_iff in H as [H1 H2]. rewrite H1, (IH H2). reflexivity.
Qed.

Lemma split_last_space_some a b :
  exists v w, split_last_space (a ++ 32%N :: b) = Some (v, w) /\ (a <> [] -> v <> []).
Proof.
  induction a as [|c r IH]; simpl.
  - destruct (split_last_space b) as [[v u]|].
    + exists (32%N :: v), u. split; [reflexivity|congruence].
    + exists [], b. split; [reflexivity|congruence].
  - destruct IH as [v [w [E _]]]. rewrite E. exists (c :: v), w. split; [reflexivity|discriminate].
Qed.

Lemma rpart_nonempty n u v w :
  rpartition_space (n ++ 32%N :: u) = (v, w) -> n <> [] -> v <> [].
Proof.
  unfold rpartition_space. destruct (split_last_space_some n u) as [v' [w' [E Hne]]].
  rewrite E. intro H. inversion H; subst. exact Hne.
Qed.

(* ================================================================== the loop over the tag's unit classes *)

Definition guard (f4 : bool) (num : str) : bool := negb f4 || negb (has_space num).

Lemma portion_loop_some f4 S cs v w num ut sv ut' U :
  portion_loop f4 S cs v w num ut = Some (sv, ut', U) ->
  (sv = num /\ ut' = ut /\ u_prefix U = false /\ guard f4 num = true /\
     exists C, In C cs /\ get_derivative_unit_entry S C ut = Some U) \/
  (sv = w /\ ut' = v /\ u_prefix U = true /\ exists C, In C cs /\ get_derivative_unit_entry S C v = Some U).
Proof.
  induction cs as [|C rest IH]; simpl; [discriminate|].
  fold (guard f4 num).
  assert (Hrest : portion_loop f4 S rest v w num ut = Some (sv, ut', U) ->
    (sv = num /\ ut' = ut /\ u_prefix U = false /\ guard f4 num = true /\
       exists C0, (C = C0 \/ In C0 rest) /\ get_derivative_unit_entry S C0 ut = Some U) \/
    (sv = w /\ ut' = v /\ u_prefix U = true /\
       exists C0, (C = C0 \/ In C0 rest) /\ get_derivative_unit_entry S C0 v = Some U)).
  { intro H. destruct (IH H) as [[A [B [P [G [C0 [HC0 G0]]]]]]|[A [B [P [C0 [HC0 G0]]]]]]; [left|right].
    - split; [exact A|split; [exact B|split; [exact P|split; [exact G|exists C0; auto]]]].
    - split; [exact A|split; [exact B|split; [exact P|exists C0; auto]]]. }
  assert (Hpre :
    match get_derivative_unit_entry S C v with
    | Some U0 => if u_prefix U0 then Some (w, v, U0) else portion_loop f4 S rest v w num ut
    | None => portion_loop f4 S rest v w num ut
    end = Some (sv, ut', U) ->
    (sv = num /\ ut' = ut /\ u_prefix U = false /\ guard f4 num = true /\
       exists C0, (C = C0 \/ In C0 rest) /\ get_derivative_unit_entry S C0 ut = Some U) \/
    (sv = w /\ ut' = v /\ u_prefix U = true /\
       exists C0, (C = C0 \/ In C0 rest) /\ get_derivative_unit_entry S C0 v = Some U)).
  { destruct (get_derivative_unit_entry S C v) as [U0|] eqn:G0; [|exact Hrest].
    destruct (u_prefix U0) eqn:P0; [|exact Hrest].
    intro H. inversion H; subst. right. repeat split; auto. exists C. auto. }
  destruct (get_derivative_unit_entry S C ut) as [U1|] eqn:G1; [|exact Hpre].
  destruct (u_prefix U1) eqn:P1; simpl; [exact Hpre|].
  destruct (guard f4 num) eqn:Gd; [|exact Hpre].
  intro H. inversion H; subst. left. repeat split; auto. exists C. auto.
Qed.

(* unit after the number: the text before the last blank is no unit, every hit for the unit text is the same
   non-prefix unit, the number is a single word (or the guard is off) *)
Lemma portion_loop_suffix f4 S cs v w num ut U :
  (forall C, In C cs -> get_derivative_unit_entry S C v = None) ->
  (forall C U', In C cs -> get_derivative_unit_entry S C ut = Some U' -> U' = U) ->
  (exists C, In C cs /\ get_derivative_unit_entry S C ut = Some U) ->
  u_prefix U = false -> guard f4 num = true ->
  portion_loop f4 S cs v w num ut = Some (num, ut, U).
Proof.
  intros Hv Hu [C0 [HC0 G0]] HP HG.
  induction cs as [|C rest IH]; [destruct HC0|].
  simpl. fold (guard f4 num). rewrite (Hv C (or_introl eq_refl)).
  destruct (get_derivative_unit_entry S C ut) as [U1|] eqn:G1.
  - assert (U1 = U) by (apply (Hu C U1); [left; reflexivity|exact G1]). subst U1.
    rewrite HP, HG. reflexivity.
  - destruct HC0 as [HC0|HC0]; [subst C0; congruence|].
    apply IH; auto.
    + intros C1 H1. apply Hv. right. exact H1.
    + intros C1 U' H1. apply Hu. right. exact H1.
Qed.

(* prefix-type unit before the number *)
Lemma portion_loop_prefix f4 S cs v w num ut U :
  (forall C, In C cs -> get_derivative_unit_entry S C ut = None) ->
  (forall C U', In C cs -> get_derivative_unit_entry S C v = Some U' -> U' = U) ->
  (exists C, In C cs /\ get_derivative_unit_entry S C v = Some U) ->
  u_prefix U = true ->
  portion_loop f4 S cs v w num ut = Some (w, v, U).
Proof.
  intros Hu Hv [C0 [HC0 G0]] HP.
  induction cs as [|C rest IH]; [destruct HC0|].
  simpl. rewrite (Hu C (or_introl eq_refl)).
  destruct (get_derivative_unit_entry S C v) as [U1|] eqn:G1.
  - assert (U1 = U) by (apply (Hv C U1); [left; reflexivity|exact G1]). subst U1.
    rewrite HP. reflexivity.
  - destruct HC0 as [HC0|HC0]; [subst C0; congruence|].
    apply IH; auto.
    + intros C1 H1. apply Hu. right. exact H1.
    + intros C1 U' H1. apply Hv. right. exact H1.
Qed.

Lemma portion_loop_none f4 S cs v w num ut :
  (guard f4 num = false \/
   forall C U', In C cs -> get_derivative_unit_entry S C ut = Some U' -> u_prefix U' = true) ->
  (forall C U', In C cs -> get_derivative_unit_entry S C v = Some U' -> u_prefix U' = false) ->
  portion_loop f4 S cs v w num ut = None.
Proof.
  intros Hu Hv. induction cs as [|C rest IH]; [reflexivity|].
  simpl. fold (guard f4 num).
  assert (IH' : portion_loop f4 S rest v w num ut = None).
  { apply IH.
    - destruct Hu as [Hu|Hu]; [left; exact Hu|right]. intros C1 U' H1. apply Hu. right. exact H1.
    - intros C1 U' H1. apply Hv. right. exact H1. }
  assert (Hpre :
    match get_derivative_unit_entry S C v with
    | Some U0 => if u_prefix U0 then Some (w, v, U0) else portion_loop f4 S rest v w num ut
    | None => portion_loop f4 S rest v w num ut
    end = None).
  { destruct (get_derivative_unit_entry S C v) as [U0|] eqn:G0; [|exact IH'].
    rewrite (Hv C U0 (or_introl eq_refl) G0). exact IH'. }
  destruct (get_derivative_unit_entry S C ut) as [U1|] eqn:G1; [|exact Hpre].
  destruct Hu as [Hu|Hu].
  - rewrite Hu, andb_false_r. exact Hpre.
  - rewrite (Hu C U1 (or_introl eq_refl) G1). simpl. exact Hpre.
Qed.

(* with a single-word number the guard of fix: 537f494 (C11-F4) changes nothing ... *)
Lemma portion_loop_guard_irrel f4 S cs v w num ut :
  has_space num = false -> portion_loop f4 S cs v w num ut = portion_loop false S cs v w num ut.
Proof.
  intro H. induction cs as [|C rest IH]; [reflexivity|].
  simpl. rewrite IH, H. simpl. rewrite orb_true_r. reflexivity.
Qed.

(* ... and with single-word number and unit texts neither does fix: 0669633 (C11-F3) *)
Lemma portion_flags_single f3 f4 S cs a b :
  no_space a -> no_space b ->
  get_tag_units_portion f3 f4 S cs (a ++ 32%N :: b) = get_tag_units_portion false false S cs (a ++ 32%N :: b).
Proof.
  intros Ha Hb. unfold get_tag_units_portion.
  rewrite (rpartition_app a b Hb), (partition_app a b Ha).
  destruct (negb (nonempty b)); [reflexivity|].
  destruct f3; apply portion_loop_guard_irrel; exact Ha.
Qed.

(* ================================================================== bridging lookup and specification *)

Section Tag.
Variable S : uschema.
Variable cs : list classdef.
Hypothesis Hwf : wf_schema S = true.
Hypothesis Hcs : forall C, In C cs -> In C (s_classes S).

Lemma hit_spelled C t U :
  In C cs -> get_derivative_unit_entry S C t = Some U ->
  In U (c_units C) /\ exists M, spells S U M t.
Proof.
  intros HC G. apply gdue_some in G as [e [He [Hu Hm]]].
  apply class_entries_in in He as [U' [HU' He]].
  pose proof (unit_entries_unit S U' e He) as Hu'. rewrite Hu in Hu'. subst U'.
  split; [exact HU'|]. exists (e_mod e).
  eapply entry_spells; eauto. eapply all_units_in; eauto.
Qed.

Lemma spelled_hit C U M t :
  unamb S cs t = true -> In C cs -> In U (c_units C) -> spells S U M t ->
  exists e, In e (unit_entries S U) /\ In e (cands S cs t) /\ e_mod e = M /\ e_unit e = U /\
            entry_matches t e = true /\ get_derivative_unit_entry S C t = Some U.
Proof.
  intros Hun HC HU Hsp.
  destruct (spells_entry S U M t Hwf (all_units_in S C U (Hcs C HC) HU) Hsp) as [e [He [Hmod [Hu Hm]]]].
  assert (HeC : In e (class_entries S C)) by (apply class_entries_in; exists U; auto).
  exists e. repeat split; auto.
  - apply cands_in. split; [apply tag_entries_in; exists C; auto|exact Hm].
  - rewrite <- Hu. eapply gdue_unique; eauto.
Qed.

Lemma hit_unique t e C' U' :
  unamb S cs t = true -> In e (cands S cs t) ->
  In C' cs -> get_derivative_unit_entry S C' t = Some U' -> U' = e_unit e.
Proof.
  intros Hun He HC' G.
  destruct (unamb_keys S cs t Hun) as [_ [_ Hc]].
  apply gdue_some in G as [e' [He' [Hu' Hm']]].
  assert (e' = e).
  { apply Hc; [|exact He]. apply cands_in. split; [|exact Hm'].
    apply tag_entries_in. exists C'. auto. }
  subst e'. symmetry. exact Hu'.
Qed.

Lemma no_cands_no_hit n C :
  cands S cs n = [] -> In C cs -> get_derivative_unit_entry S C n = None.
Proof.
  intros Hn HC. destruct (get_derivative_unit_entry S C n) as [U|] eqn:G; [|reflexivity].
  exfalso. apply gdue_some in G as [e [He [_ Hm]]].
  assert (Hin : In e (cands S cs n)).
  { apply cands_in. split; [|exact Hm]. apply tag_entries_in. exists C. auto. }
  rewrite Hn in Hin. destruct Hin.
Qed.

(* ------------------------------------------------------------------ "<number> <unit text>", splitting as in /repo since fix: 537f494, 0669633
   (f3 = f4 = true): n is the number (one word), u the unit text (ANY number of words), (v, w) the split of the
   whole extension at its last blank, which is the one tried for prefix-type units *)

Lemma portion_exact n u v w C U M :
  no_space n -> rpartition_space (n ++ 32%N :: u) = (v, w) -> w <> [] ->
  cands S cs v = [] -> unamb S cs u = true ->
  In C cs -> In U (c_units C) -> spells S U M u -> u_prefix U = false ->
  get_tag_units_portion true true S cs (n ++ 32%N :: u) = Some (n, u, U).
Proof.
  intros Hns Hr Hw Hv Hun HC HU Hsp HP.
  unfold get_tag_units_portion. rewrite Hr, (partition_app n u Hns).
  destruct w as [|c w']; [congruence|]. simpl nonempty. simpl negb. cbv iota.
  destruct (spelled_hit C U M u Hun HC HU Hsp) as [e [_ [Hc [_ [Hu [_ G]]]]]].
  apply portion_loop_suffix; auto.
  - intros C1 H1. apply no_cands_no_hit; auto.
  - intros C1 U' H1 G1. rewrite <- Hu. eapply hit_unique; eauto.
  - exists C. auto.
  - unfold guard. rewrite Hns. reflexivity.
Qed.

Lemma portion_spelled n u v w r :
  no_space n -> rpartition_space (n ++ 32%N :: u) = (v, w) -> cands S cs v = [] ->
  get_tag_units_portion true true S cs (n ++ 32%N :: u) = Some r -> spelled_in S cs false u.
Proof.
  intros Hns Hr Hv. unfold get_tag_units_portion. rewrite Hr, (partition_app n u Hns).
  destruct (negb (nonempty w)); [discriminate|].
  destruct r as [[sv ut] U]. intro H.
  apply portion_loop_some in H as [[_ [_ [P [_ [C [HC G]]]]]]|[_ [_ [_ [C [HC G]]]]]].
  - destruct (hit_spelled C u U HC G) as [HU [M Hsp]].
    exists C, U, M. auto.
  - rewrite (no_cands_no_hit v C Hv HC) in G. discriminate.
Qed.

(* ------------------------------------------------------------------ validation codes *)

Lemma accepted_clean_lemma (T : utag) n u v w :
  no_space n -> n <> [] -> u <> [] ->
  rpartition_space (n ++ 32%N :: u) = (v, w) -> w <> [] -> cands S cs v = [] -> unamb S cs u = true ->
  spelled_in S cs false u ->
  check_units_valid true true S T cs (n ++ 32%N :: u) = check_value_class T n.
Proof.
  intros Hns Hnn Hne Hr Hw Hv Hun [C [U [M [HC [HU [Hsp HP]]]]]].
  unfold check_units_valid, get_stripped_unit_value.
  rewrite (portion_exact n u v w C U M); auto.
  destruct n as [|c0 n']; [congruence|]. simpl nonempty. cbv iota.
  rewrite Hns.
  destruct u as [|c u']; [congruence|]. apply app_nil_r.
Qed.

Lemma other_text_invalid_lemma (T : utag) n u v w :
  no_space n -> rpartition_space (n ++ 32%N :: u) = (v, w) -> cands S cs v = [] ->
  ~ spelled_in S cs false u ->
  check_units_valid true true S T cs (n ++ 32%N :: u) = check_value_class T n ++ [UNITS_INVALID].
Proof.
  intros Hns Hr Hv Hnot.
  unfold check_units_valid, get_stripped_unit_value.
  destruct (get_tag_units_portion true true S cs (n ++ 32%N :: u)) as [r|] eqn:E.
  - exfalso. apply Hnot. eapply portion_spelled; eauto.
  - rewrite has_space_app. rewrite (first_word_app n u Hns). reflexivity.
Qed.

Theorem accepted_iff_lemma (T : utag) n u v w :
  no_space n -> n <> [] -> u <> [] ->
  rpartition_space (n ++ 32%N :: u) = (v, w) -> w <> [] -> cands S cs v = [] -> unamb S cs u = true ->
  (check_units_valid true true S T cs (n ++ 32%N :: u) = check_value_class T n <-> spelled_in S cs false u).
Proof.
  intros Hns Hnn Hne Hr Hw Hv Hun. split.
  - intro H.
    destruct (get_tag_units_portion true true S cs (n ++ 32%N :: u)) as [r|] eqn:E.
    + eapply portion_spelled; eauto.
    + exfalso. revert H. unfold check_units_valid, get_stripped_unit_value. rewrite E.
      rewrite has_space_app, (first_word_app n u Hns).
      intro H. apply (f_equal (@length code)) in H. rewrite app_length in H. simpl in H. lia.
  - intro H. eapply accepted_clean_lemma; eauto.
Qed.

(* ------------------------------------------------------------------ conversion *)

Lemma factor_lookup (fixed : bool) C U e t ft :
  unamb S cs t = true -> In C cs -> In U (c_units C) ->
  In e (unit_entries S U) -> entry_matches t e = true ->
  u_factor U = Some ft ->
  (fixed = true \/ u_symbol U = true \/ casefold t = t) ->
  get_conversion_factor fixed S U t = Ok (Some (conv fixed U (e_mod e))).
Proof.
  intros Hun HC HU He Hm Hf Hkey.
  destruct (unamb_keys S cs t Hun) as [Hk1 [Hk2 _]].
  pose proof (unit_entries_unit S U e He) as Hu.
  assert (Hin : forall x, In x (unit_entries S U) -> In x (tag_entries S cs)).
  { intros x Hx. apply tag_entries_in. exists C. split; [exact HC|].
    apply class_entries_in. exists U. auto. }
  unfold get_conversion_factor. rewrite Hf.
  unfold entry_matches in Hm. rewrite Hu in Hm.
  assert (Hk : (if fixed && negb (u_symbol U) then casefold t else t) = e_key e /\
               (forall x, In x (unit_entries S U) -> e_key x = e_key e -> x = e)).
  { destruct (u_symbol U) eqn:Hs; apply str_eqb_spec in Hm.
    - rewrite andb_false_r. split; [auto|].
      intros x Hx Kx. apply Hk1; auto; congruence.
    - rewrite andb_true_r. split.
      + destruct Hkey as [Hkey|[Hkey|Hkey]]; [rewrite Hkey; auto|discriminate|].
        destruct fixed; congruence.
      + intros x Hx Kx. apply Hk2; auto; congruence. }
  destruct Hk as [Hk Huniq]. rewrite Hk.
  unfold unit_derivative_units.
  destruct (dict_get_map_in (fun e0 => conv fixed U (e_mod e0)) (unit_entries S U) e He) as [e' [He' [Hk' Hd]]].
  rewrite (Huniq e' He' Hk') in Hd. rewrite Hd. reflexivity.
Qed.

Theorem value_suffix_core (fixed : bool) n u v w x C U M ft :
  no_space n -> n <> [] ->
  rpartition_space (n ++ 32%N :: u) = (v, w) -> w <> [] -> cands S cs v = [] -> unamb S cs u = true ->
  In C cs -> In U (c_units C) -> spells S U M u -> u_prefix U = false ->
  u_factor U = Some ft -> parse_float n = Some x ->
  (fixed = true \/ u_symbol U = true \/ casefold u = u) ->
  value_as_default_unit fixed true true S cs (n ++ 32%N :: u) = Ok (Some (Qmult x (conv fixed U M))).
Proof.
  intros Hns Hnn Hr Hw Hv Hun HC HU Hsp HP Hf Hx Hkey.
  unfold value_as_default_unit. rewrite Hr.
  pose proof (rpart_nonempty n u v w Hr Hnn) as Hvn.
  destruct v as [|cv v'] eqn:Ev; [congruence|]. rewrite <- Ev in *.
  assert (Hv' : nonempty v = true) by (rewrite Ev; reflexivity).
  rewrite Hv'. simpl negb. cbv iota. unfold bind.
  rewrite (portion_exact n u v w C U M); auto.
  destruct n as [|c0 n'] eqn:En; [congruence|]. rewrite <- En in *.
  assert (Hne' : nonempty n = true) by (rewrite En; reflexivity).
  rewrite Hne'.
  destruct (spelled_hit C U M u Hun HC HU Hsp) as [e [He [_ [Hmod [_ [Hm _]]]]]].
  rewrite (factor_lookup fixed C U e u ft); auto.
  rewrite Hmod, Hx. reflexivity.
Qed.

Lemma value_suffix_no_factor (fixed : bool) n u v w C U M :
  no_space n -> n <> [] ->
  rpartition_space (n ++ 32%N :: u) = (v, w) -> w <> [] -> cands S cs v = [] -> unamb S cs u = true ->
  In C cs -> In U (c_units C) -> spells S U M u -> u_prefix U = false ->
  u_factor U = None ->
  value_as_default_unit fixed true true S cs (n ++ 32%N :: u) = Ok None.
Proof.
  intros Hns Hnn Hr Hw Hv Hun HC HU Hsp HP Hf.
  unfold value_as_default_unit. rewrite Hr.
  pose proof (rpart_nonempty n u v w Hr Hnn) as Hvn.
  destruct v as [|cv v'] eqn:Ev; [congruence|]. rewrite <- Ev in *.
  assert (Hv' : nonempty v = true) by (rewrite Ev; reflexivity).
  rewrite Hv'. simpl negb. cbv iota. unfold bind.
  rewrite (portion_exact n u v w C U M); auto.
  destruct n as [|c0 n'] eqn:En; [congruence|]. rewrite <- En in *.
  assert (Hne' : nonempty n = true) by (rewrite En; reflexivity).
  rewrite Hne'. unfold get_conversion_factor. rewrite Hf. reflexivity.
Qed.

(* an unrecognised unit text (any number of words): absent, never an exception *)
Theorem unrecognised_absent_lemma (fixed : bool) n u v w :
  no_space n -> n <> [] -> rpartition_space (n ++ 32%N :: u) = (v, w) ->
  ~ spelled_in S cs false u -> ~ spelled_in S cs true v ->
  value_as_default_unit fixed true true S cs (n ++ 32%N :: u) = Ok None.
Proof.
  intros Hns Hnn Hr Hnu Hnv.
  unfold value_as_default_unit. rewrite Hr.
  pose proof (rpart_nonempty n u v w Hr Hnn) as Hvn.
  destruct v as [|cv v'] eqn:Ev; [congruence|]. rewrite <- Ev in *.
  assert (Hv' : nonempty v = true) by (rewrite Ev; reflexivity).
  rewrite Hv'. simpl negb. cbv iota. unfold bind.
  assert (Hnone : get_tag_units_portion true true S cs (n ++ 32%N :: u) = None).
  { unfold get_tag_units_portion. rewrite Hr, (partition_app n u Hns).
    destruct (negb (nonempty w)); [reflexivity|].
    apply portion_loop_none.
    - right. intros C U' HC G. destruct (hit_spelled C u U' HC G) as [HU [M Hsp]].
      destruct (u_prefix U') eqn:P; [reflexivity|].
      exfalso. apply Hnu. exists C, U', M. auto.
    - intros C U' HC G. destruct (hit_spelled C v U' HC G) as [HU [M Hsp]].
      destruct (u_prefix U') eqn:P; [|reflexivity].
      exfalso. apply Hnv. exists C, U', M. auto. }
  rewrite Hnone. reflexivity.
Qed.

End Tag.

(* ================================================================== bare number (every schema, every switch) *)

Theorem bare_number_lemma (f3 f4 : bool) S (T : utag) cs n :
  n <> [] -> no_space n -> (t_numeric T = true -> is_numeric n = true) ->
  check_units_valid f3 f4 S T cs n = [UNITS_MISSING].
Proof.
  intros Hne Hns Hnum.
  assert (Hvc : check_value_class T n = []).
  { unfold check_value_class. destruct (t_numeric T); [rewrite (Hnum eq_refl)|]; reflexivity. }
  unfold check_units_valid, get_stripped_unit_value, get_tag_units_portion.
  rewrite (rpartition_none n Hns).
  destruct n as [|c0 n'] eqn:En; [congruence|]. rewrite <- En in *.
  assert (Hne' : nonempty n = true) by (rewrite En; reflexivity).
  rewrite Hne'. simpl negb. cbv iota.
  assert (Hpart : partition_space n = (n, [])).
  { unfold partition_space. rewrite (split_first_space_none n Hns). reflexivity. }
  rewrite Hpart.
  assert (Hfin : forall o : option (str * str * unitdef),
    (forall sv ut U, o = Some (sv, ut, U) -> sv = [] \/ (sv = n /\ ut = [])) ->
    (let (sv, unit) :=
       match o with
       | Some (sv, unit, _) => if nonempty sv then (sv, Some unit) else (n, None)
       | None => (n, None)
       end in
     check_value_class T (if has_space sv then first_word sv else sv) ++
     match unit with
     | Some (_ :: _) => []
     | _ => [if has_space sv then UNITS_INVALID else UNITS_MISSING]
     end) = [UNITS_MISSING]).
  { intros o Ho. destruct o as [[[sv ut] U]|].
    - destruct (Ho sv ut U eq_refl) as [A|[A B]]; subst sv.
      + simpl nonempty. cbv iota. rewrite Hns, Hvc. reflexivity.
      + subst ut. rewrite Hne'. rewrite Hns, Hvc. reflexivity.
    - rewrite Hns, Hvc. reflexivity. }
  destruct f3; apply Hfin; intros sv ut U E;
    apply portion_loop_some in E as [[A [B _]]|[A [B _]]]; subst; auto.
Qed.

(* ================================================================== factors *)

Lemma no_caret_replace t : no_caret t = true -> replace_caret t = t.
Proof.
  unfold no_caret, replace_caret. induction t as [|c r IH]; simpl; intro H; [reflexivity|].
  apply negb_true_iff in H. apply orb_false_iff in H as [H1 H2].
  rewrite H1. f_equal. apply IH. apply negb_true_iff. exact H2.
Qed.

Lemma no_caret_split t : no_caret t = true -> split_caret t = None.
Proof.
  unfold no_caret. induction t as [|c r IH]; simpl; intro H; [reflexivity|].
  apply negb_true_iff in H. apply orb_false_iff in H as [H1 H2].
  rewrite H1. rewrite IH; [reflexivity|]. apply negb_true_iff. exact H2.
Qed.

Lemma float_factor_no_caret t : no_caret t = true -> float_factor false t = float_factor true t.
Proof.
  intro H. unfold float_factor, factor_spec.
  rewrite (no_caret_replace t H), (no_caret_split t H). reflexivity.
Qed.

(* without a caret in the texts involved the code before fix: d18c9c6 computed the same factor as the code now *)
Lemma conv_no_caret U M :
  no_caret (factor_text (u_factor U)) = true ->
  (forall m, M = Some m -> no_caret (factor_text (m_factor m)) = true) ->
  conv false U M = conv true U M.
Proof.
  intros HU HM. unfold conv. rewrite (float_factor_no_caret _ HU).
  destruct (float_factor true (factor_text (u_factor U))); [|reflexivity].
  destruct M as [m|]; [|reflexivity].
  rewrite (float_factor_no_caret _ (HM m eq_refl)). reflexivity.
Qed.

(* the factor (since fix: d18c9c6) is the product of the declared factors, "a^b" read as a power *)
Lemma conv_true_spec U M ft fU fM :
  u_factor U = Some ft -> unit_factor U = Some fU -> mod_factor M = Some fM ->
  conv true U M = Qmult fU fM.
Proof.
  unfold unit_factor, mod_factor, conv, float_factor. intros Hf HU HM.
  rewrite Hf in *. simpl factor_text. rewrite HU.
  destruct M as [m|].
  - rewrite HM. reflexivity.
  - inversion HM. reflexivity.
Qed.

Lemma wf_unit_factor S U ft :
  wf_unit S U = true -> u_factor U = Some ft -> exists fU, unit_factor U = Some fU.
Proof.
  unfold wf_unit, unit_factor. intros H Hf. apply andb_true_iff in H as [_ H]. rewrite Hf in *.
  destruct (factor_spec ft) as [q|]; [exists q; reflexivity|discriminate].
Qed.

Lemma wf_mod_factor S U M :
  wf_schema S = true -> mod_ok S U M -> exists fM, mod_factor M = Some fM.
Proof.
  intros Hwf Hok. destruct M as [m|]; simpl; [|exists 1%Q; reflexivity].
  destruct Hok as [Hin _]. pose proof (wf_mod_of S m Hwf Hin) as H.
  unfold wf_mod in H. apply andb_true_iff in H as [_ H].
  destruct (factor_spec (factor_text (m_factor m))) as [q|]; [exists q; reflexivity|discriminate].
Qed.

(* ================================================================== the value clauses *)

Section Value.
Variable S : uschema.
Variable cs : list classdef.
Hypothesis Hwf : wf_schema S = true.
Hypothesis Hcs : forall C, In C cs -> In C (s_classes S).

(* the value is the number times the unit's and the prefix's declared factors *)
Theorem convert_value_lemma n u v w x C U M ft fU fM :
  no_space n -> n <> [] ->
  rpartition_space (n ++ 32%N :: u) = (v, w) -> w <> [] -> cands S cs v = [] -> unamb S cs u = true ->
  In C cs -> In U (c_units C) -> spells S U M u -> u_prefix U = false ->
  u_factor U = Some ft -> unit_factor U = Some fU -> mod_factor M = Some fM ->
  parse_float n = Some x ->
  value_as_default_unit true true true S cs (n ++ 32%N :: u) = Ok (Some (Qmult x (Qmult fU fM))).
Proof.
  intros. rewrite (value_suffix_core S cs Hwf Hcs true n u v w x C U M ft); auto.
  rewrite (conv_true_spec U M ft fU fM); auto.
Qed.

(* defined whenever the spelling is accepted and the unit declares a factor *)
Theorem convert_defined_lemma n u v w C U M ft :
  no_space n -> n <> [] ->
  rpartition_space (n ++ 32%N :: u) = (v, w) -> w <> [] -> cands S cs v = [] -> unamb S cs u = true ->
  In C cs -> In U (c_units C) -> spells S U M u -> u_prefix U = false ->
  u_factor U = Some ft -> is_numeric n = true ->
  exists q, value_as_default_unit true true true S cs (n ++ 32%N :: u) = Ok (Some q).
Proof.
  intros Hns Hnn Hr Hw Hv Hun HC HU Hsp HP Hf Hnum.
  assert (HUall : In U (all_units S)) by (eapply all_units_in; eauto).
  destruct (wf_unit_factor S U ft (wf_unit_of S U Hwf HUall) Hf) as [fU HfU].
  destruct (wf_mod_factor S U M Hwf (proj1 Hsp)) as [fM HfM].
  assert (Hx : exists x, parse_float n = Some x).
  { unfold is_numeric in Hnum. unfold parse_float.
    destruct (scan_num n) as [r|]; [exists (num_val r); reflexivity|discriminate]. }
  destruct Hx as [x Hx].
  eexists. eapply convert_value_lemma; eauto.
Qed.

(* record of findings 10/11: before the fix: commits f83491d/d18c9c6 (fixed = false) the value was right only
   when the text is the derived key itself and none of the two factor texts contains a caret *)
Theorem convert_value_partial_lemma n u v w x C U M ft fU fM :
  no_space n -> n <> [] ->
  rpartition_space (n ++ 32%N :: u) = (v, w) -> w <> [] -> cands S cs v = [] -> unamb S cs u = true ->
  In C cs -> In U (c_units C) -> spells S U M u -> u_prefix U = false ->
  u_factor U = Some ft -> unit_factor U = Some fU -> mod_factor M = Some fM ->
  parse_float n = Some x ->
  (u_symbol U = true \/ casefold u = u) ->
  no_caret ft = true -> (forall m, M = Some m -> no_caret (factor_text (m_factor m)) = true) ->
  value_as_default_unit false true true S cs (n ++ 32%N :: u) = Ok (Some (Qmult x (Qmult fU fM))).
Proof.
  intros Hns Hnn Hr Hw Hv Hun HC HU Hsp HP Hf HfU HfM Hx Hkey Hc1 Hc2.
  rewrite (value_suffix_core S cs Hwf Hcs false n u v w x C U M ft); auto.
  rewrite conv_no_caret; auto.
  - rewrite (conv_true_spec U M ft fU fM); auto.
  - rewrite Hf. exact Hc1.
Qed.

(* linear in the number *)
Theorem linear_lemma n1 n2 v1 v2 w x1 x2 k u C U M ft :
  no_space n1 -> no_space n2 -> n1 <> [] -> n2 <> [] ->
  rpartition_space (n1 ++ 32%N :: u) = (v1, w) -> rpartition_space (n2 ++ 32%N :: u) = (v2, w) -> w <> [] ->
  cands S cs v1 = [] -> cands S cs v2 = [] -> unamb S cs u = true ->
  In C cs -> In U (c_units C) -> spells S U M u -> u_prefix U = false ->
  u_factor U = Some ft ->
  parse_float n1 = Some x1 -> parse_float n2 = Some x2 -> Qeq x1 (Qmult k x2) ->
  exists q1 q2,
    value_as_default_unit true true true S cs (n1 ++ 32%N :: u) = Ok (Some q1) /\
    value_as_default_unit true true true S cs (n2 ++ 32%N :: u) = Ok (Some q2) /\
    Qeq q1 (Qmult k q2).
Proof.
  intros Hs1 Hs2 Hn1 Hn2 Hr1 Hr2 Hw Hc1 Hc2 Hun HC HU Hsp HP Hf Hx1 Hx2 Hk.
  exists (Qmult x1 (conv true U M)), (Qmult x2 (conv true U M)).
  split; [eapply value_suffix_core; eauto|].
  split; [eapply value_suffix_core; eauto|].
  rewrite Hk. ring.
Qed.

End Value.

(* ================================================================== prefix-type units: "<unit> <number>"
   (single-word unit text; the same under every switch) *)

Section Prefix.
Variable S : uschema.
Variable cs : list classdef.
Hypothesis Hwf : wf_schema S = true.
Hypothesis Hcs : forall C, In C cs -> In C (s_classes S).

Lemma portion_prefix_exact f3 f4 n u C U M :
  no_space n -> no_space u -> n <> [] -> cands S cs n = [] -> unamb S cs u = true ->
  In C cs -> In U (c_units C) -> spells S U M u -> u_prefix U = true ->
  get_tag_units_portion f3 f4 S cs (u ++ 32%N :: n) = Some (n, u, U).
Proof.
  intros Hns Hus Hne Hn Hun HC HU Hsp HP.
  rewrite (portion_flags_single f3 f4 S cs u n Hus Hns).
  unfold get_tag_units_portion. rewrite (rpartition_app u n Hns).
  destruct n as [|c n'] eqn:En; [congruence|]. rewrite <- En in *.
  assert (Hne' : nonempty n = true) by (rewrite En; reflexivity).
  rewrite Hne'. simpl negb. cbv iota.
  destruct (spelled_hit S cs Hwf Hcs C U M u Hun HC HU Hsp) as [e [_ [Hc [_ [Hu [_ G]]]]]].
  apply portion_loop_prefix; auto.
  - intros C1 H1. apply (no_cands_no_hit S cs); auto.
  - intros C1 U' H1 G1. rewrite <- Hu. eapply (hit_unique S cs); eauto.
  - exists C. auto.
Qed.

(* a prefix-type unit before the number is accepted *)
Theorem accepted_prefix_lemma f3 f4 (T : utag) n u :
  no_space n -> no_space u -> n <> [] -> u <> [] -> cands S cs n = [] -> unamb S cs u = true ->
  spelled_in S cs true u ->
  check_units_valid f3 f4 S T cs (u ++ 32%N :: n) = check_value_class T n.
Proof.
  intros Hns Hus Hne Hnu Hn Hun [C [U [M [HC [HU [Hsp HP]]]]]].
  unfold check_units_valid, get_stripped_unit_value.
  rewrite (portion_prefix_exact f3 f4 n u C U M); auto.
  destruct n as [|c0 n'] eqn:En; [congruence|]. rewrite <- En in *.
  assert (Hne' : nonempty n = true) by (rewrite En; reflexivity).
  rewrite Hne'. rewrite Hns.
  destruct u as [|c u']; [congruence|]. apply app_nil_r.
Qed.

Theorem value_prefix_lemma f3 f4 n u x C U M ft fU fM :
  no_space n -> no_space u -> n <> [] -> u <> [] -> cands S cs n = [] -> unamb S cs u = true ->
  In C cs -> In U (c_units C) -> spells S U M u -> u_prefix U = true ->
  u_factor U = Some ft -> unit_factor U = Some fU -> mod_factor M = Some fM ->
  parse_float n = Some x ->
  value_as_default_unit true f3 f4 S cs (u ++ 32%N :: n) = Ok (Some (Qmult x (Qmult fU fM))).
Proof.
  intros Hns Hus Hne Hnu Hn Hun HC HU Hsp HP Hf HfU HfM Hx.
  unfold value_as_default_unit. rewrite (rpartition_app u n Hns).
  destruct u as [|c0 u'] eqn:Eu; [congruence|]. rewrite <- Eu in *.
  assert (Hnu' : nonempty u = true) by (rewrite Eu; reflexivity).
  rewrite Hnu'. simpl negb. cbv iota. unfold bind.
  rewrite (portion_prefix_exact f3 f4 n u C U M); auto.
  destruct n as [|c1 n'] eqn:En; [congruence|]. rewrite <- En in *.
  assert (Hne' : nonempty n = true) by (rewrite En; reflexivity).
  rewrite Hne'.
  destruct (spelled_hit S cs Hwf Hcs C U M u Hun HC HU Hsp) as [e [He [_ [Hmod [_ [Hm _]]]]]].
  rewrite (factor_lookup S cs true C U e u ft); auto.
  rewrite Hmod, Hx. rewrite (conv_true_spec U M ft fU fM); auto.
Qed.

End Prefix.

(* ================================================================== a whole string: the unit rule is per tag *)

From Coq Require Import Permutation.

Lemma validate_tags_loop_acc f3 f4 S acc tags :
  validate_tags_loop f3 f4 S acc tags
  = acc ++ flat_map (fun te => validate_units f3 f4 S (fst te) (snd te)) tags.
Proof.
  unfold validate_tags_loop. revert acc.
  induction tags as [|te r IH]; intro acc; simpl.
  - rewrite app_nil_r. reflexivity.
  - rewrite IH, app_assoc. reflexivity.
Qed.

(* the issues of a string are the concatenation, over its tags in order, of the per-tag unit issues *)
Theorem string_is_concat_lemma f3 f4 S tags :
  validate_units_string f3 f4 S tags
  = flat_map (fun te => validate_units f3 f4 S (fst te) (snd te)) tags.
Proof. unfold validate_units_string. rewrite validate_tags_loop_acc. reflexivity. Qed.

(* the verdict on a tag does not depend on what stands before or after it in the string *)
Theorem string_tag_context_free_lemma f3 f4 S before T ext after :
  validate_units_string f3 f4 S (before ++ (T, ext) :: after)
  = validate_units_string f3 f4 S before ++ validate_units f3 f4 S T ext
    ++ validate_units_string f3 f4 S after.
Proof.
  rewrite !string_is_concat_lemma, flat_map_app. simpl. reflexivity.
Qed.

(* re-ordering the tags of a string only re-orders its unit issues *)
Theorem string_permutation_lemma f3 f4 S tags tags' :
  Permutation tags tags' ->
  Permutation (validate_units_string f3 f4 S tags) (validate_units_string f3 f4 S tags').
Proof.
  intro H. rewrite !string_is_concat_lemma.
  induction H as [|x l l' H IH|x y l|l l' l'' H1 IH1 H2 IH2]; simpl.
  - constructor.
  - apply Permutation_app_head. exact IH.
  - rewrite !app_assoc. apply Permutation_app_tail. apply Permutation_app_comm.
  - eapply Permutation_trans; eauto.
Qed.

(* ================================================================== texts with MORE than one reading
   (no [unamb] hypothesis): whatever the code answers is one of the readings *)

Section AnyReading.
Variable S : uschema.
Variable cs : list classdef.
Hypothesis Hwf : wf_schema S = true.
Hypothesis Hcs : forall C, In C cs -> In C (s_classes S).

(* a defined value is always the number times the factors of ONE genuine reading (U, M) of the unit text *)
Theorem value_is_a_reading_lemma (fixed : bool) n u v w q :
  no_space n -> n <> [] -> rpartition_space (n ++ 32%N :: u) = (v, w) -> cands S cs v = [] ->
  value_as_default_unit fixed true true S cs (n ++ 32%N :: u) = Ok (Some q) ->
  exists C U M x,
    In C cs /\ In U (c_units C) /\ spells S U M u /\ u_prefix U = false /\
    parse_float n = Some x /\ q = Qmult x (conv fixed U M).
Proof.
  intros Hns Hnn Hr Hv.
  unfold value_as_default_unit. rewrite Hr.
  pose proof (rpart_nonempty n u v w Hr Hnn) as Hvn.
  destruct v as [|cv v'] eqn:Ev; [congruence|]. rewrite <- Ev in *.
  assert (Hv' : nonempty v = true) by (rewrite Ev; reflexivity).
  rewrite Hv'. simpl negb. cbv iota. unfold bind.
  destruct (get_tag_units_portion true true S cs (n ++ 32%N :: u)) as [[[sv ut] U]|] eqn:E; [|discriminate].
  unfold get_tag_units_portion in E. rewrite Hr, (partition_app n u Hns) in E.
  destruct (negb (nonempty w)); [discriminate|].
  apply portion_loop_some in E as [[A [B [P [_ [C [HC G]]]]]]|[_ [_ [_ [C [HC G]]]]]].
  - subst sv ut.
    destruct (nonempty n); [|discriminate].
    destruct (hit_spelled S cs Hwf Hcs C u U HC G) as [HU _].
    unfold get_conversion_factor.
    destruct (u_factor U) as [ft|]; [|discriminate].
    set (key := if fixed && negb (u_symbol U) then casefold u else u).
    destruct (dict_get (unit_derivative_units fixed S U) key) as [q0|] eqn:D; [|discriminate].
    unfold unit_derivative_units in D.
    apply dict_get_map_some in D as [e [He [Hk Hq0]]].
    destruct (parse_float n) as [x|] eqn:Hx; [|discriminate].
    intro H. inversion H; subst q.
    exists C, U, (e_mod e), x.
    split; [exact HC|]. split; [exact HU|].
    split; [|split; [exact P|split; [reflexivity|rewrite Hq0; reflexivity]]].
    (* the key that was found matches the text, hence is a spelling *)
    assert (Hm : entry_matches u e = true \/ (fixed = false /\ u_symbol U = false /\ e_key e = u)).
    { unfold entry_matches. rewrite (unit_entries_unit S U e He). unfold key in Hk.
      destruct (u_symbol U) eqn:Hs.
      - left. rewrite andb_false_r in Hk. apply str_eqb_spec. exact Hk.
      - rewrite andb_true_r in Hk. destruct fixed.
        + left. apply str_eqb_spec. exact Hk.
        + right. auto. }
    destruct Hm as [Hm|[Hfx [Hs Hk']]].
    + eapply entry_spells; eauto. eapply all_units_in; eauto.
    + (* before fix f83491d a name was looked up by its exact text: the text is then its own folded form *)
      assert (Hfold : casefold u = u).
      { apply gdue_some in G as [e0 [He0 [Hu0 Hm0]]].
        unfold entry_matches in Hm0. rewrite Hu0, Hs in Hm0. apply str_eqb_spec in Hm0.
        (* e has key u and is a non-symbol entry of U: its key is case-folded *)
        pose proof (wf_unit_of S U Hwf (all_units_in S C U (Hcs C HC) HU)) as HwU.
        apply unit_entries_char in He as [b [Hb He]].
        apply (base_units_nonsym U Hs) in Hb.
        pose proof (plural_fold S U HwU Hs) as Hpl.
        assert (Hbf : casefold b = b).
        { destruct Hb as [Hb|Hb]; subst b; [apply casefold_idem|exact Hpl]. }
        destruct He as [He|[m [Hmm He]]]; subst e; simpl in Hk'.
        - rewrite <- Hk'. exact Hbf.
        - apply (mods_of_unit S U HwU) in Hmm as [Hin Hp].
          assert (Hf : casefold (m_name m) = m_name m).
          { apply nonsym_mod_fold; [eapply wf_mod_of; eauto|].
            unfold permitted in Hp. rewrite Hs in Hp. apply andb_true_iff in Hp as [_ Hp]. exact Hp. }
          rewrite <- Hk', casefold_app, Hf, Hbf. reflexivity. }
      eapply entry_spells; eauto; [eapply all_units_in; eauto|].
      unfold entry_matches. rewrite (unit_entries_unit S U e He), Hs, Hfold.
      apply str_eqb_spec. exact Hk'.
  - rewrite (no_cands_no_hit S cs v C Hv HC) in G. discriminate.
Qed.

End AnyReading.

(* ================================================================== which per-string caches keep the rule
   NOT code of the implementation (its loop has no cache): a characterisation of the family of loops that
   remember "clean" tags under some key and skip later tags with a remembered key. *)

Section Memo.
Variable V : utag * str -> list code.          (* the per-tag verdict *)
Variable key : utag * str -> str.              (* what the loop remembers of a clean tag *)

Fixpoint memo_loop (clean : list str) (tags : list (utag * str)) : list code :=
  match tags with
  | [] => []
  | te :: r =>
      if existsb (str_eqb (key te)) clean then memo_loop clean r
      else match V te with
           | [] => memo_loop (key te :: clean) r
           | iss => iss ++ memo_loop clean r
           end
  end.

(* such a cache is harmless when equal keys imply equal verdicts *)
Theorem memo_sound_lemma :
  (forall a b, key a = key b -> V a = V b) ->
  forall tags clean,
  (forall k, In k clean -> forall te, key te = k -> V te = []) ->
  memo_loop clean tags = flat_map V tags.
Proof.
  intros Hkey tags. induction tags as [|te r IH]; intros clean Hclean; [reflexivity|].
  simpl. destruct (existsb (str_eqb (key te)) clean) eqn:E.
  - apply existsb_exists in E as [k [Hk Hm]]. apply str_eqb_spec in Hm.
    rewrite (Hclean k Hk te Hm). simpl. apply IH. exact Hclean.
  - destruct (V te) as [|c cs'] eqn:Ev.
    + simpl. apply IH. intros k [Hk|Hk] te' Hte'.
      * subst k. rewrite (Hkey te' te Hte'). exact Ev.
      * eapply Hclean; eauto.
    + rewrite IH; [reflexivity|exact Hclean].
Qed.

End Memo.
