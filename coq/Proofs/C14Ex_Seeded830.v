(* C14 -- one seeded fault in the bundled 8.3.0, evaluated inside the kernel *)
From Coq Require Import List NArith ZArith String.
From HV Require Import Base.Res Base.Str Base.C14Base Gen.ComplianceTables Model.Compliance
     Proofs.ComplianceProofs Proofs.C14ExCommon Gen.C14_Env.
From HV Require Gen.Schema_8_3_0_c14 Gen.Schema_8_2_0_c14.
Import ListNotations.
Local Open Scope string_scope.

Definition env_830 : env := bundled_env [(s2str "8.2.0", Schema_8_2_0_c14.schema)].
Definition s830 : rschema := Schema_8_3_0_c14.schema.

Definition seeded_in_library_830 : rschema :=
  add_tag_attr s830 (s2str "Event") (HedKey_InLibrary, VStr (s2str "otherlib")).
Definition seeded_duplicate_830 : rschema := add_tag s830 (mkE (s2str "Item/Event") []).
Definition seeded_default_units_on_tag_830 : rschema :=
  add_tag_attr s830 (s2str "Event") (HedKey_DefaultUnits, VStr (s2str "x1")).

(* the foreign inLibrary name: exactly one issue, with the kind's code; nothing with warnings off *)
Lemma ex_seeded_in_library :
  res_codes (check_compliance fixed_all env_830 true seeded_in_library_830)
  = Ok [kind_code K_SCHEMA_IN_LIBRARY_INVALID].
Proof. vm_cast_no_check (@eq_refl (res (list str)) (Ok [kind_code K_SCHEMA_IN_LIBRARY_INVALID])). Qed.

Lemma ex_seeded_in_library_off : check_compliance fixed_all env_830 false seeded_in_library_830 = Ok [].
Proof. vm_cast_no_check (@eq_refl (res (list issue)) (Ok [])). Qed.

(* the duplicated node is an error and survives warnings off *)
Lemma ex_seeded_duplicate :
  res_codes (check_compliance fixed_all env_830 false seeded_duplicate_830)
  = Ok [kind_code K_SCHEMA_DUPLICATE_NODE].
Proof. vm_cast_no_check (@eq_refl (res (list str)) (Ok [kind_code K_SCHEMA_DUPLICATE_NODE])). Qed.

(* C14-F1, the record of the repaired defect: before fix commit 55e2b09 the validators of the undeclared
   attribute defaultUnits were run on the tag Event and the check raised ... *)
Lemma ex_undeclared_attribute_raised :
  has_tag s830 (s2str "Event") = true
  /\ check_compliance fixed_none env_830 true seeded_default_units_on_tag_830 = Exn AttributeError.
Proof.
  split; [reflexivity|].
  vm_cast_no_check (@eq_refl (res (list issue)) (Exn AttributeError)).
Qed.

(* ... with the repair it is reported as an undeclared attribute, as an error, with warnings on and off *)
Lemma ex_undeclared_attribute_reported :
  res_codes (check_compliance fixed_all env_830 true seeded_default_units_on_tag_830)
  = Ok [kind_code K_SCHEMA_ATTRIBUTE_INVALID]
  /\ res_codes (check_compliance fixed_all env_830 false seeded_default_units_on_tag_830)
     = Ok [kind_code K_SCHEMA_ATTRIBUTE_INVALID].
Proof.
  split; vm_cast_no_check (@eq_refl (res (list str)) (Ok [kind_code K_SCHEMA_ATTRIBUTE_INVALID])).
Qed.

(* ---- the same two seeded schemas, now THROUGH the seeded-fault theorems: every premise (the schema loads,
   [checkable], the entry is visited, the fault is present at it) is established by one kernel evaluation of a
   boolean witness; the conclusion then comes from C14_seeded_in_library / C14_seeded_undeclared_attribute. *)
Lemma ex_in_library_through_theorem :
  exists L issues, load env_830 seeded_in_library_830 = Ok L /\ check_loaded fixed_all env_830 true L = Ok issues
                   /\ In (kind_code K_SCHEMA_IN_LIBRARY_INVALID) (codes issues).
Proof.
  apply (in_library_through_theorem env_830 seeded_in_library_830 SecTags (s2str "Event") (s2str "otherlib")).
  vm_cast_no_check (@eq_refl bool true).
Qed.

Lemma ex_undeclared_through_theorem :
  exists L issues, load env_830 seeded_default_units_on_tag_830 = Ok L
                   /\ check_loaded fixed_all env_830 true L = Ok issues
                   /\ In (kind_code K_SCHEMA_ATTRIBUTE_INVALID) (codes (filter is_error issues)).
Proof.
  apply (undeclared_through_theorem env_830 seeded_default_units_on_tag_830 SecTags (s2str "Event") HedKey_DefaultUnits).
  vm_cast_no_check (@eq_refl bool true).
Qed.
