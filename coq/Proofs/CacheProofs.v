(* Proofs about Model/Cache.v (property C19). *)
From Coq Require Import List Arith Bool PeanoNat Lia.
From HV Require Import Base.Res Model.Cache.
Import ListNotations.

(* ------------------------------------------------------------ file maps *)

Lemma fname_eqb_eq a b : fname_eqb a b = true <-> a = b.
Proof.
  destruct a as [f|p f], b as [g|q g]; simpl; split; intro H; try discriminate.
  - apply Nat.eqb_eq in H. congruence.
  - inversion H. apply Nat.eqb_refl.
  - apply andb_true_iff in H. destruct H as [H1 H2].
    apply Nat.eqb_eq in H1. apply Nat.eqb_eq in H2. congruence.
  - inversion H. rewrite !Nat.eqb_refl. reflexivity.
Qed.

Lemma fname_eqb_refl a : fname_eqb a a = true.
Proof. apply fname_eqb_eq. reflexivity. Qed.

Lemma fname_eqb_neq a b : a <> b -> fname_eqb a b = false.
Proof.
  intro H. destruct (fname_eqb a b) eqn:E; auto. apply fname_eqb_eq in E. contradiction.
Qed.

Lemma fget_fdel m k k' : fget (fdel m k) k' = if fname_eqb k' k then None else fget m k'.
Proof.
  induction m as [|[k0 v0] m IH]; simpl.
  - destruct (fname_eqb k' k); reflexivity.
  - destruct (fname_eqb k k0) eqn:E0.
    + apply fname_eqb_eq in E0. subst k0. rewrite IH.
      destruct (fname_eqb k' k); reflexivity.
    + simpl. rewrite IH. destruct (fname_eqb k' k0) eqn:E1.
      * apply fname_eqb_eq in E1. subst k0.
        destruct (fname_eqb k' k) eqn:E2; auto.
        apply fname_eqb_eq in E2. subst k'. rewrite fname_eqb_refl in E0. discriminate.
      * reflexivity.
Qed.

Lemma fget_fset m k v k' : fget (fset m k v) k' = if fname_eqb k' k then Some v else fget m k'.
Proof.
  unfold fset. simpl. rewrite fget_fdel. destruct (fname_eqb k' k); reflexivity.
Qed.

Lemma has_fset m k v k' : has (fset m k v) k' = if fname_eqb k' k then true else has m k'.
Proof. unfold has. rewrite fget_fset. destruct (fname_eqb k' k); reflexivity. Qed.

Lemma has_fdel m k k' : has (fdel m k) k' = if fname_eqb k' k then false else has m k'.
Proof. unfold has. rewrite fget_fdel. destruct (fname_eqb k' k); reflexivity. Qed.

(* ------------------------------------------------------------ contents *)

Lemma cell_at_write i : forall c j,
  cell_at (write_at i c) j = if Nat.eqb j i then Good else cell_at c j.
Proof.
  unfold cell_at. induction i as [|i IH]; intros c j.
  - destruct c as [|x t]; destruct j as [|j]; simpl; auto. destruct j; reflexivity.
  - destruct c as [|x t]; destruct j as [|j]; simpl; try rewrite IH; auto;
    destruct (Nat.eqb j i); auto; destruct j; reflexivity.
Qed.

Lemma length_write i : forall c, length (write_at i c) = Nat.max (length c) (S i).
Proof.
  induction i as [|i IH]; intros c; destruct c as [|x t]; simpl; try rewrite IH; auto.
  all: try (destruct (length t); reflexivity).
Qed.

Lemma write_good i : write_at i (repeat Good i) = repeat Good (S i).
Proof. induction i as [|i IH]; simpl; auto. rewrite IH. reflexivity. Qed.

Lemma cell_eqb_eq a b : cell_eqb a b = true <-> a = b.
Proof. destruct a, b; simpl; split; intro H; try discriminate; auto. Qed.

Lemma content_eqb_eq a : forall b, content_eqb a b = true <-> a = b.
Proof.
  induction a as [|x a IH]; intros [|y b]; simpl; split; intro H; try discriminate; auto.
  - apply andb_true_iff in H. destruct H as [H1 H2].
    apply cell_eqb_eq in H1. apply IH in H2. congruence.
  - inversion H. subst. apply andb_true_iff. split.
    + apply cell_eqb_eq. reflexivity.
    + apply IH. reflexivity.
Qed.

Lemma content_eqb_refl a : content_eqb a a = true.
Proof. apply content_eqb_eq. reflexivity. Qed.

Lemma all_good : forall n c,
  length c <= n -> (forall j, j < n -> cell_at c j = Good) -> c = good n.
Proof.
  unfold good, cell_at. induction n as [|n IH]; intros c Hl Hc.
  - destruct c; simpl in *; auto. lia.
  - destruct c as [|x t].
    + specialize (Hc 0 ltac:(lia)). simpl in Hc. discriminate.
    + simpl. f_equal.
      * apply (Hc 0). lia.
      * apply IH; [simpl in Hl; lia|]. intros j Hj. apply (Hc (S j)). lia.
Qed.

Lemma length_good n : length (good n) = n.
Proof. apply repeat_length. Qed.

(* ------------------------------------------------------------ lists *)

Lemma nth_error_upd {A} (l : list A) : forall i j x,
  nth_error (upd l i x) j =
  if Nat.eqb i j then match nth_error l i with Some _ => Some x | None => None end
  else nth_error l j.
Proof.
  induction l as [|h t IH]; intros i j x.
  - simpl. destruct i, j; simpl; auto;
    destruct (Nat.eqb i j); reflexivity.
  - destruct i as [|i], j as [|j]; simpl; auto.
Qed.

Lemma length_upd {A} (l : list A) : forall i x, length (upd l i x) = length l.
Proof. induction l as [|h t IH]; intros [|i] x; simpl; auto. Qed.

Lemma run_app c w a b : run c w (a ++ b) = run c (run c w a) b.
Proof. unfold run. apply fold_left_app. Qed.

(* ------------------------------------------------- small projections *)

Lemma pc_goto r x : pc_of (goto r x) = x. Proof. reflexivity. Qed.

(* every field of the shared state that a projection can see *)
Ltac simp_sh :=
  cbn [files_of stamp lockfile locks next_ino clock netreqs memos set_files set_stamp set_locks set_lockfile
       create_lockfile set_clock add_net set_memos
       pc_of kind_of tries populated cache_err ts fd nreq goto set_err set_pop set_ts inc_tries set_fd inc_req] in *.

Lemma files_release p d s : files_of (release p d s) = files_of s.
Proof.
  unfold release. destruct d as [i|]; auto. destruct (lget (locks s) i) as [q|]; auto.
  destruct (Nat.eqb p q); auto.
Qed.

Lemma stamp_release p d s : stamp (release p d s) = stamp s.
Proof.
  unfold release. destruct d as [i|]; auto. destruct (lget (locks s) i) as [q|]; auto.
  destruct (Nat.eqb p q); auto.
Qed.

Lemma lockfile_release p d s : lockfile (release p d s) = lockfile s.
Proof.
  unfold release. destruct d as [i|]; auto. destruct (lget (locks s) i) as [q|]; auto.
  destruct (Nat.eqb p q); auto.
Qed.

Lemma files_leave c p d s : files_of (leave c p d s) = files_of s.
Proof. unfold leave. destruct (unlink_on_release c); simpl; apply files_release. Qed.

Lemma lget_ldel l i j : lget (ldel l i) j = if Nat.eqb j i then None else lget l j.
Proof.
  induction l as [|[k q] l IH]; simpl.
  - destruct (Nat.eqb j i); reflexivity.
  - destruct (Nat.eqb i k) eqn:E0.
    + apply Nat.eqb_eq in E0. subst k. rewrite IH. destruct (Nat.eqb j i); reflexivity.
    + simpl. rewrite IH. destruct (Nat.eqb j k) eqn:E1; auto.
      apply Nat.eqb_eq in E1. subst k. destruct (Nat.eqb j i) eqn:E2; auto.
      apply Nat.eqb_eq in E2. subst j. rewrite Nat.eqb_refl in E0. discriminate.
Qed.

Lemma lget_lset l i p j : lget (lset l i p) j = if Nat.eqb j i then Some p else lget l j.
Proof. unfold lset. simpl. rewrite lget_ldel. destruct (Nat.eqb j i); reflexivity. Qed.

(* ====== the code as it is (/repo with da46472, 19ec63c, 160dd4a, b23f2f7, 8dfe516; kinds K..Fixed) ====== *)

Definition fixed_pc (c : pc) : bool :=
  match c with
  | DOpen _ | DWrite _ _ | DReplace _ | FList1 | FEnter | FAcquire | FExists _ | FTOpen _ | FTWrite _ _
  | FReplace _ | FRelease | FCheck | FRead | FReadInstalled | XEnter | XAcquire | XBody | XExit
  | Done _ | Dead => true
  | _ => false
  end.

Definition vers_good (c : cfg) (m : files) : Prop :=
  forall f x, fget m (Ver f) = Some x -> x = good (nchunks c).

Definition below (m : files) (f : nat) : Prop := forall g, g < f -> has m (Ver g) = true.

Definition tmp_ok (c : cfg) (p : nat) (m : files) (x : pc) : Prop :=
  match x with
  | FTWrite f i | DWrite f i => fget m (Tmp p f) = Some (repeat Good i) /\ i < nchunks c
  | FReplace f | DReplace f => fget m (Tmp p f) = Some (good (nchunks c))
  | _ => True
  end.

Definition pop_ok (c : cfg) (m : files) (x : pc) : Prop :=
  match x with
  | FExists f | FTOpen f | FTWrite f _ | FReplace f => below m f
  | FRelease => below m (nfiles c)
  | _ => True
  end.

Definition Jfix (c : cfg) (p : nat) (s : shared) (r : proc) : Prop :=
  fixed_pc (pc_of r) = true /\
  (populated r = true -> below (files_of s) (nfiles c)) /\
  tmp_ok c p (files_of s) (pc_of r) /\
  pop_ok c (files_of s) (pc_of r).

(* what a step of p may change, as seen by the other processes *)
Definition frame (p : nat) (s s' : shared) : Prop :=
  (forall q f, q <> p -> fget (files_of s') (Tmp q f) = fget (files_of s) (Tmp q f)) /\
  (forall f, has (files_of s) (Ver f) = true -> has (files_of s') (Ver f) = true).

Lemma frame_refl p s : frame p s s.
Proof. repeat split; auto. Qed.

Lemma tmp_neq q p f g : q <> p -> fname_eqb (Tmp q f) (Tmp p g) = false.
Proof. intro H. simpl. apply Nat.eqb_neq in H. rewrite H. reflexivity. Qed.

Lemma frame_tmp p s f x : frame p s (set_files s (fset (files_of s) (Tmp p f) x)).
Proof.
  repeat split; simp_sh; auto.
  - intros q g Hq. rewrite fget_fset, tmp_neq; auto.
  - intros g Hg. rewrite has_fset. simpl. exact Hg.
Qed.

Lemma frame_replace p s f x :
  frame p s (set_files s (fset (fdel (files_of s) (Tmp p f)) (Ver f) x)).
Proof.
  repeat split; simp_sh; auto.
  - intros q g Hq. rewrite fget_fset. simpl. rewrite fget_fdel, tmp_neq; auto.
  - intros g Hg. rewrite has_fset. simpl. destruct (Nat.eqb g f); auto.
    rewrite has_fdel. simpl. exact Hg.
Qed.

Lemma frame_same p s s' : files_of s' = files_of s -> frame p s s'.
Proof. intros H1. unfold frame. rewrite H1. split; auto. Qed.

Ltac case_step H :=
  repeat match type of H with
         | context [if ?b then _ else _] => destruct b eqn:?
         | context [match ?x with _ => _ end] => destruct x eqn:?
         end;
  inversion H; subst; clear H.

Lemma pstep_frame c p s r s' r' :
  fixed_pc (pc_of r) = true -> pstep c p s r = (s', r') -> frame p s s'.
Proof.
  intros Hf H. unfold pstep, acquire_step, opened, remember, within_for, memo_written in H.
  destruct (pc_of r) eqn:Epc; try discriminate Hf; case_step H;
    try apply frame_refl; try apply frame_tmp; try apply frame_replace;
    try (apply frame_same; simp_sh; rewrite ?files_leave; reflexivity).
Qed.

Lemma below_mono m f g : below m f -> g <= f -> below m g.
Proof. intros H Hg k Hk. apply H. lia. Qed.

Lemma below_S m f : below m f -> has m (Ver f) = true -> below m (S f).
Proof.
  intros H Hf k Hk. destruct (Nat.eq_dec k f) as [->|Hne]; auto. apply H. lia.
Qed.

Lemma below_frame p s s' f : frame p s s' -> below (files_of s) f -> below (files_of s') f.
Proof. intros (_ & F2) H k Hk. apply F2. apply H. exact Hk. Qed.

Lemma Jfix_stable c p q s s' rq : q <> p -> frame p s s' -> Jfix c q s rq -> Jfix c q s' rq.
Proof.
  intros Hq Hfr (J1 & J3 & J4 & J5).
  pose proof Hfr as (F1 & F2).
  split; [exact J1|]. split; [|split].
  - intros Hp. eapply below_frame; eauto.
  - destruct (pc_of rq); simpl in *; auto; rewrite F1; auto.
  - destruct (pc_of rq); simpl in *; auto; eapply below_frame; eauto.
Qed.

Lemma Jfix_same c q s s' r :
  files_of s' = files_of s -> Jfix c q s r -> Jfix c q s' r.
Proof. unfold Jfix. intros ->. auto. Qed.

Lemma vers_good_tmp c m p f x : vers_good c m -> vers_good c (fset m (Tmp p f) x).
Proof. intros H g y. rewrite fget_fset. simpl. apply H. Qed.

Lemma vers_good_replace c m p f :
  vers_good c m -> vers_good c (fset (fdel m (Tmp p f)) (Ver f) (good (nchunks c))).
Proof.
  intros H g y. rewrite fget_fset. simpl. destruct (Nat.eqb g f).
  - intro E. inversion E. reflexivity.
  - rewrite fget_fdel. simpl. apply H.
Qed.

Lemma has_replace m p f x g :
  has (fset (fdel m (Tmp p f)) (Ver f) x) (Ver g) = if Nat.eqb g f then true else has m (Ver g).
Proof. rewrite has_fset. simpl. destruct (Nat.eqb g f); auto. rewrite has_fdel. reflexivity. Qed.

Lemma fget_tmp_same m p f x : fget (fset m (Tmp p f) x) (Tmp p f) = Some x.
Proof. rewrite fget_fset, fname_eqb_refl. reflexivity. Qed.

Lemma good_0 n : Nat.eqb n 0 = true -> good n = [].
Proof. intro H. apply Nat.eqb_eq in H. subst. reflexivity. Qed.

Lemma below_tmp m p f x k : below m k -> below (fset m (Tmp p f) x) k.
Proof. intros H g Hg. rewrite has_fset. simpl. auto. Qed.

Lemma below_replace m p f x k : below m k -> below (fset (fdel m (Tmp p f)) (Ver f) x) k.
Proof. intros H g Hg. rewrite has_replace. destruct (Nat.eqb g f); auto. Qed.

Lemma below_replace_S m p f x : below m f -> below (fset (fdel m (Tmp p f)) (Ver f) x) (S f).
Proof.
  intros H. apply below_S.
  - apply below_replace. exact H.
  - rewrite has_replace, Nat.eqb_refl. reflexivity.
Qed.

Lemma below_0 m : below m 0.
Proof. intros g Hg. lia. Qed.

Lemma pstep_fixed c p s r s' r' :
  cleanup_outside_lock c = false ->
  vers_good c (files_of s) -> Jfix c p s r -> pstep c p s r = (s', r') ->
  vers_good c (files_of s') /\ Jfix c p s' r'.
Proof.
  intros Hc HA (J1 & J3 & J4 & J5) H. unfold pstep, after_chunk, lookup_fixed, acquire_step, opened, remember, within_for, memo_written in H.
  rewrite Hc in H.
  destruct (pc_of r) eqn:Epc; try discriminate J1; cbn [holding tmp_ok pop_ok] in J4, J5;
    try match type of J4 with _ /\ _ => destruct J4 as [J4 J4'] end;
    unfold cur_content in H; try rewrite J4 in H;
    case_step H; unfold Jfix; simp_sh; rewrite ?files_leave, ?Epc;
    cbn [fixed_pc holding tmp_ok pop_ok]; rewrite ?fget_tmp_same, ?write_good.
  all: try (split; [first [exact HA | apply vers_good_tmp; exact HA | apply vers_good_replace; exact HA]|]).
  all: try match goal with |- _ /\ _ => split; [reflexivity|split; [|split]] end.
  all: auto using below_tmp, below_replace, below_replace_S, below_0.
  all: try (intros; discriminate).
  all: try (rewrite good_0 by assumption; reflexivity).
  all: try (split; [reflexivity|]).
  all: try match goal with
           | H : Nat.eqb _ 0 = false |- 0 < _ => apply Nat.eqb_neq in H; lia
           | H : Nat.ltb _ _ = true |- _ < _ => apply Nat.ltb_lt; exact H
           | H : Nat.ltb (S ?i) ?n = false, H' : ?i < ?n |- Some _ = Some (good _) =>
               apply Nat.ltb_ge in H; unfold good; do 2 f_equal; lia
           | H : Nat.leb _ _ = true, J : below _ _ |- below _ _ =>
               eapply below_mono; [exact J | apply Nat.leb_le; exact H]
           | |- below _ (S _) => apply below_S; assumption
           end.
Qed.

Definition fixed_inv (c : cfg) (w : world) : Prop :=
  cleanup_outside_lock c = false /\   (* nobody removes temporary files of other processes *)
  vers_good c (files_of (sh w)) /\
  forall p r, nth_error (procs w) p = Some r -> Jfix c p (sh w) r.

Lemma Jfix_dead c p s r :
  forall h, Jfix c p s r -> Jfix c p (release h (fd r) s) (set_fd (goto r Dead) None).
Proof.
  intros h (J1 & J3 & J4 & J5). unfold Jfix. simp_sh. rewrite files_release.
  cbn [fixed_pc holding tmp_ok pop_ok]. repeat split; auto.
Qed.

Lemma fixed_inv_step c w e : fixed_inv c w -> fixed_inv c (step c w e).
Proof.
  intros (Hc & HA & HJ). split; [exact Hc|]. destruct e as [p|p|d|d]; simpl.
  - destruct (nth_error (procs w) p) as [r|] eqn:E; [|split; auto].
    destruct (pstep c p (sh w) r) as [s' r'] eqn:Ep.
    destruct (pstep_fixed _ _ _ _ _ _ Hc HA (HJ _ _ E) Ep) as [HA' HJ'].
    pose proof (pstep_frame _ _ _ _ _ _ (proj1 (HJ _ _ E)) Ep) as Hfr.
    split; simpl; auto. intros q rq Hq. rewrite nth_error_upd in Hq.
    destruct (Nat.eqb p q) eqn:Epq.
    + apply Nat.eqb_eq in Epq. subst q. rewrite E in Hq. inversion Hq. subst. exact HJ'.
    + apply Nat.eqb_neq in Epq. assert (Hne : q <> p) by congruence.
      eapply Jfix_stable; [exact Hne | exact Hfr | apply HJ; exact Hq].
  - destruct (nth_error (procs w) p) as [r|] eqn:E; [|split; auto].
    destruct (is_done (pc_of r)) eqn:Ed; [split; auto|].
    split; simpl; [rewrite files_release; auto|].
    intros q rq Hq. rewrite nth_error_upd in Hq.
    destruct (Nat.eqb p q) eqn:Epq.
    + apply Nat.eqb_eq in Epq. subst q. rewrite E in Hq. inversion Hq. subst.
      apply Jfix_dead. auto.
    + apply Nat.eqb_neq in Epq. assert (Hne : q <> p) by congruence.
      eapply Jfix_stable; [exact Hne | apply frame_same; apply files_release | apply HJ; exact Hq].
  - split; simpl; auto.
  - split; simpl; auto.
Qed.

Lemma fixed_inv_run c evs : forall w, fixed_inv c w -> fixed_inv c (run c w evs).
Proof.
  induction evs as [|e evs IH]; intros w H; simpl; auto.
  apply IH. apply fixed_inv_step. exact H.
Qed.

Lemma nth_error_map_start ks p r :
  nth_error (map start ks) p = Some r -> exists k, r = start k /\ In k ks.
Proof.
  rewrite nth_error_map. destruct (nth_error ks p) as [k|] eqn:E; simpl; intro H; inversion H.
  exists k. split; auto. eapply nth_error_In; eauto.
Qed.

Lemma fixed_inv_init c t ks :
  cleanup_outside_lock c = false -> forallb is_fixed_kind ks = true -> fixed_inv c (init t ks).
Proof.
  intros Hc Hk. split; [exact Hc|]. split; simpl.
  - intros f x H. discriminate.
  - intros p r Hr. apply nth_error_map_start in Hr. destruct Hr as (k & -> & Hin).
    rewrite forallb_forall in Hk. specialize (Hk _ Hin).
    destruct k; try discriminate Hk; unfold Jfix; simpl; repeat split; auto; intro; discriminate.
Qed.

(* every file whose name matches the version pattern is the complete installed file *)
Lemma fixed_no_torn_visible c t ks evs f x :
  cleanup_outside_lock c = false -> forallb is_fixed_kind ks = true ->
  ver (run c (init t ks) evs) f = Some x -> x = good (nchunks c).
Proof.
  intros Hc Hk H. destruct (fixed_inv_run c evs _ (fixed_inv_init c t ks Hc Hk)) as (_ & HA & _).
  eapply HA. exact H.
Qed.

(* ---- the lock: identity of the lock file, open descriptors, advisory locks ---- *)

(* a process inside "with CacheLock" holds the advisory lock on the file it has open, and every
   open descriptor refers to the file that carries the name cache_lock.lock NOW *)
Definition Jlock (p : nat) (s : shared) (r : proc) : Prop :=
  (holding (pc_of r) = true -> exists i, fd r = Some i /\ lget (locks s) i = Some p) /\
  (forall i, fd r = Some i -> lockfile s = Some i).

Definition lframe (p : nat) (s s' : shared) : Prop :=
  (forall i q, q <> p -> lget (locks s) i = Some q -> lget (locks s') i = Some q) /\
  (forall i, lockfile s = Some i -> lockfile s' = Some i).

Lemma lframe_refl p s : lframe p s s.
Proof. split; auto. Qed.

Lemma lframe_same p s s' : locks s' = locks s -> lockfile s' = lockfile s -> lframe p s s'.
Proof. intros H1 H2. unfold lframe. rewrite H1, H2. split; auto. Qed.

Lemma lframe_release p d s : lframe p s (release p d s).
Proof.
  split; [|intros i H; rewrite lockfile_release; exact H].
  intros i q Hq Hl. unfold release. destruct d as [i0|]; auto.
  destruct (lget (locks s) i0) as [q0|] eqn:E0; auto.
  destruct (Nat.eqb p q0) eqn:Ep; auto. apply Nat.eqb_eq in Ep. subst q0. simpl.
  rewrite lget_ldel. destruct (Nat.eqb i i0) eqn:Ei; auto.
  apply Nat.eqb_eq in Ei. subst i0. congruence.
Qed.

Lemma Jlock_stable p q s s' rq : q <> p -> lframe p s s' -> Jlock q s rq -> Jlock q s' rq.
Proof.
  intros Hq [L1 L2] [A B]. split.
  - intro Hh. destruct (A Hh) as (i & Hfd & Hl). exists i. split; auto.
  - intros i Hfd. apply L2. apply B. exact Hfd.
Qed.

Lemma lframe_trans p a b d : lframe p a b -> lframe p b d -> lframe p a d.
Proof. intros [A1 A2] [B1 B2]. split; auto. Qed.

Lemma lframe_acquire p s s1 n :
  lget (locks s) n = None -> locks s1 = locks s ->
  (forall i, lockfile s = Some i -> lockfile s1 = Some i) ->
  lframe p s (set_locks s1 (lset (locks s) n p)).
Proof.
  intros Hn Hl Hf. split; simp_sh; auto.
  intros i q Hq Hi. rewrite lget_lset. destruct (Nat.eqb i n) eqn:E; auto.
  apply Nat.eqb_eq in E. subst i. congruence.
Qed.

Lemma lframe_create p s : lockfile s = None -> lframe p s (create_lockfile s).
Proof. intro H. split; simp_sh; auto. intros i Hi. congruence. Qed.

Lemma pstep_lock c p s r s' r' :
  unlink_on_release c = false -> per_process_locks c = false ->
  fixed_pc (pc_of r) = true -> Jlock p s r ->
  pstep c p s r = (s', r') -> Jlock p s' r' /\ lframe p s s'.
Proof.
  intros Hu Hpp Hf [A B] H.
  unfold pstep, acquire_step, opened, lock_ino, leave, after_chunk, lookup_fixed, remember, within_for, memo_written in H. rewrite Hu in H. unfold hid in H. rewrite Hpp in H. cbn [andb] in H.
  destruct (pc_of r) eqn:Epc; try discriminate Hf; cbn [holding] in A.
  all: case_step H; simp_sh; rewrite ?Epc.
  all: split; [split|].
  all: simp_sh; rewrite ?Epc; cbn [holding]; rewrite ?lockfile_release.
  all: try (intro Hh; discriminate Hh).
  all: try (intros ? Hd; discriminate Hd).
  all: try apply lframe_refl.
  all: try apply lframe_release.
  all: try (apply lframe_same; reflexivity).
  all: try exact B.
  all: try (intros _; apply A; reflexivity).
  all: try (intros _; eexists; split; [reflexivity | rewrite lget_lset, Nat.eqb_refl; reflexivity]).
  all: try (intros ? Hi; inversion Hi; subst; first [assumption | apply B; assumption | reflexivity]).
  all: try (apply lframe_create; assumption).
  all: try (apply lframe_acquire; [assumption | reflexivity | simp_sh; auto; intros ? Hi; congruence]).
  all: try (eapply lframe_trans; [|apply lframe_release]; apply lframe_same; reflexivity).
Qed.

Definition lock_inv (w : world) : Prop :=
  forall p r, nth_error (procs w) p = Some r -> Jlock p (sh w) r.

Lemma lock_inv_step c w e :
  unlink_on_release c = false -> per_process_locks c = false ->
  fixed_inv c w -> lock_inv w -> lock_inv (step c w e).
Proof.
  intros Hu Hpp (_ & _ & HJ) HL. destruct e as [p|p|d|d]; simpl; auto.
  - destruct (nth_error (procs w) p) as [r|] eqn:E; auto.
    destruct (pstep c p (sh w) r) as [s' r'] eqn:Ep.
    destruct (pstep_lock _ _ _ _ _ _ Hu Hpp (proj1 (HJ _ _ E)) (HL _ _ E) Ep) as [HL' Hfr].
    intros q rq Hq. simpl in *. rewrite nth_error_upd in Hq.
    destruct (Nat.eqb p q) eqn:Epq.
    + apply Nat.eqb_eq in Epq. subst q. rewrite E in Hq. inversion Hq. subst. exact HL'.
    + apply Nat.eqb_neq in Epq. assert (Hne : q <> p) by congruence.
      eapply Jlock_stable; [exact Hne | exact Hfr | apply HL; exact Hq].
  - destruct (nth_error (procs w) p) as [r|] eqn:E; auto.
    destruct (is_done (pc_of r)) eqn:Ed; auto.
    intros q rq Hq. simpl in *. rewrite nth_error_upd in Hq.
    destruct (Nat.eqb p q) eqn:Epq.
    + apply Nat.eqb_eq in Epq. subst q. rewrite E in Hq. inversion Hq. subst.
      split; simpl; intros; discriminate.
    + apply Nat.eqb_neq in Epq. assert (Hne : q <> p) by congruence.
      unfold hid. rewrite Hpp.
      eapply Jlock_stable; [exact Hne | apply lframe_release | apply HL; exact Hq].
Qed.

Lemma lock_inv_run c evs : forall w,
  unlink_on_release c = false -> per_process_locks c = false ->
  fixed_inv c w -> lock_inv w -> lock_inv (run c w evs).
Proof.
  induction evs as [|e evs IH]; intros w Hu Hpp HI HL; simpl; auto.
  apply IH; auto; [apply fixed_inv_step | apply lock_inv_step]; auto.
Qed.

Lemma lock_inv_init t ks : lock_inv (init t ks).
Proof.
  intros p r Hr. simpl in Hr. apply nth_error_map_start in Hr. destruct Hr as (k & -> & _).
  split; simpl.
  - destruct k; simpl; intro; discriminate.
  - intros i Hi. discriminate.
Qed.

(* Two processes inside "with CacheLock" are the same process.  The lock file has an identity:
   both hold the advisory lock on the file they have open, every open descriptor refers to the file
   that currently carries the name, and a file has at most one lock holder. *)
Lemma fixed_lock_exclusive c t ks evs p q rp rq :
  unlink_on_release c = false -> per_process_locks c = false -> cleanup_outside_lock c = false ->
  forallb is_fixed_kind ks = true ->
  nth_error (procs (run c (init t ks) evs)) p = Some rp ->
  nth_error (procs (run c (init t ks) evs)) q = Some rq ->
  holding (pc_of rp) = true -> holding (pc_of rq) = true -> p = q.
Proof.
  intros Hu Hpp Hc Hk Hp Hq Hhp Hhq.
  pose proof (lock_inv_run c evs _ Hu Hpp (fixed_inv_init c t ks Hc Hk) (lock_inv_init t ks)) as HL.
  destruct (HL _ _ Hp) as [A B]. destruct (HL _ _ Hq) as [A' B'].
  destruct (A Hhp) as (i & Hfd & Hl). destruct (A' Hhq) as (j & Hfd' & Hl').
  pose proof (B _ Hfd) as H1. pose proof (B' _ Hfd') as H2. congruence.
Qed.

(* a process that went through a whole population leaves every bundled file
   present and complete, whatever the others do afterwards *)
Lemma fixed_finished_population c t ks evs p r f :
  cleanup_outside_lock c = false -> forallb is_fixed_kind ks = true ->
  nth_error (procs (run c (init t ks) evs)) p = Some r -> populated r = true ->
  f < nfiles c -> ver (run c (init t ks) evs) f = Some (good (nchunks c)).
Proof.
  intros Hc Hk Hp Hpop Hf.
  destruct (fixed_inv_run c evs _ (fixed_inv_init c t ks Hc Hk)) as (_ & HA & HJ).
  destruct (HJ _ _ Hp) as (_ & J3 & _). specialize (J3 Hpop f Hf).
  unfold ver. unfold has in J3. destruct (fget _ (Ver f)) as [x|] eqn:E; [|discriminate].
  f_equal. eapply HA. exact E.
Qed.

(* the download path alone *)
Lemma download_kinds_fixed ks :
  forallb is_download_kind ks = true -> forallb is_fixed_kind ks = true.
Proof.
  rewrite !forallb_forall. intros H k Hin. specialize (H k Hin). destruct k; auto; discriminate.
Qed.

Lemma safe_move_atomic c t ks evs f x :
  cleanup_outside_lock c = false -> forallb is_download_kind ks = true ->
  ver (run c (init t ks) evs) f = Some x -> x = good (nchunks c).
Proof. intros Hc Hk. apply fixed_no_torn_visible; [exact Hc|]. apply download_kinds_fixed. exact Hk. Qed.

(* ---- the repaired loader only ever ends by returning the bundled schema ---- *)

Definition lf_pc (x : pc) : bool :=
  match x with
  | FList1 | FEnter | FAcquire | FExists _ | FTOpen _ | FTWrite _ _ | FReplace _ | FRelease
  | FCheck | FRead | FReadInstalled | Done OLoaded | Dead => true
  | _ => false
  end.

Lemma pstep_kind c p s r : kind_of (snd (pstep c p s r)) = kind_of r.
Proof.
  destruct r as [k x tr po ce tt dd nr]. unfold pstep, after_chunk, lookup_fixed, acquire_step, remember, within_for, memo_written. simp_sh. destruct x;
    repeat match goal with
           | |- context [if ?b then _ else _] => destruct b
           | |- context [match ?x with _ => _ end] => destruct x
           end; reflexivity.
Qed.

Lemma pstep_lf c p s r s' r' v :
  cleanup_outside_lock c = false -> Jfix c p s r ->
  vers_good c (files_of s) -> kind_of r = KLoadFixed v -> v < nfiles c ->
  lf_pc (pc_of r) = true -> pstep c p s r = (s', r') -> lf_pc (pc_of r') = true.
Proof.
  intros Hc (_ & _ & J4 & _) HA Hk Hv Hl H. apply Nat.ltb_lt in Hv.
  unfold pstep, after_chunk, lookup_fixed, acquire_step, remember, within_for, memo_written in H.
  rewrite Hk, Hc in H. cbn [target] in H. rewrite ?Hv in H.
  destruct (pc_of r) eqn:Epc; try discriminate Hl; cbn [tmp_ok] in J4.
  all: try (case_step H; simp_sh; rewrite ?Epc; reflexivity).
  - (* FReplace: the temporary file is there *)
    rewrite J4 in H. inversion H. reflexivity.
  - (* FRead *)
    destruct (fget (files_of s) (Ver v)) as [x|] eqn:E.
    + rewrite (HA _ _ E), content_eqb_refl in H. inversion H. reflexivity.
    + inversion H. reflexivity.
  - destruct o; try discriminate Hl. inversion H. subst. rewrite Epc. reflexivity.
Qed.

Definition lf_inv (c : cfg) (w : world) : Prop :=
  forall p r v, nth_error (procs w) p = Some r -> kind_of r = KLoadFixed v -> v < nfiles c ->
                lf_pc (pc_of r) = true.

Lemma lf_inv_step c w e : fixed_inv c w -> lf_inv c w -> lf_inv c (step c w e).
Proof.
  intros (Hc & HA & HJ) HL. destruct e as [p|p|d|d]; simpl; auto.
  - destruct (nth_error (procs w) p) as [r|] eqn:E; auto.
    destruct (pstep c p (sh w) r) as [s' r'] eqn:Ep.
    intros q rq v Hq Hk Hv. simpl in Hq. rewrite nth_error_upd in Hq.
    destruct (Nat.eqb p q) eqn:Epq.
    + apply Nat.eqb_eq in Epq. subst q. rewrite E in Hq. inversion Hq. subst rq.
      pose proof (pstep_kind c p (sh w) r) as Hkk. rewrite Ep in Hkk. simpl in Hkk.
      rewrite Hkk in Hk. eapply (pstep_lf c p (sh w) r s' r' v); eauto.
    + eapply HL; eauto.
  - destruct (nth_error (procs w) p) as [r|] eqn:E; auto.
    destruct (is_done (pc_of r)) eqn:Ed; auto.
    intros q rq v Hq Hk Hv. simpl in Hq. rewrite nth_error_upd in Hq.
    destruct (Nat.eqb p q) eqn:Epq.
    + apply Nat.eqb_eq in Epq. subst q. rewrite E in Hq. inversion Hq. reflexivity.
    + eapply HL; eauto.
Qed.

Lemma fixed_both_run c evs : forall w,
  fixed_inv c w -> lf_inv c w -> fixed_inv c (run c w evs) /\ lf_inv c (run c w evs).
Proof.
  induction evs as [|e evs IH]; intros w H1 H2; simpl; auto.
  apply IH; [apply fixed_inv_step | apply lf_inv_step]; auto.
Qed.

Lemma lf_inv_init c t ks : lf_inv c (init t ks).
Proof.
  intros p r v Hr Hk Hv. simpl in Hr. apply nth_error_map_start in Hr.
  destruct Hr as (k & -> & _). simpl in Hk. subst k. reflexivity.
Qed.

(* whenever the repaired loader of a bundled version has finished, it has
   returned the bundled schema: no failure of any kind is reachable *)
Lemma fixed_load_succeeds c t ks evs p r v o :
  cleanup_outside_lock c = false -> forallb is_fixed_kind ks = true ->
  nth_error (procs (run c (init t ks) evs)) p = Some r ->
  kind_of r = KLoadFixed v -> v < nfiles c -> pc_of r = Done o -> o = OLoaded.
Proof.
  intros Hc Hk Hr Hkind Hv Hpc.
  destruct (fixed_both_run c evs _ (fixed_inv_init c t ks Hc Hk) (lf_inv_init c t ks)) as [_ HL].
  specialize (HL _ _ _ Hr Hkind Hv). rewrite Hpc in HL. destruct o; try discriminate HL. reflexivity.
Qed.

(* ---- one-step facts about the lock and the refresh interval ---- *)

Definition proc_at (w : world) (p : nat) : option proc := nth_error (procs w) p.

Lemma step_run_at c w p r :
  nth_error (procs w) p = Some r ->
  step c w (Run p) = mkW (fst (pstep c p (sh w) r)) (upd (procs w) p (snd (pstep c p (sh w) r))).
Proof. intro H. simpl. rewrite H. destruct (pstep c p (sh w) r); reflexivity. Qed.

Lemma proc_at_step_run c w p r :
  nth_error (procs w) p = Some r ->
  proc_at (step c w (Run p)) p = Some (snd (pstep c p (sh w) r)).
Proof.
  intro H. rewrite (step_run_at _ _ _ _ H). unfold proc_at. simpl.
  rewrite nth_error_upd, Nat.eqb_refl, H. reflexivity.
Qed.

(* the code as it is: the last attempt on a lock file whose lock another process holds gives up
   with the cache error, takes nothing, changes no file and closes its descriptor *)
Lemma fixed_timeout_gives_cache_error c w p r q :
  per_process_locks c = false ->
  nth_error (procs w) p = Some r ->
  (pc_of r = FAcquire \/ pc_of r = XAcquire) ->
  lget (locks (sh w)) (lock_ino (sh w) r) = Some q -> max_tries c <= S (tries r) ->
  exists r', proc_at (step c w (Run p)) p = Some r' /\
             cache_err r' = true /\ holding (pc_of r') = false /\ fd r' = None /\
             locks (sh (step c w (Run p))) = locks (sh w) /\
             files_of (sh (step c w (Run p))) = files_of (sh w).
Proof.
  intros Hpp Hr Hpc Hfl Ht. apply Nat.ltb_ge in Ht.
  exists (snd (pstep c p (sh w) r)). split; [apply proc_at_step_run; exact Hr|].
  rewrite (step_run_at _ _ _ _ Hr). simpl.
  unfold pstep, acquire_step, opened. rewrite Hpp. cbn [andb].
  destruct Hpc as [-> | ->]; rewrite Hfl, Ht; simpl; repeat split; auto;
    destruct (fd r); auto; destruct (lockfile (sh w)); auto.
Qed.

(* the lock on the lock file is free: the attempt obtains it *)
Lemma fixed_free_lock_acquired c w p r :
  nth_error (procs w) p = Some r ->
  (pc_of r = FAcquire \/ pc_of r = XAcquire) ->
  lget (locks (sh w)) (lock_ino (sh w) r) = None ->
  exists r', proc_at (step c w (Run p)) p = Some r' /\ holding (pc_of r') = true /\
             fd r' = Some (lock_ino (sh w) r) /\
             lget (locks (sh (step c w (Run p)))) (lock_ino (sh w) r) = Some (hid c r p).
Proof.
  intros Hr Hpc Hfl.
  exists (snd (pstep c p (sh w) r)). split; [apply proc_at_step_run; exact Hr|].
  rewrite (step_run_at _ _ _ _ Hr). cbn [sh].
  unfold pstep, acquire_step.
  destruct Hpc as [-> | ->]; rewrite Hfl; cbn [fst snd]; simp_sh; cbn [holding]; repeat split; auto;
    rewrite lget_lset, Nat.eqb_refl; reflexivity.
Qed.

(* the code as it is, and already before the fixes: cache_xml_versions entered within the refresh interval of the time
   recorded in the SHARED last_update.txt does nothing -- no file, stamp or lock change, no network
   request -- and reports the cache error (-1) *)
Lemma refresh_within_interval_skipped c w p r t :
  memo_stamp c = false -> ignore_future_stamp c = false ->
  nth_error (procs w) p = Some r ->
  (pc_of r = LFallback \/ pc_of r = XEnter) ->
  stamp (sh w) = StampAt t -> clock (sh w) - t < threshold c ->
  exists r', proc_at (step c w (Run p)) p = Some r' /\
             sh (step c w (Run p)) = sh w /\ cache_err r' = true /\ nreq r' = nreq r /\
             pc_of r' = match pc_of r, kind_of r with
                        | LFallback, KLoad _ => LRecheck
                        | _, _ => Done OSkipped end.
Proof.
  intros Hm Hif Hr Hpc Hst Hin. apply Nat.ltb_lt in Hin.
  exists (snd (pstep c p (sh w) r)). split; [apply proc_at_step_run; exact Hr|].
  rewrite (step_run_at _ _ _ _ Hr). cbn [sh].
  unfold pstep, within_for, remember, within. rewrite Hm, Hif. cbn [andb].
  destruct Hpc as [-> | ->]; rewrite Hst, Hin; cbn [fst snd]; simp_sh;
  repeat split; auto; destruct (kind_of r); reflexivity.
Qed.

(* a finished call never changes again, whatever is scheduled afterwards *)
Lemma proc_done_stable c evs : forall w p r,
  nth_error (procs w) p = Some r -> is_done (pc_of r) = true ->
  nth_error (procs (run c w evs)) p = Some r.
Proof.
  induction evs as [|e evs IH]; intros w p r Hr Hd; simpl; auto.
  apply IH; auto. destruct e as [q|q|d|d]; simpl; auto.
  - destruct (nth_error (procs w) q) as [rq|] eqn:Eq; auto.
    destruct (pstep c q (sh w) rq) as [s' r'] eqn:Ep. simpl. rewrite nth_error_upd.
    destruct (Nat.eqb q p) eqn:E; auto. apply Nat.eqb_eq in E. subst q.
    rewrite Hr in Eq. inversion Eq. subst rq. rewrite Hr. f_equal.
    unfold pstep in Ep. destruct (pc_of r); try discriminate Hd. inversion Ep. reflexivity.
  - destruct (nth_error (procs w) q) as [rq|] eqn:Eq; auto.
    destruct (is_done (pc_of rq)) eqn:Ed; auto. simpl. rewrite nth_error_upd.
    destruct (Nat.eqb q p) eqn:E; auto. apply Nat.eqb_eq in E. subst q.
    rewrite Hr in Eq. inversion Eq. subst rq. congruence.
Qed.

(* ... over multi-process schedules: whatever any process does afterwards, a refresh that was
   entered within the interval of the shared stamp has ended as "skipped" and has made no request *)
Lemma refresh_skipped_all_schedules c w p r t evs :
  memo_stamp c = false -> ignore_future_stamp c = false ->
  nth_error (procs w) p = Some r ->
  (pc_of r = XEnter \/ (pc_of r = LFallback /\ kind_of r = KRefresh)) ->
  stamp (sh w) = StampAt t -> clock (sh w) - t < threshold c ->
  netreqs (sh (step c w (Run p))) = netreqs (sh w) /\
  exists r', nth_error (procs (run c w (Run p :: evs))) p = Some r' /\
             pc_of r' = Done OSkipped /\ cache_err r' = true /\ nreq r' = nreq r.
Proof.
  intros Hm Hif Hr Hpc Hst Hin.
  destruct (refresh_within_interval_skipped c w p r t Hm Hif Hr) as (r' & Hat & Hsh & He & Hn & Hpc'); auto.
  { destruct Hpc as [H|[H _]]; auto. }
  split; [rewrite Hsh; reflexivity|].
  exists r'. split; [|repeat split; auto].
  - simpl. apply proc_done_stable; [exact Hat|]. rewrite Hpc'.
    destruct Hpc as [Hx | [Hx Hy]]; rewrite Hx; try rewrite Hy; reflexivity.
  - rewrite Hpc'. destruct Hpc as [Hx | [Hx Hy]]; rewrite Hx; try rewrite Hy; reflexivity.
Qed.

(* history theorem: what CacheLock.__enter__ decides is a function of the shared directory state
   (stamp, clock) alone -- two processes (or two calls of one process) with whatever different
   pasts take the same decision and leave the same shared state *)
Lemma enter_decision_history_free c p s r1 r2 :
  memo_stamp c = false -> pc_of r1 = pc_of r2 -> kind_of r1 = kind_of r2 ->
  (pc_of r1 = XEnter \/ pc_of r1 = FEnter \/ pc_of r1 = PEnter \/ pc_of r1 = LFallback) ->
  fst (pstep c p s r1) = fst (pstep c p s r2) /\
  pc_of (snd (pstep c p s r1)) = pc_of (snd (pstep c p s r2)).
Proof.
  intros Hm Hpc Hk Hc. unfold pstep, within_for, remember. rewrite Hm, <- Hpc, <- Hk.
  destruct Hc as [Hx | [Hx | [Hx | Hx]]]; rewrite Hx; cbn [fst snd];
    repeat match goal with
           | |- context [if ?b then _ else _] => destruct b
           | |- context [match ?x with _ => _ end] => destruct x
           end; split; reflexivity.
Qed.

(* outside the interval the refresh does go to the network *)
Lemma refresh_outside_interval_proceeds c w p r :
  ignore_future_stamp c = false ->
  nth_error (procs w) p = Some r -> pc_of r = LFallback ->
  (stamp (sh w) = NoStamp \/ exists t, stamp (sh w) = StampAt t /\ threshold c <= clock (sh w) - t) ->
  netreqs (sh (run c w [Run p; Run p])) = S (netreqs (sh w)).
Proof.
  intros Hif Hr Hpc Hst. unfold run. cbn [fold_left].
  rewrite (step_run_at _ _ _ _ Hr).
  assert (E : pstep c p (sh w) r = (sh w, set_ts (goto r RBody) (clock (sh w)))).
  { unfold pstep, within. rewrite Hpc, Hif. cbn [andb]. destruct Hst as [-> | (t & -> & Ht)]; auto.
    apply Nat.ltb_ge in Ht. rewrite Ht. reflexivity. }
  rewrite E. cbn [fst snd].
  erewrite step_run_at; [| simpl; rewrite nth_error_upd, Nat.eqb_refl, Hr; reflexivity].
  reflexivity.
Qed.

(* ===== behaviour BEFORE the fix commits (kinds KLoad/KRefresh): record of the repaired defects ===== *)

Definition cur_pc (x : pc) : bool :=
  match x with
  | LList1 | PEnter | PExists _ | POpen _ | PWrite _ _ | PExit | LList2 | LRead _ | LFallback
  | RBody | RExitOpen | RExitWrite | LRecheck | Done _ | Dead => true
  | _ => false
  end.

Definition pop_cur (c : cfg) (m : files) (r : proc) : Prop :=
  match pc_of r with
  | PExists f | POpen f | PWrite f _ => below m f
  | PExit => below m (nfiles c)
  | _ => True
  end /\ (populated r = true -> below m (nfiles c)).

Definition Jcur (c : cfg) (m : files) (r : proc) : Prop :=
  cur_pc (pc_of r) = true /\
  (forall f i, pc_of r = PWrite f i -> i < nchunks c /\ has m (Ver f) = true) /\
  pop_cur c m r.

Definition mono (m m' : files) : Prop := forall f, has m (Ver f) = true -> has m' (Ver f) = true.

Lemma mono_refl m : mono m m. Proof. intros f H; exact H. Qed.

Lemma mono_set m f x : mono m (fset m (Ver f) x).
Proof. intros g H. rewrite has_fset. simpl. destruct (Nat.eqb g f); auto. Qed.

Lemma below_mono2 m m' f : mono m m' -> below m f -> below m' f.
Proof. intros Hm H g Hg. apply Hm. apply H. exact Hg. Qed.

Lemma Jcur_mono c m m' r : mono m m' -> Jcur c m r -> Jcur c m' r.
Proof.
  intros Hm (J1 & J2 & J3 & J4). split; [exact J1|]. split; [|split].
  - intros f i Hpc. destruct (J2 f i Hpc) as [Ha Hb]. split; auto.
  - destruct (pc_of r); auto; eapply below_mono2; eauto.
  - intro Hp. eapply below_mono2; eauto.
Qed.

Lemma below_set_S m f x : below m f -> below (fset m (Ver f) x) (S f).
Proof.
  intro H. apply below_S.
  - eapply below_mono2; [apply mono_set | exact H].
  - rewrite has_fset, fname_eqb_refl. reflexivity.
Qed.

Lemma below_set m f x k : below m k -> below (fset m (Ver f) x) k.
Proof. intro H. eapply below_mono2; [apply mono_set | exact H]. Qed.

(* what one operation of the current code does to the files and to the pc *)
Lemma pstep_cur c p s r s' r' :
  Jcur c (files_of s) r -> pstep c p s r = (s', r') ->
  Jcur c (files_of s') r' /\ mono (files_of s) (files_of s') /\
  match pc_of r with
  | POpen f => files_of s' = fset (files_of s) (Ver f) [] /\
               (nchunks c = 0 \/ pc_of r' = PWrite f 0)
  | PWrite f i => files_of s' = fset (files_of s) (Ver f) (write_at i (cur_content (files_of s) (Ver f))) /\
                  (S i < nchunks c -> pc_of r' = PWrite f (S i))
  | _ => files_of s' = files_of s /\ forall f i, pc_of r' <> PWrite f i
  end.
Proof.
  intros (J1 & J2 & J3 & J4) H. unfold pstep, after_chunk, lookup_fixed, acquire_step, remember, within_for, memo_written in H.
  destruct (pc_of r) eqn:Epc; try discriminate J1; cbn [pop_cur] in J3.
  all: try (case_step H; unfold Jcur; simp_sh; rewrite ?Epc;
            (split; [split; [reflexivity| split; [intros ? ? ?; discriminate|]]
                    |split; [apply mono_refl| split; [reflexivity| intros ? ? ?; discriminate]]]);
            unfold pop_cur; simp_sh; rewrite ?Epc; split; auto using below_0;
            try match goal with
                | H : Nat.leb _ _ = true, J : below _ _ |- below _ _ =>
                    eapply below_mono; [exact J | apply Nat.leb_le; exact H]
                | |- below _ (S _) => apply below_S; assumption
                end).
  - (* POpen *)
    case_step H; simp_sh;
      (split; [|split; [apply mono_set|split; [reflexivity|]]]).
    all: try (left; apply Nat.eqb_eq; assumption).
    all: try (right; reflexivity).
    all: split; [reflexivity|split].
    all: try (intros g i Hpc; cbn in Hpc; inversion Hpc; subst; (split;
              [match goal with E : Nat.eqb _ 0 = false |- _ => apply Nat.eqb_neq in E; lia end
              | rewrite has_fset, fname_eqb_refl; reflexivity])).
    all: unfold pop_cur; simp_sh; (split; [|intro; apply below_set; auto]).
    all: first [apply below_set_S; exact J3 | apply below_set; exact J3].
  - (* PWrite *)
    destruct (J2 _ _ eq_refl) as [Hi Hhas].
    case_step H; simp_sh;
      (split; [|split; [apply mono_set|split; [reflexivity|]]]).
    all: try (intro Hlt; first [reflexivity | apply Nat.ltb_lt in Hlt; congruence]).
    all: split; [reflexivity|split].
    all: try (intros g k Hpc; cbn in Hpc; inversion Hpc; subst; (split;
              [match goal with E : Nat.ltb _ _ = true |- _ => apply Nat.ltb_lt in E; lia end
              | rewrite has_fset, fname_eqb_refl; reflexivity])).
    all: unfold pop_cur; simp_sh; (split; [|intro; apply below_set; auto]).
    all: first [apply below_set_S; exact J3 | apply below_set; exact J3].
Qed.

(* position j of file f will still be written by a copier now inside its write loop *)
Definition covered (w : world) (f j : nat) : Prop :=
  exists p r i, nth_error (procs w) p = Some r /\ pc_of r = PWrite f i /\ i <= j.

Definition cur_inv (c : cfg) (w : world) : Prop :=
  (forall f x, fget (files_of (sh w)) (Ver f) = Some x ->
     length x <= nchunks c /\ forall j, j < nchunks c -> cell_at x j = Good \/ covered w f j) /\
  (forall p r, nth_error (procs w) p = Some r -> Jcur c (files_of (sh w)) r).

Lemma covered_upd w s' p r r' f j :
  nth_error (procs w) p = Some r ->
  (forall i, pc_of r = PWrite f i -> i <= j -> exists i', pc_of r' = PWrite f i' /\ i' <= j) ->
  covered w f j -> covered (mkW s' (upd (procs w) p r')) f j.
Proof.
  intros Hr Hself (p0 & r0 & i & H0 & Hpc & Hi).
  destruct (Nat.eq_dec p p0) as [<-|Hne].
  - rewrite Hr in H0. inversion H0. subst r0. destruct (Hself _ Hpc Hi) as (i' & Hpc' & Hi').
    exists p, r', i'. simpl. rewrite nth_error_upd, Nat.eqb_refl, Hr. auto.
  - exists p0, r0, i. simpl. rewrite nth_error_upd.
    apply Nat.eqb_neq in Hne. rewrite Hne. auto.
Qed.

Lemma cur_inv_run1 c w p : cur_inv c w -> cur_inv c (step c w (Run p)).
Proof.
  intros [HC HJ]. simpl. destruct (nth_error (procs w) p) as [r|] eqn:E; [|split; auto].
  destruct (pstep c p (sh w) r) as [s' r'] eqn:Ep.
  destruct (pstep_cur _ _ _ _ _ _ (HJ _ _ E) Ep) as (HJ' & Hm & Hsp).
  split.
  2:{ intros q rq Hq. simpl in *. rewrite nth_error_upd in Hq. destruct (Nat.eqb p q) eqn:Epq.
      - apply Nat.eqb_eq in Epq. subst q. rewrite E in Hq. inversion Hq. subst. exact HJ'.
      - eapply Jcur_mono; [exact Hm | eapply HJ; exact Hq]. }
  simpl. intros f x Hx.
  destruct (pc_of r) eqn:Epc.
  all: try (destruct Hsp as [Hfs Hnw]; rewrite Hfs in Hx; destruct (HC _ _ Hx) as [Hl Hc];
            split; [exact Hl|]; intros j Hj; destruct (Hc j Hj) as [Hg|Hcov];
            [left; exact Hg
            |right; eapply covered_upd; [exact E| |exact Hcov]; intros ? Hpc; rewrite Epc in Hpc; discriminate Hpc]).
  - (* POpen f0 *)
    destruct Hsp as [Hfs Hnext]. rewrite Hfs, fget_fset in Hx. simpl in Hx.
    destruct (Nat.eqb f f0) eqn:Ef.
    + apply Nat.eqb_eq in Ef. subst f0. inversion Hx. subst x. split; [simpl; lia|].
      intros j Hj. right. destruct Hnext as [Hn0|Hpc']; [lia|].
      exists p, r', 0. simpl. rewrite nth_error_upd, Nat.eqb_refl, E.
      repeat split; auto. lia.
    + destruct (HC _ _ Hx) as [Hl Hc]. split; [exact Hl|]. intros j Hj.
      destruct (Hc j Hj) as [Hg|Hcov]; [left; exact Hg|].
      right. eapply covered_upd; [exact E| |exact Hcov]. intros i Hpc; rewrite Epc in Hpc; discriminate Hpc.
  - (* PWrite f0 i0 *)
    rename f0 into f0', i into i0.
    destruct Hsp as [Hfs Hnext]. rewrite Hfs, fget_fset in Hx. simpl in Hx.
    destruct (HJ _ _ E) as (_ & Hw & _). destruct (Hw _ _ Epc) as [Hi0 Hhas].
    destruct (Nat.eqb f f0') eqn:Ef.
    + apply Nat.eqb_eq in Ef. subst f0'. inversion Hx. subst x. clear Hx.
      unfold has in Hhas. unfold cur_content.
      destruct (fget (files_of (sh w)) (Ver f)) as [x0|] eqn:Ex0; [|discriminate].
      destruct (HC _ _ Ex0) as [Hl Hc]. split; [rewrite length_write; lia|].
      intros j Hj. rewrite cell_at_write. destruct (Nat.eqb j i0) eqn:Eji; [left; reflexivity|].
      apply Nat.eqb_neq in Eji.
      destruct (Hc j Hj) as [Hg|Hcov]; [left; exact Hg|].
      right. eapply covered_upd; [exact E| |exact Hcov].
      intros i Hpc Hle. rewrite Epc in Hpc. inversion Hpc. subst i. exists (S i0). split; [apply Hnext; lia | lia].
    + destruct (HC _ _ Hx) as [Hl Hc]. split; [exact Hl|]. intros j Hj.
      destruct (Hc j Hj) as [Hg|Hcov]; [left; exact Hg|].
      right. eapply covered_upd; [exact E| |exact Hcov].
      intros i Hpc Hle. rewrite Epc in Hpc. inversion Hpc. subst. rewrite Nat.eqb_refl in Ef. discriminate.
Qed.

Lemma cur_inv_tick c w d : cur_inv c w -> cur_inv c (step c w (Tick d)).
Proof.
  intros [HC HJ]. split; simpl; auto.
Qed.

Lemma cur_inv_back c w d : cur_inv c w -> cur_inv c (step c w (Back d)).
Proof.
  intros [HC HJ]. split; simpl; auto.
Qed.

Lemma cur_inv_run c evs : forall w, no_crash evs -> cur_inv c w -> cur_inv c (run c w evs).
Proof.
  induction evs as [|e evs IH]; intros w Hn H; simpl; auto.
  inversion Hn; subst. apply IH; auto.
  destruct e as [p|p|d|d]; [apply cur_inv_run1|contradiction|apply cur_inv_tick|apply cur_inv_back]; auto.
Qed.

Lemma cur_inv_init c t ks : forallb is_prefix_kind ks = true -> cur_inv c (init t ks).
Proof.
  intro Hk. split; simpl.
  - intros f x H. discriminate.
  - intros p r Hr. apply nth_error_map_start in Hr. destruct Hr as (k & -> & Hin).
    rewrite forallb_forall in Hk. specialize (Hk _ Hin).
    destruct k; try discriminate Hk; unfold Jcur, pop_cur; simpl;
      (split; [reflexivity|split; [intros ? ? ?; discriminate|split; [exact I|intro; discriminate]]]).
Qed.

(* Before 19ec63c (in-place copies), no process killed: once every process has finished, every
   cached schema file is byte-identical to the installed one, and if some
   process went through population all bundled files are there. *)
Lemma finished_population_identical c t ks evs :
  forallb is_prefix_kind ks = true -> no_crash evs ->
  all_done (run c (init t ks) evs) ->
  (forall f x, ver (run c (init t ks) evs) f = Some x -> x = good (nchunks c)) /\
  (forall p r, nth_error (procs (run c (init t ks) evs)) p = Some r -> populated r = true ->
     forall f, f < nfiles c -> ver (run c (init t ks) evs) f = Some (good (nchunks c))).
Proof.
  intros Hk Hn Hd.
  destruct (cur_inv_run c evs _ Hn (cur_inv_init c t ks Hk)) as [HC HJ].
  set (w := run c (init t ks) evs) in *.
  assert (HG : forall f x, ver w f = Some x -> x = good (nchunks c)).
  { intros f x Hx. destruct (HC _ _ Hx) as [Hl Hc]. apply all_good; auto.
    intros j Hj. destruct (Hc j Hj) as [Hg|(p & r & i & Hr & Hpc & _)]; auto.
    unfold all_done in Hd. rewrite Forall_forall in Hd.
    specialize (Hd r (nth_error_In _ _ Hr)). rewrite Hpc in Hd. discriminate. }
  split; [exact HG|].
  intros p r Hr Hpop f Hf. destruct (HJ _ _ Hr) as (_ & _ & _ & Hb).
  specialize (Hb Hpop f Hf). unfold ver. unfold has in Hb.
  destruct (fget (files_of (sh w)) (Ver f)) as [x|] eqn:Ex; [|discriminate].
  f_equal. apply (HG f). exact Ex.
Qed.

(* ============================== the property clauses as statements === *)

(* every file under a version-pattern name is the complete installed file, always *)
Definition no_torn_visible_stmt (c : cfg) (ks : list kind) : Prop :=
  forall t evs f x, ver (run c (init t ks) evs) f = Some x -> x = good (nchunks c).

(* a load of a bundled version that returns, returns the bundled schema *)
Definition load_succeeds_stmt (c : cfg) (ks : list kind) : Prop :=
  forall t evs p r v o,
    nth_error (procs (run c (init t ks) evs)) p = Some r ->
    (kind_of r = KLoad v \/ kind_of r = KLoadFixed v) -> v < nfiles c ->
    pc_of r = Done o -> o = OLoaded.

(* two holders of the cache lock never overlap *)
Definition lock_exclusive_stmt (c : cfg) (ks : list kind) : Prop :=
  forall t evs p q rp rq,
    nth_error (procs (run c (init t ks) evs)) p = Some rp ->
    nth_error (procs (run c (init t ks) evs)) q = Some rq ->
    holding (pc_of rp) = true -> holding (pc_of rq) = true -> p = q.

Lemma fixed_no_torn_stmt c ks :
  cleanup_outside_lock c = false -> forallb is_fixed_kind ks = true -> no_torn_visible_stmt c ks.
Proof. intros Hc Hk t evs f x. apply fixed_no_torn_visible; assumption. Qed.

Lemma fixed_lock_stmt c ks :
  unlink_on_release c = false -> per_process_locks c = false -> cleanup_outside_lock c = false ->
  forallb is_fixed_kind ks = true -> lock_exclusive_stmt c ks.
Proof. intros Hu Hpp Hc Hk t evs p q rp rq. apply fixed_lock_exclusive; assumption. Qed.

Lemma fixed_load_stmt c ks :
  cleanup_outside_lock c = false -> forallb is_fixed_kind ks = true -> load_succeeds_stmt c ks.
Proof.
  intros Hc Hk t evs p r v o Hr Hkind Hv Hpc.
  destruct (fixed_inv_run c evs _ (fixed_inv_init c t ks Hc Hk)) as (_ & _ & HJ).
  destruct Hkind as [Hkind|Hkind].
  - (* a KLoad process cannot exist in a repaired world: its pc would not be a repaired one *)
    exfalso. clear HJ Hpc.
    assert (Hall : forall w, (forall q rq, nth_error (procs w) q = Some rq -> is_fixed_kind (kind_of rq) = true) ->
                   forall evs', forall q rq, nth_error (procs (run c w evs')) q = Some rq ->
                                             is_fixed_kind (kind_of rq) = true).
    { intros w Hw evs'. revert w Hw. induction evs' as [|e evs' IH]; intros w Hw; simpl; auto.
      apply IH. intros q rq Hq. destruct e as [p0|p0|d|d]; simpl in Hq.
      - destruct (nth_error (procs w) p0) as [r0|] eqn:E0; [|eauto].
        destruct (pstep c p0 (sh w) r0) as [s' r'] eqn:Ep. simpl in Hq.
        rewrite nth_error_upd in Hq. destruct (Nat.eqb p0 q) eqn:Epq; [|eauto].
        rewrite E0 in Hq. inversion Hq. subst rq.
        pose proof (pstep_kind c p0 (sh w) r0) as Hkk. rewrite Ep in Hkk. simpl in Hkk.
        rewrite Hkk. eauto.
      - destruct (nth_error (procs w) p0) as [r0|] eqn:E0; [|eauto].
        destruct (is_done (pc_of r0)); [eauto|]. simpl in Hq.
        rewrite nth_error_upd in Hq. destruct (Nat.eqb p0 q) eqn:Epq; [|eauto].
        rewrite E0 in Hq. inversion Hq. simpl. eauto.
      - eauto.
      - eauto. }
    assert (Hf : is_fixed_kind (kind_of r) = true).
    { eapply (Hall (init t ks)); [|exact Hr]. intros q rq Hq. simpl in Hq.
      apply nth_error_map_start in Hq. destruct Hq as (k & -> & Hin). simpl.
      rewrite forallb_forall in Hk. auto. }
    rewrite Hkind in Hf. discriminate.
  - eapply fixed_load_succeeds; eauto.
Qed.

(* ================================================= refuting witnesses === *)

Definition c2 : cfg := mkCfg 2 2 18 3 false false false false false false.   (* time unit: 100 s *)
Definition c2u : cfg := mkCfg 2 2 18 3 true false false false false false.   (* the same with "remove the lock file on release" *)
Definition t0 : nat := 50.

(* C19-F2, behaviour before 19ec63c: a process is killed inside the in-place copy of file 1; the next load of version 1
   finds a torn file under the final name and fails with a parse error *)
Definition ev_torn : list event := runs 0 9 ++ [Crash 0] ++ runs 1 2.

Lemma torn_witness :
  let w := run c2 (init t0 [KLoad 1; KLoad 1]) ev_torn in
  ver w 1 = Some [Good] /\ [Good] <> good (nchunks c2) /\ outcome_of w 1 = Some (OFail FParse).
Proof. vm_compute. repeat split; try reflexivity. discriminate. Qed.

(* the same without any crash: a concurrent loader reads the file while it is being copied *)
Definition ev_torn_live : list event := runs 0 9 ++ runs 1 2 ++ runs 0 5.

Lemma torn_live_witness :
  let w := run c2 (init t0 [KLoad 1; KLoad 1]) ev_torn_live in
  no_crash ev_torn_live /\ outcome_of w 0 = Some OLoaded /\ outcome_of w 1 = Some (OFail FParse).
Proof.
  split; [repeat constructor|]. vm_compute. split; reflexivity.
Qed.

(* C19-F3, behaviour before 160dd4a: a process is killed between two copies; no file is torn, but the cache is non-empty,
   is never populated again, and the load of the missing bundled version goes to the
   network: URLError, then (inside the refresh interval) "not cached" *)
Definition ev_partial : list event := runs 0 6 ++ [Crash 0] ++ runs 1 5 ++ runs 2 3.

Lemma partial_witness :
  let w := run c2 (init t0 [KLoad 1; KLoad 1; KLoad 1]) ev_partial in
  ver w 0 = Some (good 2) /\ ver w 1 = None /\
  outcome_of w 1 = Some (OFail FURLError) /\ outcome_of w 2 = Some (OFail FNotCached) /\
  netreqs (sh w) = 1.
Proof. vm_compute. repeat split; reflexivity. Qed.

(* ... and without any crash: a loader that lists the directory while another populates it *)
Definition ev_partial_live : list event := runs 0 6 ++ runs 1 5 ++ runs 0 8.

Lemma partial_live_witness :
  let w := run c2 (init t0 [KLoad 1; KLoad 1]) ev_partial_live in
  no_crash ev_partial_live /\ outcome_of w 0 = Some OLoaded /\ outcome_of w 1 = Some (OFail FURLError).
Proof. split; [repeat constructor|]. vm_compute. split; reflexivity. Qed.

(* C19-F1, behaviour before da46472: both processes are inside "with CacheLock(...)" at the same time, neither got the
   cache error *)
Definition ev_lock : list event := runs 0 2 ++ runs 1 2.

Lemma lock_witness :
  let w := run c2 (init t0 [KLoad 1; KLoad 1]) ev_lock in
  exists r0 r1, nth_error (procs w) 0 = Some r0 /\ nth_error (procs w) 1 = Some r1 /\
                holding (pc_of r0) = true /\ holding (pc_of r1) = true /\
                cache_err r0 = false /\ cache_err r1 = false /\ locks (sh w) = [].
Proof. vm_compute. eexists. eexists. repeat split; reflexivity. Qed.

Lemma no_torn_visible_refuted :
  exists c ks, forallb is_prefix_kind ks = true /\ ~ no_torn_visible_stmt c ks.
Proof.
  exists c2, [KLoad 1; KLoad 1]. split; [reflexivity|]. intro H.
  destruct torn_witness as (Hv & Hne & _). apply Hne. eapply H. exact Hv.
Qed.

Lemma load_succeeds_after_crash_refuted :
  exists c ks, forallb is_prefix_kind ks = true /\ ~ load_succeeds_stmt c ks.
Proof.
  exists c2, [KLoad 1; KLoad 1; KLoad 1]. split; [reflexivity|]. intro H.
  specialize (H t0 ev_partial 1).
  remember (run c2 (init t0 [KLoad 1; KLoad 1; KLoad 1]) ev_partial) as w eqn:Ew.
  destruct (nth_error (procs w) 1) as [r|] eqn:Er.
  - assert (Hk : kind_of r = KLoad 1 /\ pc_of r = Done (OFail FURLError)).
    { subst w. vm_compute in Er. inversion Er. split; reflexivity. }
    destruct Hk as [Hk Hpc].
    specialize (H r 1 (OFail FURLError) eq_refl (or_introl Hk) ltac:(vm_compute; lia) Hpc).
    discriminate H.
  - subst w. vm_compute in Er. discriminate Er.
Qed.

Lemma lock_exclusive_refuted :
  exists c ks, forallb is_prefix_kind ks = true /\ ~ lock_exclusive_stmt c ks.
Proof.
  exists c2, [KLoad 1; KLoad 1]. split; [reflexivity|]. intro H.
  destruct lock_witness as (r0 & r1 & H0 & H1 & Hh0 & Hh1 & _).
  specialize (H t0 ev_lock 0 1 r0 r1 H0 H1 Hh0 Hh1). discriminate H.
Qed.

(* C19-F4, behaviour before b23f2f7: nobody killed.  The time stamp is rewritten in place (open 'w', then write): a process
   that found the directory empty and is entering CacheLock reads the still-empty
   last_update.txt of a concurrent refresher -> ValueError, which neither
   _read_last_cached_time ("except FileNotFoundError or ValueError or IOError") nor
   cache_local_versions catches *)
Definition ev_stamp : list event := [Run 1] ++ runs 0 4 ++ runs 2 4 ++ [Run 1].

Lemma stamp_witness :
  let w := run c2 (init t0 [KLoad 1; KLoad 1; KLoad 1]) ev_stamp in
  no_crash ev_stamp /\ stamp (sh w) = StampTorn /\ outcome_of w 1 = Some (OFail FValueError).
Proof. split; [repeat constructor|]. vm_compute. split; reflexivity. Qed.

(* ANTI-PATTERN: "tidy up" by removing cache_lock.lock in __exit__.  Three contenders, nobody
   killed: A holds the lock; B has started acquiring (it has the file open and its first attempt
   failed); A leaves: unlock, close, unlink; B's next attempt locks the file it has open -- which
   no longer has a name; C arrives, finds no lock file, creates a NEW one and locks that.  B and C
   are inside "with CacheLock" together, each holding "the" lock. *)
Definition ev_unlink : list event :=
  [Run 0; Run 1; Run 2] ++ runs 0 2 ++ runs 1 2 ++ runs 0 12 ++ [Run 1] ++ runs 2 2.

Lemma unlink_witness :
  let w := run c2u (init t0 [KLoadFixed 1; KLoadFixed 1; KLoadFixed 1]) ev_unlink in
  no_crash ev_unlink /\
  exists r1 r2, nth_error (procs w) 1 = Some r1 /\ nth_error (procs w) 2 = Some r2 /\
                holding (pc_of r1) = true /\ holding (pc_of r2) = true /\
                fd r1 = Some 0 /\ fd r2 = Some 1 /\ lockfile (sh w) = Some 1 /\
                lget (locks (sh w)) 0 = Some 1 /\ lget (locks (sh w)) 1 = Some 2.
Proof.
  split; [repeat constructor|]. vm_compute. eexists. eexists. repeat split; reflexivity.
Qed.

(* the very same schedule without the unlink: C's attempt fails, it is not inside *)
Lemma unlink_contrast :
  let w := run c2 (init t0 [KLoadFixed 1; KLoadFixed 1; KLoadFixed 1]) ev_unlink in
  exists r1 r2, nth_error (procs w) 1 = Some r1 /\ nth_error (procs w) 2 = Some r2 /\
                holding (pc_of r1) = true /\ pc_of r2 = FAcquire /\ tries r2 = 1 /\
                lockfile (sh w) = Some 0 /\ lget (locks (sh w)) 0 = Some 1.
Proof. vm_compute. eexists. eexists. repeat split; reflexivity. Qed.

Lemma lock_exclusive_unlink_refuted :
  exists c ks, forallb is_fixed_kind ks = true /\ unlink_on_release c = true /\
               ~ lock_exclusive_stmt c ks.
Proof.
  exists c2u, [KLoadFixed 1; KLoadFixed 1; KLoadFixed 1]. split; [reflexivity|]. split; [reflexivity|].
  intro H. destruct unlink_witness as (_ & r1 & r2 & H1 & H2 & Hh1 & Hh2 & _).
  specialize (H t0 ev_unlink 1 2 r1 r2 H1 H2 Hh1 Hh2). discriminate H.
Qed.

(* ANTI-PATTERN: "remove leftover *.tmp files" before taking the lock.  Two populators, nobody
   killed: both found the folder empty; P0 holds the lock and is between its temporary copy of file 0
   and the rename; P1 does its clean-up (outside the lock) and removes P0's in-flight temporary
   file; P0's os.replace raises FileNotFoundError, which escapes load_schema_version. *)
Definition c2c : cfg := mkCfg 2 2 18 3 false true false false false false.
Definition ev_cleanup : list event := [Run 0; Run 1] ++ runs 0 6 ++ [Run 1] ++ runs 0 2.

Lemma cleanup_witness :
  let w := run c2c (init t0 [KLoadFixed 1; KLoadFixed 1]) ev_cleanup in
  no_crash ev_cleanup /\ outcome_of w 0 = Some (OFail FFileNotFound) /\ locks (sh w) = [].
Proof. split; [repeat constructor|]. vm_compute. split; reflexivity. Qed.

(* the same schedule without the clean-up step: P0 is simply two operations further *)
Lemma cleanup_contrast :
  let w := run c2 (init t0 [KLoadFixed 1; KLoadFixed 1]) (ev_cleanup ++ runs 0 12) in
  outcome_of w 0 = Some OLoaded.
Proof. vm_compute. reflexivity. Qed.

Lemma load_succeeds_cleanup_refuted :
  exists c ks, forallb is_fixed_kind ks = true /\ cleanup_outside_lock c = true /\
               ~ load_succeeds_stmt c ks.
Proof.
  exists c2c, [KLoadFixed 1; KLoadFixed 1]. split; [reflexivity|]. split; [reflexivity|]. intro H.
  specialize (H t0 ev_cleanup 0).
  remember (run c2c (init t0 [KLoadFixed 1; KLoadFixed 1]) ev_cleanup) as w eqn:Ew.
  destruct (nth_error (procs w) 0) as [r|] eqn:Er.
  - assert (Hk : kind_of r = KLoadFixed 1 /\ pc_of r = Done (OFail FFileNotFound)).
    { subst w. vm_compute in Er. inversion Er. split; reflexivity. }
    destruct Hk as [Hk Hpc].
    specialize (H r 1 (OFail FFileNotFound) eq_refl (or_intror Hk) ltac:(vm_compute; lia) Hpc).
    discriminate H.
  - subst w. vm_compute in Er. discriminate Er.
Qed.

(* ANTI-PATTERN: the last-update time memoised per OS process.  OS process 7 refreshes at time 50
   (calls 0 and 2 are both its calls); more than the interval later another process refreshes at
   70; one time unit later process 7 tries again: its memo still says 50, it is NOT skipped and
   goes to the network although the shared stamp is one unit old. *)
Definition c2m : cfg := mkCfg 2 2 18 3 false false true false false false.
Definition ev_memo : list event := runs 0 4 ++ [Tick 20] ++ runs 1 4 ++ [Tick 1] ++ runs 2 3.
Definition ks_memo : list kind := [KRefreshOf 7; KRefreshFixed; KRefreshOf 7].

Lemma memo_witness :
  let w := run c2m (init t0 ks_memo) ev_memo in
  stamp (sh w) = StampAt 70 /\ clock (sh w) = 71 /\ netreqs (sh w) = 3 /\
  exists r, nth_error (procs w) 2 = Some r /\ nreq r = 1 /\ cache_err r = false.
Proof. vm_compute. repeat split; try reflexivity. eexists. repeat split; reflexivity. Qed.

(* the code as it is (no memo; the same before the fixes): same schedule, the third call is skipped, no request *)
Lemma memo_contrast :
  let w := run c2 (init t0 ks_memo) ev_memo in
  stamp (sh w) = StampAt 70 /\ netreqs (sh w) = 2 /\ outcome_of w 2 = Some OSkipped /\
  exists r, nth_error (procs w) 2 = Some r /\ nreq r = 0 /\ cache_err r = true.
Proof. vm_compute. repeat split; try reflexivity. eexists. repeat split; reflexivity. Qed.

(* ANTI-PATTERN: the lock belongs to the OS process (POSIX record locks, fcntl.lockf) instead of the
   open file (flock).  Contenders 0 and 2 are two threads (or a nested CacheLock) of OS process 7,
   contender 1 is another process.  Nobody is killed.  A (0) holds; Q (1) has passed the threshold
   test; B (2), in A's process, "acquires" at once: A and B are inside together.  B leaves: its
   close drops the lock of the whole process; Q's first attempt succeeds while A is still inside. *)
Definition c2p : cfg := mkCfg 2 2 18 3 false false false true false false.
Definition ks_same : list kind := [KRefreshOf 7; KRefreshFixed; KRefreshOf 7].
Definition ev_same_1 : list event := runs 0 2 ++ [Run 1] ++ runs 2 2.
Definition ev_same_2 : list event := ev_same_1 ++ runs 2 2 ++ [Run 1].

Lemma same_process_witness :
  (let w := run c2p (init t0 ks_same) ev_same_1 in
   exists ra rb, nth_error (procs w) 0 = Some ra /\ nth_error (procs w) 2 = Some rb /\
                 holding (pc_of ra) = true /\ holding (pc_of rb) = true /\ tries rb = 0) /\
  (let w := run c2p (init t0 ks_same) ev_same_2 in
   exists ra rq, nth_error (procs w) 0 = Some ra /\ nth_error (procs w) 1 = Some rq /\
                 holding (pc_of ra) = true /\ holding (pc_of rq) = true /\
                 outcome_of w 2 = Some OSkipped).
Proof.
  split; vm_compute; eexists; eexists; repeat split; reflexivity.
Qed.

(* with locks that belong to the open file: B's three attempts fail, it gives up with the cache
   error; Q's attempt fails as well, A stays alone inside *)
Lemma same_process_contrast :
  let w := run c2 (init t0 ks_same) (runs 0 2 ++ [Run 1] ++ runs 2 4 ++ [Run 1]) in
  exists ra rq rb, nth_error (procs w) 0 = Some ra /\ nth_error (procs w) 1 = Some rq /\
                   nth_error (procs w) 2 = Some rb /\
                   holding (pc_of ra) = true /\ holding (pc_of rq) = false /\ tries rq = 1 /\
                   pc_of rb = Done OSkipped /\ cache_err rb = true.
Proof. vm_compute. eexists. eexists. eexists. repeat split; reflexivity. Qed.

Lemma lock_exclusive_per_process_refuted :
  exists c ks, forallb is_fixed_kind ks = true /\ per_process_locks c = true /\
               ~ lock_exclusive_stmt c ks.
Proof.
  exists c2p, ks_same. split; [reflexivity|]. split; [reflexivity|]. intro H.
  destruct same_process_witness as [(ra & rb & H0 & H2 & Hh0 & Hh2 & _) _].
  specialize (H t0 ev_same_1 0 2 ra rb H0 H2 Hh0 Hh2). discriminate H.
Qed.

(* ---------------------------------------------------------- non-vacuity *)

(* two loaders of the current code interleaved step by step, nobody killed: both finish *)
Definition ev_two : list event :=
  [Run 0; Run 1; Run 0; Run 1] ++ concat (repeat [Run 0; Run 1] 14).

Lemma two_finish_example :
  let w := run c2 (init t0 [KLoad 1; KLoad 0]) ev_two in
  no_crash ev_two /\ all_done w /\ ver w 0 = Some (good 2) /\ ver w 1 = Some (good 2) /\
  outcome_of w 0 = Some OLoaded /\ outcome_of w 1 = Some OLoaded.
Proof.
  split; [repeat constructor|]. vm_compute. repeat split; try reflexivity; repeat constructor.
Qed.

(* the code as it is: a populator is killed while holding the lock in the middle of a copy,
   a second populator and a loader interleave; a refresher competes for the lock *)
Definition ev_fixed : list event :=
  [Run 0; Run 1; Run 2] ++ runs 0 5 ++ [Run 1; Run 1; Run 2; Run 3; Run 3; Crash 0] ++
  concat (repeat [Run 1; Run 2; Run 3] 20).

Lemma fixed_example :
  let w := run c2 (init t0 [KLoadFixed 1; KLoadFixed 1; KLoadFixed 0; KRefreshFixed]) ev_fixed in
  pc_at w 0 = Some Dead /\ outcome_of w 1 = Some OLoaded /\ outcome_of w 2 = Some OLoaded /\
  outcome_of w 3 = Some OSkipped /\ ver w 0 = Some (good 2) /\ ver w 1 = Some (good 2) /\
  locks (sh w) = [] /\ fget (files_of (sh w)) (Tmp 0 0) = Some [Good].
Proof. vm_compute. repeat split; reflexivity. Qed.

(* ============== the repaired loader terminates (no deadlock, no livelock) === *)

Definition per_file (c : cfg) : nat := nchunks c + 4.

(* an upper bound on the number of own steps left *)
Definition fmeasure (c : cfg) (r : proc) : nat :=
  match pc_of r with
  | FList1 => 9 + nfiles c * per_file c + max_tries c
  | FEnter => 8 + nfiles c * per_file c + max_tries c
  | FAcquire => 7 + nfiles c * per_file c + (max_tries c - tries r)
  | FExists f => 5 + (nfiles c - f) * per_file c
  | FTOpen f => 5 + (nfiles c - S f) * per_file c + nchunks c + 3
  | FTWrite f i => 5 + (nfiles c - S f) * per_file c + (nchunks c - i) + 2
  | FReplace f => 5 + (nfiles c - S f) * per_file c + 1
  | FRelease => 4
  | FCheck => 3
  | FRead => 2
  | FReadInstalled => 1
  | _ => 0
  end.

Definition load_bound (c : cfg) : nat := 9 + nfiles c * per_file c + max_tries c.

Lemma mul_step N f K : f < N -> (N - f) * K = K + (N - S f) * K.
Proof. intro H. replace (N - f) with (S (N - S f)) by lia. simpl. reflexivity. Qed.

Lemma fmeasure_decr c p s r s' r' :
  lf_pc (pc_of r) = true -> 0 < fmeasure c r -> pstep c p s r = (s', r') ->
  fmeasure c r' < fmeasure c r.
Proof.
  intros Hl Hm H. unfold pstep, after_chunk, lookup_fixed, acquire_step, remember, within_for, memo_written in H. unfold fmeasure in *.
  destruct (pc_of r) eqn:Epc; try discriminate Hl; try lia;
    case_step H; simp_sh; rewrite ?Epc; unfold per_file in *;
    repeat match goal with
           | E : Nat.leb _ _ = true |- _ => apply Nat.leb_le in E
           | E : Nat.leb _ _ = false |- _ => apply Nat.leb_gt in E
           | E : Nat.ltb _ _ = true |- _ => apply Nat.ltb_lt in E
           | E : Nat.ltb _ _ = false |- _ => apply Nat.ltb_ge in E
           | E : Nat.eqb _ _ = true |- _ => apply Nat.eqb_eq in E
           | E : Nat.eqb _ _ = false |- _ => apply Nat.eqb_neq in E
           end;
    try lia;
    try (rewrite (mul_step (nfiles c) f (nchunks c + 4)) by lia; lia).
Qed.

Lemma fmeasure_zero c r :
  lf_pc (pc_of r) = true -> pc_of r <> Dead -> fmeasure c r = 0 -> pc_of r = Done OLoaded.
Proof.
  unfold fmeasure. intros Hl Hd Hm.
  destruct (pc_of r) eqn:E; try discriminate Hl; try (simpl in Hm; discriminate Hm); try contradiction.
  match goal with H : lf_pc (Done ?o) = true |- _ => destruct o; try discriminate H; reflexivity end.
Qed.

Lemma pstep_not_dead c p s r : pc_of r <> Dead -> pc_of (snd (pstep c p s r)) <> Dead.
Proof.
  intro Hd. destruct r as [k x tr po ce tt dd nr]. unfold pstep, after_chunk, lookup_fixed, acquire_step, remember, within_for, memo_written. simp_sh.
  destruct x; try contradiction;
    repeat match goal with
           | |- context [if ?b then _ else _] => destruct b
           | |- context [match ?x with _ => _ end] => destruct x
           end; simpl; discriminate.
Qed.

Fixpoint count_run (p : nat) (evs : list event) : nat :=
  match evs with
  | [] => 0
  | Run q :: t => (if Nat.eqb p q then 1 else 0) + count_run p t
  | _ :: t => count_run p t
  end.

Definition never_killed (p : nat) (evs : list event) : Prop := Forall (fun e => e <> Crash p) evs.

Lemma fixed_load_terminates_gen c p evs : forall w r v,
  fixed_inv c w -> lf_inv c w -> nth_error (procs w) p = Some r ->
  kind_of r = KLoadFixed v -> v < nfiles c -> pc_of r <> Dead ->
  never_killed p evs -> fmeasure c r <= count_run p evs ->
  exists r', nth_error (procs (run c w evs)) p = Some r' /\ pc_of r' = Done OLoaded.
Proof.
  induction evs as [|e evs IH]; intros w r v HI HL Hr Hk Hv Hd Hn Hm.
  - simpl in *. exists r. split; auto. apply (fmeasure_zero c);
      [eapply HL; eauto | exact Hd | lia].
  - inversion Hn as [|? ? He Hn']; subst.
    pose proof (fixed_inv_step c w e HI) as HI'. pose proof (lf_inv_step c w e HI HL) as HL'.
    simpl. destruct e as [q|q|d|d].
    + destruct (Nat.eq_dec p q) as [<-|Hne].
      * pose proof (proc_at_step_run c w p r Hr) as Hat. unfold proc_at in Hat.
        pose proof (pstep_kind c p (sh w) r) as Hkk.
        eapply (IH _ _ v HI' HL' Hat); auto.
        -- rewrite Hkk. exact Hk.
        -- apply pstep_not_dead. exact Hd.
        -- simpl in Hm. rewrite Nat.eqb_refl in Hm.
           destruct (Nat.eq_dec (fmeasure c r) 0) as [Hz|Hnz].
           ++ assert (Hpc : pc_of r = Done OLoaded)
                by (apply (fmeasure_zero c); [eapply HL; eauto | exact Hd | exact Hz]).
              assert (Hid : snd (pstep c p (sh w) r) = r) by (unfold pstep; rewrite Hpc; reflexivity).
              rewrite Hid. lia.
           ++ destruct (pstep c p (sh w) r) as [s' r'] eqn:Ep. simpl.
              assert (fmeasure c r' < fmeasure c r).
              { eapply (fmeasure_decr c p (sh w) r s' r'); [eapply HL; eauto | lia | exact Ep]. }
              lia.
      * eapply (IH _ r v HI' HL'); auto.
        -- simpl. destruct (nth_error (procs w) q) as [rq|] eqn:Eq; auto.
           destruct (pstep c q (sh w) rq). simpl. rewrite nth_error_upd.
           apply Nat.eqb_neq in Hne. rewrite Nat.eqb_sym, Hne. exact Hr.
        -- simpl in Hm. apply Nat.eqb_neq in Hne. rewrite Hne in Hm. exact Hm.
    + assert (Hne : q <> p) by (intro; subst; apply He; reflexivity).
      eapply (IH _ r v HI' HL'); auto.
      simpl. destruct (nth_error (procs w) q) as [rq|] eqn:Eq; auto.
      destruct (is_done (pc_of rq)); auto. simpl. rewrite nth_error_upd.
      apply Nat.eqb_neq in Hne. rewrite Hne. exact Hr.
    + eapply (IH _ r v HI' HL'); auto.
    + eapply (IH _ r v HI' HL'); auto.
Qed.

(* The code as it is, any number of processes of the K..Fixed kinds, any
   schedule with any kills of OTHER processes: a loader of a bundled version
   that is scheduled at least [load_bound c] times has returned the bundled
   schema. *)
Lemma fixed_load_terminates c t ks evs p v :
  cleanup_outside_lock c = false ->
  forallb is_fixed_kind ks = true -> nth_error ks p = Some (KLoadFixed v) -> v < nfiles c ->
  never_killed p evs -> load_bound c <= count_run p evs ->
  outcome_of (run c (init t ks) evs) p = Some OLoaded.
Proof.
  intros Hc Hk Hp Hv Hn Hb.
  destruct (fixed_load_terminates_gen c p evs (init t ks) (start (KLoadFixed v)) v) as (r' & Hr' & Hpc); auto.
  - apply fixed_inv_init; assumption.
  - apply lf_inv_init.
  - simpl. rewrite nth_error_map, Hp. reflexivity.
  - simpl. discriminate.
  - unfold outcome_of. rewrite Hr', Hpc. reflexivity.
Qed.

(* ===== the directory may be in any state when the processes start (audit item: not only empty) ===== *)

(* the only requirement on the directory found: every file under a version-pattern name is a
   complete copy.  Everything else is arbitrary: leftover temporary files, last_update.txt in any
   state (torn included), a lock file, advisory locks held by processes outside ks, the clock. *)
Definition dir_ok (c : cfg) (s0 : shared) : Prop := vers_good c (files_of s0).

Lemma dir_ok_empty c t : dir_ok c (sh0 t).
Proof. intros f x H. discriminate. Qed.

Lemma fixed_inv_init_from c s0 ks :
  cleanup_outside_lock c = false -> dir_ok c s0 -> forallb is_fixed_kind ks = true ->
  fixed_inv c (init_from s0 ks).
Proof.
  intros Hc Hd Hk. split; [exact Hc|]. split; [exact Hd|]. simpl.
  intros p r Hr. apply nth_error_map_start in Hr. destruct Hr as (k & -> & Hin).
  rewrite forallb_forall in Hk. specialize (Hk _ Hin).
  destruct k; try discriminate Hk; unfold Jfix; simpl; repeat split; auto; intro; discriminate.
Qed.

Lemma lock_inv_init_from s0 ks : lock_inv (init_from s0 ks).
Proof.
  intros p r Hr. simpl in Hr. apply nth_error_map_start in Hr. destruct Hr as (k & -> & _).
  split; simpl.
  - destruct k; simpl; intro; discriminate.
  - intros i Hi. discriminate.
Qed.

Lemma lf_inv_init_from c s0 ks : lf_inv c (init_from s0 ks).
Proof.
  intros p r v Hr Hk Hv. simpl in Hr. apply nth_error_map_start in Hr.
  destruct Hr as (k & -> & _). simpl in Hk. subst k. reflexivity.
Qed.

Definition no_torn_visible_from (c : cfg) (ks : list kind) : Prop :=
  forall s0 evs f x, dir_ok c s0 ->
    ver (run c (init_from s0 ks) evs) f = Some x -> x = good (nchunks c).

Definition load_succeeds_from (c : cfg) (ks : list kind) : Prop :=
  forall s0 evs p r v o, dir_ok c s0 ->
    nth_error (procs (run c (init_from s0 ks) evs)) p = Some r ->
    kind_of r = KLoadFixed v -> v < nfiles c -> pc_of r = Done o -> o = OLoaded.

Definition lock_exclusive_from (c : cfg) (ks : list kind) : Prop :=
  forall s0 evs p q rp rq, dir_ok c s0 ->
    nth_error (procs (run c (init_from s0 ks) evs)) p = Some rp ->
    nth_error (procs (run c (init_from s0 ks) evs)) q = Some rq ->
    holding (pc_of rp) = true -> holding (pc_of rq) = true -> p = q.

Lemma no_torn_visible_any_directory c ks :
  cleanup_outside_lock c = false -> forallb is_fixed_kind ks = true -> no_torn_visible_from c ks.
Proof.
  intros Hc Hk s0 evs f x Hd H.
  destruct (fixed_inv_run c evs _ (fixed_inv_init_from c s0 ks Hc Hd Hk)) as (_ & HA & _).
  eapply HA. exact H.
Qed.

Lemma load_succeeds_any_directory c ks :
  cleanup_outside_lock c = false -> forallb is_fixed_kind ks = true -> load_succeeds_from c ks.
Proof.
  intros Hc Hk s0 evs p r v o Hd Hr Hkind Hv Hpc.
  destruct (fixed_both_run c evs _ (fixed_inv_init_from c s0 ks Hc Hd Hk) (lf_inv_init_from c s0 ks))
    as [_ HL].
  specialize (HL _ _ _ Hr Hkind Hv). rewrite Hpc in HL. destruct o; try discriminate HL. reflexivity.
Qed.

Lemma lock_exclusive_any_directory c ks :
  unlink_on_release c = false -> per_process_locks c = false -> cleanup_outside_lock c = false ->
  forallb is_fixed_kind ks = true -> lock_exclusive_from c ks.
Proof.
  intros Hu Hpp Hc Hk s0 evs p q rp rq Hd Hp Hq Hhp Hhq.
  pose proof (lock_inv_run c evs _ Hu Hpp (fixed_inv_init_from c s0 ks Hc Hd Hk)
                (lock_inv_init_from s0 ks)) as HL.
  destruct (HL _ _ Hp) as [A B]. destruct (HL _ _ Hq) as [A' B'].
  destruct (A Hhp) as (i & Hfd & Hl). destruct (A' Hhq) as (j & Hfd' & Hl').
  pose proof (B _ Hfd) as H1. pose proof (B' _ Hfd') as H2. congruence.
Qed.

Lemma finished_population_any_directory c s0 ks evs p r f :
  cleanup_outside_lock c = false -> forallb is_fixed_kind ks = true -> dir_ok c s0 ->
  nth_error (procs (run c (init_from s0 ks) evs)) p = Some r -> populated r = true ->
  f < nfiles c -> ver (run c (init_from s0 ks) evs) f = Some (good (nchunks c)).
Proof.
  intros Hc Hk Hd Hp Hpop Hf.
  destruct (fixed_inv_run c evs _ (fixed_inv_init_from c s0 ks Hc Hd Hk)) as (_ & HA & HJ).
  destruct (HJ _ _ Hp) as (_ & J3 & _). specialize (J3 Hpop f Hf).
  unfold ver. unfold has in J3. destruct (fget _ (Ver f)) as [x|] eqn:E; [|discriminate].
  f_equal. eapply HA. exact E.
Qed.

Lemma load_terminates_any_directory c s0 ks evs p v :
  cleanup_outside_lock c = false -> forallb is_fixed_kind ks = true -> dir_ok c s0 ->
  nth_error ks p = Some (KLoadFixed v) -> v < nfiles c ->
  never_killed p evs -> load_bound c <= count_run p evs ->
  outcome_of (run c (init_from s0 ks) evs) p = Some OLoaded.
Proof.
  intros Hc Hk Hd Hp Hv Hn Hb.
  destruct (fixed_load_terminates_gen c p evs (init_from s0 ks) (start (KLoadFixed v)) v)
    as (r' & Hr' & Hpc); auto.
  - apply fixed_inv_init_from; assumption.
  - apply lf_inv_init_from.
  - simpl. rewrite nth_error_map, Hp. reflexivity.
  - simpl. discriminate.
  - unfold outcome_of. rewrite Hr', Hpc. reflexivity.
Qed.

(* non-vacuity and sharpness of dir_ok.  A directory with leftovers of every kind: a temporary
   file of a dead process, a torn time stamp, a lock file whose lock a process outside ks still
   holds -- the loader gives up on the lock and still returns the bundled schema. *)
Definition s_left : shared :=
  mkSh [(Ver 0, [Good; Good]); (Tmp 9 1, [Good])] StampTorn (Some 0) [(0, 9)] 1 t0 0 [].

Lemma leftovers_example :
  dir_ok c2 s_left /\
  (let w := run c2 (init_from s_left [KLoadFixed 1; KRefreshFixed]) (runs 0 3 ++ runs 1 6) in
   outcome_of w 0 = Some OLoaded /\ outcome_of w 1 = Some OSkipped /\ ver w 0 = Some (good 2)).
Proof.
  split.
  - intros f x. unfold s_left. simpl. destruct (Nat.eqb f 0); intro H; inversion H. reflexivity.
  - vm_compute. repeat split; reflexivity.
Qed.

(* The precondition cannot be dropped: a file under a FINAL name that is already torn when the
   processes start -- which no process of the current code can produce (no_torn_visible), only a
   version before commit 19ec63c, or a person -- is neither healed nor avoided: the load of that
   version ends with the parse error and the file stays as it is. *)
Definition s_torn : shared := mkSh [(Ver 1, [Good])] NoStamp None [] 0 t0 0 [].

Lemma preexisting_torn_file_witness :
  ~ dir_ok c2 s_torn /\
  (let w := run c2 (init_from s_torn [KLoadFixed 1]) (runs 0 2) in
   outcome_of w 0 = Some (OFail FParse) /\ ver w 1 = Some [Good]).
Proof.
  split.
  - intro H. specialize (H 1 [Good] eq_refl). discriminate H.
  - vm_compute. split; reflexivity.
Qed.

(* ===== the code as it is since fix commit 8dfe516 (C19-F5, parse_fallback = true): no requirement on
   the directory at all ===== *)

(* the per-process part of the invariant does not depend on the final-name files being complete *)
Lemma pstep_J c p s r s' r' :
  cleanup_outside_lock c = false -> Jfix c p s r -> pstep c p s r = (s', r') -> Jfix c p s' r'.
Proof.
  intros Hc (J1 & J3 & J4 & J5) H. unfold pstep, after_chunk, lookup_fixed, acquire_step, opened, remember, within_for, memo_written in H.
  rewrite Hc in H.
  destruct (pc_of r) eqn:Epc; try discriminate J1; cbn [holding tmp_ok pop_ok] in J4, J5;
    try match type of J4 with _ /\ _ => destruct J4 as [J4 J4'] end;
    unfold cur_content in H; try rewrite J4 in H;
    case_step H; unfold Jfix; simp_sh; rewrite ?files_leave, ?Epc;
    cbn [fixed_pc holding tmp_ok pop_ok]; rewrite ?fget_tmp_same, ?write_good.
  all: try match goal with |- _ /\ _ => split; [reflexivity|split; [|split]] end.
  all: auto using below_tmp, below_replace, below_replace_S, below_0.
  all: try (intros; discriminate).
  all: try (rewrite good_0 by assumption; reflexivity).
  all: try (split; [reflexivity|]).
  all: try match goal with
           | H : Nat.eqb _ 0 = false |- 0 < _ => apply Nat.eqb_neq in H; lia
           | H : Nat.ltb _ _ = true |- _ < _ => apply Nat.ltb_lt; exact H
           | H : Nat.ltb (S ?i) ?n = false, H' : ?i < ?n |- Some _ = Some (good _) =>
               apply Nat.ltb_ge in H; unfold good; do 2 f_equal; lia
           | H : Nat.leb _ _ = true, J : below _ _ |- below _ _ =>
               eapply below_mono; [exact J | apply Nat.leb_le; exact H]
           | |- below _ (S _) => apply below_S; assumption
           end.
Qed.

Definition J_inv (c : cfg) (w : world) : Prop :=
  forall p r, nth_error (procs w) p = Some r -> Jfix c p (sh w) r.

Lemma J_inv_step c w e : cleanup_outside_lock c = false -> J_inv c w -> J_inv c (step c w e).
Proof.
  intros Hc HJ. destruct e as [p|p|d|d]; simpl; auto.
  - destruct (nth_error (procs w) p) as [r|] eqn:E; auto.
    destruct (pstep c p (sh w) r) as [s' r'] eqn:Ep.
    pose proof (pstep_J _ _ _ _ _ _ Hc (HJ _ _ E) Ep) as HJ'.
    pose proof (pstep_frame _ _ _ _ _ _ (proj1 (HJ _ _ E)) Ep) as Hfr.
    intros q rq Hq. simpl in *. rewrite nth_error_upd in Hq.
    destruct (Nat.eqb p q) eqn:Epq.
    + apply Nat.eqb_eq in Epq. subst q. rewrite E in Hq. inversion Hq. subst. exact HJ'.
    + apply Nat.eqb_neq in Epq. assert (Hne : q <> p) by congruence.
      eapply Jfix_stable; [exact Hne | exact Hfr | apply HJ; exact Hq].
  - destruct (nth_error (procs w) p) as [r|] eqn:E; auto.
    destruct (is_done (pc_of r)) eqn:Ed; auto.
    intros q rq Hq. simpl in *. rewrite nth_error_upd in Hq.
    destruct (Nat.eqb p q) eqn:Epq.
    + apply Nat.eqb_eq in Epq. subst q. rewrite E in Hq. inversion Hq. subst.
      apply Jfix_dead. auto.
    + apply Nat.eqb_neq in Epq. assert (Hne : q <> p) by congruence.
      eapply Jfix_stable; [exact Hne | apply frame_same; apply files_release | apply HJ; exact Hq].
Qed.

Lemma pstep_lf5 c p s r s' r' v :
  cleanup_outside_lock c = false -> parse_fallback c = true -> Jfix c p s r ->
  kind_of r = KLoadFixed v -> v < nfiles c ->
  lf_pc (pc_of r) = true -> pstep c p s r = (s', r') -> lf_pc (pc_of r') = true.
Proof.
  intros Hc Hf5 (_ & _ & J4 & _) Hk Hv Hl H. apply Nat.ltb_lt in Hv.
  unfold pstep, after_chunk, lookup_fixed, acquire_step, remember, within_for, memo_written in H.
  rewrite Hk, Hc, Hf5 in H. cbn [target andb] in H. rewrite ?Hv in H.
  destruct (pc_of r) eqn:Epc; try discriminate Hl; cbn [tmp_ok] in J4.
  all: try (case_step H; simp_sh; rewrite ?Epc; reflexivity).
  - rewrite J4 in H. inversion H. reflexivity.
  - destruct o; try discriminate Hl. inversion H. subst. rewrite Epc. reflexivity.
Qed.

Lemma lf5_step c w e :
  cleanup_outside_lock c = false -> parse_fallback c = true ->
  J_inv c w -> lf_inv c w -> lf_inv c (step c w e).
Proof.
  intros Hc Hf5 HJ HL. destruct e as [p|p|d|d]; simpl; auto.
  - destruct (nth_error (procs w) p) as [r|] eqn:E; auto.
    destruct (pstep c p (sh w) r) as [s' r'] eqn:Ep.
    intros q rq v Hq Hk Hv. simpl in Hq. rewrite nth_error_upd in Hq.
    destruct (Nat.eqb p q) eqn:Epq.
    + apply Nat.eqb_eq in Epq. subst q. rewrite E in Hq. inversion Hq. subst rq.
      pose proof (pstep_kind c p (sh w) r) as Hkk. rewrite Ep in Hkk. simpl in Hkk.
      rewrite Hkk in Hk. eapply (pstep_lf5 c p (sh w) r s' r' v); eauto.
    + eapply HL; eauto.
  - destruct (nth_error (procs w) p) as [r|] eqn:E; auto.
    destruct (is_done (pc_of r)) eqn:Ed; auto.
    intros q rq v Hq Hk Hv. simpl in Hq. rewrite nth_error_upd in Hq.
    destruct (Nat.eqb p q) eqn:Epq.
    + apply Nat.eqb_eq in Epq. subst q. rewrite E in Hq. inversion Hq. reflexivity.
    + eapply HL; eauto.
Qed.

Lemma lf5_run c evs : forall w,
  cleanup_outside_lock c = false -> parse_fallback c = true ->
  J_inv c w -> lf_inv c w -> lf_inv c (run c w evs).
Proof.
  induction evs as [|e evs IH]; intros w Hc Hf5 HJ HL; simpl; auto.
  apply IH; auto; [apply J_inv_step | apply lf5_step]; auto.
Qed.

Lemma J_inv_init_from c s0 ks : forallb is_fixed_kind ks = true -> J_inv c (init_from s0 ks).
Proof.
  intros Hk p r Hr. simpl in Hr. apply nth_error_map_start in Hr. destruct Hr as (k & -> & Hin).
  rewrite forallb_forall in Hk. specialize (Hk _ Hin).
  destruct k; try discriminate Hk; unfold Jfix; simpl; repeat split; auto; intro; discriminate.
Qed.

(* with the parse fall-back of 8dfe516 a finished load of a bundled version has returned the bundled schema
   from EVERY directory state -- torn final-name files included *)
Lemma f5_load_succeeds_every_directory c ks s0 evs p r v o :
  cleanup_outside_lock c = false -> parse_fallback c = true -> forallb is_fixed_kind ks = true ->
  nth_error (procs (run c (init_from s0 ks) evs)) p = Some r ->
  kind_of r = KLoadFixed v -> v < nfiles c -> pc_of r = Done o -> o = OLoaded.
Proof.
  intros Hc Hf5 Hk Hr Hkind Hv Hpc.
  pose proof (lf5_run c evs _ Hc Hf5 (J_inv_init_from c s0 ks Hk) (lf_inv_init_from c s0 ks)) as HL.
  specialize (HL _ _ _ Hr Hkind Hv). rewrite Hpc in HL. destruct o; try discriminate HL. reflexivity.
Qed.

Definition c2f : cfg := mkCfg 2 2 18 3 false false false false false true.

Lemma f5_torn_example :
  let w := run c2f (init_from s_torn [KLoadFixed 1]) (runs 0 3) in
  outcome_of w 0 = Some OLoaded /\ ver w 1 = Some [Good].
Proof. vm_compute. split; reflexivity. Qed.

(* ===== a recorded time that lies in the FUTURE of the caller's clock ===== *)

(* the refresh clause spelled out for the sign edge: the time in last_update.txt is at or ahead of
   the caller's clock (the clock was stepped back -- event [Back] -- or the stamp was written by a
   host whose clock is ahead).  The attempt is skipped, whatever is scheduled afterwards. *)
Lemma refresh_future_stamp_skipped c w p r t evs :
  memo_stamp c = false -> ignore_future_stamp c = false -> 0 < threshold c ->
  nth_error (procs w) p = Some r ->
  (pc_of r = XEnter \/ (pc_of r = LFallback /\ kind_of r = KRefresh)) ->
  stamp (sh w) = StampAt t -> clock (sh w) <= t ->
  netreqs (sh (step c w (Run p))) = netreqs (sh w) /\
  exists r', nth_error (procs (run c w (Run p :: evs))) p = Some r' /\
             pc_of r' = Done OSkipped /\ cache_err r' = true /\ nreq r' = nreq r.
Proof.
  intros Hm Hif Hth Hr Hpc Hst Hle.
  apply (refresh_skipped_all_schedules c w p r t evs Hm Hif Hr Hpc Hst). lia.
Qed.

(* ANTI-PATTERN: "a time that lies in the future cannot be the time of an update: ignore it".
   P0 refreshes at 50; the clock is stepped back by 3; P1 attempts a refresh at 47, i.e. well inside
   the interval: with the switch it is NOT skipped (second network request, stamp overwritten). *)
Definition c2i : cfg := mkCfg 2 2 18 3 false false false false true false.
Definition ev_future : list event := runs 0 4 ++ [Back 3] ++ runs 1 4.

Lemma future_stamp_witness :
  let w := run c2i (init t0 [KRefreshFixed; KRefreshFixed]) ev_future in
  clock (sh w) = 47 /\ netreqs (sh w) = 2 /\ stamp (sh w) = StampAt 47 /\
  exists r, nth_error (procs w) 1 = Some r /\ nreq r = 1 /\ cache_err r = false.
Proof. vm_compute. repeat split; try reflexivity. eexists. repeat split; reflexivity. Qed.

Lemma future_stamp_contrast :
  let w := run c2 (init t0 [KRefreshFixed; KRefreshFixed]) ev_future in
  clock (sh w) = 47 /\ netreqs (sh w) = 1 /\ stamp (sh w) = StampAt 50 /\
  outcome_of w 1 = Some OSkipped /\
  exists r, nth_error (procs w) 1 = Some r /\ nreq r = 0 /\ cache_err r = true.
Proof. vm_compute. repeat split; try reflexivity. eexists. repeat split; reflexivity. Qed.

(* the example schedule ev_fixed in the mode that matches /repo (parse_fallback on, 8dfe516) *)
Lemma fixed_example_f5 :
  let w := run c2f (init t0 [KLoadFixed 1; KLoadFixed 1; KLoadFixed 0; KRefreshFixed]) ev_fixed in
  pc_at w 0 = Some Dead /\ outcome_of w 1 = Some OLoaded /\ outcome_of w 2 = Some OLoaded /\
  outcome_of w 3 = Some OSkipped /\ ver w 0 = Some (good 2) /\ ver w 1 = Some (good 2) /\
  locks (sh w) = [] /\ fget (files_of (sh w)) (Tmp 0 0) = Some [Good].
Proof. vm_compute. repeat split; reflexivity. Qed.
