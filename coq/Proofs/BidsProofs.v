(* Proofs about Model/Bids.v (property C16). *)
From Coq Require Import List NArith Arith Bool Lia Sorting.Sorted.
From Coq Require Strings.String Strings.Ascii.
From HV Require Import Base.Res Base.Str Model.Bids.
Import ListNotations.
Local Open Scope list_scope.

(* ------------------------------------------------------------------ basic equalities *)

Lemma str_eqb_refl s : str_eqb s s = true.
Proof. apply str_eqb_spec. reflexivity. Qed.

Lemma path_eqb_spec a b : path_eqb a b = true <-> a = b.
Proof.
  revert b; induction a as [|x a IH]; destruct b as [|y b]; simpl; split; intro H;
    try reflexivity; try discriminate.
  - apply andb_true_iff in H as [H1 H2]. apply str_eqb_spec in H1. apply IH in H2. congruence.
  - inversion H; subst. rewrite str_eqb_refl. simpl. apply IH. reflexivity.
Qed.

Lemma path_eqb_refl a : path_eqb a a = true.
Proof. apply path_eqb_spec. reflexivity. Qed.

Lemma same_file_spec a b :
  same_file a b = true <-> b_dir a = b_dir b /\ b_name a = b_name b.
Proof.
  unfold same_file. rewrite andb_true_iff, path_eqb_spec, str_eqb_spec. tauto.
Qed.

Lemma same_file_refl a : same_file a a = true.
Proof. apply same_file_spec. auto. Qed.

Lemma osuffix_eqb_spec a b : osuffix_eqb a b = true <-> a = b.
Proof.
  destruct a as [x|], b as [y|]; simpl; split; intro H; try discriminate; try reflexivity.
  - apply str_eqb_spec in H. congruence.
  - inversion H. apply str_eqb_refl.
Qed.

Lemma is_prefixb_spec a b : is_prefixb a b = true <-> exists r, b = a ++ r.
Proof.
  revert b; induction a as [|x a IH]; intros b; simpl.
  - split; [intros _; exists b; reflexivity | reflexivity].
  - destruct b as [|y b].
    + split; [discriminate | intros [r Hr]; discriminate].
    + rewrite andb_true_iff, str_eqb_spec, IH. split.
      * intros [H1 [r Hr]]. exists r. subst. reflexivity.
      * intros [r Hr]. inversion Hr; subst. split; [reflexivity | exists r; reflexivity].
Qed.

Lemma is_prefixb_refl a : is_prefixb a a = true.
Proof. apply is_prefixb_spec. exists []. symmetry. apply app_nil_r. Qed.

(* two prefixes of one path are comparable *)
Lemma prefix_comparable (a b c : path) :
  is_prefixb a c = true -> is_prefixb b c = true -> length a <= length b -> is_prefixb a b = true.
Proof.
  revert b c; induction a as [|x a IH]; intros b c Ha Hb Hl; simpl; [reflexivity|].
  destruct b as [|y b]; [simpl in Hl; lia|].
  destruct c as [|z c]; [discriminate|].
  simpl in Ha, Hb. apply andb_true_iff in Ha as [Ha1 Ha2]. apply andb_true_iff in Hb as [Hb1 Hb2].
  apply str_eqb_spec in Ha1. apply str_eqb_spec in Hb1. subst.
  rewrite str_eqb_refl. simpl. apply (IH b c); auto. simpl in Hl. lia.
Qed.

Lemma is_prefixb_trans a b c : is_prefixb a b = true -> is_prefixb b c = true -> is_prefixb a c = true.
Proof.
  rewrite !is_prefixb_spec. intros [r Hr] [q Hq]. subst. exists (r ++ q). rewrite app_assoc. reflexivity.
Qed.

Lemma prefix_same_length (a b c : path) :
  is_prefixb a c = true -> is_prefixb b c = true -> length a = length b -> a = b.
Proof.
  revert b c; induction a as [|x a IH]; intros b c Ha Hb Hl.
  - destruct b; [reflexivity | discriminate].
  - destruct b as [|y b]; [discriminate|]. destruct c as [|z c]; [discriminate|].
    simpl in Ha, Hb. apply andb_true_iff in Ha as [Ha1 Ha2]. apply andb_true_iff in Hb as [Hb1 Hb2].
    apply str_eqb_spec in Ha1. apply str_eqb_spec in Hb1. subst. f_equal. apply (IH b c); auto.
Qed.

(* ------------------------------------------------------------------ dictionaries: the override law *)

Definition jget := @dget nat nat Nat.eqb.
Definition jset := @dset nat nat Nat.eqb.
(* the binding of k in a JSON object given as a pair list (a later duplicate wins, as in json.load) *)
Definition jlast (k : nat) (d : jdict) : option nat := jget k (rev d).

Lemma jget_jset_same k v d : jget k (jset k v d) = Some v.
Proof.
  induction d as [|[k' v'] d IH]; simpl.
  - rewrite Nat.eqb_refl. reflexivity.
  - destruct (Nat.eqb k k') eqn:E; simpl; rewrite E; [reflexivity | exact IH].
Qed.

Lemma jget_jset_other k k' v d : k <> k' -> jget k (jset k' v d) = jget k d.
Proof.
  intros Hne. induction d as [|[k2 v2] d IH]; simpl.
  - destruct (Nat.eqb k k') eqn:E; [apply Nat.eqb_eq in E; contradiction | reflexivity].
  - destruct (Nat.eqb k' k2) eqn:E2; simpl.
    + apply Nat.eqb_eq in E2. subst k2.
      destruct (Nat.eqb k k') eqn:E; [apply Nat.eqb_eq in E; contradiction | reflexivity].
    + destruct (Nat.eqb k k2); [reflexivity | exact IH].
Qed.

Lemma jget_app k a b :
  jget k (a ++ b) = match jget k a with Some v => Some v | None => jget k b end.
Proof.
  induction a as [|[k' v'] a IH]; simpl; [reflexivity|].
  destruct (Nat.eqb k k'); [reflexivity | exact IH].
Qed.

(* d.update(e): keys of e win (the last binding of a key in e), other keys keep their value *)
Lemma jget_update k e : forall d,
  jget k (jupdate d e) = match jlast k e with Some v => Some v | None => jget k d end.
Proof.
  unfold jlast, jupdate, dict_update.
  induction e as [|[k' v'] e IH]; intros d; simpl; [reflexivity|].
  rewrite IH. unfold jget at 3. fold jget. rewrite jget_app.
  destruct (jget k (rev e)) as [v|]; [reflexivity|]. simpl.
  destruct (Nat.eqb k k') eqn:E.
  - apply Nat.eqb_eq in E. subst. apply jget_jset_same.
  - apply jget_jset_other. intro; subst. rewrite Nat.eqb_refl in E. discriminate.
Qed.

(* per column key, the deepest file of the chain that defines the key wins *)
Definition lookup_chain (k : nat) (ds : list jdict) (init : option nat) : option nat :=
  fold_left (fun acc d => match jlast k d with Some v => Some v | None => acc end) ds init.

Lemma jget_fold_update k ds : forall m,
  jget k (fold_left jupdate ds m) = lookup_chain k ds (jget k m).
Proof.
  unfold lookup_chain. induction ds as [|d ds IH]; intros m; simpl; [reflexivity|].
  rewrite IH, jget_update. reflexivity.
Qed.

Lemma merged_lookup k ds : jget k (merge_dicts ds) = lookup_chain k ds None.
Proof. unfold merge_dicts. rewrite jget_fold_update. reflexivity. Qed.

Lemma lookup_chain_none k ds : forall init,
  Forall (fun d => jlast k d = None) ds -> lookup_chain k ds init = init.
Proof.
  unfold lookup_chain. induction ds as [|d ds IH]; intros init H; simpl; [reflexivity|].
  inversion H; subst. rewrite H2. apply IH. assumption.
Qed.

Lemma lookup_chain_app k a b init :
  lookup_chain k (a ++ b) init = lookup_chain k b (lookup_chain k a init).
Proof. unfold lookup_chain. apply fold_left_app. Qed.

Lemma deeper_overrides k v (shallower deeper : list jdict) (d : jdict) :
  jlast k d = Some v ->
  Forall (fun d' => jlast k d' = None) deeper ->
  jget k (merge_dicts (shallower ++ d :: deeper)) = Some v.
Proof.
  intros Hd Hdeep. rewrite merged_lookup, lookup_chain_app. simpl.
  unfold lookup_chain at 1. simpl. fold (lookup_chain k deeper).
  rewrite Hd. change (lookup_chain k deeper (Some v) = Some v). apply lookup_chain_none. assumption.
Qed.

Lemma undefined_key_absent k (ds : list jdict) :
  Forall (fun d => jlast k d = None) ds -> jget k (merge_dicts ds) = None.
Proof. intros H. rewrite merged_lookup. apply lookup_chain_none. assumption. Qed.

(* ------------------------------------------------------------------ os.walk with pruning *)

Scheme tree_mut_ind := Induction for tree Sort Prop
  with forest_mut_ind := Induction for forest Sort Prop.

(* a directory path takes part iff none of its components is an excluded name *)
Definition not_excluded (excl : list str) (e : path * list (str * option jdict)) : bool :=
  negb (existsb (fun n => in_names n excl) (fst e)).

Lemma filter_map_comm {A B} (P : B -> bool) (g : A -> B) l :
  filter P (map g l) = map g (filter (fun x => P (g x)) l).
Proof.
  induction l as [|x l IH]; simpl; [reflexivity|].
  destruct (P (g x)); simpl; rewrite IH; reflexivity.
Qed.

Lemma filter_false {A} (P : A -> bool) l : (forall x, P x = false) -> filter P l = [].
Proof. intros H. induction l as [|x l IH]; simpl; [reflexivity|]. rewrite H. exact IH. Qed.

Combined Scheme tree_forest_ind from tree_mut_ind, forest_mut_ind.

Lemma walk_prune_both excl :
  (forall t, walk excl t = filter (not_excluded excl) (walk [] t)) /\
  (forall f, walk_forest excl f = filter (not_excluded excl) (walk_forest [] f)).
Proof.
  apply tree_forest_ind.
  - intros files subs IH. cbn [walk]. cbn [filter not_excluded fst existsb negb]. rewrite IH. reflexivity.
  - reflexivity.
  - intros n t IHt r IHr.
    assert (E0 : walk_forest [] (FCons n t r)
                 = map (fun e => (n :: fst e, snd e)) (walk [] t) ++ walk_forest [] r) by reflexivity.
    rewrite E0. clear E0. rewrite filter_app, filter_map_comm. cbn [walk_forest].
    destruct (in_names n excl) eqn:En.
    + rewrite filter_false.
      * simpl. exact IHr.
      * intros x. unfold not_excluded. cbn [fst existsb]. rewrite En. reflexivity.
    + rewrite IHr, IHt. f_equal. f_equal. apply filter_ext.
      intros x. unfold not_excluded. cbn [fst existsb]. rewrite En. reflexivity.
Qed.

Lemma walk_prune excl t : walk excl t = filter (not_excluded excl) (walk [] t).
Proof. apply walk_prune_both. Qed.

(* whatever lies below an excluded name has no influence on the file group *)
Lemma excluded_no_part fixed excl sfx t1 t2 :
  filter (not_excluded excl) (walk [] t1) = filter (not_excluded excl) (walk [] t2) ->
  group_init fixed excl sfx t1 = group_init fixed excl sfx t2.
Proof.
  intros H. unfold group_init, get_file_list. rewrite (walk_prune excl t1), (walk_prune excl t2), H. reflexivity.
Qed.

(* every sidecar / data file of the group lies on a path without excluded names *)
Lemma get_file_list_not_excluded excl sfx ext t d f :
  In (d, f) (get_file_list excl sfx ext t) -> existsb (fun n => in_names n excl) d = false.
Proof.
  unfold get_file_list. rewrite walk_prune. intros H.
  apply in_flat_map in H as [e [He Hf]]. apply filter_In in He as [_ He].
  apply in_map_iff in Hf as [x [Hx _]]. inversion Hx; subst.
  unfold not_excluded in He. apply negb_true_iff in He. exact He.
Qed.

(* ------------------------------------------------------------------ is_sidecar_for *)

Lemma commonpath_test (D A : path) (n : str) :
  path_eqb D (commonpath A (D ++ [n])) = is_prefixb D A && negb (is_prefixb (D ++ [n]) A).
Proof.
  revert A; induction D as [|x D IH]; intros A.
  - destruct A as [|y A]; simpl; [reflexivity|].
    destruct (str_eqb y n) eqn:E.
    + assert (E' : str_eqb n y = true) by (apply str_eqb_spec; apply str_eqb_spec in E; congruence).
      rewrite E'. reflexivity.
    + assert (E' : str_eqb n y = false).
      { destruct (str_eqb n y) eqn:E2; [|reflexivity]. apply str_eqb_spec in E2. subst.
        rewrite str_eqb_refl in E. discriminate. }
      rewrite E'. reflexivity.
  - destruct A as [|y A]; simpl; [reflexivity|].
    destruct (str_eqb y x) eqn:E.
    + apply str_eqb_spec in E. subst. rewrite str_eqb_refl. simpl. apply IH.
    + assert (E' : str_eqb x y = false).
      { destruct (str_eqb x y) eqn:E2; [|reflexivity]. apply str_eqb_spec in E2. subst.
        rewrite str_eqb_refl in E. discriminate. }
      rewrite E'. reflexivity.
Qed.

Lemma is_prefixb_snoc (D A : path) (n : str) :
  is_prefixb D (A ++ [n]) = is_prefixb D A || path_eqb D (A ++ [n]).
Proof.
  revert A; induction D as [|x D IH]; intros A.
  - simpl. reflexivity.
  - destruct A as [|y A]; simpl.
    + destruct D; simpl; rewrite ?andb_false_r; reflexivity.
    + rewrite IH. destruct (str_eqb x y); reflexivity.
Qed.

(* A path names either a file or a directory: a sidecar's file path is not a
   proper or improper prefix of another file's path, and no file path is a directory. *)
Definition fs_ok (s x : bfile) : Prop :=
  same_file x s = false ->
  is_prefixb (full_path s) (full_path x) = false /\ path_eqb (b_dir s) (full_path x) = false.

Lemma is_sidecar_for_spec s x :
  fs_ok s x -> is_sidecar_for s x = same_file x s || applicableb s x.
Proof.
  intros Hfs. unfold is_sidecar_for. destruct (same_file x s) eqn:Esame; [reflexivity|].
  destruct (Hfs Esame) as [H1 H2]. simpl.
  unfold applicableb. destruct (osuffix_eqb (b_suffix x) (b_suffix s)); simpl; [|reflexivity].
  unfold full_path at 2. rewrite commonpath_test. fold (full_path s). rewrite H1.
  unfold full_path. rewrite is_prefixb_snoc. fold (full_path x). rewrite H2.
  rewrite orb_false_r, andb_true_r.
  destruct (is_prefixb (b_dir s) (b_dir x)); reflexivity.
Qed.

Lemma eget_in k v (d : edict) : eget k d = Some v -> In (k, v) d.
Proof.
  induction d as [|[k' v'] d IH]; simpl; [discriminate|].
  destruct (str_eqb k k') eqn:E.
  - intros H. inversion H; subst. apply str_eqb_spec in E. subst. left. reflexivity.
  - intros H. right. apply IH. exact H.
Qed.

Lemma ents_subset_trans a b c :
  ents_subset a b = true -> ents_subset b c = true -> ents_subset a c = true.
Proof.
  unfold ents_subset. rewrite !forallb_forall. intros Hab Hbc [k v] Hin.
  specialize (Hab _ Hin). cbn [fst snd] in *.
  destruct (eget k b) as [v'|] eqn:Eb; [|discriminate].
  apply str_eqb_spec in Hab. subst v'.
  specialize (Hbc _ (eget_in _ _ _ Eb)). exact Hbc.
Qed.

Lemma applicableb_trans a b c :
  applicableb a b = true -> applicableb b c = true -> applicableb a c = true.
Proof.
  unfold applicableb. rewrite !andb_true_iff. intros [[H1 H2] H3] [[G1 G2] G3].
  apply osuffix_eqb_spec in H1. apply osuffix_eqb_spec in G1.
  repeat split.
  - apply osuffix_eqb_spec. congruence.
  - eapply is_prefixb_trans; eassumption.
  - eapply ents_subset_trans; eassumption.
Qed.

(* ------------------------------------------------------------------ the chain *)

Definition chain := get_sidecars_from_path.
Definition ltd (a b : bfile) : Prop := depth a < depth b.

Lemma pick_some sc obj cur s :
  get_sidecar_for_obj sc obj cur = Some s ->
  In s sc /\ b_dir s = cur /\ is_sidecar_for s obj = true.
Proof.
  unfold get_sidecar_for_obj, dir_sidecars. intros H. apply find_some in H as [H1 H2].
  apply filter_In in H1 as [H1 H3]. apply path_eqb_spec in H3. auto.
Qed.

Lemma chain_aux_in sc obj : forall rest cur s,
  In s (chain_aux sc obj cur rest) ->
  In s sc /\ is_sidecar_for s obj = true /\ exists a b, rest = a ++ b /\ b_dir s = cur ++ a.
Proof.
  induction rest as [|c r IH]; intros cur s H; cbn [chain_aux] in H; apply in_app_or in H as [H|H].
  - destruct (get_sidecar_for_obj sc obj cur) as [s'|] eqn:E; [|contradiction].
    destruct H as [H|[]]; subst s'. destruct (pick_some _ _ _ _ E) as (H1 & H2 & H3).
    repeat split; auto. exists [], []. split; [reflexivity | rewrite app_nil_r; exact H2].
  - contradiction.
  - destruct (get_sidecar_for_obj sc obj cur) as [s'|] eqn:E; [|contradiction].
    destruct H as [H|[]]; subst s'. destruct (pick_some _ _ _ _ E) as (H1 & H2 & H3).
    repeat split; auto. exists [], (c :: r). split; [reflexivity | rewrite app_nil_r; exact H2].
  - destruct (IH _ _ H) as (H1 & H2 & a & b & Hab & Hd).
    repeat split; auto. exists (c :: a), b. subst r. split; [reflexivity|].
    rewrite Hd, <- app_assoc. reflexivity.
Qed.

Lemma chain_aux_sorted sc obj : forall rest cur,
  StronglySorted ltd (chain_aux sc obj cur rest) /\
  Forall (fun s => length cur <= depth s) (chain_aux sc obj cur rest).
Proof.
  induction rest as [|c r IH]; intros cur; cbn [chain_aux].
  - rewrite app_nil_r. destruct (get_sidecar_for_obj sc obj cur) as [s|] eqn:E.
    + destruct (pick_some _ _ _ _ E) as (_ & H2 & _). split.
      * constructor; constructor.
      * constructor; [unfold depth; rewrite H2; lia | constructor].
    + split; constructor.
  - destruct (IH (cur ++ [c])) as [IH1 IH2].
    assert (IH2' : Forall (fun s => length cur < depth s) (chain_aux sc obj (cur ++ [c]) r)).
    { eapply Forall_impl; [|exact IH2]. cbn beta. intros s Hs. rewrite app_length in Hs. simpl in Hs. lia. }
    destruct (get_sidecar_for_obj sc obj cur) as [s|] eqn:E; cbn [app].
    + destruct (pick_some _ _ _ _ E) as (_ & H2 & _). split.
      * constructor; [exact IH1|]. eapply Forall_impl; [|exact IH2'].
        cbn beta. intros x Hx. unfold ltd, depth at 1. rewrite H2. exact Hx.
      * constructor; [unfold depth; rewrite H2; lia|].
        eapply Forall_impl; [|exact IH2']. cbn beta. intros x Hx. lia.
    + split; [exact IH1|]. eapply Forall_impl; [|exact IH2']. cbn beta. intros x Hx. lia.
Qed.

Definition at_most_one (sc : list bfile) (obj : bfile) : Prop :=
  forall s1 s2, In s1 sc -> In s2 sc ->
    is_sidecar_for s1 obj = true -> is_sidecar_for s2 obj = true -> b_dir s1 = b_dir s2 -> s1 = s2.

Lemma chain_aux_complete sc obj : at_most_one sc obj ->
  forall a cur b s, In s sc -> is_sidecar_for s obj = true -> b_dir s = cur ++ a ->
  In s (chain_aux sc obj cur (a ++ b)).
Proof.
  intros Hone. induction a as [|c a IH]; intros cur b s Hin Hs Hd.
  - rewrite app_nil_r in Hd. cbn [app].
    assert (Hpick : get_sidecar_for_obj sc obj cur = Some s).
    { unfold get_sidecar_for_obj.
      destruct (find (fun s0 => is_sidecar_for s0 obj) (dir_sidecars sc cur)) as [s'|] eqn:E.
      - destruct (pick_some sc obj cur s' E) as (H1 & H2 & H3). f_equal.
        apply Hone; auto. congruence.
      - exfalso. eapply find_none in E.
        + cbn beta in E. rewrite Hs in E. discriminate.
        + unfold dir_sidecars. apply filter_In. split; [exact Hin|]. apply path_eqb_spec. exact Hd. }
    destruct b as [|c b]; cbn [chain_aux]; rewrite Hpick; left; reflexivity.
  - cbn [app chain_aux]. apply in_or_app. right. apply IH; auto.
    rewrite Hd, <- app_assoc. reflexivity.
Qed.

Lemma sorted_unique (l1 : list bfile) : forall l2,
  StronglySorted ltd l1 -> StronglySorted ltd l2 -> (forall s, In s l1 <-> In s l2) -> l1 = l2.
Proof.
  induction l1 as [|a l1 IH]; intros l2 S1 S2 Hmem.
  - destruct l2 as [|b l2]; [reflexivity|]. exfalso. apply (Hmem b). left. reflexivity.
  - destruct l2 as [|b l2]; [exfalso; apply (Hmem a); left; reflexivity|].
    apply StronglySorted_inv in S1 as [S1 F1]. apply StronglySorted_inv in S2 as [S2 F2].
    rewrite Forall_forall in F1, F2.
    assert (Eab : a = b).
    { destruct (proj1 (Hmem a) (or_introl eq_refl)) as [E|Ha]; [congruence|].
      destruct (proj2 (Hmem b) (or_introl eq_refl)) as [E|Hb]; [congruence|].
      specialize (F1 _ Hb). specialize (F2 _ Ha). unfold ltd in *. lia. }
    subst b. f_equal. apply IH; auto. intros s. split; intros Hs.
    + destruct (proj1 (Hmem s) (or_intror Hs)) as [E|H]; [|exact H].
      subst s. specialize (F1 _ Hs). unfold ltd in F1. lia.
    + destruct (proj2 (Hmem s) (or_intror Hs)) as [E|H]; [|exact H].
      subst s. specialize (F2 _ Hs). unfold ltd in F2. lia.
Qed.

Lemma chain_sorted sc obj : StronglySorted ltd (chain sc obj).
Proof. apply chain_aux_sorted. Qed.

Lemma chain_sound sc obj s :
  In s (chain sc obj) ->
  In s sc /\ is_sidecar_for s obj = true /\ is_prefixb (b_dir s) (b_dir obj) = true.
Proof.
  intros H. apply chain_aux_in in H as (H1 & H2 & a & b & Hab & Hd).
  repeat split; auto. apply is_prefixb_spec. exists b. rewrite Hd, Hab. reflexivity.
Qed.

Lemma chain_complete sc obj s :
  at_most_one sc obj -> In s sc -> is_sidecar_for s obj = true ->
  is_prefixb (b_dir s) (b_dir obj) = true -> In s (chain sc obj).
Proof.
  intros Hone Hin Hs Hp. apply is_prefixb_spec in Hp as [r Hr].
  unfold chain, get_sidecars_from_path. rewrite Hr. apply chain_aux_complete; auto.
Qed.

(* f is an events file: it is none of the sidecars, and the file system is sane *)
Definition data_file (sc : list bfile) (f : bfile) : Prop :=
  forall s, In s sc -> same_file f s = false /\ fs_ok s f.

Definition at_most_one_applicable (sc : list bfile) (f : bfile) : Prop :=
  forall s1 s2, In s1 sc -> In s2 sc ->
    applicableb s1 f = true -> applicableb s2 f = true -> b_dir s1 = b_dir s2 -> s1 = s2.

Lemma data_is_sidecar_for sc f s : data_file sc f -> In s sc -> is_sidecar_for s f = applicableb s f.
Proof.
  intros Hd Hin. destruct (Hd _ Hin) as [H1 H2]. rewrite is_sidecar_for_spec by exact H2.
  rewrite H1. reflexivity.
Qed.

Lemma applicableb_prefix s f : applicableb s f = true -> is_prefixb (b_dir s) (b_dir f) = true.
Proof. unfold applicableb. rewrite !andb_true_iff. tauto. Qed.

Lemma data_at_most_one sc f : data_file sc f -> at_most_one_applicable sc f -> at_most_one sc f.
Proof.
  intros Hd Hone s1 s2 H1 H2 A1 A2 Hdir.
  rewrite (data_is_sidecar_for sc f) in A1, A2 by assumption. apply Hone; assumption.
Qed.

Lemma chain_is_applicable sc f :
  data_file sc f -> at_most_one_applicable sc f ->
  (forall s, In s (chain sc f) <-> In s sc /\ applicableb s f = true) /\
  StronglySorted ltd (chain sc f).
Proof.
  intros Hd Hone. split; [|apply chain_sorted]. intros s. split.
  - intros H. apply chain_sound in H as (H1 & H2 & _). split; [exact H1|].
    rewrite <- (data_is_sidecar_for sc f s Hd H1). exact H2.
  - intros [H1 H2]. apply chain_complete; auto.
    + apply data_at_most_one; assumption.
    + rewrite (data_is_sidecar_for sc f s Hd H1). exact H2.
    + apply applicableb_prefix. exact H2.
Qed.

(* the chain IS the list of applicable sidecars sorted by depth: any such list equals it *)
Lemma chain_unique sc f l :
  data_file sc f -> at_most_one_applicable sc f ->
  StronglySorted ltd l -> (forall s, In s l <-> In s sc /\ applicableb s f = true) ->
  chain sc f = l.
Proof.
  intros Hd Hone Hs Hmem. destruct (chain_is_applicable sc f Hd Hone) as [Hc Hsorted].
  apply sorted_unique; auto. intros s. rewrite Hc, Hmem. tauto.
Qed.

(* without the at-most-one hypothesis the chain still consists of applicable sidecars, one per depth *)
Lemma chain_only_applicable sc f s :
  data_file sc f -> In s (chain sc f) -> In s sc /\ applicableb s f = true.
Proof.
  intros Hd H. apply chain_sound in H as (H1 & H2 & _). split; [exact H1|].
  rewrite <- (data_is_sidecar_for sc f s Hd H1). exact H2.
Qed.

(* ------------------------------------------------------------------ loading and merging *)

Lemma load_loop_ok files : forall m r,
  load_loop files m = Ok r -> r = fold_left jupdate (map raw_of files) m.
Proof.
  induction files as [|f files IH]; intros m r H; cbn [load_loop] in H.
  - inversion H. reflexivity.
  - unfold load_sidecar_file in H. cbn [map fold_left].
    assert (Er : b_raw f = None \/ b_raw f = Some (raw_of f)).
    { unfold raw_of. destruct (b_raw f); auto. }
    destruct Er as [Er|Er]; rewrite Er in H; cbn [bind] in H; [discriminate|].
    apply IH. exact H.
Qed.

Lemma load_loop_total files : forall m,
  Forall (fun f => b_raw f <> None) files ->
  load_loop files m = Ok (fold_left jupdate (map raw_of files) m).
Proof.
  induction files as [|f files IH]; intros m H; cbn [load_loop map fold_left]; [reflexivity|].
  inversion H as [|x l Hx Hl]; subst. unfold load_sidecar_file.
  assert (Er : b_raw f = Some (raw_of f)).
  { unfold raw_of. destruct (b_raw f); [reflexivity | contradiction]. }
  rewrite Er. cbn [bind]. apply IH. assumption.
Qed.

Lemma load_sidecar_files_ok files r :
  load_sidecar_files files = Ok r -> r = merge_dicts (map raw_of files).
Proof.
  unfold load_sidecar_files, merge_dicts. destruct files as [|f files]; cbn [is_empty].
  - intros H. inversion H. reflexivity.
  - apply load_loop_ok.
Qed.

Lemma mapM_Forall2 {A B} (f : A -> res B) l : forall l',
  mapM f l = Ok l' -> Forall2 (fun x y => f x = Ok y) l l'.
Proof.
  induction l as [|x l IH]; intros l' H; cbn [mapM] in H.
  - inversion H. constructor.
  - destruct (f x) as [y|e] eqn:E; cbn [bind] in H; [|discriminate].
    destruct (mapM f l) as [ys|e] eqn:E2; cbn [bind] in H; [|discriminate].
    inversion H; subst. constructor; auto.
Qed.

(* the chain a sidecar's contents are merged along (its own chain; never empty in fact) *)
Definition own_chain (sc : list bfile) (s : bfile) : list bfile :=
  if is_empty (chain sc s) then [s] else chain sc s.

Definition conts_ok (sc : list bfile) (conts : list (bfile * jdict)) : Prop :=
  Forall2 (fun s sd => sd = (s, merge_dicts (map raw_of (own_chain sc s)))) sc conts.

Definition unique_paths (sc : list bfile) : Prop :=
  forall s1 s2, In s1 sc -> In s2 sc -> same_file s1 s2 = true -> s1 = s2.

Lemma lookup_contents_ok (g : bfile -> jdict) s : forall sc conts,
  Forall2 (fun s sd => sd = (s, g s)) sc conts ->
  (forall s2, In s2 sc -> same_file s s2 = true -> s = s2) ->
  In s sc -> lookup_contents s conts = Ok (g s).
Proof.
  induction sc as [|s' sc IH]; intros conts HF Hu Hin; [contradiction|].
  inversion HF as [|x y l l' Hxy HF']; subst. cbn [lookup_contents].
  destruct (same_file s s') eqn:E.
  - rewrite (Hu s' (or_introl eq_refl) E). reflexivity.
  - apply IH; auto.
    + intros s2 H2. apply Hu. right. exact H2.
    + destruct Hin as [Hin|Hin]; [|exact Hin]. subst s'. rewrite same_file_refl in E. discriminate.
Qed.

Lemma last_in {A} (l : list A) d : l <> [] -> In (last l d) l.
Proof.
  induction l as [|x l IH]; intros H; [contradiction|].
  destruct l as [|y l]; [left; reflexivity|]. right. apply IH. discriminate.
Qed.

Lemma sorted_last_max (l : list bfile) d s :
  StronglySorted ltd l -> In s l -> depth s <= depth (last l d).
Proof.
  induction l as [|x l IH]; intros S Hin; [contradiction|].
  apply StronglySorted_inv in S as [S F]. destruct l as [|y l].
  - destruct Hin as [Hin|[]]. subst. cbn. lia.
  - change (last (x :: y :: l) d) with (last (y :: l) d). destruct Hin as [Hin|Hin].
    + subst x. rewrite Forall_forall in F.
      assert (Hl : In (last (y :: l) d) (y :: l)) by (apply last_in; discriminate).
      specialize (F _ Hl). unfold ltd in F. lia.
    + apply IH; auto.
Qed.

(* what the constructor's second loop gives a data file: the contents of the
   DEEPEST sidecar of the file's chain, i.e. the merge along that sidecar's own chain *)
Definition code_merged (sc : list bfile) (f : bfile) : option jdict :=
  if is_empty (chain sc f) then None
  else Some (merge_dicts (map raw_of (own_chain sc (last (chain sc f) f)))).

Lemma data_sidecar_value sc conts f :
  conts_ok sc conts -> unique_paths sc ->
  data_sidecar false sc conts f = Ok (code_merged sc f).
Proof.
  intros Hc Hu. unfold data_sidecar, code_merged. fold (chain sc f).
  destruct (chain sc f) as [|x l] eqn:E; cbn [is_empty]; cbv iota; [reflexivity|].
  assert (Hin : In (last (x :: l) f) (chain sc f)) by (rewrite E; apply last_in; discriminate).
  apply chain_sound in Hin as (Hin & _).
  rewrite (lookup_contents_ok (fun s => merge_dicts (map raw_of (own_chain sc s))) _ sc conts Hc).
  - reflexivity.
  - intros s2 H2 Hs. apply Hu; auto.
  - exact Hin.
Qed.

(* the specification's merged sidecar: fold of the per-key update along the file's own chain *)
Definition spec_merged (sc : list bfile) (f : bfile) : option jdict :=
  if is_empty (chain sc f) then None else Some (merge_dicts (map raw_of (chain sc f))).

(* ------------------------------------------------------------------ merged sidecar of a data file *)

Definition all_fs_ok (sc : list bfile) : Prop :=
  forall s x, In s sc -> In x sc -> fs_ok s x.

(* every sidecar of the chain other than the deepest one has its entities among the deepest one's *)
Definition ents_below_last (sc : list bfile) (f : bfile) : Prop :=
  forall s, In s (chain sc f) ->
    same_file (last (chain sc f) f) s = true \/
    ents_subset (b_ents s) (b_ents (last (chain sc f) f)) = true.

Lemma chain_of_last sc f :
  data_file sc f -> at_most_one_applicable sc f -> unique_paths sc -> all_fs_ok sc ->
  chain sc f <> [] -> ents_below_last sc f ->
  chain sc (last (chain sc f) f) = chain sc f.
Proof.
  intros Hd Hone Hu Hfs Hne Hents.
  destruct (chain_is_applicable sc f Hd Hone) as [Hc Hsorted].
  set (L := last (chain sc f) f) in *.
  assert (HL : In L (chain sc f)) by (apply last_in; exact Hne).
  destruct (proj1 (Hc L) HL) as [HLsc HLapp].
  assert (Hto_f : forall s, In s sc -> is_sidecar_for s L = true -> applicableb s f = true).
  { intros s Hs Hsf. rewrite (is_sidecar_for_spec s L (Hfs s L Hs HLsc)) in Hsf.
    apply orb_true_iff in Hsf as [Hsame|Happ].
    - rewrite <- (Hu L s HLsc Hs Hsame). exact HLapp.
    - eapply applicableb_trans; eassumption. }
  apply sorted_unique; try apply chain_sorted. intros s. split.
  - intros H. apply chain_sound in H as (Hs & Hsf & _). apply Hc. split; [exact Hs|]. apply Hto_f; assumption.
  - intros H. destruct (proj1 (Hc s) H) as [Hs Happ].
    assert (Hpre : is_prefixb (b_dir s) (b_dir L) = true).
    { apply (prefix_comparable _ _ (b_dir f)).
      - apply applicableb_prefix. exact Happ.
      - apply applicableb_prefix. exact HLapp.
      - apply (sorted_last_max (chain sc f) f s Hsorted H). }
    apply chain_complete; auto.
    + intros s1 s2 H1 H2 A1 A2 Hdir. apply Hone; auto.
    + rewrite (is_sidecar_for_spec s L (Hfs s L Hs HLsc)).
      destruct (Hents s H) as [Hsame|Hsub]; [fold L in Hsame; rewrite Hsame; reflexivity|].
      fold L in Hsub. apply orb_true_iff. right.
      unfold applicableb in *. rewrite !andb_true_iff in *.
      destruct Happ as [[A1 A2] A3]. destruct HLapp as [[B1 B2] B3].
      apply osuffix_eqb_spec in A1. apply osuffix_eqb_spec in B1.
      repeat split; auto. apply osuffix_eqb_spec. congruence.
Qed.

Lemma code_is_spec_partial sc f :
  data_file sc f -> at_most_one_applicable sc f -> unique_paths sc -> all_fs_ok sc ->
  ents_below_last sc f -> code_merged sc f = spec_merged sc f.
Proof.
  intros Hd Hone Hu Hfs Hents. unfold code_merged, spec_merged.
  destruct (chain sc f) as [|x l] eqn:E; cbn [is_empty]; [reflexivity|].
  assert (Hne : chain sc f <> []) by (rewrite E; discriminate).
  pose proof (chain_of_last sc f Hd Hone Hu Hfs Hne Hents) as Hl. rewrite E in Hl.
  unfold own_chain. rewrite Hl. reflexivity.
Qed.

(* entity sets increasing along the chain imply the hypothesis above *)
Definition ents_le (a b : bfile) : Prop := ents_subset (b_ents a) (b_ents b) = true.

Lemma sorted_rel_last {A} (R : A -> A -> Prop) (l : list A) d s :
  StronglySorted R l -> In s l -> s = last l d \/ R s (last l d).
Proof.
  induction l as [|x l IH]; intros S Hin; [contradiction|].
  apply StronglySorted_inv in S as [S F]. destruct l as [|y l].
  - destruct Hin as [Hin|[]]. left. subst. reflexivity.
  - change (last (x :: y :: l) d) with (last (y :: l) d). destruct Hin as [Hin|Hin].
    + subst x. right. rewrite Forall_forall in F. apply F. apply last_in. discriminate.
    + apply IH; auto.
Qed.

Lemma increasing_ents_below_last sc f :
  StronglySorted ents_le (chain sc f) -> ents_below_last sc f.
Proof.
  intros S s Hin. destruct (sorted_rel_last ents_le (chain sc f) f s S Hin) as [E|R].
  - left. rewrite <- E. apply same_file_refl.
  - right. exact R.
Qed.

(* ------------------------------------------------------------------ the constructor *)

Lemma Forall2_right {A B} (R : A -> B -> Prop) (P : B -> Prop) l l' :
  Forall2 R l l' -> (forall x y, R x y -> P y) -> Forall P l'.
Proof. intros H HP. induction H; constructor; eauto. Qed.

Lemma Forall2_weaken {A B} (R1 R2 : A -> B -> Prop) l l' :
  (forall x y, R1 x y -> R2 x y) -> Forall2 R1 l l' -> Forall2 R2 l l'.
Proof. intros HR H. induction H; constructor; auto. Qed.

Lemma set_contents_ok sc s d :
  set_contents s (get_sidecars_from_path sc s) = Ok d -> d = merge_dicts (map raw_of (own_chain sc s)).
Proof. unfold set_contents, own_chain, chain. apply load_sidecar_files_ok. Qed.

Lemma group_init_spec fixed excl sfx t g :
  group_init fixed excl sfx t = Ok g ->
  conts_ok (g_sidecars g) (g_conts g) /\
  Forall (fun fm => data_sidecar fixed (g_sidecars g) (g_conts g) (fst fm) = Ok (snd fm)) (g_data g).
Proof.
  unfold group_init. intros H.
  destruct (mapM _ (get_file_list excl sfx ext_json t)) as [sc|e] eqn:E1; cbn [bind] in H; [|discriminate].
  destruct (mapM _ sc) as [conts|e] eqn:E2; cbn [bind] in H; [|discriminate].
  destruct (mapM _ (get_file_list excl sfx ext_tsv t)) as [dfs|e] eqn:E3; cbn [bind] in H; [|discriminate].
  destruct (mapM _ dfs) as [data|e] eqn:E4; cbn [bind] in H; [|discriminate].
  inversion H; subst g; cbn [g_sidecars g_conts g_data]. split.
  - apply mapM_Forall2 in E2. unfold conts_ok. eapply Forall2_weaken; [|exact E2].
    cbn beta. intros s y Hy.
    destruct (set_contents s (get_sidecars_from_path sc s)) as [d|e] eqn:Es; cbn [bind] in Hy; [|discriminate].
    inversion Hy; subst y. rewrite (set_contents_ok sc s d Es). reflexivity.
  - apply mapM_Forall2 in E4. eapply Forall2_right; [exact E4|].
    cbn beta. intros f y Hy.
    destruct (data_sidecar fixed sc conts f) as [m|e] eqn:Ed; cbn [bind] in Hy; [|discriminate].
    inversion Hy; subst y. exact Ed.
Qed.

(* BEFORE FIX COMMIT be9bad3: every data file of a constructed group carries [code_merged] *)
Lemma group_data_merged excl sfx t g f m :
  group_init false excl sfx t = Ok g -> unique_paths (g_sidecars g) -> In (f, m) (g_data g) ->
  m = code_merged (g_sidecars g) f.
Proof.
  intros Hg Hu Hin. destruct (group_init_spec _ _ _ _ _ Hg) as [Hc Hd].
  rewrite Forall_forall in Hd. specialize (Hd _ Hin). cbn [fst snd] in Hd.
  rewrite (data_sidecar_value _ _ f Hc Hu) in Hd. inversion Hd. reflexivity.
Qed.

Lemma Forall2_eq_map {A B} (h : A -> B) l l' :
  Forall2 (fun x y => y = h x) l l' -> l' = map h l.
Proof. intros H. induction H as [|x y l l' Hxy H IH]; [reflexivity|]. cbn [map]. rewrite Hxy, IH. reflexivity. Qed.

Lemma group_sidecar_merged fixed excl sfx t g :
  group_init fixed excl sfx t = Ok g ->
  g_conts g = map (fun s => (s, merge_dicts (map raw_of (own_chain (g_sidecars g) s)))) (g_sidecars g).
Proof.
  intros Hg. destruct (group_init_spec _ _ _ _ _ Hg) as [Hc _]. unfold conts_ok in Hc.
  apply (Forall2_eq_map (fun s => (s, merge_dicts (map raw_of (own_chain (g_sidecars g) s))))). exact Hc.
Qed.

Lemma merged_partial excl sfx t g f m :
  group_init false excl sfx t = Ok g -> In (f, m) (g_data g) ->
  unique_paths (g_sidecars g) -> all_fs_ok (g_sidecars g) -> data_file (g_sidecars g) f ->
  at_most_one_applicable (g_sidecars g) f ->
  ents_below_last (g_sidecars g) f ->
  m = spec_merged (g_sidecars g) f.
Proof.
  intros Hg Hin Hu Hfs Hd Hone Hents.
  rewrite (group_data_merged _ _ _ _ _ _ Hg Hu Hin). apply code_is_spec_partial; assumption.
Qed.

(* ------------------------------------------------------------------ files of a group are never below an excluded name *)

Lemma mk_bfile_dir dir name raw b : mk_bfile dir name raw = Ok b -> b_dir b = dir /\ b_name b = name.
Proof.
  unfold mk_bfile. destruct (parse_bids_filename name) as [[[sfx ext] ents]|e]; cbn [bind]; [|discriminate].
  intros H. inversion H. cbn. auto.
Qed.

Lemma Forall2_in_right {A B} (R : A -> B -> Prop) l l' y :
  Forall2 R l l' -> In y l' -> exists x, In x l /\ R x y.
Proof.
  intros H. induction H as [|a b l l' Hab H IH]; intros Hin; [contradiction|].
  destruct Hin as [Hin|Hin].
  - subst. exists a. split; [left; reflexivity | exact Hab].
  - destruct (IH Hin) as [x [Hx HR]]. exists x. split; [right; exact Hx | exact HR].
Qed.

Lemma group_files_not_excluded fixed excl sfx t g :
  group_init fixed excl sfx t = Ok g ->
  (forall s, In s (g_sidecars g) -> existsb (fun n => in_names n excl) (b_dir s) = false) /\
  (forall f m, In (f, m) (g_data g) -> existsb (fun n => in_names n excl) (b_dir f) = false).
Proof.
  unfold group_init. intros H.
  destruct (mapM _ (get_file_list excl sfx ext_json t)) as [sc|e] eqn:E1; cbn [bind] in H; [|discriminate].
  destruct (mapM _ sc) as [conts|e] eqn:E2; cbn [bind] in H; [|discriminate].
  destruct (mapM _ (get_file_list excl sfx ext_tsv t)) as [dfs|e] eqn:E3; cbn [bind] in H; [|discriminate].
  destruct (mapM _ dfs) as [data|e] eqn:E4; cbn [bind] in H; [|discriminate].
  inversion H; subst g; cbn [g_sidecars g_data]. split.
  - intros s Hs. apply mapM_Forall2 in E1. destruct (Forall2_in_right _ _ _ _ E1 Hs) as [[d fl] [Hin Hmk]].
    cbn [fst snd] in Hmk. apply mk_bfile_dir in Hmk as [Hd _]. rewrite Hd.
    eapply get_file_list_not_excluded. exact Hin.
  - intros f m Hf. apply mapM_Forall2 in E4. destruct (Forall2_in_right _ _ _ _ E4 Hf) as [f' [Hin' Hy]].
    cbn beta in Hy. destruct (data_sidecar fixed sc conts f') as [m'|e] eqn:Ed; cbn [bind] in Hy; [|discriminate].
    inversion Hy; subst f' m'. apply mapM_Forall2 in E3.
    destruct (Forall2_in_right _ _ _ _ E3 Hin') as [[d fl] [Hin Hmk]].
    cbn [fst snd] in Hmk. apply mk_bfile_dir in Hmk as [Hd _]. rewrite Hd.
    eapply get_file_list_not_excluded. exact Hin.
Qed.

(* ------------------------------------------------------------------ validation driver and exit status *)

Lemma validate_exact_before_fix (issue : Type) vs vf excl sfx t g :
  group_init false excl sfx t = Ok g -> unique_paths (g_sidecars g) ->
  dataset_validate issue vs vf g =
    flat_map (fun s => vs (b_name s) (merge_dicts (map raw_of (own_chain (g_sidecars g) s)))) (g_sidecars g)
    ++ flat_map (fun fm => vf (fst fm) (code_merged (g_sidecars g) (fst fm))) (g_data g).
Proof.
  intros Hg Hu. unfold dataset_validate, validate_sidecars, validate_datafiles. f_equal.
  - rewrite (group_sidecar_merged _ _ _ _ _ Hg). rewrite flat_map_concat_map, map_map, <- flat_map_concat_map.
    reflexivity.
  - rewrite !flat_map_concat_map. f_equal. apply map_ext_in. intros [f m] Hin. cbn [fst snd].
    rewrite (group_data_merged _ _ _ _ _ _ Hg Hu Hin). reflexivity.
Qed.

(* ------------------------------------------------------------------ the repaired constructor (fixed = true) *)

Lemma data_sidecar_fixed_value sc conts f m :
  data_sidecar true sc conts f = Ok m -> m = spec_merged sc f.
Proof.
  unfold data_sidecar, spec_merged. fold (chain sc f).
  destruct (chain sc f) as [|x l] eqn:E; cbn [is_empty]; cbv iota.
  - intros H. inversion H. reflexivity.
  - destruct (mk_bfile _ _ _) as [mg|e]; cbn [bind]; [|discriminate].
    destruct (set_contents mg (x :: l)) as [d|e] eqn:Es; cbn [bind]; [|discriminate].
    intros H. inversion H. f_equal. unfold set_contents in Es. cbn [is_empty] in Es.
    apply load_sidecar_files_ok. exact Es.
Qed.

(* FULL STATEMENT, all trees: the sidecar attached to a data file is the fold of the per-key
   update along the file's own chain *)
Lemma merged_is_fold excl sfx t g f m :
  group_init true excl sfx t = Ok g -> In (f, m) (g_data g) ->
  m = spec_merged (g_sidecars g) f.
Proof.
  intros Hg Hin. destruct (group_init_spec _ _ _ _ _ Hg) as [_ Hd].
  rewrite Forall_forall in Hd. specialize (Hd _ Hin). cbn [fst snd] in Hd.
  apply (data_sidecar_fixed_value _ _ _ _ Hd).
Qed.

(* ... i.e., under the at-most-one-per-directory hypothesis, the top-down merge of the applicable
   sidecars sorted by depth (however that list l is produced) *)
Lemma merged_is_fold_applicable excl sfx t g f m l :
  group_init true excl sfx t = Ok g -> In (f, m) (g_data g) ->
  data_file (g_sidecars g) f -> at_most_one_applicable (g_sidecars g) f ->
  StronglySorted ltd l -> (forall s, In s l <-> In s (g_sidecars g) /\ applicableb s f = true) ->
  m = if is_empty l then None else Some (merge_dicts (map raw_of l)).
Proof.
  intros Hg Hin Hd Hone Hs Hmem. rewrite (merged_is_fold _ _ _ _ _ _ Hg Hin).
  unfold spec_merged. rewrite (chain_unique _ _ l Hd Hone Hs Hmem). reflexivity.
Qed.

(* the merged contents of a sidecar file itself: its chain is the sidecars applicable to it
   (it is applicable to itself) in strictly increasing depth *)
Lemma sidecar_chain_is_applicable sc s :
  In s sc -> all_fs_ok sc -> at_most_one sc s ->
  (forall s', In s' (chain sc s) <->
     In s' sc /\ (same_file s s' = true \/ applicableb s' s = true)) /\
  StronglySorted ltd (chain sc s).
Proof.
  intros Hin Hfs Hone. split; [|apply chain_sorted]. intros s'. split.
  - intros H. apply chain_sound in H as (H1 & H2 & _). split; [exact H1|].
    rewrite (is_sidecar_for_spec s' s (Hfs s' s H1 Hin)) in H2. apply orb_true_iff in H2. exact H2.
  - intros [H1 H2].
    assert (Hisf : is_sidecar_for s' s = true).
    { rewrite (is_sidecar_for_spec s' s (Hfs s' s H1 Hin)). apply orb_true_iff. exact H2. }
    apply chain_complete; auto. destruct H2 as [H2|H2].
    + apply same_file_spec in H2 as [Hd _]. rewrite Hd. apply is_prefixb_refl.
    + apply applicableb_prefix. exact H2.
Qed.

(* dataset_issues for the repaired code: no side condition at all *)
Lemma dataset_issues (issue : Type) vs vf excl sfx t g :
  group_init true excl sfx t = Ok g ->
  dataset_validate issue vs vf g =
    flat_map (fun s => vs (b_name s) (merge_dicts (map raw_of (own_chain (g_sidecars g) s)))) (g_sidecars g)
    ++ flat_map (fun fm => vf (fst fm) (spec_merged (g_sidecars g) (fst fm))) (g_data g).
Proof.
  intros Hg. unfold dataset_validate, validate_sidecars, validate_datafiles. f_equal.
  - rewrite (group_sidecar_merged _ _ _ _ _ Hg). rewrite flat_map_concat_map, map_map, <- flat_map_concat_map.
    reflexivity.
  - rewrite !flat_map_concat_map. f_equal. apply map_ext_in. intros [f m] Hin. cbn [fst snd].
    rewrite (merged_is_fold _ _ _ _ _ _ Hg Hin). reflexivity.
Qed.

(* a sidecar is always in its own directory's candidates, so its own chain is never empty *)
Lemma own_chain_is_chain sc s : In s sc -> own_chain sc s = chain sc s.
Proof.
  intros Hin. unfold own_chain. destruct (chain sc s) as [|x l] eqn:E; [|reflexivity]. exfalso.
  unfold chain, get_sidecars_from_path in E.
  assert (Hex : exists y, In y (chain_aux sc s [] (b_dir s))).
  { assert (Hg : forall rest cur, b_dir s = cur ++ rest -> exists y, In y (chain_aux sc s cur rest)).
    { induction rest as [|c r IH]; intros cur Hd.
      - rewrite app_nil_r in Hd. cbn [chain_aux]. unfold get_sidecar_for_obj.
        destruct (find (fun s0 => is_sidecar_for s0 s) (dir_sidecars sc cur)) as [y|] eqn:Ef.
        + exists y. left. reflexivity.
        + exfalso. eapply find_none in Ef.
          * cbn beta in Ef. unfold is_sidecar_for in Ef. rewrite same_file_refl in Ef. discriminate.
          * unfold dir_sidecars. apply filter_In. split; [exact Hin|]. apply path_eqb_spec. exact Hd.
      - cbn [chain_aux]. destruct (IH (cur ++ [c])) as [y Hy].
        + rewrite Hd, <- app_assoc. reflexivity.
        + exists y. apply in_or_app. right. exact Hy. }
    apply (Hg (b_dir s) []). reflexivity. }
  destruct Hex as [y Hy]. rewrite E in Hy. contradiction.
Qed.

Lemma cli_exit_iff (issue : Type) vs vf g :
  cli_exit issue vs vf g <> 0 <-> dataset_validate issue vs vf g <> [].
Proof.
  unfold cli_exit. destruct (dataset_validate issue vs vf g); cbn [is_empty]; split; intro H;
    try discriminate; congruence.
Qed.

(* ------------------------------------------------------------------ the dataset root's own path is irrelevant *)

(* os.walk started at the root given by ANY absolute components (excluded names included) lists
   exactly the relative walk with the root in front of every path *)
Lemma os_walk_is_walk_both excl :
  (forall t rootp, os_walk excl rootp t = map (fun e => (rootp ++ fst e, snd e)) (walk excl t)) /\
  (forall f rootp, os_walk_forest excl rootp f = map (fun e => (rootp ++ fst e, snd e)) (walk_forest excl f)).
Proof.
  apply tree_forest_ind.
  - intros files subs IH rootp. cbn [os_walk walk map fst snd]. rewrite app_nil_r, IH. reflexivity.
  - reflexivity.
  - intros n t IHt r IHr rootp. cbn [os_walk_forest walk_forest].
    destruct (in_names n excl); [apply IHr|].
    rewrite map_app, IHt, IHr, map_map. f_equal. apply map_ext. intros e. cbn [fst snd].
    rewrite <- app_assoc. reflexivity.
Qed.

Lemma os_walk_is_walk excl rootp t :
  os_walk excl rootp t = map (fun e => (rootp ++ fst e, snd e)) (walk excl t).
Proof. apply os_walk_is_walk_both. Qed.

(* hence the listing relative to the root is the same for every root path *)
Lemma os_walk_root_independent excl rootp t :
  map (fun e => (skipn (length rootp) (fst e), snd e)) (os_walk excl rootp t) = walk excl t.
Proof.
  rewrite os_walk_is_walk, map_map. rewrite <- (map_id (walk excl t)) at 2. apply map_ext.
  intros [p fs]. cbn [fst snd]. f_equal.
  induction rootp as [|x r IH]; [reflexivity | exact IH].
Qed.

Lemma path_eqb_app p a b : path_eqb (p ++ a) (p ++ b) = path_eqb a b.
Proof. induction p as [|x p IH]; [reflexivity|]. cbn. rewrite str_eqb_refl. exact IH. Qed.

Lemma commonpath_app p a b : commonpath (p ++ a) (p ++ b) = p ++ commonpath a b.
Proof. induction p as [|x p IH]; [reflexivity|]. cbn. rewrite str_eqb_refl, IH. reflexivity. Qed.

(* the applicability test on real paths = the test on paths relative to the root *)
Lemma is_sidecar_for_abs rootp s x :
  is_sidecar_for (abs_file rootp s) (abs_file rootp x) = is_sidecar_for s x.
Proof.
  unfold is_sidecar_for, same_file, full_path, abs_file. cbn [b_dir b_name b_suffix b_ents].
  rewrite path_eqb_app, <- !app_assoc, commonpath_app, path_eqb_app. reflexivity.
Qed.

Lemma find_map {A B} (P : B -> bool) (g : A -> B) l :
  find P (map g l) = option_map g (find (fun x => P (g x)) l).
Proof.
  induction l as [|x l IH]; [reflexivity|]. cbn. destruct (P (g x)); [reflexivity | exact IH].
Qed.

Lemma find_ext' {A} (P Q : A -> bool) l : (forall x, P x = Q x) -> find P l = find Q l.
Proof. intros H. induction l as [|x l IH]; [reflexivity|]. cbn. rewrite H, IH. reflexivity. Qed.

(* get_sidecars_from_path on real paths (current_path starting at the root) = the chain on relative
   paths with the root put in front *)
Lemma chain_aux_abs rootp sc obj : forall rest cur,
  chain_aux (map (abs_file rootp) sc) (abs_file rootp obj) (rootp ++ cur) rest
  = map (abs_file rootp) (chain_aux sc obj cur rest).
Proof.
  assert (Hpick : forall cur,
    get_sidecar_for_obj (map (abs_file rootp) sc) (abs_file rootp obj) (rootp ++ cur)
    = option_map (abs_file rootp) (get_sidecar_for_obj sc obj cur)).
  { intros cur. unfold get_sidecar_for_obj, dir_sidecars. rewrite filter_map_comm, find_map.
    rewrite (filter_ext (fun x => path_eqb (b_dir (abs_file rootp x)) (rootp ++ cur))
                        (fun s => path_eqb (b_dir s) cur))
      by (intros s; unfold abs_file; cbn [b_dir]; apply path_eqb_app).
    f_equal. apply find_ext'. intros s. apply is_sidecar_for_abs. }
  induction rest as [|c r IH]; intros cur; cbn [chain_aux]; rewrite Hpick.
  - rewrite !app_nil_r. destruct (get_sidecar_for_obj sc obj cur); reflexivity.
  - rewrite map_app, <- IH, <- app_assoc. destruct (get_sidecar_for_obj sc obj cur); reflexivity.
Qed.

Lemma chain_root_independent rootp sc obj :
  chain_aux (map (abs_file rootp) sc) (abs_file rootp obj) rootp (b_dir obj)
  = map (abs_file rootp) (chain sc obj).
Proof.
  unfold chain, get_sidecars_from_path. rewrite <- (chain_aux_abs rootp sc obj (b_dir obj) []).
  rewrite app_nil_r. reflexivity.
Qed.

(* ------------------------------------------------------------------ nothing is skipped by the validation driver *)

Lemma every_sidecar_validated (issue : Type) vs vf fixed excl sfx t g s i :
  group_init fixed excl sfx t = Ok g -> In s (g_sidecars g) ->
  In i (vs (b_name s) (merge_dicts (map raw_of (own_chain (g_sidecars g) s)))) ->
  In i (dataset_validate issue vs vf g).
Proof.
  intros Hg Hs Hi. unfold dataset_validate, validate_sidecars. apply in_or_app. left.
  rewrite (group_sidecar_merged _ _ _ _ _ Hg). apply in_flat_map.
  exists (s, merge_dicts (map raw_of (own_chain (g_sidecars g) s))). split; [|exact Hi].
  apply in_map_iff. exists s. auto.
Qed.

Lemma every_data_file_validated (issue : Type) vs vf excl sfx t g f m i :
  group_init true excl sfx t = Ok g -> In (f, m) (g_data g) ->
  In i (vf f (spec_merged (g_sidecars g) f)) ->
  In i (dataset_validate issue vs vf g).
Proof.
  intros Hg Hf Hi. unfold dataset_validate, validate_datafiles. apply in_or_app. right.
  apply in_flat_map. exists (f, m). split; [exact Hf|]. cbn [fst snd].
  rewrite (merged_is_fold _ _ _ _ _ _ Hg Hf). exact Hi.
Qed.

(* every issue of the dataset comes from one of those validations: nothing is added either *)
Lemma dataset_issue_origin (issue : Type) vs vf excl sfx t g i :
  group_init true excl sfx t = Ok g -> In i (dataset_validate issue vs vf g) ->
  (exists s, In s (g_sidecars g) /\ In i (vs (b_name s) (merge_dicts (map raw_of (own_chain (g_sidecars g) s))))) \/
  (exists f m, In (f, m) (g_data g) /\ In i (vf f (spec_merged (g_sidecars g) f))).
Proof.
  intros Hg Hi. rewrite (dataset_issues issue vs vf _ _ _ _ Hg) in Hi. apply in_app_or in Hi as [Hi|Hi].
  - left. apply in_flat_map in Hi as [s [Hs Hi]]. exists s. auto.
  - right. apply in_flat_map in Hi as [[f m] [Hf Hi]]. exists f, m. auto.
Qed.

(* ------------------------------------------------------------------ concrete trees *)

Import Strings.String.

Fixpoint s2l (s : String.string) : str :=
  match s with
  | String.EmptyString => []
  | String.String a r => Ascii.N_of_ascii a :: s2l r
  end.

Definition excl_default : list str :=
  Eval vm_compute in map s2l ["sourcedata"; "derivatives"; "code"; "stimuli"; "phenotype"]%string.
Definition sfx_events : str := Eval vm_compute in s2l "events".

(* column keys: a = 0, r = 1, s = 2; values: Red = 0, Blue = 1, Green = 2 *)
(* task-rest_events.json ; sub-01/sub-01_events.json ; sub-01/eeg/sub-01_task-rest_events.tsv *)
Definition wit_tree : tree := Eval vm_compute in
  Node [(s2l "dataset_description.json", Some [(7, 7)]);
        (s2l "task-rest_events.json", Some [(0, 0); (1, 1)])]
    (FCons (s2l "sub-01")
       (Node [(s2l "sub-01_events.json", Some [(0, 2); (2, 1)])]
          (FCons (s2l "eeg") (Node [(s2l "sub-01_task-rest_events.tsv", None)] FNil) FNil))
       (FCons (s2l "derivatives")
          (Node [(s2l "task-rest_events.json", Some [(0, 9)])] FNil) FNil)).

Definition empty_group : group := mkG [] [] [].
Definition wit_group : group := Eval vm_compute in
  match group_init false excl_default sfx_events wit_tree with Ok g => g | Exn _ => empty_group end.
Definition wit_file : bfile := Eval vm_compute in
  match g_data wit_group with (f, _) :: _ => f | [] => mkB [] [] None [] [] None end.

Ltac split_ins :=
  repeat match goal with
         | H : In _ (_ :: _) |- _ => destruct H as [H|H]; [subst|]
         | H : In _ [] |- _ => destruct H
         end.

Lemma wit_unique : unique_paths (g_sidecars wit_group).
Proof.
  intros s1 s2 H1 H2. cbn [wit_group g_sidecars] in H1, H2. split_ins; intros Hs;
    first [reflexivity | (exfalso; vm_compute in Hs; discriminate)].
Qed.

Lemma wit_fs_ok : all_fs_ok (g_sidecars wit_group).
Proof.
  intros s x H1 H2. cbn [wit_group g_sidecars] in H1, H2. split_ins; intros Hs;
    first [ (exfalso; vm_compute in Hs; discriminate) | (split; vm_compute; reflexivity) ].
Qed.

Lemma wit_data_file : data_file (g_sidecars wit_group) wit_file.
Proof.
  intros s H. cbn [wit_group g_sidecars] in H. split_ins;
    (split; [vm_compute; reflexivity | intros _; split; vm_compute; reflexivity]).
Qed.

Lemma wit_at_most_one : at_most_one_applicable (g_sidecars wit_group) wit_file.
Proof.
  intros s1 s2 H1 H2 _ _ Hd. cbn [wit_group g_sidecars] in H1, H2. split_ins;
    first [reflexivity | (exfalso; vm_compute in Hd; discriminate)].
Qed.

(* The full statement "the sidecar of a data file is the fold along the file's own chain"
   is FALSE of the code: the root sidecar's column r (key 1) is lost. *)
Lemma merged_refuted :
  exists t g f m,
    group_init false excl_default sfx_events t = Ok g /\ In (f, m) (g_data g) /\
    unique_paths (g_sidecars g) /\ all_fs_ok (g_sidecars g) /\ data_file (g_sidecars g) f /\
    at_most_one_applicable (g_sidecars g) f /\
    m <> spec_merged (g_sidecars g) f /\
    (exists d d', m = Some d /\ spec_merged (g_sidecars g) f = Some d' /\
                  jget 1 d = None /\ jget 1 d' = Some 1).
Proof.
  exists wit_tree, wit_group, wit_file, (Some [(0, 2); (2, 1)]).
  split; [vm_compute; reflexivity|].
  split; [cbn [wit_group g_data]; left; reflexivity|].
  split; [exact wit_unique|]. split; [exact wit_fs_ok|]. split; [exact wit_data_file|].
  split; [exact wit_at_most_one|].
  split; [vm_compute; intro H; discriminate|].
  exists [(0, 2); (2, 1)], [(0, 2); (1, 1); (2, 1)]. repeat split; vm_compute; reflexivity.
Qed.

(* a BIDS-conformant tree: entities grow with depth; every hypothesis of merged_partial holds and
   the deeper file overrides column a while column r is inherited from the root *)
Definition ok_tree : tree := Eval vm_compute in
  Node [(s2l "dataset_description.json", Some [(7, 7)]);
        (s2l "task-rest_events.json", Some [(0, 0); (1, 1)])]
    (FCons (s2l "sub-01")
       (Node [(s2l "sub-01_task-rest_events.json", Some [(0, 2); (2, 1)])]
          (FCons (s2l "eeg") (Node [(s2l "sub-01_task-rest_events.tsv", None)] FNil) FNil))
       (FCons (s2l "code")
          (Node [(s2l "task-rest_events.json", Some [(0, 9)])] FNil) FNil)).
Definition ok_group : group := Eval vm_compute in
  match group_init true excl_default sfx_events ok_tree with Ok g => g | Exn _ => empty_group end.
Definition ok_file : bfile := Eval vm_compute in
  match g_data ok_group with (f, _) :: _ => f | [] => mkB [] [] None [] [] None end.

Lemma ok_example :
  group_init true excl_default sfx_events ok_tree = Ok ok_group /\
  In (ok_file, Some [(0, 2); (1, 1); (2, 1)]) (g_data ok_group) /\
  unique_paths (g_sidecars ok_group) /\ all_fs_ok (g_sidecars ok_group) /\
  data_file (g_sidecars ok_group) ok_file /\ at_most_one_applicable (g_sidecars ok_group) ok_file /\
  ents_below_last (g_sidecars ok_group) ok_file /\
  List.length (chain (g_sidecars ok_group) ok_file) = 2 /\
  spec_merged (g_sidecars ok_group) ok_file = Some [(0, 2); (1, 1); (2, 1)].
Proof.
  split; [vm_compute; reflexivity|].
  split; [cbn [ok_group g_data]; left; reflexivity|].
  split.
  { intros s1 s2 H1 H2. cbn [ok_group g_sidecars] in H1, H2. split_ins; intros Hs;
      first [reflexivity | (exfalso; vm_compute in Hs; discriminate)]. }
  split.
  { intros s x H1 H2. cbn [ok_group g_sidecars] in H1, H2. split_ins; intros Hs;
      first [ (exfalso; vm_compute in Hs; discriminate) | (split; vm_compute; reflexivity) ]. }
  split.
  { intros s H. cbn [ok_group g_sidecars] in H. split_ins;
      (split; [vm_compute; reflexivity | intros _; split; vm_compute; reflexivity]). }
  split.
  { intros s1 s2 H1 H2 _ _ Hd. cbn [ok_group g_sidecars] in H1, H2. split_ins;
      first [reflexivity | (exfalso; vm_compute in Hd; discriminate)]. }
  split.
  { intros s H. vm_compute in H. destruct H as [H|[H|[]]]; subst s; vm_compute; auto. }
  split; vm_compute; reflexivity.
Qed.

(* the old witness on the repaired constructor: column r (key 1) of the root sidecar is inherited *)
Definition wit_group_fixed : group := Eval vm_compute in
  match group_init true excl_default sfx_events wit_tree with Ok g => g | Exn _ => empty_group end.

Lemma wit_fixed_example :
  group_init true excl_default sfx_events wit_tree = Ok wit_group_fixed /\
  g_data wit_group_fixed = [(wit_file, Some [(0, 2); (1, 1); (2, 1)])] /\
  List.length (chain (g_sidecars wit_group_fixed) wit_file) = 2 /\
  data_file (g_sidecars wit_group_fixed) wit_file /\
  at_most_one_applicable (g_sidecars wit_group_fixed) wit_file.
Proof.
  split; [vm_compute; reflexivity|]. split; [vm_compute; reflexivity|]. split; [vm_compute; reflexivity|].
  split; [exact wit_data_file | exact wit_at_most_one].
Qed.
