(* C20: statements added after the audit -- the exception raised for unordered files is raised ONLY for
   them; validity stated over the manager's own rows; every listed event has an end; the remaining
   annotation in terms of the file. *)
From Coq Require Import List NArith ZArith Arith Bool Lia.
From HV Require Import Base.Res Model.Events Proofs.EventsProofs Proofs.EventsTime.
Import ListNotations.

(* ---------- HedFileError is raised for unordered onsets and for nothing else ---------- *)
Definition nh {A} (r : res A) : Prop := r <> Exn HedFileError.

Lemma bind_nh {A B} (r : res A) (f : A -> res B) : nh r -> (forall a, nh (f a)) -> nh (bind r f).
Proof.
  intros Hr Hf. destruct r as [a|e]; cbn [bind]; [apply Hf|].
  intro H. apply Hr. inversion H. reflexivity.
Qed.

Lemma ok_nh {A} (a : A) : nh (Ok a).
Proof. discriminate. Qed.

Lemma foldM_nh {A B} (f : A -> B -> res A) : (forall a x, nh (f a x)) -> forall l a, nh (foldM f l a).
Proof.
  intros Hf. induction l as [|x l IH]; intro a; cbn [foldM]; [apply ok_nh|].
  apply bind_nh; [apply Hf | exact IH].
Qed.

Lemma od_pop_nh a : forall od, nh (od_pop a od).
Proof.
  induction od as [|[k p] od IH]; cbn [od_pop]; [discriminate|].
  destruct (N.eqb k a); [apply ok_nh|]. apply bind_nh; [exact IH|]. intros [q t']. apply ok_nh.
Qed.

Lemma temporal_step_nh i t st it : nh (temporal_step i t st it).
Proof.
  destruct st as [hp od]. unfold temporal_step. destruct (it_kind it) as [a|a|d|]; try apply ok_nh.
  - apply bind_nh.
    + destruct (od_mem a od); [|apply ok_nh]. apply bind_nh; [apply od_pop_nh|]. intros [p od']. apply ok_nh.
    + intros [hp1 od1]. apply ok_nh.
  - apply bind_nh; [apply od_pop_nh|]. intros [p od']. apply ok_nh.
Qed.

Lemma bisect_go_nh fuel : forall a x lo hi, nh (bisect_go fuel a x lo hi).
Proof.
  induction fuel as [|f IH]; intros a x lo hi; cbn [bisect_go]; [discriminate|].
  destruct (lo <? hi); [|apply ok_nh].
  destruct (nth_error a (Nat.div2 (lo + hi))) as [v|]; [|discriminate].
  destruct (v <? x)%Z; apply IH.
Qed.

Lemma duration_step_nh onsets i t hp it : nh (duration_step onsets i t hp it).
Proof.
  unfold duration_step. destruct (it_kind it) as [a|a|d|]; try apply ok_nh.
  apply bind_nh; [apply bisect_go_nh|]. intro ei. apply ok_nh.
Qed.

Lemma scan_rows_nh onsets : forall rows i st, nh (scan_rows onsets i rows st).
Proof.
  induction rows as [|r rs IH]; intros i st; cbn [scan_rows]; [apply ok_nh|].
  apply bind_nh; [apply foldM_nh; intros; apply temporal_step_nh|]. intro st1.
  apply bind_nh; [apply foldM_nh; intros; apply duration_step_nh|]. intro hp2. apply IH.
Qed.

Lemma app_at_nh {A} (x : A) : forall l i, nh (app_at l i x).
Proof.
  induction l as [|h t IH]; intros i; cbn [app_at]; [discriminate|].
  destruct i as [|k]; [apply ok_nh|]. apply bind_nh; [apply IH|]. intro t'. apply ok_nh.
Qed.

Lemma add_range_nh {A} (x : A) : forall cnt c lo, nh (add_range c lo cnt x).
Proof.
  induction cnt as [|k IH]; intros c lo; cbn [add_range]; [apply ok_nh|].
  apply bind_nh; [apply app_at_nh|]. intro c'. apply IH.
Qed.

Lemma context_step_nh bc e : nh (context_step bc e).
Proof.
  destruct bc as [base ctx]. unfold context_step. apply bind_nh; [apply app_at_nh|]. intro base'.
  destruct (ev_end e) as [j|]; [|discriminate].
  apply bind_nh; [apply add_range_nh|]. intro ctx'. apply ok_nh.
Qed.

Lemma create_nh tl : nh (create_event_list tl).
Proof.
  unfold create_event_list. apply bind_nh; [apply scan_rows_nh|]. intros [hp od].
  apply bind_nh; [apply foldM_nh; intros; apply context_step_nh|]. intros [base ctx]. apply ok_nh.
Qed.

Lemma rejected_iff_unordered h :
  event_manager h = Exn HedFileError <-> mono (map r_onset h) = false.
Proof.
  split; [|apply unordered_rejected].
  intro H. destruct (mono (map r_onset h)) eqn:E; [|reflexivity].
  rewrite (ordered_runs h E) in H. exfalso. exact (create_nh _ H).
Qed.

(* ---------- validity over the manager's own rows ---------- *)
Lemma valid_accepted_rows h : mono (map r_onset h) = true -> valid_timeline (split_delay_tags h) ->
  exists o, event_manager h = Ok o /\ o_rows o = split_delay_tags h /\ valid_timeline (o_rows o).
Proof.
  intros Hm Hv. destruct (valid_accepted h Hm Hv) as (o & E). exists o. split; [exact E|].
  pose proof (em_rows h o E) as Hr. split; [exact Hr | rewrite Hr; exact Hv].
Qed.

Lemma ex_history_rows_valid :
  exists o, event_manager ex_history = Ok o /\ o_rows o = split_delay_tags ex_history /\
            valid_timeline (o_rows o).
Proof. destruct ex_history_ok as (Hm & Hv & _). exact (valid_accepted_rows ex_history Hm Hv). Qed.

(* ---------- every listed event has an end ---------- *)
Section Ended.
  Variable h : list row.
  Variable o : output.
  Hypothesis Hrun : event_manager h = Ok o.
  Hypothesis Hvalid : valid_timeline (o_rows o).

  Lemma event_kind e : In e (all_events o) ->
    (exists a, it_kind (ev_item e) = KOnset a) \/ (exists d, it_kind (ev_item e) = KDuration d).
  Proof.
    intro He. destruct (em_every_event_listed h o Hrun Hvalid e He) as (s & r & Hn & Hin & _ & _).
    destruct (em_started_listed h o Hrun Hvalid s r Hn) as (Hmap & _).
    assert (Hin' : In (ev_item e) (filter is_onset_item (r_items r) ++ filter is_duration_item (r_items r))).
    { rewrite <- Hmap. apply in_map. exact Hin. }
    rewrite in_app_iff, !filter_In in Hin'. unfold is_onset_item, is_duration_item in Hin'.
    destruct (it_kind (ev_item e)) as [a|a|d|]; [left; eauto | | right; eauto |];
      destruct Hin' as [[_ F]|[_ F]]; discriminate.
  Qed.

  Lemma every_event_ended e : In e (all_events o) ->
    exists j, ev_end e = Some j /\ j <= length (o_rows o) /\ ev_end_index e = j.
  Proof.
    intro He. destruct (event_kind e He) as [[a K]|[d K]].
    - destruct (em_end_onset h o Hrun Hvalid e a He K) as (j & Ej & _ & Hj & _).
      exists j. unfold ev_end_index. rewrite Ej. auto.
    - destruct (em_end_duration h o Hrun Hvalid e d He K) as (j & Ej & Hj & _).
      exists j. unfold ev_end_index. rewrite Ej. auto.
  Qed.

  Lemma context_iff_end i e :
    In e (nth i (o_contexts o) []) <->
    In e (all_events o) /\ exists j, ev_end e = Some j /\ ev_start e < i /\ i < j.
  Proof.
    rewrite (em_context_iff h o Hrun Hvalid i e). split.
    - intros (He & H1 & H2). split; [exact He|].
      destruct (every_event_ended e He) as (j & Ej & _ & Ei). exists j. rewrite Ei in H2. auto.
    - intros (He & j & Ej & H1 & H2). split; [exact He|]. unfold ev_end_index. rewrite Ej. auto.
  Qed.
End Ended.

(* ---------- the remaining annotation, in terms of the file ---------- *)
Lemma remaining_from_file h o : event_manager h = Ok o ->
  forall t it,
    (exists i r, nth_error (o_rows o) i = Some r /\ r_onset r = t /\ In it (nth i (o_hed o) [])) <->
    (is_plain it = true /\ exists r, In r h /\ In it (r_items r) /\ t = (delay_of it + r_onset r)%Z).
Proof.
  intros Hrun t it. pose proof (em_remaining h o Hrun) as Hh.
  destruct (em_time_line h o Hrun) as (_ & _ & _ & Htimed).
  assert (Hnth : forall i r, nth_error (o_rows o) i = Some r ->
                 nth i (o_hed o) [] = filter is_plain (r_items r)).
  { intros i r Hn. rewrite Hh.
    assert (Hi : i < length (o_rows o)) by (apply nth_error_Some; congruence).
    rewrite (nth_indep _ [] (filter is_plain (r_items r))) by (rewrite map_length; exact Hi).
    rewrite (map_nth (fun r0 => filter is_plain (r_items r0))).
    f_equal. f_equal. apply nth_error_nth. exact Hn. }
  rewrite <- Htimed. rewrite in_timed. split.
  - intros (i & r & Hn & Ho & Hin). rewrite (Hnth i r Hn) in Hin. apply filter_In in Hin as [Hin Hp].
    split; [exact Hp|]. exists r. split; [eapply nth_error_In; eauto | auto].
  - intros (Hp & r & Hr & Ho & Hin). apply In_nth_error in Hr as (i & Hn).
    exists i, r. split; [exact Hn|]. split; [exact Ho|]. rewrite (Hnth i r Hn). apply filter_In. auto.
Qed.
