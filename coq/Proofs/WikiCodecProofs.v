(* Lemmas about the MediaWiki line codec (C05 (c)). *)
From Coq Require Import List NArith ZArith Arith Bool Lia ZifyBool.
From HV Require Import Base.Res Base.Str Base.StrOps Model.AttrCodec Model.WikiCodec
     Proofs.AttrCodecProofs.
Import ListNotations.

(* ------------------------------------------------------------------ generic list facts *)

Lemma memb_skipn c k (s : str) : memb c s = false -> memb c (skipn k s) = false.
Proof.
  revert s. induction k as [|k IH]; intros s H; [exact H|].
  destruct s as [|x t]; [reflexivity|]. simpl in H. apply orb_false_iff in H as [_ H].
  simpl. apply IH. exact H.
Qed.

Lemma memb_cons c x s : memb c (x :: s) = N.eqb c x || memb c s.
Proof. reflexivity. Qed.

Lemma lstrip_app_nonws v c v' rest :
  lstrip v = c :: v' -> lstrip (v ++ rest) = c :: v' ++ rest.
Proof.
  induction v as [|x t IH]; intro H; [discriminate|].
  simpl in *. destruct (isspace x); [apply IH; exact H|]. inversion H; subst. reflexivity.
Qed.

(* a non-empty text whose last character is not white space keeps a character under lstrip *)
Lemma lstrip_keeps_last (u : str) d :
  u <> [] -> isspace (last u d) = false -> exists c v, lstrip u = c :: v /\ In c u.
Proof.
  induction u as [|x t IH]; intros Hne Hl; [congruence|].
  simpl. destruct (isspace x) eqn:Ex.
  - destruct t as [|y t'].
    + simpl in Hl. congruence.
    + destruct (IH (ltac:(discriminate)) Hl) as (c & v & E & Hin).
      exists c, v. split; [exact E | right; exact Hin].
  - exists x, t. split; [reflexivity | left; reflexivity].
Qed.

Lemma none_of_in bad (s : str) c : none_of bad s = true -> In c s -> memb c bad = false.
Proof.
  unfold none_of. intros H Hin. rewrite forallb_forall in H. apply negb_true_iff. apply H. exact Hin.
Qed.

Lemma brackets_parts x :
  memb x brackets = false ->
  N.eqb x ch_lbrack = false /\ N.eqb x ch_rbrack = false /\ N.eqb x ch_lbrace = false
  /\ N.eqb x ch_rbrace = false /\ N.eqb x ch_nl = false.
Proof.
  unfold brackets, memb. cbn [existsb]. intro H.
  apply orb_false_iff in H as [H1 H]. apply orb_false_iff in H as [H2 H].
  apply orb_false_iff in H as [H3 H]. apply orb_false_iff in H as [H4 H].
  apply orb_false_iff in H as [H5 _]. auto.
Qed.

(* ------------------------------------------------------------------ the regex scanner *)

Lemma ws_then_end_none v rest c v' :
  lstrip v = c :: v' -> is_open_br c = false -> ws_then_end (v ++ rest) = None.
Proof.
  intros H Hc. unfold ws_then_end. rewrite (lstrip_app_nonws _ _ _ rest H). rewrite Hc. reflexivity.
Qed.

Definition text_chars_ok (m : str) : Prop :=
  none_of brackets m = true /\ memb ch_apos m = false.

(* every non-empty suffix of m, followed by anything, fails the tail of the expression *)
Lemma tail_match_suffix_none (u rest : str) d :
  u <> [] -> isspace (last u d) = false -> none_of brackets u = true -> memb ch_apos u = false ->
  tail_match (u ++ rest) = None.
Proof.
  intros Hne Hl Hb Ha.
  destruct (lstrip_keeps_last u d Hne Hl) as (c & v & E & Hin).
  assert (Hc : is_open_br c = false).
  { destruct (brackets_parts _ (none_of_in _ _ _ Hb Hin)) as (H1 & _ & H3 & _).
    unfold is_open_br. rewrite H1, H3. reflexivity. }
  unfold tail_match.
  assert (Hp : prefixb s_root (u ++ rest) = false).
  { destruct u as [|x t]; [congruence|]. rewrite memb_cons in Ha. apply orb_false_iff in Ha as [Hx _].
    unfold s_root. cbn [app prefixb]. change 39%N with ch_apos. rewrite Hx. reflexivity. }
  rewrite Hp. eapply ws_then_end_none; eauto.
Qed.

Lemma last_cons_nonempty (x : N) (t : str) d : t <> [] -> last (x :: t) d = last t d.
Proof. destruct t; [congruence | reflexivity]. Qed.

Lemma lazy2_here s o : tail_match s = Some o -> lazy2 s = Some (0, o).
Proof. intro H. destruct s; cbn [lazy2]; rewrite H; reflexivity. Qed.

(* lazy group 2 runs over the whole of m when every suffix of m fails the tail *)
Lemma lazy2_over m rest d o :
  m <> [] -> isspace (last m d) = false -> none_of brackets m = true -> memb ch_apos m = false ->
  tail_match rest = Some o ->
  lazy2 (m ++ rest) = Some (length m, length m + o).
Proof.
  intros Hne Hl Hb Ha Ht. induction m as [|x t IH]; [congruence|].
  cbn [app lazy2].
  change (x :: t ++ rest) with ((x :: t) ++ rest).
  rewrite (tail_match_suffix_none (x :: t) rest d Hne Hl Hb Ha).
  assert (Hx : N.eqb x ch_nl = false).
  { apply (brackets_parts _ (none_of_in _ _ _ Hb (or_introl eq_refl))). }
  cbn [app]. rewrite Hx.
  destruct t as [|y t'].
  - cbn [app]. rewrite (lazy2_here _ _ Ht). reflexivity.
  - rewrite IH.
    + reflexivity.
    + discriminate.
    + rewrite <- (last_cons_nonempty x (y :: t') d) by discriminate. exact Hl.
    + unfold none_of in *. simpl in Hb. apply andb_true_iff in Hb as [_ Hb]. exact Hb.
    + simpl in Ha. apply orb_false_iff in Ha as [_ Ha]. exact Ha.
Qed.

Definition stars (lvl : nat) : str := repeat_ch ch_star lvl.

Lemma skipn_stars lvl s : skipn lvl (stars lvl ++ s) = s.
Proof. unfold stars. induction lvl; simpl; auto. Qed.

Lemma match_at_stars lvl m rest d o :
  m <> [] -> hd 0%N m <> ch_star ->
  isspace (last m d) = false -> none_of brackets m = true -> memb ch_apos m = false ->
  tail_match rest = Some o ->
  match_at (stars (S lvl) ++ m ++ rest) = Some (S lvl, length m, S lvl + (length m + o)).
Proof.
  intros Hne Hh Hl Hb Ha Ht. unfold match_at.
  change (stars (S lvl) ++ m ++ rest) with (ch_star :: (stars lvl ++ m ++ rest)).
  cbn [N.eqb]. rewrite N.eqb_refl.
  change (ch_star :: stars lvl ++ m ++ rest) with (stars (S lvl) ++ m ++ rest).
  assert (Hc : count_leading ch_star (stars (S lvl) ++ m ++ rest) = S lvl).
  { unfold stars. apply count_leading_repeat. destruct m as [|x t]; [congruence|].
    simpl in *. apply N.eqb_neq. exact Hh. }
  rewrite Hc, skipn_stars. rewrite (lazy2_over m rest d o Hne Hl Hb Ha Ht). reflexivity.
Qed.

Lemma search_stars lvl m rest d o :
  m <> [] -> hd 0%N m <> ch_star ->
  isspace (last m d) = false -> none_of brackets m = true -> memb ch_apos m = false ->
  tail_match rest = Some o ->
  search_from (stars (S lvl) ++ m ++ rest) 0 = Some (S lvl, length m, S lvl + (length m + o)).
Proof.
  intros. unfold stars. cbn [repeat_ch app search_from].
  change (ch_star :: repeat_ch ch_star lvl ++ m ++ rest) with (stars (S lvl) ++ m ++ rest).
  rewrite (match_at_stars lvl m rest d o) by assumption. reflexivity.
Qed.

(* ------------------------------------------------------------------ _get_line_section *)

Lemma count_one c (a b : str) : memb c a = false -> memb c b = false -> count c (a ++ c :: b) = 1.
Proof.
  intros Ha Hb. rewrite count_app. cbn [count]. rewrite N.eqb_refl.
  rewrite (count_none_of _ _ Ha), (count_none_of _ _ Hb). reflexivity.
Qed.

Lemma py_norm_nat len k : py_norm len (Z.of_nat k) = k.
Proof. unfold py_norm. destruct (Z.ltb (Z.of_nat k) 0) eqn:E; lia. Qed.

Lemma gls_none row idx sd ed :
  memb sd row = false -> memb ed row = false ->
  get_line_section row idx sd ed = (Some [], idx).
Proof.
  intros Hs He. unfold get_line_section.
  rewrite (count_none_of _ _ Hs), (count_none_of _ _ He). cbn [Nat.eqb negb Nat.ltb Nat.leb orb].
  unfold py_from.
  rewrite (findc_none _ _ (memb_skipn _ _ _ Hs)), (findc_none _ _ (memb_skipn _ _ _ He)).
  reflexivity.
Qed.

Lemma gls_found Y1 Y2 T Y3 sd ed :
  N.eqb sd ed = false ->
  memb sd Y1 = false -> memb ed Y1 = false -> memb sd Y2 = false -> memb ed Y2 = false ->
  memb sd T = false -> memb ed T = false -> memb sd Y3 = false -> memb ed Y3 = false ->
  get_line_section (Y1 ++ Y2 ++ sd :: T ++ ed :: Y3) (Z.of_nat (length Y1)) sd ed
  = (Some T, Z.of_nat (length Y1 + length Y2 + 1 + length T)).
Proof.
  intros Hne s1 e1 s2 e2 sT eT s3 e3. unfold get_line_section.
  assert (Hne' : N.eqb ed sd = false) by (rewrite N.eqb_sym; exact Hne).
  assert (C1 : count sd (Y1 ++ Y2 ++ sd :: T ++ ed :: Y3) = 1).
  { rewrite app_assoc. apply count_one.
    - rewrite memb_app, s1, s2. reflexivity.
    - rewrite memb_app, sT, memb_cons, Hne, s3. reflexivity. }
  assert (C2 : count ed (Y1 ++ Y2 ++ sd :: T ++ ed :: Y3) = 1).
  { replace (Y1 ++ Y2 ++ sd :: T ++ ed :: Y3) with ((Y1 ++ Y2 ++ sd :: T) ++ ed :: Y3)
      by (repeat rewrite <- app_assoc; reflexivity).
    apply count_one; [|exact e3].
    rewrite !memb_app, e1, e2, memb_cons, Hne', eT. reflexivity. }
  rewrite C1, C2. cbn [Nat.eqb negb Nat.ltb Nat.leb orb].
  unfold py_from. rewrite !py_norm_nat. rewrite !skipn_app_exact.
  rewrite (findc_app sd Y2 (T ++ ed :: Y3) s2).
  replace (Y2 ++ sd :: T ++ ed :: Y3) with ((Y2 ++ sd :: T) ++ ed :: Y3)
    by (rewrite <- app_assoc; reflexivity).
  rewrite (findc_app ed (Y2 ++ sd :: T) Y3) by (rewrite memb_app, e2, memb_cons, Hne', eT; reflexivity).
  rewrite app_length. cbn [length].
  destruct (Z.ltb (Z.of_nat (length Y2 + S (length T))) (Z.of_nat (length Y2))) eqn:El; [lia|].
  f_equal; [|lia]. f_equal.
  unfold py_slice.
  replace (Z.of_nat (length Y2) + 1)%Z with (Z.of_nat (length Y2 + 1)) by lia.
  rewrite !py_norm_nat. unfold sub.
  replace (length Y2 + S (length T) - (length Y2 + 1)) with (length T) by lia.
  replace ((Y2 ++ sd :: T) ++ ed :: Y3) with ((Y2 ++ [sd]) ++ T ++ ed :: Y3)
    by (repeat rewrite <- app_assoc; reflexivity).
  replace (length Y2 + 1) with (length (Y2 ++ [sd])) by (rewrite app_length; reflexivity).
  rewrite skipn_app_exact. apply firstn_app_exact.
Qed.

(* ------------------------------------------------------------------ the written row *)

Definition extras_of (A : str) (d : option str) : str :=
  let e1 := if nonempty A then ch_lbrace :: A ++ [ch_rbrace] else [] in
  match d with
  | Some (c :: d') => e1 ++ (if nonempty A then [ch_space] else []) ++ ch_lbrack :: (c :: d') ++ [ch_rbrack]
  | _ => e1
  end.

Lemma format_props_and_desc_eq dis a d :
  format_props_and_desc dis a d = extras_of (format_tag_attributes dis a) d.
Proof. reflexivity. Qed.

Definition rest_of (E : str) : str := if nonempty E then ch_space :: E else [].

(* the row the reader sees for a starred line: stars, blank, name, blank, extras *)
Definition row_star (lvl : nat) (n E : str) : str := stars lvl ++ (ch_space :: n) ++ rest_of E.

Lemma brackets_free s :
  none_of brackets s = true ->
  memb ch_lbrack s = false /\ memb ch_rbrack s = false /\ memb ch_lbrace s = false /\ memb ch_rbrace s = false.
Proof. intro H. repeat split; eapply none_of_memb; eauto. Qed.

Lemma memb_stars c k : N.eqb c ch_star = false -> memb c (stars k) = false.
Proof. intro H. induction k as [|k IH]; [reflexivity|]. unfold stars in *. cbn [repeat_ch]. rewrite memb_cons, H, IH. reflexivity. Qed.

Lemma open_br_cases b : is_open_br b = true -> b = ch_lbrack \/ b = ch_lbrace.
Proof.
  unfold is_open_br. intro H. apply orb_true_iff in H as [H|H]; apply N.eqb_eq in H; auto.
Qed.

Lemma tail_match_open b x y t :
  is_open_br b = true -> is_open_br x = false ->
  tail_match (ch_space :: b :: x :: y :: t) = Some 1.
Proof.
  intros Hb Hx.
  assert (Hsp : isspace b = false) by (destruct (open_br_cases _ Hb) as [-> | ->]; reflexivity).
  unfold tail_match. cbn [s_root prefixb ch_space N.eqb Pos.eqb andb].
  unfold ws_then_end. cbn [lstrip]. change (isspace ch_space) with true. cbn iota. cbn [lstrip]. rewrite Hsp.
  rewrite Hb. cbn [count_leading_br]. rewrite Hb, Hx. cbn [skipn length].
  replace (S (S (S (S (length t)))) - S (S (S (length t)))) with 1 by lia. reflexivity.
Qed.

Lemma first_not_open (s : str) c t : none_of brackets s = true -> s = c :: t -> is_open_br c = false.
Proof.
  intros H ->. destruct (brackets_parts c (none_of_in _ _ _ H (or_introl eq_refl))) as (H1 & _ & H3 & _).
  unfold is_open_br. rewrite H1, H3. reflexivity.
Qed.

Definition desc_okP (d : option str) : Prop :=
  match d with
  | None => True
  | Some s => nonempty s = true /\ no_outer_ws s = true /\ none_of brackets s = true
  end.

Lemma tail_match_rest A d :
  none_of brackets A = true -> desc_okP d -> nonempty (extras_of A d) = true ->
  tail_match (rest_of (extras_of A d)) = Some 1.
Proof.
  intros HA Hd Hne. unfold rest_of. rewrite Hne. unfold extras_of in *.
  destruct A as [|a A'].
  - cbn [nonempty app] in *. destruct d as [[|c D']|]; try discriminate.
    destruct Hd as (_ & _ & Hb).
    pose proof (first_not_open _ _ _ Hb eq_refl) as Hc.
    cbn [app]. destruct D' as [|y D'']; cbn [app]; apply tail_match_open; auto.
  - pose proof (first_not_open _ _ _ HA eq_refl) as Hc. cbn [nonempty].
    destruct d as [[|c D']|]; cbn [app]; destruct A' as [|y A'']; cbn [app]; apply tail_match_open; auto.
Qed.

Lemma name_ok_parts n :
  name_ok n = true ->
  nonempty n = true /\ no_outer_ws n = true /\ none_of brackets n = true /\ memb ch_lt n = false
  /\ memb ch_apos n = false /\ endswith [ch_hash] n = false /\ memb ch_slash n = false.
Proof.
  unfold name_ok. intro H.
  apply andb_true_iff in H as [H H7]. apply andb_true_iff in H as [H H6].
  apply andb_true_iff in H as [H H5]. apply andb_true_iff in H as [H H4].
  apply andb_true_iff in H as [H H3]. apply andb_true_iff in H as [H1 H2].
  apply negb_true_iff in H4, H5, H6, H7.
  repeat split; assumption.
Qed.

Lemma ename_ok_parts n :
  ename_ok n = true ->
  nonempty n = true /\ no_outer_ws n = true /\ none_of brackets n = true /\ memb ch_lt n = false
  /\ memb ch_apos n = false /\ True /\ True.
Proof.
  unfold ename_ok. intro H.
  apply andb_true_iff in H as [H H5]. apply andb_true_iff in H as [H H4].
  apply andb_true_iff in H as [H H3]. apply andb_true_iff in H as [H1 H2].
  apply negb_true_iff in H4, H5.
  repeat split; assumption.
Qed.

Lemma name_ok_ename n : name_ok n = true -> ename_ok n = true.
Proof.
  intro H. destruct (name_ok_parts n H) as (H1 & H2 & H3 & H4 & H5 & _).
  unfold ename_ok. rewrite H1, H2, H3, H4, H5. reflexivity.
Qed.

Lemma last_nonws_of_no_outer (s : str) d : s <> [] -> no_outer_ws s = true -> isspace (last s d) = false.
Proof.
  destruct s as [|c t]; [congruence|]. intros _ H. unfold no_outer_ws in H.
  apply andb_true_iff in H as [_ H]. apply negb_true_iff in H.
  rewrite (last_indep_nonempty (c :: t) d c) by discriminate. exact H.
Qed.

Definition ext_free (fixed : bool) (n row : str) : Prop :=
  (if fixed then contains s_extend_here n else contains s_extend_here row) = false.

(* _get_tag_name on a written starred row *)
Lemma get_tag_name_star fixed lvl n A d :
  ename_ok n = true -> none_of brackets A = true -> desc_okP d ->
  ext_free fixed n (row_star (S lvl) n (extras_of A d)) ->
  contains s_zw (row_star (S lvl) n (extras_of A d)) = false ->
  get_tag_name fixed (row_star (S lvl) n (extras_of A d))
  = (Some n, Z.of_nat (S lvl + (S (length n) + (if nonempty (extras_of A d) then 1 else 0)))).
Proof.
  intros Hn HA Hd Hx Hz.
  destruct (ename_ok_parts n Hn) as (Hne & Hws & Hb & _ & Hap & _ & _).
  assert (Hnn : n <> []) by (destruct n; [discriminate | discriminate]).
  assert (Ht : tail_match (rest_of (extras_of A d))
               = Some (if nonempty (extras_of A d) then 1 else 0)).
  { destruct (nonempty (extras_of A d)) eqn:E.
    - apply tail_match_rest; assumption.
    - unfold rest_of. rewrite E. reflexivity. }
  assert (Hs : search_from (row_star (S lvl) n (extras_of A d)) 0
               = Some (S lvl, length (ch_space :: n),
                       S lvl + (length (ch_space :: n) + (if nonempty (extras_of A d) then 1 else 0)))).
  { unfold row_star. apply (search_stars lvl (ch_space :: n) (rest_of (extras_of A d)) 0%N).
    - discriminate.
    - cbn [hd]. discriminate.
    - rewrite last_cons_nonempty by exact Hnn. apply last_nonws_of_no_outer; assumption.
    - unfold none_of in *. cbn [forallb]. rewrite Hb. reflexivity.
    - rewrite memb_cons, Hap. reflexivity.
    - exact Ht. }
  assert (Hsub : sub (row_star (S lvl) n (extras_of A d)) (S lvl) (S lvl + length (ch_space :: n)) = ch_space :: n).
  { unfold sub, row_star. replace (S lvl + length (ch_space :: n) - S lvl) with (length (ch_space :: n)) by lia.
    rewrite skipn_stars. apply firstn_app_exact. }
  unfold get_tag_name. rewrite (remove_all_id _ _ Hz). rewrite Hs, Hsub.
  rewrite strip_space_cons, (strip_id n Hws), Hne.
  unfold ext_free in Hx. destruct fixed; cbn [negb andb].
  - assert (Hc : contains s_extend_here (ch_space :: n) = false).
    { cbn [contains]. rewrite Hx. reflexivity. }
    rewrite Hc. reflexivity.
  - rewrite Hx. reflexivity.
Qed.

Definition kept (kv : str * aval) : bool := match snd kv with AStr [] => false | _ => true end.

Lemma create_entry_eval fixed R n idx A idx2 Dtxt idx3 a' :
  get_tag_name fixed R = (Some n, idx) -> nonempty n = true ->
  get_line_section R idx ch_lbrace ch_rbrace = (Some A, idx2) ->
  parse_attribute_string A = Ok a' ->
  get_line_section R idx2 ch_lbrack ch_rbrack = (Some Dtxt, idx3) ->
  create_entry fixed R (Some n)
  = Ok (false, Some (n, filter kept a', match Dtxt with [] => None | _ => Some (strip Dtxt) end)).
Proof.
  intros H1 Hn H2 H3 H4. unfold create_entry. rewrite H1.
  destruct n as [|c f]; [discriminate|]. rewrite H2, H3. cbn [bind]. rewrite H4. reflexivity.
Qed.

Ltac list_eq := repeat (first [rewrite <- app_assoc | progress (cbn [app])]); reflexivity.

Ltac memb_solve :=
  repeat first [ match goal with H : memb _ _ = false |- _ => rewrite H end
               | match goal with H : N.eqb _ _ = false |- _ => rewrite H end
               | rewrite memb_app | rewrite memb_cons ];
  reflexivity.

Lemma attr_ok_kept a : attr_ok a = true -> filter kept a = a.
Proof.
  intro H. destruct (attr_ok_parts _ H) as [_ He]. clear H.
  induction a as [|[k v] t IH]; [reflexivity|].
  unfold entries_ok in He. cbn [forallb] in He. apply andb_true_iff in He as [Hkv Ht].
  cbn [filter]. unfold kept at 1. cbn [snd fst] in *.
  apply andb_true_iff in Hkv as [_ Hv].
  destruct v as [|s]; [f_equal; apply IH; exact Ht|].
  destruct s as [|c s'].
  { simpl in Hv. discriminate. }
  f_equal. apply IH. exact Ht.
Qed.

Lemma len_P lvl (n : str) :
  length (stars (S lvl) ++ ch_space :: n ++ [ch_space]) = S lvl + (S (length n) + 1).
Proof.
  rewrite app_length. unfold stars. rewrite repeat_ch_length. cbn [length]. rewrite app_length. cbn [length]. lia.
Qed.

Lemma len_app_cons (P : str) c l : length P + length (@nil N) + 1 + length l = length (P ++ c :: l).
Proof. rewrite app_length. cbn [length]. lia. Qed.

Set Default Timeout 30.
(* the two bracketed sections of a written starred row *)
Lemma len_pre (pre : str) : length (pre ++ [ch_space]) = length pre + 1.
Proof. rewrite app_length. reflexivity. Qed.

Lemma sections_gen (pre : str) A d :
  memb ch_lbrack pre = false -> memb ch_rbrack pre = false -> memb ch_lbrace pre = false -> memb ch_rbrace pre = false ->
  none_of brackets A = true -> desc_okP d ->
  let R := pre ++ rest_of (extras_of A d) in
  let idx := Z.of_nat (length pre + (if nonempty (extras_of A d) then 1 else 0)) in
  exists idx2 idx3,
    get_line_section R idx ch_lbrace ch_rbrace = (Some A, idx2) /\
    get_line_section R idx2 ch_lbrack ch_rbrack
    = (Some (match d with Some D => D | None => [] end), idx3).
Proof.
  intros q1 q2 q3 q4 HA Hd R idx.
  destruct (brackets_free A HA) as (a1 & a2 & a3 & a4).
  set (P := pre ++ [ch_space]).
  assert (LP : length P = length pre + 1) by (unfold P; apply len_pre).
  assert (p1 : memb ch_lbrack P = false) by (unfold P; memb_solve).
  assert (p2 : memb ch_rbrack P = false) by (unfold P; memb_solve).
  assert (p3 : memb ch_lbrace P = false) by (unfold P; memb_solve).
  assert (p4 : memb ch_rbrace P = false) by (unfold P; memb_solve).
  subst R idx. unfold rest_of, extras_of.
  destruct A as [|a A'].
  - (* no attributes *)
    cbn [nonempty app].
    destruct d as [[|c D']|].
    + destruct Hd as (Hd & _). discriminate.
    + destruct Hd as (_ & _ & Hdb). destruct (brackets_free _ Hdb) as (d1 & d2 & d3 & d4).
      pose proof d1 as e1; pose proof d2 as e2; pose proof d3 as e3; pose proof d4 as e4.
      rewrite memb_cons in e1, e2, e3, e4.
      apply orb_false_iff in e1 as [c1 D1]. apply orb_false_iff in e2 as [c2 D2].
      apply orb_false_iff in e3 as [c3 D3]. apply orb_false_iff in e4 as [c4 D4].
      cbn [nonempty app].
      match goal with |- context [get_line_section ?r _ _ _] =>
        replace r with (P ++ [] ++ ch_lbrack :: (c :: D') ++ ch_rbrack :: []) by (unfold P; list_eq) end.
      rewrite <- LP.
      eexists. eexists. split.
      * apply gls_none; memb_solve.
      * apply gls_found; try reflexivity; assumption.
    + cbn [nonempty]. rewrite app_nil_r. eexists. eexists. split; apply gls_none; memb_solve.
  - (* attributes *)
    cbn [nonempty].
    destruct d as [[|c D']|].
    + destruct Hd as (Hd & _). discriminate.
    + destruct Hd as (_ & _ & Hdb). destruct (brackets_free _ Hdb) as (d1 & d2 & d3 & d4).
      pose proof d1 as e1; pose proof d2 as e2; pose proof d3 as e3; pose proof d4 as e4.
      rewrite memb_cons in e1, e2, e3, e4.
      apply orb_false_iff in e1 as [c1 D1]. apply orb_false_iff in e2 as [c2 D2].
      apply orb_false_iff in e3 as [c3 D3]. apply orb_false_iff in e4 as [c4 D4].
      cbn [nonempty app].
      match goal with |- context [get_line_section ?r _ _ _] =>
        replace r with (P ++ [] ++ ch_lbrace :: (a :: A') ++ ch_rbrace :: (ch_space :: ch_lbrack :: (c :: D') ++ [ch_rbrack])) by (unfold P; list_eq) end.
      rewrite <- LP.
      eexists. eexists. split.
      * apply gls_found; try reflexivity; try assumption; memb_solve.
      * replace (P ++ [] ++ ch_lbrace :: (a :: A') ++ ch_rbrace :: ch_space :: ch_lbrack :: (c :: D') ++ [ch_rbrack])
          with ((P ++ ch_lbrace :: (a :: A')) ++ [ch_rbrace; ch_space] ++ ch_lbrack :: (c :: D') ++ ch_rbrack :: [])
          by list_eq.
        rewrite (len_app_cons P ch_lbrace (a :: A')).
        apply gls_found; try reflexivity; try assumption; memb_solve.
    + cbn [nonempty app].
      match goal with |- context [get_line_section ?r _ _ _] =>
        replace r with (P ++ [] ++ ch_lbrace :: (a :: A') ++ ch_rbrace :: []) by (unfold P; list_eq) end.
      rewrite <- LP.
      eexists. eexists. split.
      * apply gls_found; try reflexivity; assumption.
      * apply gls_none; memb_solve.
Qed.


Lemma sections_star lvl n A d :
  ename_ok n = true -> none_of brackets A = true -> desc_okP d ->
  let R := row_star (S lvl) n (extras_of A d) in
  let idx := Z.of_nat (S lvl + (S (length n) + (if nonempty (extras_of A d) then 1 else 0))) in
  exists idx2 idx3,
    get_line_section R idx ch_lbrace ch_rbrace = (Some A, idx2) /\
    get_line_section R idx2 ch_lbrack ch_rbrack
    = (Some (match d with Some D => D | None => [] end), idx3).
Proof.
  intros Hn HA Hd R idx.
  destruct (ename_ok_parts n Hn) as (_ & _ & Hb & _).
  destruct (brackets_free n Hb) as (n1 & n2 & n3 & n4).
  destruct (brackets_free A HA) as (a1 & a2 & a3 & a4).
  assert (s1 : memb ch_lbrack (stars (S lvl)) = false) by (apply memb_stars; reflexivity).
  assert (s2 : memb ch_rbrack (stars (S lvl)) = false) by (apply memb_stars; reflexivity).
  assert (s3 : memb ch_lbrace (stars (S lvl)) = false) by (apply memb_stars; reflexivity).
  assert (s4 : memb ch_rbrace (stars (S lvl)) = false) by (apply memb_stars; reflexivity).
  set (P := stars (S lvl) ++ ch_space :: n ++ [ch_space]).
  assert (LP : length P = S lvl + (S (length n) + 1)).
  { unfold P. apply len_P. }
  assert (p1 : memb ch_lbrack P = false) by (unfold P; memb_solve).
  assert (p2 : memb ch_rbrack P = false) by (unfold P; memb_solve).
  assert (p3 : memb ch_lbrace P = false) by (unfold P; memb_solve).
  assert (p4 : memb ch_rbrace P = false) by (unfold P; memb_solve).
  subst R idx. unfold row_star, rest_of, extras_of.
  destruct A as [|a A'].
  - (* no attributes *)
    cbn [nonempty app].
    destruct d as [[|c D']|].
    + destruct Hd as (Hd & _). discriminate.
    + destruct Hd as (_ & _ & Hdb). destruct (brackets_free _ Hdb) as (d1 & d2 & d3 & d4).
      pose proof d1 as e1; pose proof d2 as e2; pose proof d3 as e3; pose proof d4 as e4.
      rewrite memb_cons in e1, e2, e3, e4.
      apply orb_false_iff in e1 as [c1 D1]. apply orb_false_iff in e2 as [c2 D2].
      apply orb_false_iff in e3 as [c3 D3]. apply orb_false_iff in e4 as [c4 D4].
      cbn [nonempty app].
      match goal with |- context [get_line_section ?r _ _ _] =>
        replace r with (P ++ [] ++ ch_lbrack :: (c :: D') ++ ch_rbrack :: []) by (unfold P; list_eq) end.
      rewrite <- LP.
      eexists. eexists. split.
      * apply gls_none; memb_solve.
      * apply gls_found; try reflexivity; assumption.
    + cbn [nonempty]. eexists. eexists. split; apply gls_none; memb_solve.
  - (* attributes *)
    cbn [nonempty].
    destruct d as [[|c D']|].
    + destruct Hd as (Hd & _). discriminate.
    + destruct Hd as (_ & _ & Hdb). destruct (brackets_free _ Hdb) as (d1 & d2 & d3 & d4).
      pose proof d1 as e1; pose proof d2 as e2; pose proof d3 as e3; pose proof d4 as e4.
      rewrite memb_cons in e1, e2, e3, e4.
      apply orb_false_iff in e1 as [c1 D1]. apply orb_false_iff in e2 as [c2 D2].
      apply orb_false_iff in e3 as [c3 D3]. apply orb_false_iff in e4 as [c4 D4].
      cbn [nonempty app].
      match goal with |- context [get_line_section ?r _ _ _] =>
        replace r with (P ++ [] ++ ch_lbrace :: (a :: A') ++ ch_rbrace :: (ch_space :: ch_lbrack :: (c :: D') ++ [ch_rbrack])) by (unfold P; list_eq) end.
      rewrite <- LP.
      eexists. eexists. split.
      * apply gls_found; try reflexivity; try assumption; memb_solve.
      * replace (P ++ [] ++ ch_lbrace :: (a :: A') ++ ch_rbrace :: ch_space :: ch_lbrack :: (c :: D') ++ [ch_rbrack])
          with ((P ++ ch_lbrace :: (a :: A')) ++ [ch_rbrace; ch_space] ++ ch_lbrack :: (c :: D') ++ ch_rbrack :: [])
          by list_eq.
        rewrite (len_app_cons P ch_lbrace (a :: A')).
        apply gls_found; try reflexivity; try assumption; memb_solve.
    + cbn [nonempty app].
      match goal with |- context [get_line_section ?r _ _ _] =>
        replace r with (P ++ [] ++ ch_lbrace :: (a :: A') ++ ch_rbrace :: []) by (unfold P; list_eq) end.
      rewrite <- LP.
      eexists. eexists. split.
      * apply gls_found; try reflexivity; assumption.
      * apply gls_none; memb_solve.
Qed.

Unset Default Timeout.

Lemma create_entry_star fixed lvl n A d a' :
  ename_ok n = true -> none_of brackets A = true -> desc_okP d ->
  parse_attribute_string A = Ok a' -> filter kept a' = a' ->
  ext_free fixed n (row_star (S lvl) n (extras_of A d)) ->
  contains s_zw (row_star (S lvl) n (extras_of A d)) = false ->
  create_entry fixed (row_star (S lvl) n (extras_of A d)) (Some n) = Ok (false, Some (n, a', d)).
Proof.
  intros Hn HA Hd Hp Hk Hx Hz.
  destruct (sections_star lvl n A d Hn HA Hd) as (idx2 & idx3 & S1 & S2).
  destruct (ename_ok_parts n Hn) as (Hne & _).
  rewrite (create_entry_eval fixed _ n _ A idx2 _ idx3 a' (get_tag_name_star fixed lvl n A d Hn HA Hd Hx Hz) Hne S1 Hp S2).
  rewrite Hk. do 4 f_equal.
  destruct d as [D|]; [|reflexivity].
  destruct Hd as (Hdn & Hdw & _). destruct D as [|c D']; [discriminate|].
  rewrite (strip_id _ Hdw). reflexivity.
Qed.

(* the part of read_tag_line that follows the nowiki removal *)
Definition read_row (fixed fatal0 : bool) (row : str) : res (option parsed) :=
  match row with
  | [] => if fatal0 then Exn HedFileError else Ok None
  | _ =>
      let root := startswith s_root row in
      let* level := if root then Ok 0 else get_tag_level row in
      let '(tag_name, _) := get_tag_name fixed row in
      match tag_name with
      | Some (c :: nm) =>
          let* r := create_entry fixed row (Some (c :: nm)) in
          match r with
          | (false, Some (n, a, d)) =>
              if fatal0 then Exn HedFileError else Ok (Some (mkParsed root level n a d))
          | _ => Exn HedFileError
          end
      | _ => Exn HedFileError
      end
  end.

Lemma read_tag_line_unfold fixed line :
  read_tag_line fixed line
  = let '(fatal0, row) := remove_nowiki_tag_from_line (strip line) in read_row fixed fatal0 row.
Proof. reflexivity. Qed.

Lemma get_tag_level_star lvl n E : get_tag_level (row_star (S lvl) n E) = Ok (S lvl).
Proof.
  unfold get_tag_level, row_star.
  assert (Hc : count_leading ch_star (stars (S lvl) ++ (ch_space :: n) ++ rest_of E) = S lvl).
  { unfold stars. apply count_leading_repeat. reflexivity. }
  rewrite Hc.
  assert (Hl : Nat.eqb (S lvl) (length (stars (S lvl) ++ (ch_space :: n) ++ rest_of E)) = false).
  { apply Nat.eqb_neq. rewrite app_length. unfold stars. rewrite repeat_ch_length. cbn [app length]. lia. }
  rewrite Hl. reflexivity.
Qed.

Lemma read_row_eval fixed R t lvl n a d idx :
  R = ch_star :: t -> get_tag_level R = Ok lvl -> get_tag_name fixed R = (Some n, idx) ->
  nonempty n = true -> create_entry fixed R (Some n) = Ok (false, Some (n, a, d)) ->
  read_row fixed false R = Ok (Some (mkParsed false lvl n a d)).
Proof.
  intros HR Hl Hg Hn Hc. destruct n as [|c nm]; [discriminate|].
  subst R. unfold read_row. unfold str in *.
  change (startswith s_root (ch_star :: t)) with false. cbv iota.
  rewrite Hl. cbn [bind]. rewrite Hg. cbv beta iota. rewrite Hc. reflexivity.
Qed.

Lemma read_row_star fixed lvl n A d a' :
  ename_ok n = true -> none_of brackets A = true -> desc_okP d ->
  parse_attribute_string A = Ok a' -> filter kept a' = a' ->
  ext_free fixed n (row_star (S lvl) n (extras_of A d)) ->
  contains s_zw (row_star (S lvl) n (extras_of A d)) = false ->
  read_row fixed false (row_star (S lvl) n (extras_of A d)) = Ok (Some (mkParsed false (S lvl) n a' d)).
Proof.
  intros Hn HA Hd Hp Hk Hx Hz.
  destruct (ename_ok_parts n Hn) as (Hne & _).
  eapply read_row_eval.
  - unfold row_star, stars. cbn [repeat_ch app]. reflexivity.
  - apply get_tag_level_star.
  - apply get_tag_name_star; assumption.
  - exact Hne.
  - apply create_entry_star; assumption.
Qed.

Lemma desc_ok_P d : desc_ok d = true -> desc_okP d.
Proof.
  destruct d as [s|]; [|exact (fun _ => I)]. unfold desc_ok, wiki_text_ok. intro H.
  apply andb_true_iff in H as [H H3]. apply andb_true_iff in H as [H1 H2].
  apply andb_true_iff in H3 as [H3 _]. repeat split; assumption.
Qed.

(* the reader on the row that the writer's line becomes once the nowiki wrapper is gone *)
Lemma wiki_row_roundtrip fixed dis lvl n a d :
  ename_ok n = true -> desc_ok d = true ->
  attr_ok a = true -> wiki_text_ok (format_tag_attributes dis a) = true ->
  ext_free fixed n (row_star (S lvl) n (format_props_and_desc dis a d)) ->
  contains s_zw (row_star (S lvl) n (format_props_and_desc dis a d)) = false ->
  read_row fixed false (row_star (S lvl) n (format_props_and_desc dis a d))
  = Ok (Some (mkParsed false (S lvl) n (filter (fun kv => negb (dis (fst kv))) a) d)).
Proof.
  intros Hn Hd Ha Hw Hx Hz. rewrite format_props_and_desc_eq in *.
  apply read_row_star; try assumption.
  - unfold wiki_text_ok in Hw. apply andb_true_iff in Hw. tauto.
  - apply desc_ok_P. exact Hd.
  - apply attr_roundtrip_exact. exact Ha.
  - apply attr_ok_kept. apply attr_ok_filter. exact Ha.
Qed.

(* ------------------------------------------------------------------ the nowiki wrapper *)

Definition shift (z k : Z) : Z := match z with Zneg _ => (-1)%Z | r => (r + k)%Z end.

Lemma finds_cons p c s :
  finds p (c :: s) = if prefixb p (c :: s) then 0%Z else shift (finds p s) 1.
Proof. cbn [finds]. destruct (prefixb p (c :: s)); [reflexivity|]. unfold shift. destruct (finds p s); reflexivity. Qed.

Lemma finds_range p s : finds p s = (-1)%Z \/ (0 <= finds p s)%Z.
Proof.
  induction s as [|c t IH].
  - simpl. destruct (prefixb p []); [right; lia | left; reflexivity].
  - rewrite finds_cons. destruct (prefixb p (c :: t)); [right; lia|].
    destruct IH as [E|E]; [rewrite E; left; reflexivity|].
    right. unfold shift. destruct (finds p t); lia.
Qed.

Lemma shift_nonneg z k : (0 <= z)%Z -> shift z k = (z + k)%Z.
Proof. intro H. unfold shift. destruct z; try reflexivity. lia. Qed.

Lemma shift_neg k : shift (-1) k = (-1)%Z.
Proof. reflexivity. Qed.

Lemma shift_shift z k : (0 <= k)%Z -> shift (shift z k) 1 = shift z (k + 1).
Proof.
  intro Hk. destruct z as [|q|q]; try reflexivity.
  - unfold shift at 2. cbn [Z.add]. rewrite shift_nonneg by lia. unfold shift. lia.
  - unfold shift at 2. rewrite shift_nonneg by lia. unfold shift. lia.
Qed.

Lemma lt_clean_tail c t : lt_clean (c :: t) = true -> lt_clean t = true.
Proof. cbn [lt_clean]. intro H. apply andb_true_iff in H. tauto. Qed.

Lemma prefix_false_clean u B :
  u <> [] -> lt_clean u = true ->
  prefixb s_nowiki_open (u ++ B) = false /\ prefixb s_nowiki_close (u ++ B) = false.
Proof.
  intros Hne H. destruct u as [|c t]; [congruence|].
  cbn [lt_clean] in H. apply andb_true_iff in H as [H _].
  unfold s_nowiki_open, s_nowiki_close. cbn [app prefixb].
  destruct (N.eqb c ch_lt) eqn:E.
  - apply N.eqb_eq in E. subst c. destruct t as [|d t']; [discriminate|].
    apply andb_true_iff in H as [H1 H2]. apply negb_true_iff in H1, H2.
    cbn [app prefixb]. rewrite (N.eqb_sym 110 d), H1. unfold ch_slash in H2. rewrite (N.eqb_sym 47 d), H2.
    split; reflexivity.
  - unfold ch_lt in E. rewrite (N.eqb_sym 60 c), E. split; reflexivity.
Qed.

Lemma remove_nowiki_go_clean A B :
  lt_clean A = true -> remove_nowiki_go 0 (A ++ B) = A ++ remove_nowiki_go 0 B.
Proof.
  induction A as [|c t IH]; intro H; [reflexivity|].
  destruct (prefix_false_clean (c :: t) B ltac:(discriminate) H) as [P1 P2].
  cbn [app] in *. cbn [remove_nowiki_go]. rewrite P1, P2. f_equal. apply IH.
  eapply lt_clean_tail; eauto.
Qed.

Lemma finds_clean p A B :
  p = s_nowiki_open \/ p = s_nowiki_close -> lt_clean A = true ->
  finds p (A ++ B) = shift (finds p B) (Z.of_nat (length A)).
Proof.
  intros Hp. induction A as [|c t IH]; intro H.
  - cbn [app length]. destruct (finds_range p B) as [E|E]; [rewrite E; reflexivity|].
    rewrite shift_nonneg by exact E. lia.
  - destruct (prefix_false_clean (c :: t) B ltac:(discriminate) H) as [P1 P2].
    cbn [app] in *. rewrite finds_cons.
    assert (Hpf : prefixb p (c :: t ++ B) = false) by (destruct Hp as [-> | ->]; assumption).
    rewrite Hpf. rewrite IH by (eapply lt_clean_tail; eauto).
    rewrite shift_shift by lia. f_equal. cbn [length]. lia.
Qed.

Lemma finds_exists p X Z : (0 <= finds p (X ++ p ++ Z))%Z.
Proof.
  induction X as [|c t IH].
  - cbn [app]. assert (H : prefixb p (p ++ Z) = true).
    { clear. induction p as [|x q IHq]; [reflexivity|]. cbn [app prefixb]. rewrite N.eqb_refl. exact IHq. }
    destruct (p ++ Z) eqn:E; simpl; rewrite H; lia.
  - cbn [app]. rewrite finds_cons. destruct (prefixb p (c :: t ++ p ++ Z)); [lia|].
    rewrite shift_nonneg by exact IH. lia.
Qed.

Lemma remove_nowiki_open Y : remove_nowiki_go 0 (s_nowiki_open ++ Y) = remove_nowiki_go 0 Y.
Proof.
  unfold s_nowiki_open. cbn [app remove_nowiki_go prefixb N.eqb Pos.eqb andb].
  destruct Y; reflexivity.
Qed.

Lemma remove_nowiki_close : remove_nowiki_go 0 s_nowiki_close = [].
Proof. reflexivity. Qed.

Lemma prefixb_app_true p s B : prefixb p s = true -> prefixb p (s ++ B) = true.
Proof.
  revert s. induction p as [|x q IH]; intros s H; [reflexivity|].
  destruct s as [|y s']; [discriminate|]. cbn [prefixb app] in *.
  apply andb_true_iff in H as [H1 H2]. rewrite H1. cbn [andb]. apply IH. exact H2.
Qed.

Definition flushed (cur E : str) : str :=
  if nonempty E then cur ++ ch_space :: s_nowiki_open ++ E ++ s_nowiki_close else cur.

(* removing the wrapper from a flushed line; cur and E carry no nowiki opener *)
Lemma remove_nowiki_flushed cur E :
  lt_clean (cur ++ [ch_space]) = true -> lt_clean E = true ->
  remove_nowiki (flushed cur E) = cur ++ rest_of E.
Proof.
  intros Hc He. unfold flushed, rest_of, remove_nowiki. destruct (nonempty E) eqn:En.
  - replace (cur ++ ch_space :: s_nowiki_open ++ E ++ s_nowiki_close)
      with ((cur ++ [ch_space]) ++ s_nowiki_open ++ E ++ s_nowiki_close) by (rewrite <- app_assoc; reflexivity).
    rewrite (remove_nowiki_go_clean _ _ Hc), remove_nowiki_open, (remove_nowiki_go_clean _ _ He).
    rewrite remove_nowiki_close, app_nil_r, <- app_assoc. reflexivity.
  - destruct E; [|discriminate].
    (* cur alone: lt_clean (cur ++ [blank]) lets every '<' be followed by a harmless character *)
    rewrite app_nil_r. clear - Hc.
    revert Hc. induction cur as [|c t IH]; intro Hc; [reflexivity|].
    destruct (prefix_false_clean ((c :: t) ++ [ch_space]) [] ltac:(discriminate) Hc) as [P1 P2].
    rewrite app_nil_r in P1, P2. cbn [app] in *.
    cbn [remove_nowiki_go].
    assert (Q1 : prefixb s_nowiki_open (c :: t) = false).
    { destruct (prefixb s_nowiki_open (c :: t)) eqn:Q; [|reflexivity].
      pose proof (prefixb_app_true _ _ [ch_space] Q) as Q'. cbn [app] in Q'. congruence. }
    assert (Q2 : prefixb s_nowiki_close (c :: t) = false).
    { destruct (prefixb s_nowiki_close (c :: t)) eqn:Q; [|reflexivity].
      pose proof (prefixb_app_true _ _ [ch_space] Q) as Q'. cbn [app] in Q'. congruence. }
    rewrite Q1, Q2. f_equal. apply IH. eapply lt_clean_tail; eauto.
Qed.

Lemma prefixb_self p Z : prefixb p (p ++ Z) = true.
Proof. induction p as [|x q IH]; [reflexivity|]. cbn [app prefixb]. rewrite N.eqb_refl. exact IH. Qed.

Lemma finds_app_none p s B : finds p (s ++ B) = (-1)%Z -> finds p s = (-1)%Z.
Proof.
  induction s as [|c t IH]; intro H.
  - cbn [app] in H. simpl. destruct (prefixb p []) eqn:E; [|reflexivity].
    pose proof (prefixb_app_true _ _ B E) as E'. cbn [app] in E'.
    destruct B; simpl in H; rewrite E' in H; discriminate.
  - cbn [app] in H. rewrite finds_cons in *.
    destruct (prefixb p (c :: t)) eqn:E.
    + pose proof (prefixb_app_true _ _ B E) as E'. cbn [app] in E'. rewrite E' in H. discriminate.
    + destruct (prefixb p (c :: t ++ B)); [discriminate|].
      destruct (finds_range p (t ++ B)) as [F|F].
      * rewrite (IH F). reflexivity.
      * rewrite shift_nonneg in H by exact F. lia.
Qed.

Lemma finds_nil p : p <> [] -> finds p [] = (-1)%Z.
Proof. destruct p; [congruence|]. reflexivity. Qed.

Lemma finds_prefix p Z : p <> [] -> finds p (p ++ Z) = 0%Z.
Proof.
  destruct p as [|x q]; [congruence|]. intros _.
  pose proof (prefixb_self (x :: q) Z) as H. cbn [app] in *. rewrite finds_cons, H. reflexivity.
Qed.

Lemma finds_close_after_open Y :
  (1 <= finds s_nowiki_close (s_nowiki_open ++ Y ++ s_nowiki_close))%Z.
Proof.
  set (tl := [110; 111; 119; 105; 107; 105; 62]%N).
  change (s_nowiki_open ++ Y ++ s_nowiki_close) with (60%N :: (tl ++ Y ++ s_nowiki_close)).
  rewrite finds_cons.
  assert (H : prefixb s_nowiki_close (60%N :: tl ++ Y ++ s_nowiki_close) = false) by reflexivity.
  rewrite H.
  pose proof (finds_exists s_nowiki_close (tl ++ Y) []) as Hx. rewrite app_nil_r, <- app_assoc in Hx.
  rewrite shift_nonneg by exact Hx. lia.
Qed.

(* the recorded-fatal flag of _remove_nowiki_tag_from_line on a flushed line *)
Lemma fatal_flushed cur E :
  lt_clean (cur ++ [ch_space]) = true ->
  fst (remove_nowiki_tag_from_line (flushed cur E)) = false.
Proof.
  intro Hc. unfold remove_nowiki_tag_from_line. cbn [fst]. unfold flushed.
  destruct (nonempty E) eqn:En.
  - replace (cur ++ ch_space :: s_nowiki_open ++ E ++ s_nowiki_close)
      with ((cur ++ [ch_space]) ++ s_nowiki_open ++ E ++ s_nowiki_close) by (rewrite <- app_assoc; reflexivity).
    rewrite (finds_clean s_nowiki_open _ _ (or_introl eq_refl) Hc).
    rewrite (finds_clean s_nowiki_close _ _ (or_intror eq_refl) Hc).
    assert (H1 : finds s_nowiki_open (s_nowiki_open ++ E ++ s_nowiki_close) = 0%Z).
    { apply finds_prefix. discriminate. }
    assert (H2 : (1 <= finds s_nowiki_close (s_nowiki_open ++ E ++ s_nowiki_close))%Z).
    { apply finds_close_after_open. }
    rewrite H1. rewrite shift_nonneg by lia. rewrite shift_nonneg by lia.
    set (r := finds s_nowiki_close (s_nowiki_open ++ E ++ s_nowiki_close)) in *.
    set (k := Z.of_nat (length (cur ++ [ch_space]))).
    assert (Hk : (0 <= k)%Z) by (unfold k; lia).
    clearbody r k. clear - H2 Hk.
    destruct ((0 + k =? -1 - (r + k))%Z && (-1 - (r + k) =? -1)%Z) eqn:E1; [lia|].
    destruct (negb (0 + k =? -1)%Z && (r + k <=? 0 + k)%Z) eqn:E2; [lia | reflexivity].
  - assert (N1 : finds s_nowiki_open cur = (-1)%Z).
    { apply (finds_app_none _ _ [ch_space]).
      rewrite <- (app_nil_r (cur ++ [ch_space])).
      rewrite (finds_clean s_nowiki_open _ _ (or_introl eq_refl) Hc). reflexivity. }
    assert (N2 : finds s_nowiki_close cur = (-1)%Z).
    { apply (finds_app_none _ _ [ch_space]).
      rewrite <- (app_nil_r (cur ++ [ch_space])).
      rewrite (finds_clean s_nowiki_close _ _ (or_intror eq_refl) Hc). reflexivity. }
    rewrite N1, N2. reflexivity.
Qed.

Lemma lt_clean_no_lt s : memb ch_lt s = false -> lt_clean s = true.
Proof.
  induction s as [|c t IH]; intro H; [reflexivity|].
  rewrite memb_cons in H. apply orb_false_iff in H as [H1 H2].
  cbn [lt_clean]. rewrite N.eqb_sym, H1, (IH H2). reflexivity.
Qed.

Lemma lt_clean_sep A c B :
  N.eqb c ch_lt = false -> N.eqb c 110 = false -> N.eqb c ch_slash = false ->
  lt_clean (A ++ c :: B) = lt_clean (A ++ [ch_space]) && lt_clean B.
Proof.
  intros H1 H2 H3. induction A as [|a A' IH].
  - cbn [app lt_clean]. rewrite H1. reflexivity.
  - cbn [app lt_clean]. rewrite IH. rewrite andb_assoc. f_equal. f_equal.
    destruct (N.eqb a ch_lt); [|reflexivity].
    destruct A' as [|d A'']; cbn [app]; [rewrite H2, H3; reflexivity | reflexivity].
Qed.

Lemma lt_clean_extras A d :
  (nonempty A = true -> lt_ok A = true) ->
  match d with Some D => lt_ok D = true | None => True end ->
  lt_clean (extras_of A d) = true.
Proof.
  intros HA HD. unfold extras_of.
  assert (HB : forall D, lt_ok D = true -> lt_clean (ch_lbrack :: D ++ [ch_rbrack]) = true).
  { intros D H. cbn [lt_clean]. change (N.eqb ch_lbrack ch_lt) with false. cbn [andb].
    rewrite lt_clean_sep by reflexivity. unfold lt_ok in H. rewrite H. reflexivity. }
  destruct A as [|a A'].
  - cbn [nonempty app]. destruct d as [[|c D']|]; try reflexivity. apply (HB (c :: D')). exact HD.
  - specialize (HA eq_refl). cbn [nonempty].
    destruct d as [[|c D']|].
    + cbn [lt_clean]. change (N.eqb ch_lbrace ch_lt) with false. cbn [andb].
      rewrite lt_clean_sep by reflexivity. unfold lt_ok in HA. rewrite HA. reflexivity.
    + replace ((ch_lbrace :: (a :: A') ++ [ch_rbrace]) ++ [ch_space] ++ ch_lbrack :: (c :: D') ++ [ch_rbrack])
        with (ch_lbrace :: (a :: A') ++ ch_rbrace :: (ch_space :: ch_lbrack :: (c :: D') ++ [ch_rbrack]))
        by list_eq.
      cbn [lt_clean]. change (N.eqb ch_lbrace ch_lt) with false. cbn [andb].
      rewrite lt_clean_sep by reflexivity. unfold lt_ok in HA. rewrite HA. cbn [andb].
      cbn [lt_clean]. change (N.eqb ch_space ch_lt) with false. cbn [andb]. apply (HB (c :: D')). exact HD.
    + cbn [lt_clean]. change (N.eqb ch_lbrace ch_lt) with false. cbn [andb].
      rewrite lt_clean_sep by reflexivity. unfold lt_ok in HA. rewrite HA. reflexivity.
Qed.

(* ------------------------------------------------------------------ the whole line *)

Lemma last_component_noslash n : memb ch_slash n = false -> last_component n = n.
Proof. intro H. unfold last_component. rewrite (split_on_none _ _ H). reflexivity. Qed.

Lemma write_tag_line_star dis lvl n a d :
  name_ok n = true ->
  write_tag_line dis n (S lvl) a d
  = Some (flushed (stars (S lvl) ++ ch_space :: n) (format_props_and_desc dis a d)).
Proof.
  intro Hn. destruct (name_ok_parts n Hn) as (_ & _ & _ & _ & _ & Hh & Hs).
  unfold write_tag_line. rewrite (last_component_noslash _ Hs), Hh.
  unfold flush_current_tag, flushed, stars. cbn [repeat_ch app nonempty orb]. reflexivity.
Qed.

Lemma no_outer_ws_intro c (s : str) :
  isspace c = false -> isspace (last (c :: s) c) = false -> no_outer_ws (c :: s) = true.
Proof. intros H1 H2. unfold no_outer_ws. rewrite H1, H2. reflexivity. Qed.

Lemma strip_flushed lvl n E :
  ename_ok n = true -> strip (flushed (stars (S lvl) ++ ch_space :: n) E) = flushed (stars (S lvl) ++ ch_space :: n) E.
Proof.
  intro Hn. destruct (ename_ok_parts n Hn) as (Hne & Hws & _).
  apply strip_id. unfold flushed, stars. cbn [repeat_ch app].
  destruct (nonempty E).
  - apply no_outer_ws_intro; [reflexivity|].
    replace (ch_star :: (repeat_ch ch_star lvl ++ ch_space :: n) ++ ch_space :: s_nowiki_open ++ E ++ s_nowiki_close)
      with ((ch_star :: (repeat_ch ch_star lvl ++ ch_space :: n) ++ ch_space :: s_nowiki_open ++ E) ++ s_nowiki_close)
      by list_eq.
    unfold s_nowiki_close at 1. rewrite last_app_cons. reflexivity.
  - apply no_outer_ws_intro; [reflexivity|].
    replace (ch_star :: repeat_ch ch_star lvl ++ ch_space :: n)
      with ((ch_star :: repeat_ch ch_star lvl) ++ ch_space :: n) by list_eq.
    rewrite last_app_cons.
    assert (Hnn : n <> []) by (destruct n; discriminate).
    rewrite last_cons_nonempty by exact Hnn. apply last_nonws_of_no_outer; assumption.
Qed.

Lemma lt_clean_cur lvl n :
  memb ch_lt n = false -> lt_clean ((stars (S lvl) ++ ch_space :: n) ++ [ch_space]) = true.
Proof.
  intro H. apply lt_clean_no_lt. rewrite !memb_app, memb_cons, H.
  rewrite (memb_stars ch_lt (S lvl)) by reflexivity. reflexivity.
Qed.

Lemma wiki_text_lt_ok s : wiki_text_ok s = true -> lt_ok s = true.
Proof. unfold wiki_text_ok. intro H. apply andb_true_iff in H. tauto. Qed.

(* wiki_line_roundtrip: writer (_write_tag_entry, _format_props_and_desc, flush) followed by the
   reader (strip, nowiki removal, level, name expression, sections, attribute grammar) *)
Lemma wiki_line_roundtrip fixed dis lvl n a d line :
  name_ok n = true -> desc_ok d = true ->
  attr_ok a = true -> wiki_text_ok (format_tag_attributes dis a) = true ->
  write_tag_line dis n (S lvl) a d = Some line ->
  row_free_of_reserved fixed n line = true ->
  read_tag_line fixed line
  = Ok (Some (mkParsed false (S lvl) n (filter (fun kv => negb (dis (fst kv))) a) d)).
Proof.
  intros Hn Hd Ha Hw Hl Hr.
  pose proof (name_ok_ename n Hn) as Hen.
  rewrite (write_tag_line_star dis lvl n a d Hn) in Hl.
  assert (El : flushed (stars (S lvl) ++ ch_space :: n) (format_props_and_desc dis a d) = line) by congruence.
  clear Hl. subst line.
  destruct (name_ok_parts n Hn) as (_ & _ & _ & Hlt & _).
  pose proof (lt_clean_cur lvl n Hlt) as Hc.
  assert (He : lt_clean (format_props_and_desc dis a d) = true).
  { rewrite format_props_and_desc_eq. apply lt_clean_extras.
    - intros _. apply wiki_text_lt_ok. exact Hw.
    - destruct d as [D|]; [|exact I]. unfold desc_ok in Hd.
      apply andb_true_iff in Hd as [_ Hd]. apply wiki_text_lt_ok. exact Hd. }
  pose proof (remove_nowiki_flushed _ _ Hc He) as Hrem.
  pose proof (fatal_flushed (stars (S lvl) ++ ch_space :: n) (format_props_and_desc dis a d) Hc) as Hf.
  rewrite read_tag_line_unfold. rewrite (strip_flushed lvl n _ Hen).
  unfold row_free_of_reserved in Hr. rewrite Hrem in Hr.
  apply andb_true_iff in Hr as [Hx Hz]. apply negb_true_iff in Hz.
  assert (Hx' : ext_free fixed n ((stars (S lvl) ++ ch_space :: n) ++ rest_of (format_props_and_desc dis a d))).
  { unfold ext_free. destruct fixed; apply negb_true_iff in Hx; exact Hx. }
  clear Hx.
  unfold remove_nowiki_tag_from_line in *. cbn [fst] in Hf. rewrite Hf. rewrite Hrem.
  replace ((stars (S lvl) ++ ch_space :: n) ++ rest_of (format_props_and_desc dis a d))
    with (row_star (S lvl) n (format_props_and_desc dis a d)) in *
    by (unfold row_star; list_eq).
  apply wiki_row_roundtrip; assumption.
Qed.

(* ------------------------------------------------------------------ after the repairs (C05-F1, F3) *)

Lemma rstrip_head (u : str) c v : rstrip u = c :: v -> exists t, u = c :: t.
Proof.
  destruct u as [|x t]; [discriminate|]. cbn [rstrip].
  destruct (rstrip t); [destruct (isspace x); [discriminate|]|]; intro H; inversion H; eauto.
Qed.

Lemma rstrip_last_nonws (u : str) d : rstrip u = [] \/ isspace (last (rstrip u) d) = false.
Proof.
  induction u as [|x t IH]; [left; reflexivity|].
  cbn [rstrip]. destruct (rstrip t) as [|y r] eqn:E.
  - destruct (isspace x) eqn:Ex; [left; reflexivity | right; exact Ex].
  - right. destruct IH as [IH|IH]; [discriminate|]. exact IH.
Qed.

Lemma lstrip_head_nonws (s : str) c v : lstrip s = c :: v -> isspace c = false.
Proof.
  induction s as [|x t IH]; [discriminate|]. cbn [lstrip].
  destruct (isspace x) eqn:E; [exact IH|]. intro H. inversion H; subst. exact E.
Qed.

(* s.strip() never has outer white space *)
Lemma strip_normal s : no_outer_ws (strip s) = true.
Proof.
  unfold strip. destruct (rstrip (lstrip s)) as [|c v] eqn:E; [reflexivity|].
  destruct (rstrip_head _ _ _ E) as (t & Ht).
  pose proof (lstrip_head_nonws s c t Ht) as Hc.
  destruct (rstrip_last_nonws (lstrip s) c) as [H|H]; [congruence|].
  rewrite E in H. unfold no_outer_ws. rewrite Hc, H. reflexivity.
Qed.

(* the repaired XML reader only yields descriptions that are non-empty and free of outer blanks:
   the hypothesis of wiki_line_roundtrip on outer blanks is an invariant of loaded schemas *)
Lemma xml_desc_normal text d :
  xml_read_desc true text = Some d -> nonempty d = true /\ no_outer_ws d = true.
Proof.
  unfold xml_read_desc. destruct text as [|c t]; [discriminate|].
  destruct (strip (c :: t)) as [|x r] eqn:E; [discriminate|].
  intro H. inversion H; subst. split; [reflexivity|]. rewrite <- E. apply strip_normal.
Qed.

(* ... which the unrepaired reader did not guarantee *)
Lemma xml_desc_not_normal_before :
  exists text d, xml_read_desc false text = Some d /\ no_outer_ws d = false.
Proof. exists [ch_space; 108%N], [ch_space; 108%N]. split; reflexivity. Qed.

(* wiki_line_roundtrip for the code as repaired: every description the XML reader can deliver, with no
   hypothesis on blanks and with 'extend here' allowed in descriptions and attribute values *)
Lemma wiki_line_roundtrip_loaded dis lvl n a text line :
  name_ok n = true -> desc_text_ok (xml_read_desc true text) = true ->
  attr_ok a = true -> wiki_text_ok (format_tag_attributes dis a) = true ->
  contains s_extend_here n = false ->
  write_tag_line dis n (S lvl) a (xml_read_desc true text) = Some line ->
  contains s_zw (remove_nowiki line) = false ->
  read_tag_line true line
  = Ok (Some (mkParsed false (S lvl) n (filter (fun kv => negb (dis (fst kv))) a) (xml_read_desc true text))).
Proof.
  intros Hn Hd Ha Hw Hx Hl Hz.
  apply (wiki_line_roundtrip true dis lvl n a (xml_read_desc true text) line); try assumption.
  - destruct (xml_read_desc true text) as [d|] eqn:E; [|reflexivity].
    destruct (xml_desc_normal _ _ E) as [H1 H2]. unfold desc_ok. cbn [desc_text_ok] in Hd.
    rewrite H1, H2, Hd. reflexivity.
  - unfold row_free_of_reserved. rewrite Hx, Hz. reflexivity.
Qed.

(* ------------------------------------------------------------------ lines end at LF only *)

(* the reader sees exactly the lines that were written, whatever other code points they hold *)
Lemma open_file_lines_join (l : str) (ls : list str) :
  Forall (fun x => memb ch_nl x = false) (l :: ls) ->
  open_file_lines (join [ch_nl] (l :: ls)) = l :: ls.
Proof.
  unfold open_file_lines. revert l. induction ls as [|q r IH]; intros l H.
  - simpl. inversion H; subst. apply split_on_none. assumption.
  - inversion H as [|? ? Hl Hr]; subst.
    change (join [ch_nl] (l :: q :: r)) with (l ++ ch_nl :: join [ch_nl] (q :: r)).
    rewrite (split_on_app _ _ _ Hl). f_equal. apply IH. exact Hr.
Qed.

Lemma nl_free s : none_of brackets s = true -> memb ch_nl s = false.
Proof. intro H. eapply none_of_memb; eauto. Qed.

Lemma extras_nl_free A d :
  none_of brackets A = true ->
  match d with Some D => none_of brackets D = true | None => True end ->
  memb ch_nl (extras_of A d) = false.
Proof.
  intros HA HD. pose proof (nl_free _ HA) as a1. unfold extras_of.
  assert (HDs : forall c D', d = Some (c :: D') -> N.eqb ch_nl c = false /\ memb ch_nl D' = false).
  { intros c D' E. subst d. pose proof (nl_free _ HD) as d1. rewrite memb_cons in d1.
    apply orb_false_iff in d1. exact d1. }
  destruct A as [|a A']; cbn [nonempty app].
  - destruct d as [[|c D']|]; try reflexivity. destruct (HDs c D' eq_refl) as [dc dD]. cbn [app]. memb_solve.
  - rewrite memb_cons in a1. apply orb_false_iff in a1 as [ac aA].
    destruct d as [[|c D']|]; try (cbn [app]; memb_solve).
    destruct (HDs c D' eq_refl) as [dc dD]. cbn [app]. memb_solve.
Qed.

(* a written tag line holds no LF: it is one line for the reader *)
Lemma written_line_lf_free dis lvl n a d line :
  name_ok n = true -> desc_text_ok d = true ->
  wiki_text_ok (format_tag_attributes dis a) = true ->
  write_tag_line dis n (S lvl) a d = Some line ->
  memb ch_nl line = false.
Proof.
  intros Hn Hd Hw Hl.
  rewrite (write_tag_line_star dis lvl n a d Hn) in Hl.
  assert (El : flushed (stars (S lvl) ++ ch_space :: n) (format_props_and_desc dis a d) = line) by congruence.
  subst line. destruct (name_ok_parts n Hn) as (_ & _ & Hb & _).
  pose proof (nl_free _ Hb) as n1.
  assert (s1 : memb ch_nl (stars (S lvl)) = false) by (apply memb_stars; reflexivity).
  assert (e1 : memb ch_nl (format_props_and_desc dis a d) = false).
  { rewrite format_props_and_desc_eq. apply extras_nl_free.
    - unfold wiki_text_ok in Hw. apply andb_true_iff in Hw. tauto.
    - destruct d as [D|]; [|exact I]. cbn [desc_text_ok] in Hd. unfold wiki_text_ok in Hd.
      apply andb_true_iff in Hd. tauto. }
  unfold flushed. destruct (nonempty (format_props_and_desc dis a d)).
  - assert (o1 : memb ch_nl s_nowiki_open = false) by reflexivity.
    assert (c1 : memb ch_nl s_nowiki_close = false) by reflexivity.
    memb_solve.
  - memb_solve.
Qed.

(* C05-F5 repaired: names delivered by the XML reader have no outer white space *)
Lemma xml_name_normal text : no_outer_ws (xml_read_name true text) = true.
Proof. apply strip_normal. Qed.

Lemma xml_name_not_normal_before : exists text, no_outer_ws (xml_read_name false text) = false.
Proof. exists [90%N; 160%N]. reflexivity. Qed.

(* ------------------------------------------------------------------ lines of the other sections *)

Lemma create_entry_eval_none fixed R n idx A idx2 Dtxt idx3 a' :
  get_tag_name fixed R = (Some n, idx) ->
  get_line_section R idx ch_lbrace ch_rbrace = (Some A, idx2) ->
  parse_attribute_string A = Ok a' ->
  get_line_section R idx2 ch_lbrack ch_rbrack = (Some Dtxt, idx3) ->
  create_entry fixed R None
  = Ok (false, Some (n, filter kept a', match Dtxt with [] => None | _ => Some (strip Dtxt) end)).
Proof.
  intros H1 H2 H3 H4. unfold create_entry. rewrite H1, H2, H3. cbn [bind]. rewrite H4. reflexivity.
Qed.

Definition read_erow (fixed fatal0 : bool) (row : str) : res (option parsed) :=
  match row with
  | [] => if fatal0 then Exn HedFileError else Ok None
  | _ =>
      let* level := get_tag_level row in
      let* r := create_entry fixed row None in
      match r with
      | (false, Some (n, a, d)) =>
          if fatal0 then Exn HedFileError else Ok (Some (mkParsed false level n a d))
      | _ => Exn HedFileError
      end
  end.

Lemma read_entry_line_unfold fixed line :
  read_entry_line fixed line
  = let '(fatal0, row) := remove_nowiki_tag_from_line (strip line) in read_erow fixed fatal0 row.
Proof. reflexivity. Qed.

Lemma read_erow_star fixed lvl n A d a' :
  ename_ok n = true -> none_of brackets A = true -> desc_okP d ->
  parse_attribute_string A = Ok a' -> filter kept a' = a' ->
  ext_free fixed n (row_star (S lvl) n (extras_of A d)) ->
  contains s_zw (row_star (S lvl) n (extras_of A d)) = false ->
  read_erow fixed false (row_star (S lvl) n (extras_of A d)) = Ok (Some (mkParsed false (S lvl) n a' d)).
Proof.
  intros Hn HA Hd Hp Hk Hx Hz.
  destruct (sections_star lvl n A d Hn HA Hd) as (idx2 & idx3 & S1 & S2).
  pose proof (create_entry_eval_none fixed _ n _ A idx2 _ idx3 a'
                (get_tag_name_star fixed lvl n A d Hn HA Hd Hx Hz) S1 Hp S2) as Hc.
  rewrite Hk in Hc.
  assert (Hdd : match (match d with Some D => D | None => [] end) with
                | [] => None | _ :: _ => Some (strip (match d with Some D => D | None => [] end)) end = d).
  { destruct d as [D|]; [|reflexivity]. destruct Hd as (Hdn & Hdw & _).
    destruct D as [|c D']; [discriminate|]. rewrite (strip_id _ Hdw). reflexivity. }
  rewrite Hdd in Hc.
  pose proof (get_tag_level_star lvl n (extras_of A d)) as Hl.
  unfold read_erow. unfold str in *.
  assert (HR : exists t, row_star (S lvl) n (extras_of A d) = ch_star :: t).
  { unfold row_star, stars. cbn [repeat_ch app]. eexists. reflexivity. }
  destruct HR as (t & HR). rewrite HR in *. rewrite Hl. cbn [bind]. rewrite Hc. reflexivity.
Qed.

Lemma write_entry_line_star dis lvl n a d :
  write_entry_line dis n (S lvl) true a d
  = Some (flushed (stars (S lvl) ++ ch_space :: n) (format_props_and_desc dis a d)).
Proof. unfold write_entry_line, flush_current_tag, flushed, stars. cbn [repeat_ch app nonempty orb]. reflexivity. Qed.

(* a line of the unit class / unit / unit modifier / value class / attribute / property sections: the name is
   one opaque term (ename_ok: a slash, '$', '^', inner blanks, a final '#' are ordinary characters of it) *)
Lemma wiki_entry_line_roundtrip fixed dis lvl n a d line :
  ename_ok n = true -> desc_ok d = true ->
  attr_ok a = true -> wiki_text_ok (format_tag_attributes dis a) = true ->
  write_entry_line dis n (S lvl) true a d = Some line ->
  row_free_of_reserved fixed n line = true ->
  read_entry_line fixed line
  = Ok (Some (mkParsed false (S lvl) n (filter (fun kv => negb (dis (fst kv))) a) d)).
Proof.
  intros Hn Hd Ha Hw Hl Hr.
  rewrite (write_entry_line_star dis lvl n a d) in Hl.
  assert (El : flushed (stars (S lvl) ++ ch_space :: n) (format_props_and_desc dis a d) = line) by congruence.
  clear Hl. subst line.
  destruct (ename_ok_parts n Hn) as (_ & _ & _ & Hlt & _).
  pose proof (lt_clean_cur lvl n Hlt) as Hc.
  assert (He : lt_clean (format_props_and_desc dis a d) = true).
  { rewrite format_props_and_desc_eq. apply lt_clean_extras.
    - intros _. apply wiki_text_lt_ok. exact Hw.
    - destruct d as [D|]; [|exact I]. unfold desc_ok in Hd.
      apply andb_true_iff in Hd as [_ Hd]. apply wiki_text_lt_ok. exact Hd. }
  pose proof (remove_nowiki_flushed _ _ Hc He) as Hrem.
  pose proof (fatal_flushed (stars (S lvl) ++ ch_space :: n) (format_props_and_desc dis a d) Hc) as Hf.
  rewrite read_entry_line_unfold. rewrite (strip_flushed lvl n _ Hn).
  unfold row_free_of_reserved in Hr. rewrite Hrem in Hr.
  apply andb_true_iff in Hr as [Hx Hz]. apply negb_true_iff in Hz.
  assert (Hx' : ext_free fixed n ((stars (S lvl) ++ ch_space :: n) ++ rest_of (format_props_and_desc dis a d))).
  { unfold ext_free. destruct fixed; apply negb_true_iff in Hx; exact Hx. }
  clear Hx.
  unfold remove_nowiki_tag_from_line in *. cbn [fst] in Hf. rewrite Hf. rewrite Hrem.
  replace ((stars (S lvl) ++ ch_space :: n) ++ rest_of (format_props_and_desc dis a d))
    with (row_star (S lvl) n (format_props_and_desc dis a d)) in *
    by (unfold row_star; list_eq).
  rewrite format_props_and_desc_eq in *.
  apply read_erow_star; try assumption.
  - unfold wiki_text_ok in Hw. apply andb_true_iff in Hw. tauto.
  - apply desc_ok_P. exact Hd.
  - apply attr_roundtrip_exact. exact Ha.
  - apply attr_ok_kept. apply attr_ok_filter. exact Ha.
Qed.

(* Schema2XML name element: for a non-tag entry the text is the whole name -- a slash is not a separator *)
Lemma xml_name_text_entry name : xml_name_text false name = name.
Proof. reflexivity. Qed.

Lemma xml_name_text_last_term_refuted :
  exists name, ename_ok name = true /\ last_component name <> name.
Proof. exists [109%N; 47%N; 115%N]. split; [reflexivity | discriminate]. Qed.

(* ------------------------------------------------------------------ root lines (level 0) *)

Definition root_cur (n : str) : str := s_root ++ n ++ s_root.
Definition row_root (n E : str) : str := root_cur n ++ rest_of E.

Lemma rest_of_no_root E : prefixb s_root (rest_of E) = false.
Proof. unfold rest_of. destruct (nonempty E); reflexivity. Qed.

Lemma tail_match_root_rest A d :
  none_of brackets A = true -> desc_okP d ->
  tail_match (s_root ++ rest_of (extras_of A d))
  = Some (3 + (if nonempty (extras_of A d) then 1 else 0)).
Proof.
  intros HA Hd.
  assert (Ht : tail_match (rest_of (extras_of A d)) = Some (if nonempty (extras_of A d) then 1 else 0)).
  { destruct (nonempty (extras_of A d)) eqn:E.
    - apply tail_match_rest; assumption.
    - unfold rest_of. rewrite E. reflexivity. }
  unfold tail_match in Ht. rewrite rest_of_no_root in Ht.
  unfold tail_match. rewrite prefixb_self.
  change (skipn 3 (s_root ++ rest_of (extras_of A d))) with (rest_of (extras_of A d)).
  rewrite Ht. reflexivity.
Qed.

Lemma root_pre_len (n : str) : length (root_cur n) = 3 + (length n + 3).
Proof. unfold root_cur. rewrite !app_length. reflexivity. Qed.

Lemma get_tag_name_root fixed n A d :
  ename_ok n = true -> none_of brackets A = true -> desc_okP d ->
  ext_free fixed n (row_root n (extras_of A d)) ->
  contains s_zw (row_root n (extras_of A d)) = false ->
  get_tag_name fixed (row_root n (extras_of A d))
  = (Some n, Z.of_nat (length (root_cur n) + (if nonempty (extras_of A d) then 1 else 0))).
Proof.
  intros Hn HA Hd Hx Hz.
  destruct (ename_ok_parts n Hn) as (Hne & Hws & Hb & _ & Hap & _ & _).
  assert (Hnn : n <> []) by (destruct n; discriminate).
  set (k := if nonempty (extras_of A d) then 1 else 0) in *.
  assert (Hrow : row_root n (extras_of A d) = s_root ++ n ++ (s_root ++ rest_of (extras_of A d))).
  { unfold row_root, root_cur. list_eq. }
  assert (Hs : search_from (row_root n (extras_of A d)) 0 = Some (3, length n, 3 + (length n + (3 + k)))).
  { rewrite Hrow. unfold s_root at 1. cbn [app search_from match_at].
    change (N.eqb 39 ch_star) with false. cbv iota.
    change (39%N :: 39%N :: 39%N :: n ++ s_root ++ rest_of (extras_of A d))
      with (s_root ++ (n ++ s_root ++ rest_of (extras_of A d))).
    rewrite prefixb_self.
    change (skipn 3 (s_root ++ (n ++ s_root ++ rest_of (extras_of A d)))) with (n ++ s_root ++ rest_of (extras_of A d)).
    rewrite (lazy2_over n (s_root ++ rest_of (extras_of A d)) 0%N (3 + k)).
    - reflexivity.
    - exact Hnn.
    - apply last_nonws_of_no_outer; assumption.
    - exact Hb.
    - exact Hap.
    - apply tail_match_root_rest; assumption. }
  assert (Hsub : sub (row_root n (extras_of A d)) 3 (3 + length n) = n).
  { rewrite Hrow. unfold sub. replace (3 + length n - 3) with (length n) by lia.
    change (skipn 3 (s_root ++ n ++ s_root ++ rest_of (extras_of A d))) with (n ++ s_root ++ rest_of (extras_of A d)).
    apply firstn_app_exact. }
  unfold get_tag_name. rewrite (remove_all_id _ _ Hz). rewrite Hs, Hsub.
  rewrite (strip_id n Hws), Hne.
  replace (3 + (length n + (3 + k))) with (length (root_cur n) + k) by (rewrite root_pre_len; lia).
  unfold ext_free in Hx. destruct fixed; cbn [negb andb]; rewrite Hx; reflexivity.
Qed.

Lemma read_row_eval_root fixed R t n a d idx :
  R = ch_apos :: ch_apos :: ch_apos :: t -> get_tag_name fixed R = (Some n, idx) ->
  nonempty n = true -> create_entry fixed R (Some n) = Ok (false, Some (n, a, d)) ->
  read_row fixed false R = Ok (Some (mkParsed true 0 n a d)).
Proof.
  intros HR Hg Hn Hc. destruct n as [|c nm]; [discriminate|].
  subst R. unfold read_row. unfold str in *.
  change (startswith s_root (ch_apos :: ch_apos :: ch_apos :: t)) with (prefixb [] t).
  cbn [prefixb]. cbv iota. cbn [bind]. rewrite Hg. cbv beta iota. rewrite Hc. reflexivity.
Qed.

Lemma read_row_root fixed n A d a' :
  ename_ok n = true -> none_of brackets A = true -> desc_okP d ->
  parse_attribute_string A = Ok a' -> filter kept a' = a' ->
  ext_free fixed n (row_root n (extras_of A d)) ->
  contains s_zw (row_root n (extras_of A d)) = false ->
  read_row fixed false (row_root n (extras_of A d)) = Ok (Some (mkParsed true 0 n a' d)).
Proof.
  intros Hn HA Hd Hp Hk Hx Hz.
  destruct (ename_ok_parts n Hn) as (Hne & _ & Hb & _).
  destruct (brackets_free n Hb) as (n1 & n2 & n3 & n4).
  pose proof (get_tag_name_root fixed n A d Hn HA Hd Hx Hz) as Hg.
  destruct (sections_gen (root_cur n) A d) as (idx2 & idx3 & S1 & S2); try assumption;
    try (unfold root_cur, s_root; memb_solve).
  eapply read_row_eval_root.
  - unfold row_root, root_cur, s_root. cbn [app]. reflexivity.
  - exact Hg.
  - exact Hne.
  - fold (row_root n (extras_of A d)) in S1, S2.
    rewrite (create_entry_eval fixed _ n _ A idx2 _ idx3 a' Hg Hne S1 Hp S2).
    rewrite Hk. do 4 f_equal.
    destruct d as [D|]; [|reflexivity].
    destruct Hd as (Hdn & Hdw & _). destruct D as [|c D']; [discriminate|].
    rewrite (strip_id _ Hdw). reflexivity.
Qed.

Lemma write_tag_line_root dis n a d :
  memb ch_slash n = false ->
  write_tag_line dis n 0 a d = Some (flushed (root_cur n) (format_props_and_desc dis a d)).
Proof.
  intro Hs. unfold write_tag_line. rewrite Hs. unfold flush_current_tag, flushed, root_cur.
  cbn [s_root app nonempty orb]. reflexivity.
Qed.

Lemma strip_flushed_root n E : strip (flushed (root_cur n) E) = flushed (root_cur n) E.
Proof.
  apply strip_id. unfold flushed, root_cur. unfold s_root at 1. cbn [app].
  destruct (nonempty E).
  - apply no_outer_ws_intro; [reflexivity|].
    replace (39%N :: 39%N :: 39%N :: (n ++ s_root) ++ ch_space :: s_nowiki_open ++ E ++ s_nowiki_close)
      with ((39%N :: 39%N :: 39%N :: (n ++ s_root) ++ ch_space :: s_nowiki_open ++ E) ++ s_nowiki_close) by list_eq.
    unfold s_nowiki_close at 1. rewrite last_app_cons. reflexivity.
  - apply no_outer_ws_intro; [reflexivity|].
    replace (39%N :: 39%N :: 39%N :: n ++ s_root) with ((39%N :: 39%N :: 39%N :: n) ++ s_root) by list_eq.
    unfold s_root. rewrite last_app_cons. reflexivity.
Qed.

(* a root line (level 0) of the tag section, both versions of the reader *)
Lemma wiki_root_line_roundtrip fixed dis n a d line :
  name_ok n = true -> desc_ok d = true ->
  attr_ok a = true -> wiki_text_ok (format_tag_attributes dis a) = true ->
  write_tag_line dis n 0 a d = Some line ->
  row_free_of_reserved fixed n line = true ->
  read_tag_line fixed line
  = Ok (Some (mkParsed true 0 n (filter (fun kv => negb (dis (fst kv))) a) d)).
Proof.
  intros Hn Hd Ha Hw Hl Hr.
  pose proof (name_ok_ename n Hn) as Hen.
  destruct (name_ok_parts n Hn) as (_ & _ & _ & Hlt & Hap & _ & Hs).
  rewrite (write_tag_line_root dis n a d Hs) in Hl.
  assert (El : flushed (root_cur n) (format_props_and_desc dis a d) = line) by congruence.
  clear Hl. subst line.
  assert (Hc : lt_clean (root_cur n ++ [ch_space]) = true).
  { apply lt_clean_no_lt. unfold root_cur, s_root. memb_solve. }
  assert (He : lt_clean (format_props_and_desc dis a d) = true).
  { rewrite format_props_and_desc_eq. apply lt_clean_extras.
    - intros _. apply wiki_text_lt_ok. exact Hw.
    - destruct d as [D|]; [|exact I]. unfold desc_ok in Hd.
      apply andb_true_iff in Hd as [_ Hd]. apply wiki_text_lt_ok. exact Hd. }
  pose proof (remove_nowiki_flushed _ _ Hc He) as Hrem.
  pose proof (fatal_flushed (root_cur n) (format_props_and_desc dis a d) Hc) as Hf.
  rewrite read_tag_line_unfold. rewrite strip_flushed_root.
  unfold row_free_of_reserved in Hr. rewrite Hrem in Hr.
  apply andb_true_iff in Hr as [Hx Hz]. apply negb_true_iff in Hz.
  assert (Hx' : ext_free fixed n (root_cur n ++ rest_of (format_props_and_desc dis a d))).
  { unfold ext_free. destruct fixed; apply negb_true_iff in Hx; exact Hx. }
  clear Hx.
  unfold remove_nowiki_tag_from_line in *. cbn [fst] in Hf. rewrite Hf. rewrite Hrem.
  fold (row_root n (format_props_and_desc dis a d)) in *.
  rewrite format_props_and_desc_eq in *.
  apply read_row_root; try assumption.
  - unfold wiki_text_ok in Hw. apply andb_true_iff in Hw. tauto.
  - apply desc_ok_P. exact Hd.
  - apply attr_roundtrip_exact. exact Ha.
  - apply attr_ok_kept. apply attr_ok_filter. exact Ha.
Qed.

(* ------------------------------------------------------------------ the whole tag section *)

(* what the per-line theorems need of one entry and its written line *)
Definition item_line_ok (fixed : bool) (dis : str -> bool) (e : tag_item) (line : str) : Prop :=
  name_ok (last (ti_path e) []) = true /\ desc_ok (ti_desc e) = true /\ attr_ok (ti_attrs e) = true
  /\ wiki_text_ok (format_tag_attributes dis (ti_attrs e)) = true
  /\ write_tag_line dis (last (ti_path e) []) (length (ti_path e) - 1) (ti_attrs e) (ti_desc e) = Some line
  /\ row_free_of_reserved fixed (last (ti_path e) []) line = true.

Definition kept_item (dis : str -> bool) (e : tag_item) : tag_item :=
  mkItem (ti_path e) (filter (fun kv => negb (dis (fst kv))) (ti_attrs e)) (ti_desc e).

Lemma read_tag_section_roundtrip fixed dis es : forall lines previous,
  Forall2 (item_line_ok fixed dis) es lines ->
  paths_parents_first previous (map ti_path es) ->
  read_tag_section fixed previous lines = Ok (map (kept_item dis) es).
Proof.
  induction es as [|e es IH]; intros lines previous HF HP.
  - inversion HF; subst. reflexivity.
  - inversion HF as [|? l ? lines' He HF']; subst. clear HF.
    destruct He as (Hn & Hd & Ha & Hw & Hl & Hr).
    cbn [map paths_parents_first] in HP. destruct HP as (Hne & Hle & Hpre & HP).
    cbn [read_tag_section map].
    destruct (length (ti_path e) - 1) as [|lvl] eqn:Elvl.
    + (* a root line *)
      rewrite (wiki_root_line_roundtrip fixed dis _ _ _ _ Hn Hd Ha Hw Hl Hr). cbn [bind p_root p_name p_attrs p_desc].
      assert (Hp : [last (ti_path e) []] = ti_path e).
      { destruct (ti_path e) as [|x [|y t]]; [congruence | reflexivity | simpl in Elvl; discriminate]. }
      rewrite Hp. rewrite (IH lines' (ti_path e) HF' HP). reflexivity.
    + rewrite (wiki_line_roundtrip fixed dis lvl _ _ _ _ Hn Hd Ha Hw Hl Hr). cbn [bind p_root p_level p_name p_attrs p_desc].
      assert (Hlt : Nat.ltb (length previous) (S lvl) = false) by (apply Nat.ltb_ge; exact Hle).
      rewrite Hlt. rewrite <- Hpre.
      assert (Hp : removelast (ti_path e) ++ [last (ti_path e) []] = ti_path e)
        by (symmetry; apply app_removelast_last; exact Hne).
      rewrite Hp. rewrite (IH lines' (ti_path e) HF' HP). reflexivity.
Qed.

(* wiki_tag_section_roundtrip: decoding the lines written for a list of tag entries gives back the same entries --
   long names (parents), attributes and descriptions -- when the list is parents-first and every entry is in the
   class of the line theorems *)
Lemma wiki_tag_section_roundtrip fixed dis es lines :
  write_tag_section dis es = map Some lines ->
  Forall (fun e => name_ok (last (ti_path e) []) = true /\ desc_ok (ti_desc e) = true /\ attr_ok (ti_attrs e) = true
                   /\ wiki_text_ok (format_tag_attributes dis (ti_attrs e)) = true) es ->
  Forall2 (fun e line => row_free_of_reserved fixed (last (ti_path e) []) line = true) es lines ->
  paths_parents_first [] (map ti_path es) ->
  read_tag_section fixed [] lines = Ok (map (kept_item dis) es).
Proof.
  intros Hw HF HR HP. apply (read_tag_section_roundtrip fixed dis es lines []); [|exact HP].
  clear HP. revert lines Hw HR. induction es as [|e es IH]; intros lines Hw HR.
  - destruct lines; [constructor | discriminate].
  - destruct lines as [|l lines]; [discriminate|].
    cbn [write_tag_section map] in Hw. inversion Hw as [[H1 H2]].
    inversion HF as [|? ? He HF']; subst. inversion HR as [|? ? ? ? Hr HR']; subst.
    constructor.
    + destruct He as (a1 & a2 & a3 & a4). unfold item_line_ok. repeat split; assumption.
    + apply IH; assumption.
Qed.

(* ------------------------------------------------------------------ hypotheses on the inputs only *)

Definition ch_amp : N := 38%N.

Lemma contains_needs_head p s c q : p = c :: q -> memb c s = false -> contains p s = false.
Proof.
  intros -> H. induction s as [|x t IH]; [reflexivity|].
  rewrite memb_cons in H. apply orb_false_iff in H as [H1 H2].
  cbn [contains prefixb]. rewrite H1. cbn [andb orb]. apply IH. exact H2.
Qed.

Lemma extras_amp_free A d :
  memb ch_amp A = false ->
  match d with Some D => memb ch_amp D = false | None => True end ->
  memb ch_amp (extras_of A d) = false.
Proof.
  intros a1 HD. unfold extras_of.
  assert (HDs : forall c D', d = Some (c :: D') -> N.eqb ch_amp c = false /\ memb ch_amp D' = false).
  { intros c D' E. subst d. rewrite memb_cons in HD. apply orb_false_iff in HD. exact HD. }
  destruct A as [|a A']; cbn [nonempty app].
  - destruct d as [[|c D']|]; try reflexivity. destruct (HDs c D' eq_refl) as [dc dD]. cbn [app]. memb_solve.
  - rewrite memb_cons in a1. apply orb_false_iff in a1 as [ac aA].
    destruct d as [[|c D']|]; try (cbn [app]; memb_solve).
    destruct (HDs c D' eq_refl) as [dc dD]. cbn [app]. memb_solve.
Qed.

(* the line the writer produces, and the row it becomes for the reader *)
Lemma written_line_row dis lvl n a d :
  name_ok n = true -> desc_ok d = true -> wiki_text_ok (format_tag_attributes dis a) = true ->
  exists line, write_tag_line dis n (S lvl) a d = Some line
               /\ remove_nowiki line = row_star (S lvl) n (format_props_and_desc dis a d).
Proof.
  intros Hn Hd Hw. rewrite (write_tag_line_star dis lvl n a d Hn). eexists. split; [reflexivity|].
  destruct (name_ok_parts n Hn) as (_ & _ & _ & Hlt & _).
  pose proof (lt_clean_cur lvl n Hlt) as Hc.
  assert (He : lt_clean (format_props_and_desc dis a d) = true).
  { rewrite format_props_and_desc_eq. apply lt_clean_extras.
    - intros _. apply wiki_text_lt_ok. exact Hw.
    - destruct d as [D|]; [|exact I]. unfold desc_ok in Hd.
      apply andb_true_iff in Hd as [_ Hd]. apply wiki_text_lt_ok. exact Hd. }
  rewrite (remove_nowiki_flushed _ _ Hc He). unfold row_star. list_eq.
Qed.

(* wiki_line_roundtrip with every hypothesis on the INPUTS (repaired reader): the zero-width-space entity cannot
   occur in the row when name, attribute string and description hold no '&' *)
Lemma wiki_line_roundtrip_inputs dis lvl n a d :
  name_ok n = true -> desc_ok d = true ->
  attr_ok a = true -> wiki_text_ok (format_tag_attributes dis a) = true ->
  contains s_extend_here n = false ->
  memb ch_amp n = false -> memb ch_amp (format_tag_attributes dis a) = false ->
  match d with Some D => memb ch_amp D = false | None => True end ->
  exists line, write_tag_line dis n (S lvl) a d = Some line /\
    read_tag_line true line
    = Ok (Some (mkParsed false (S lvl) n (filter (fun kv => negb (dis (fst kv))) a) d)).
Proof.
  intros Hn Hd Ha Hw Hx n1 a1 d1.
  destruct (written_line_row dis lvl n a d Hn Hd Hw) as (line & Hl & Hrow).
  exists line. split; [exact Hl|].
  apply (wiki_line_roundtrip true dis lvl n a d line); try assumption.
  unfold row_free_of_reserved. rewrite Hx, Hrow. cbn [negb andb].
  apply negb_true_iff. apply (contains_needs_head s_zw _ ch_amp [35; 56; 50; 48; 51; 59]%N); [reflexivity|].
  unfold row_star, rest_of. rewrite format_props_and_desc_eq.
  pose proof (extras_amp_free _ d a1 d1) as e1.
  assert (s1 : memb ch_amp (stars (S lvl)) = false) by (apply memb_stars; reflexivity).
  destruct (nonempty (extras_of (format_tag_attributes dis a) d)); memb_solve.
Qed.
