(* Totality of the repaired assembly (property C06): series_a never raises.
   Kept apart from AssembleProofs.v (which carries the long kernel enumerations). *)
From Coq Require Import List NArith Arith Bool Lia.
From HV Require Import Base.Res Base.Str Model.RefSplice Model.Assemble Proofs.AssembleProofs.
Import ListNotations.

Lemma mem_In k l : mem k l = true -> In k l.
Proof.
  induction l as [|x l IH]; simpl; intros H; [discriminate|].
  apply orb_true_iff in H. destruct H as [H|H]; [left; symmetry; apply str_eqb_spec; exact H | right; auto].
Qed.

Lemma assoc_some {A} k (l : list (str * A)) : In k (map fst l) -> exists v, assoc k l = Some v.
Proof.
  induction l as [|[k' v'] l IH]; simpl; intros H; [contradiction|].
  destruct (str_eqb k k') eqn:He; [eauto|].
  destruct H as [H|H]; [subst; rewrite str_eqb_refl in He; discriminate | auto].
Qed.

Lemma get_col_some name cols : In name (map fst cols) -> exists c, get_col name cols = Ok c.
Proof. intros H. unfold get_col. destruct (assoc_some _ _ H) as [v Hv]. rewrite Hv. eauto. Qed.

(* ---------- the keys of the final column map are table columns ---------- *)

Lemma dict_set_keys {A} k (v : A) d x : In x (map fst (dict_set k v d)) -> x = k \/ In x (map fst d).
Proof.
  induction d as [|[k' v'] d IH]; simpl; intros H.
  - destruct H as [H|[]]; auto.
  - destruct (str_eqb k k'); simpl in H; destruct H as [H|H]; auto.
    destruct (IH H); auto.
Qed.

Lemma basic_map_keys sc cols : forall acc x,
  In x (map fst (sidecar_basic_map cols sc acc)) -> In x cols \/ In x (map fst acc).
Proof.
  induction cols as [|c cols IH]; simpl; intros acc x H; [auto|].
  destruct (assoc c sc) as [e|].
  - destruct (IH _ _ H) as [H1|H1]; [auto|].
    destruct (dict_set_keys _ _ _ _ H1); subst; auto.
  - destruct (IH _ _ H); auto.
Qed.

Lemma insert_key_keys {A} (kv : str * A) l x :
  In x (map fst (insert_key kv l)) -> x = fst kv \/ In x (map fst l).
Proof.
  induction l as [|kv' l IH]; simpl; intros H.
  - destruct H as [H|[]]; auto.
  - destruct (str_ltb (fst kv') (fst kv)); simpl in H.
    + destruct H as [H|H]; auto. destruct (IH H); auto.
    + destruct H as [H|H]; auto.
Qed.

Lemma sort_keys_keys {A} (l : list (str * A)) x : In x (map fst (sort_keys l)) -> In x (map fst l).
Proof.
  unfold sort_keys. induction l as [|kv l IH]; simpl; intros H; [exact H|].
  destruct (insert_key_keys _ _ _ H); auto.
Qed.

Lemma final_map_keys cols sc x : In x (map fst (final_column_map cols sc)) -> In x cols.
Proof.
  unfold final_column_map. intros H. apply sort_keys_keys in H.
  destruct (mem hed_key cols) eqn:Hm.
  - destruct (dict_set_keys _ _ _ _ H) as [H1|H1]; [subst; apply mem_In; exact Hm|].
    destruct (basic_map_keys _ _ _ _ H1) as [H2|[]]; exact H2.
  - destruct (basic_map_keys _ _ _ _ H) as [H2|[]]; exact H2.
Qed.

Lemma transformers_keys fm : forall tf need x,
  get_transformers fm = (tf, need) -> In x (map fst tf) -> In x (map fst fm).
Proof.
  induction fm as [|[name [ty h]] fm IH]; simpl; intros tf need x H Hin.
  - inversion H; subst. exact Hin.
  - destruct (get_transformers fm) as [tf0 need0].
    destruct ty; inversion H; subst; simpl in *;
      try (destruct Hin as [Hin|Hin]; [auto | right; eapply IH; eauto]);
      right; eapply IH; eauto.
Qed.

(* ---------- generic totality ---------- *)

Lemma mapM_total {A B} (f : A -> res B) l :
  Forall (fun x => exists y, f x = Ok y) l -> exists ys, mapM f l = Ok ys.
Proof.
  induction 1 as [|x l [y Hy] Hl [ys IH]]; simpl; [eauto|].
  rewrite Hy. simpl. rewrite IH. simpl. eauto.
Qed.

Lemma mapM_fst {A} (f : str -> res (str * A)) : (forall x y, f x = Ok y -> fst y = x) ->
  forall l ys, mapM f l = Ok ys -> map fst ys = l.
Proof.
  intros Hf. induction l as [|x l IH]; simpl; intros ys H.
  - inversion H. reflexivity.
  - apply bind_ok in H. destruct H as (y & Hy & H). apply bind_ok in H. destruct H as (ys' & Hys & H).
    inversion H; subst. simpl. rewrite (Hf _ _ Hy), (IH _ Hys). reflexivity.
Qed.

Lemma zipM_total {A B C} (f : A -> B -> res C) : (forall x y, exists z, f x y = Ok z) ->
  forall xs ys, exists zs, zipM f xs ys = Ok zs.
Proof.
  intros Hf. induction xs as [|x xs IH]; intros ys; simpl; [eauto|].
  destruct ys as [|y ys]; [eauto|]. destruct (Hf x y) as [z Hz]. rewrite Hz. simpl.
  destruct (IH ys) as [zs Hzs]. rewrite Hzs. simpl. eauto.
Qed.

Lemma splice_column_total saved : forall col, exists col', splice_column true saved col = Ok col'.
Proof.
  unfold splice_column. induction saved as [|rv saved IH]; intros col; cbn [foldM]; [eauto|].
  destruct (zipM_total (fun x y : str => replace_ref true x (fst rv) y)
              (fun x y => replace_ref_fixed_total x (fst rv) y) col (snd rv)) as [c1 Hc1].
  rewrite Hc1. cbn [bind]. apply IH.
Qed.

Lemma transform_total cols : forall tf,
  Forall (fun nf : str * xform => In (fst nf) (map fst cols)) tf ->
  exists all, transform true cols tf = Ok all /\ map fst all = map fst tf.
Proof.
  induction tf as [|[name f] tf IH]; intros H; simpl; [eauto|].
  inversion H as [|? ? Hn Ht]; subst. simpl in Hn.
  destruct (get_col_some _ _ Hn) as [c Hc]. rewrite Hc. simpl.
  destruct (IH Ht) as (rest & Hr & Hk). rewrite Hr. simpl. eexists; split; [reflexivity|].
  simpl. rewrite Hk. reflexivity.
Qed.

Lemma filter_In_names (P : str -> bool) names x : In x (filter P names) -> In x names.
Proof. intros H. apply filter_In in H. tauto. Qed.

Lemma curly_total all refs names : (forall x, In x names -> In x (map fst all)) ->
  exists out, handle_curly_braces_refs true all refs names = Ok out.
Proof.
  intros Hk. unfold handle_curly_braces_refs.
  set (refs' := filter (fun r => mem r names) refs).
  assert (Hs : exists saved, mapM (fun r => let* c := get_col r all in Ok (r, c)) refs' = Ok saved).
  { apply mapM_total. apply Forall_forall. intros r Hr. unfold refs' in Hr.
    apply filter_In in Hr. destruct Hr as [_ Hm]. apply mem_In in Hm. apply Hk in Hm.
    destruct (get_col_some _ _ Hm) as [c Hc]. rewrite Hc. simpl. eauto. }
  destruct Hs as [saved Hs]. rewrite Hs. simpl.
  apply mapM_total. apply Forall_forall. intros name Hn.
  apply filter_In_names in Hn. apply Hk in Hn.
  destruct (get_col_some _ _ Hn) as [c Hc]. rewrite Hc. simpl.
  destruct (splice_column_total saved c) as [c' Hc']. rewrite Hc'. simpl. eauto.
Qed.

(* the repaired assembly never raises, for every sidecar, table and reference order *)
Theorem series_a_fixed_total (st : tabular) (ord : list str) :
  exists st' rows, series_a true st ord = Ok (st', rows).
Proof.
  unfold series_a, assemble, handle_transforms.
  destruct (get_transformers (final_column_map (map fst (t_cols (tb_df st))) (tb_sidecar st)))
    as [tf need] eqn:Hg.
  destruct tf as [|t0 tf].
  - cbn [bind map].
    destruct (curly_total (t_cols (tb_df st)) (set_order ord (column_refs (tb_sidecar st))) [])
      as [out Ho]; [intros x []|].
    rewrite Ho. simpl. eauto.
  - assert (Hin : Forall (fun nf : str * xform => In (fst nf) (map fst (t_cols (tb_df st)))) (t0 :: tf)).
    { apply Forall_forall. intros nf Hnf. apply (final_map_keys _ (tb_sidecar st)).
      eapply transformers_keys; [exact Hg|]. apply in_map. exact Hnf. }
    destruct (transform_total _ _ Hin) as (all & Ht & Hk). rewrite Ht. cbn [bind].
    destruct (curly_total all (set_order ord (column_refs (tb_sidecar st))) (map fst (t0 :: tf)))
      as [out Ho]; [intros x Hx; rewrite Hk; exact Hx|].
    rewrite Ho. simpl. eauto.
Qed.
