(* C08 -- lemmas about Model/Sidecar.v *)
From Coq Require Import List NArith Arith Bool Lia.
From HV Require Import Base.Res Base.Str Gen.SidecarCodes Model.Sidecar.
Import ListNotations.

(* ------------------------------------------------------------------ *)
(* generic list / res lemmas                                           *)

Lemma mapM_total {A B} (f : A -> res B) (l : list A) :
  (forall x, In x l -> exists y, f x = Ok y) -> exists ys, mapM f l = Ok ys.
Proof.
  induction l as [|a l IH]; intros H; simpl.
  - eexists; reflexivity.
  - destruct (H a (or_introl eq_refl)) as [y Hy]. rewrite Hy. simpl.
    destruct IH as [ys Hys]. { intros x Hx. apply H. right. exact Hx. }
    rewrite Hys. simpl. eexists; reflexivity.
Qed.

Lemma mapM_in {A B} (f : A -> res B) (l : list A) ys :
  mapM f l = Ok ys -> forall x, In x l -> exists y, f x = Ok y /\ In y ys.
Proof.
  revert ys; induction l as [|a l IH]; intros ys H x Hx; simpl in *.
  - contradiction.
  - destruct (f a) as [y|e] eqn:Ha; simpl in H; [|discriminate].
    destruct (mapM f l) as [ys'|e] eqn:Hl; simpl in H; [|discriminate].
    inversion H; subst. destruct Hx as [->|Hx].
    + exists y. split; [exact Ha | left; reflexivity].
    + destruct (IH ys' eq_refl x Hx) as [y' [H1 H2]]. exists y'. split; [exact H1 | right; exact H2].
Qed.

Lemma mapM_length {A B} (f : A -> res B) (l : list A) ys :
  mapM f l = Ok ys -> length ys = length l.
Proof.
  revert ys; induction l as [|a l IH]; intros ys H; simpl in *.
  - inversion H. reflexivity.
  - destruct (f a) as [y|e]; simpl in H; [|discriminate].
    destruct (mapM f l) as [ys'|e]; simpl in H; [|discriminate].
    inversion H; subst. simpl. f_equal. apply IH. reflexivity.
Qed.

Lemma mapM_map {A B} (f : A -> res B) (g : A -> B) (l : list A) :
  (forall x, In x l -> f x = Ok (g x)) -> mapM f l = Ok (map g l).
Proof.
  induction l as [|a l IH]; intros H; simpl.
  - reflexivity.
  - rewrite (H a (or_introl eq_refl)). simpl. rewrite IH. reflexivity.
    intros x Hx. apply H. right. exact Hx.
Qed.

Lemma any_error_app a b : any_error (a ++ b) = any_error a || any_error b.
Proof. unfold any_error. apply existsb_app. Qed.

Lemma any_error_in l i : any_error l = false -> In i l -> is_error i = false.
Proof.
  unfold any_error. intros H Hi. destruct (is_error i) eqn:E; [|reflexivity].
  assert (existsb is_error l = true) by (apply existsb_exists; exists i; split; assumption).
  congruence.
Qed.

Lemma any_error_false_iff l : any_error l = false <-> forall i, In i l -> is_error i = false.
Proof.
  split. - intros H i. apply any_error_in. exact H.
  - intros H. unfold any_error. destruct (existsb is_error l) eqn:E; [|reflexivity].
    apply existsb_exists in E as [i [Hi He]]. rewrite (H i Hi) in He. discriminate.
Qed.

Lemma any_error_concat_in ls l : any_error (concat ls) = false -> In l ls -> any_error l = false.
Proof.
  intros H Hl. apply any_error_false_iff. intros i Hi.
  apply (any_error_in _ _ H). apply in_concat. exists l. split; assumption.
Qed.

Lemma any_error_flat_map_in {A} (f : A -> list issue) l x :
  any_error (flat_map f l) = false -> In x l -> any_error (f x) = false.
Proof.
  intros H Hx. apply any_error_false_iff. intros i Hi.
  apply (any_error_in _ _ H). apply in_flat_map. exists x. split; assumption.
Qed.

Lemma error_codes_in l c : In (c, true) l -> In c (error_codes l).
Proof.
  intros H. unfold error_codes. apply in_map_iff. exists (c, true). split; [reflexivity|].
  apply filter_In. split; [exact H | reflexivity].
Qed.

Lemma error_codes_nil l : any_error l = false -> error_codes l = [].
Proof.
  intros H. unfold error_codes. induction l as [|i l IH]; simpl; [reflexivity|].
  unfold any_error in H. simpl in H. apply orb_false_iff in H as [H1 H2].
  rewrite H1. apply IH. exact H2.
Qed.

Lemma mem_str_In x l : mem_str x l = true <-> In x l.
Proof.
  unfold mem_str. rewrite existsb_exists. split.
  - intros [y [Hy He]]. apply str_eqb_spec in He. subst. exact Hy.
  - intros H. exists x. split; [exact H | apply str_eqb_spec; reflexivity].
Qed.

Lemma str_eqb_refl x : str_eqb x x = true.
Proof. apply str_eqb_spec. reflexivity. Qed.

Lemma lookup_in_keys {A} k (kvs : list (str * A)) :
  In k (map fst kvs) -> exists v, lookup k kvs = Some v.
Proof.
  induction kvs as [|[k' v'] t IH]; simpl; intros H; [contradiction|].
  destruct (str_eqb k k') eqn:E; [eexists; reflexivity|].
  destruct H as [H|H]; [subst; rewrite str_eqb_refl in E; discriminate | apply IH; exact H].
Qed.

Lemma lookup_app_some {A} k (a b : list (str * A)) v :
  lookup k a = Some v -> lookup k (a ++ b) = Some v.
Proof.
  induction a as [|[k' v'] t IH]; simpl; intros H; [discriminate|].
  destruct (str_eqb k k'); [exact H | apply IH; exact H].
Qed.

Lemma lookup_app_none {A} k (a b : list (str * A)) :
  lookup k a = None -> lookup k (a ++ b) = lookup k b.
Proof.
  induction a as [|[k' v'] t IH]; simpl; intros H; [reflexivity|].
  destruct (str_eqb k k'); [discriminate | apply IH; exact H].
Qed.

Lemma map_fst_combine {A B} (ks : list A) (vs : list B) :
  length ks = length vs -> map fst (combine ks vs) = ks.
Proof.
  revert vs; induction ks as [|k ks IH]; intros [|v vs] H; simpl in *; try reflexivity; try discriminate.
  f_equal. apply IH. lia.
Qed.

(* ------------------------------------------------------------------ *)
(* kinds are errors (breaks when a severity is edited in the sources)  *)
Lemma all_kinds_errors k : kind_is_error k = true.
Proof. destruct k; reflexivity. Qed.

Lemma mk_is_error k : is_error (mk k) = true.
Proof. apply all_kinds_errors. Qed.

Lemma no_error_no_mk l k : any_error l = false -> ~ In (mk k) l.
Proof. intros H Hin. pose proof (any_error_in _ _ H Hin) as E. rewrite mk_is_error in E. discriminate. Qed.

(* ------------------------------------------------------------------ *)
(* series / hed strings                                                *)

Lemma series_of_dict_total hv :
  forallb is_str (map snd hv) = true -> exists r, series_of_dict hv = Ok r.
Proof.
  induction hv as [|[k v] t IH]; simpl; intros H.
  - eexists; reflexivity.
  - apply andb_true_iff in H as [H1 H2]. destruct v; try discriminate.
    destruct (IH H2) as [r Hr]. rewrite Hr. simpl. eexists; reflexivity.
Qed.

Section P.
Variable fixed : bool.
Variable V_defs : list str -> list issue.
Variable V_basic : list str -> str -> list issue.
Variable V_defcount : str -> nat.
Variable V_hashes : list str -> str -> nat.
Variable V_full : list str -> str -> list str -> list str -> list issue.

Definition good (v : json) : Prop := fixed = true \/ is_obj v = true.

Lemma hed_dict_total v : good v -> exists h, hed_dict fixed v = Ok h.
Proof.
  intros [Hf|Ho]; destruct v; simpl in *; try discriminate; try (subst; eexists; reflexivity);
    eexists; reflexivity.
Qed.

(* the strings of a column for an arbitrary claimed type, by shape of the entry *)
Lemma hed_dict_obj kvs :
  hed_dict fixed (JObj kvs) = Ok (match lookup s_HED kvs with Some h => h | None => JObj [] end).
Proof. reflexivity. Qed.

Lemma hed_dict_nonobj v : good v -> is_obj v = false -> hed_dict fixed v = Ok (JObj []).
Proof.
  intros [Hf|Ho] Hn; [|congruence]. subst. destruct v; simpl in *; try reflexivity; discriminate.
Qed.

Lemma get_basic_total v :
  good v -> exists hs, get_hed_strings fixed (detect_column_type true v) v = Ok hs.
Proof.
  intros Hg. destruct (is_obj v) eqn:Ho.
  - destruct v; try discriminate. unfold detect_column_type.
    destruct (negb (truthy (JObj kvs))) eqn:Et.
    + destruct kvs; simpl in Et; [|discriminate]. eexists; reflexivity.
    + destruct (lookup s_HED kvs) as [h|] eqn:El.
      * destruct h; try (eexists; reflexivity).
        -- destruct (true && negb (has_hash s)); [eexists; reflexivity|].
           eexists. cbn [get_hed_strings hed_dict bind]. rewrite El. reflexivity.
        -- destruct (forallb is_str (map snd kvs0)) eqn:Ef; simpl; [|eexists; reflexivity].
           destruct (series_of_dict_total _ Ef) as [r Hr].
           eexists. cbn [get_hed_strings hed_dict bind]. rewrite El. simpl. exact Hr.
      * eexists. cbn [get_hed_strings hed_dict bind]. rewrite El. reflexivity.
  - assert (detect_column_type true v = Some CIgnore) as -> by (destruct v; try reflexivity; discriminate).
    eexists. unfold get_hed_strings. rewrite (hed_dict_nonobj v Hg Ho). reflexivity.
Qed.

Lemma ref_strings_total v : good v -> exists hs, ref_strings_of_column fixed v = Ok hs.
Proof.
  intros Hg. unfold ref_strings_of_column.
  destruct (get_basic_total v Hg) as [hs Hhs].
  destruct fixed; [|eexists; exact Hhs].
  destruct (detect_column_type true v) eqn:Ed; [eexists; exact Hhs|].
  destruct v; try (eexists; reflexivity).
  destruct (lookup s_HED kvs) as [h|]; [destruct h|]; eexists; reflexivity.
Qed.


(* ---- column shapes ---- *)
Lemma lookup_some_truthy (kvs : list (str * json)) h : lookup s_HED kvs = Some h -> truthy (JObj kvs) = true.
Proof. destruct kvs; simpl; [discriminate | reflexivity]. Qed.

Lemma detect_str basic kvs s :
  lookup s_HED kvs = Some (JStr s) ->
  detect_column_type basic (JObj kvs) = if basic && negb (has_hash s) then None else Some CValue.
Proof.
  intros El. unfold detect_column_type. rewrite (lookup_some_truthy _ _ El), El. reflexivity.
Qed.

Lemma detect_obj basic kvs hv :
  lookup s_HED kvs = Some (JObj hv) ->
  detect_column_type basic (JObj kvs)
  = if basic && negb (forallb is_str (map snd hv)) then None else Some CCategorical.
Proof.
  intros El. unfold detect_column_type. rewrite (lookup_some_truthy _ _ El), El. reflexivity.
Qed.

Lemma detect_false_cat v :
  detect_column_type false v = Some CCategorical ->
  exists kvs hv, v = JObj kvs /\ lookup s_HED kvs = Some (JObj hv).
Proof.
  destruct v; unfold detect_column_type; try discriminate.
  destruct (negb (truthy (JObj kvs))); [discriminate|].
  destruct (lookup s_HED kvs) as [h|] eqn:El; [|discriminate].
  destruct h; try discriminate. intros _. eexists _, _. split; [reflexivity | exact El].
Qed.

(* ---- validate_structure ---- *)
Lemma vcs_total col : exists l, validate_column_structure col = Ok l.
Proof.
  destruct col as [name v]. unfold validate_column_structure.
  destruct (mem_str name reserved_column_names); [eexists; reflexivity|].
  destruct (detect_column_type false v) as [c|] eqn:Ed; [|eexists; reflexivity].
  destruct c; try (eexists; reflexivity).
  destruct (detect_false_cat v Ed) as [kvs [hv [-> El]]].
  unfold validate_categorical_column, subscript, getitem. rewrite El. simpl. eexists; reflexivity.
Qed.

Lemma validate_structure_total sc : exists l, validate_structure sc = Ok l.
Proof.
  unfold validate_structure.
  destruct (mapM_total validate_column_structure sc) as [l Hl]. { intros x _. apply vcs_total. }
  rewrite Hl. simpl. eexists; reflexivity.
Qed.

Lemma cat_entries_clean hv :
  any_error (flat_map categorical_entry_issues hv) = false -> forallb is_str (map snd hv) = true.
Proof.
  induction hv as [|[k v] t IH]; cbn [flat_map map snd forallb]; intros H; [reflexivity|].
  rewrite any_error_app in H. apply orb_false_iff in H as [H1 H2].
  rewrite (IH H2), andb_true_r. unfold categorical_entry_issues in H1.
  destruct (negb (truthy v)) eqn:Et; [vm_compute in H1; discriminate|].
  destruct (is_str v); [reflexivity|]. vm_compute in H1. discriminate.
Qed.

Lemma structure_clean_cat name kvs hv l :
  validate_column_structure (name, JObj kvs) = Ok l -> any_error l = false ->
  lookup s_HED kvs = Some (JObj hv) -> forallb is_str (map snd hv) = true.
Proof.
  intros Hv Hc El. unfold validate_column_structure in Hv.
  destruct (mem_str name reserved_column_names).
  { inversion Hv; subst. vm_compute in Hc. discriminate. }
  rewrite (detect_obj false _ _ El) in Hv. simpl in Hv.
  unfold validate_categorical_column, subscript, getitem in Hv. rewrite El in Hv. simpl in Hv.
  inversion Hv; subst. rewrite any_error_app in Hc. apply orb_false_iff in Hc as [_ Hc].
  apply cat_entries_clean. exact Hc.
Qed.

(* ---- validate_refs ---- *)
Lemma refs_column_total possible col :
  good (snd col) -> exists r, refs_column fixed possible col = Ok r.
Proof.
  destruct col as [name v]. simpl. intros Hg. unfold refs_column.
  destruct (ref_strings_total v Hg) as [hs Hhs]. rewrite Hhs. simpl. eexists; reflexivity.
Qed.

Lemma validate_refs_total sc :
  (forall col, In col sc -> good (snd col)) -> exists l, validate_refs fixed sc = Ok l.
Proof.
  intros Hg. unfold validate_refs.
  destruct (mapM_total (refs_column fixed (possible_column_refs sc)) sc) as [l Hl].
  { intros x Hx. apply refs_column_total. apply Hg. exact Hx. }
  rewrite Hl. simpl. eexists; reflexivity.
Qed.

(* references of screened strings are possible references when no error was issued *)
Lemma refs_of_string_clean possible s m :
  any_error (fst (refs_of_string possible s)) = false -> In m (find_refs s) -> mem_str m possible = true.
Proof.
  unfold refs_of_string. simpl. intros H Hm. rewrite any_error_app in H.
  apply orb_false_iff in H as [_ H].
  pose proof (any_error_flat_map_in _ _ m H Hm) as E.
  cbv beta in E. destruct (mem_str m possible) eqn:Em; [reflexivity|]. vm_compute in E. discriminate.
Qed.

Lemma refs_column_clean possible name v iss x hs :
  refs_column fixed possible (name, v) = Ok (iss, x) -> any_error iss = false ->
  ref_strings_of_column fixed v = Ok hs ->
  forall k s m, In (k, s) hs -> In m (find_refs s) -> mem_str m possible = true.
Proof.
  intros Hr Hc Hhs k s m Hks Hm. unfold refs_column in Hr. rewrite Hhs in Hr. simpl in Hr.
  inversion Hr; subst. clear Hr. rewrite any_error_app in Hc. apply orb_false_iff in Hc as [Hc _].
  apply (refs_of_string_clean possible s m); [|exact Hm].
  rewrite flat_map_concat_map, map_map in Hc.
  apply (any_error_concat_in _ _ Hc). apply in_map_iff. exists (k, s). split; [reflexivity | exact Hks].
Qed.

Lemma possible_sub sc m :
  mem_str m (possible_column_refs sc) = true -> m = s_HED \/ In m (map fst sc).
Proof.
  intros H. apply mem_str_In in H. unfold possible_column_refs in H.
  assert (Hsub : forall x, In x (all_hed_columns sc) -> In x (map fst sc)).
  { intros x Hx. unfold all_hed_columns in Hx. apply in_map_iff in Hx as [c [<- Hc]].
    apply filter_In in Hc as [Hc _]. apply in_map. exact Hc. }
  destruct (mem_str s_HED (all_hed_columns sc)).
  - right. apply Hsub. exact H.
  - apply in_app_or in H as [H|[H|[]]]; [right; apply Hsub; exact H | left; symmetry; exact H].
Qed.


(* ---- the strings of the unvalidated columns ---- *)
Lemma detect_false_val v :
  detect_column_type false v = Some CValue ->
  exists kvs s, v = JObj kvs /\ lookup s_HED kvs = Some (JStr s).
Proof.
  destruct v; unfold detect_column_type; try discriminate.
  destruct (negb (truthy (JObj kvs))); [discriminate|].
  destruct (lookup s_HED kvs) as [h|] eqn:El; [|discriminate].
  destruct h; try discriminate. intros _. eexists _, _. split; [reflexivity | exact El].
Qed.

Lemma detect_false_ignore v :
  detect_column_type false v = Some CIgnore -> good v -> hed_dict fixed v = Ok (JObj []).
Proof.
  intros Hd Hg. destruct (is_obj v) eqn:Ho; [|apply hed_dict_nonobj; assumption].
  destruct v; try discriminate. unfold detect_column_type in Hd. cbn [hed_dict].
  destruct (negb (truthy (JObj kvs))) eqn:Et.
  - destruct kvs; [reflexivity | discriminate].
  - destruct (lookup s_HED kvs) as [h|]; [|reflexivity]. destruct h; discriminate.
Qed.

Lemma unval_types v hs :
  good v -> get_hed_strings fixed (detect_column_type false v) v = Ok hs ->
  hs = [] \/ detect_column_type false v = Some CValue \/ detect_column_type false v = Some CCategorical.
Proof.
  intros Hg H. destruct (detect_column_type false v) as [c|] eqn:Ed.
  - destruct c; [|right; right; reflexivity | right; left; reflexivity].
    left. cbn [get_hed_strings] in H. rewrite (detect_false_ignore v Ed Hg) in H. simpl in H. congruence.
  - left. simpl in H. congruence.
Qed.

Lemma unval_total name v l :
  good v -> validate_column_structure (name, v) = Ok l -> any_error l = false ->
  exists hs, get_hed_strings fixed (detect_column_type false v) v = Ok hs.
Proof.
  intros Hg Hv Hc. destruct (detect_column_type false v) as [c|] eqn:Ed; [|eexists; reflexivity].
  destruct c.
  - eexists. cbn [get_hed_strings]. rewrite (detect_false_ignore v Ed Hg). reflexivity.
  - destruct (detect_false_cat v Ed) as [kvs [hv [Hveq El]]]. subst v.
    pose proof (structure_clean_cat _ _ _ _ Hv Hc El) as Hstr.
    destruct (series_of_dict_total _ Hstr) as [r Hr].
    eexists. cbn [get_hed_strings hed_dict bind]. rewrite El. simpl. exact Hr.
  - destruct (detect_false_val v Ed) as [kvs [s [Hveq El]]]. subst v.
    eexists. cbn [get_hed_strings hed_dict bind]. rewrite El. reflexivity.
Qed.

Lemma ref_strings_some v c :
  detect_column_type true v = Some c -> ref_strings_of_column fixed v = get_hed_strings fixed (Some c) v.
Proof. intros H. unfold ref_strings_of_column. rewrite H. destruct fixed; reflexivity. Qed.

Lemma unval_refs_known sc name v l iss x hs :
  In (name, v) sc -> good v ->
  validate_column_structure (name, v) = Ok l -> any_error l = false ->
  refs_column fixed (possible_column_refs sc) (name, v) = Ok (iss, x) -> any_error iss = false ->
  (fixed = true \/ hashless_refs_known sc = true) ->
  get_hed_strings fixed (detect_column_type false v) v = Ok hs ->
  forall k s m, In (k, s) hs -> In m (find_refs s) -> m = s_HED \/ In m (map fst sc).
Proof.
  intros Hin Hg Hv Hc Hr Hrc Hfix Hhs k s m Hks Hm.
  destruct (unval_types v hs Hg Hhs) as [->|[Ed|Ed]]; [contradiction| |].
  - (* value column *)
    destruct (detect_false_val v Ed) as [kvs [s0 [Hveq El]]]. subst v.
    rewrite Ed in Hhs. cbn [get_hed_strings hed_dict bind] in Hhs. rewrite El in Hhs. simpl in Hhs.
    inversion Hhs; subst hs. destruct Hks as [Hks|[]]. inversion Hks; subst k s. clear Hks Hhs.
    destruct (has_hash s0) eqn:Eh.
    + apply (possible_sub sc).
      apply (refs_column_clean _ _ _ _ _ [([], s0)] Hr Hrc) with (k := []) (s := s0); [|left; reflexivity|exact Hm].
      rewrite (ref_strings_some _ CValue).
      * cbn [get_hed_strings hed_dict bind]. rewrite El. reflexivity.
      * rewrite (detect_str true _ _ El), Eh. reflexivity.
    + destruct Hfix as [Hf|Hk].
      * apply (possible_sub sc).
        apply (refs_column_clean _ _ _ _ _ [([], s0)] Hr Hrc) with (k := []) (s := s0); [|left; reflexivity|exact Hm].
        unfold ref_strings_of_column. rewrite (detect_str true _ _ El), Eh, Hf. simpl. rewrite El. reflexivity.
      * unfold hashless_refs_known in Hk. rewrite forallb_forall in Hk. specialize (Hk _ Hin).
        cbn [snd] in Hk. rewrite El, Eh in Hk. simpl in Hk. rewrite forallb_forall in Hk.
        specialize (Hk m Hm). apply orb_true_iff in Hk as [Hk|Hk].
        -- left. apply str_eqb_spec. exact Hk.
        -- right. apply mem_str_In. exact Hk.
  - (* categorical column *)
    destruct (detect_false_cat v Ed) as [kvs [hv [Hveq El]]]. subst v.
    pose proof (structure_clean_cat _ _ _ _ Hv Hc El) as Hstr.
    apply (possible_sub sc).
    apply (refs_column_clean _ _ _ _ _ hs Hr Hrc) with (k := k) (s := s); [|exact Hks|exact Hm].
    rewrite (ref_strings_some _ CCategorical).
    + rewrite Ed in Hhs. exact Hhs.
    + rewrite (detect_obj true _ _ El), Hstr. reflexivity.
Qed.

Lemma check_string_total ds ct is_ref rs s :
  (ct = Some CValue \/ ct = Some CCategorical) ->
  (forall m, In m (find_refs s) -> exists v, lookup m rs = Some v) ->
  exists l, check_string V_basic V_defcount V_hashes V_full ds ct is_ref rs s = Ok l.
Proof.
  intros Hct Hl. unfold check_string.
  assert (Hp : exists p, (if Nat.eqb (V_defcount s) 0 then pound_sign_check ct (V_hashes ds s) else Ok []) = Ok p).
  { destruct (Nat.eqb (V_defcount s) 0); [|eexists; reflexivity].
    destruct Hct as [->| ->]; simpl; eexists; reflexivity. }
  destruct Hp as [p Hp]. rewrite Hp. cbn [bind].
  destruct is_ref; [eexists; reflexivity|].
  destruct (mapM_total (fun key => getitem key rs) (find_refs s)) as [lists Hlists].
  { intros m Hm. destruct (Hl m Hm) as [v Hv]. unfold getitem. rewrite Hv. eexists; reflexivity. }
  rewrite Hlists. cbn [bind]. eexists; reflexivity.
Qed.

Lemma check_column_total ds arc rs name v hs :
  good v -> get_hed_strings fixed (detect_column_type false v) v = Ok hs ->
  (forall k s m, In (k, s) hs -> In m (find_refs s) -> exists x, lookup m rs = Some x) ->
  exists r, check_column fixed V_basic V_defcount V_hashes V_full ds arc rs (name, v) = Ok r.
Proof.
  intros Hg Hhs Hl. unfold check_column. rewrite Hhs. cbn [bind].
  destruct (mapM_total (fun kv : str * str =>
              check_string V_basic V_defcount V_hashes V_full ds (detect_column_type false v)
                           (mem_str name arc) rs (snd kv)) hs) as [iss Hiss].
  { intros [k s] Hks. cbn [snd]. apply check_string_total.
    - destruct (unval_types v hs Hg Hhs) as [->|H]; [contradiction | exact H].
    - intros m Hm. apply (Hl k s m Hks Hm). }
  rewrite Hiss. cbn [bind]. eexists; reflexivity.
Qed.

(* refs_strings has every column name and HED as a key *)
Lemma refs_strings_keys (names : list str) (strs : list (list str)) m :
  length names = length strs -> (m = s_HED \/ In m names) ->
  exists x, lookup m (if has_key s_HED (combine names strs) then combine names strs
                      else combine names strs ++ [(s_HED, [s_NA])]) = Some x.
Proof.
  intros Hlen Hm.
  assert (Hn : In m names -> exists x, lookup m (combine names strs) = Some x).
  { intros Hin. apply lookup_in_keys. rewrite map_fst_combine; assumption. }
  unfold has_key. destruct (lookup s_HED (combine names strs)) as [h|] eqn:Eh.
  - destruct Hm as [->|Hin]; [eexists; exact Eh | apply Hn; exact Hin].
  - destruct Hm as [->|Hin].
    + rewrite (lookup_app_none _ _ _ Eh). simpl. eexists; reflexivity.
    + destruct (Hn Hin) as [x Hx]. exists x. apply lookup_app_some. exact Hx.
Qed.

Lemma validate_strings_total sc i1 i2 :
  (forall col, In col sc -> good (snd col)) ->
  (fixed = true \/ hashless_refs_known sc = true) ->
  validate_structure sc = Ok i1 -> validate_refs fixed sc = Ok i2 -> any_error (i1 ++ i2) = false ->
  exists i3, validate_strings fixed V_defs V_basic V_defcount V_hashes V_full sc = Ok i3.
Proof.
  intros Hg Hfix H1 H2 Hc. rewrite any_error_app in Hc. apply orb_false_iff in Hc as [Hc1 Hc2].
  unfold validate_strings.
  destruct (mapM_total (fun col : str * json =>
              get_hed_strings fixed (detect_column_type true (snd col)) (snd col)) sc) as [bhs Hb].
  { intros col Hcol. apply get_basic_total. apply Hg. exact Hcol. }
  unfold basic_strings. rewrite Hb. cbn [bind].
  set (strs := map (map snd) bhs). set (ds := concat strs).
  set (rs := combine (map fst sc) strs).
  set (refs_strings := if has_key s_HED rs then rs else rs ++ [(s_HED, [s_NA])]).
  assert (Hlen : length (map fst sc) = length strs).
  { unfold strs. rewrite !map_length. symmetry. apply (mapM_length _ _ _ Hb). }
  (* structure and refs results per column *)
  unfold validate_structure in H1.
  destruct (mapM validate_column_structure sc) as [l1|] eqn:E1; [|discriminate]. simpl in H1.
  inversion H1; subst i1. clear H1.
  unfold validate_refs in H2.
  destruct (mapM (refs_column fixed (possible_column_refs sc)) sc) as [cols|] eqn:E2; [|discriminate].
  simpl in H2. inversion H2; subst i2. clear H2.
  rewrite any_error_app in Hc2. apply orb_false_iff in Hc2 as [Hc2 _].
  destruct (mapM_total (check_column fixed V_basic V_defcount V_hashes V_full ds
                                     (flat_map find_refs ds) refs_strings) sc) as [cs Hcs].
  { intros [name v] Hcol. pose proof (Hg _ Hcol) as Hgv. cbn [snd] in Hgv.
    destruct (mapM_in _ _ _ E1 _ Hcol) as [l [Hl Hlin]].
    pose proof (any_error_concat_in _ _ Hc1 Hlin) as Hlc.
    destruct (mapM_in _ _ _ E2 _ Hcol) as [[iss x] [Hr Hrin]].
    assert (Hrc : any_error iss = false).
    { apply (any_error_flat_map_in fst cols (iss, x) Hc2 Hrin). }
    destruct (unval_total name v l Hgv Hl Hlc) as [hs Hhs].
    apply (check_column_total _ _ _ _ _ hs Hgv Hhs).
    intros k s m Hks Hm. apply refs_strings_keys; [exact Hlen|].
    apply (unval_refs_known sc name v l iss x hs Hcol Hgv Hl Hlc Hr Hrc Hfix Hhs k s m Hks Hm). }
  rewrite Hcs. cbn [bind]. eexists; reflexivity.
Qed.

Lemma validate_loaded_total sc :
  (forall col, In col sc -> good (snd col)) ->
  (fixed = true \/ hashless_refs_known sc = true) ->
  exists l, validate_loaded fixed V_defs V_basic V_defcount V_hashes V_full sc = Ok l.
Proof.
  intros Hg Hfix. unfold validate_loaded.
  destruct (validate_structure_total sc) as [i1 H1]. rewrite H1. cbn [bind].
  destruct (validate_refs_total sc Hg) as [i2 H2]. rewrite H2. cbn [bind].
  destruct (any_error (i1 ++ i2)) eqn:Ec; [eexists; reflexivity|].
  destruct (validate_strings_total sc i1 i2 Hg Hfix H1 H2 Ec) as [i3 H3].
  rewrite H3. cbn [bind]. eexists; reflexivity.
Qed.

End P.

(* ------------------------------------------------------------------ *)
(* braces: the validator's scan finds nothing iff the specification holds *)
Definition is_some {A} (o : option A) : bool := match o with Some _ => true | None => false end.

Lemma fnmb_spec s : forall i op, fnmb s i op = [] <-> braces_ok_from s (is_some op) = true.
Proof.
  induction s as [|c t IH]; intros i op; cbn [fnmb braces_ok_from].
  - destruct op; simpl; split; intro H; try reflexivity; discriminate.
  - destruct (N.eqb c ch_lbrace).
    + destruct op as [o|]; simpl.
      * split; intro H; discriminate.
      * apply (IH (S i) (Some i)).
    + destruct (N.eqb c ch_rbrace).
      * destruct op as [o|]; simpl.
        -- apply (IH (S i) None).
        -- split; intro H; discriminate.
      * apply IH.
Qed.

Lemma braces_spec s : find_non_matching_braces s = [] <-> braces_ok s = true.
Proof. apply (fnmb_spec s 0 None). Qed.

(* ------------------------------------------------------------------ *)
(* expected published codes (hand-written from the HED specification /  *)
(* the documented sidecar codes); the generated table must agree       *)
Definition c_SIDECAR_INVALID : str := [83;73;68;69;67;65;82;95;73;78;86;65;76;73;68]%N.
Definition c_SIDECAR_BRACES_INVALID : str := [83;73;68;69;67;65;82;95;66;82;65;67;69;83;95;73;78;86;65;76;73;68]%N.
Definition c_PLACEHOLDER_INVALID : str := [80;76;65;67;69;72;79;76;68;69;82;95;73;78;86;65;76;73;68]%N.
Definition c_sidecarUnknownColumn : str := [115;105;100;101;99;97;114;85;110;107;110;111;119;110;67;111;108;117;109;110]%N.
Definition c_wrongHedDataType : str := [119;114;111;110;103;72;101;100;68;97;116;97;84;121;112;101]%N.
Definition c_blankValueString : str := [98;108;97;110;107;86;97;108;117;101;83;116;114;105;110;103]%N.

Lemma spec_codes :
  kind_code K_SIDECAR_HED_USED_COLUMN = c_SIDECAR_INVALID /\
  kind_code K_SIDECAR_HED_USED = c_SIDECAR_INVALID /\
  kind_code K_SIDECAR_NA_USED = c_SIDECAR_INVALID /\
  kind_code K_MALFORMED_COLUMN_REF = c_SIDECAR_BRACES_INVALID /\
  kind_code K_INVALID_COLUMN_REF = c_SIDECAR_BRACES_INVALID /\
  kind_code K_SELF_COLUMN_REF = c_SIDECAR_BRACES_INVALID /\
  kind_code K_NESTED_COLUMN_REF = c_SIDECAR_BRACES_INVALID /\
  kind_code K_INVALID_POUND_SIGNS_VALUE = c_PLACEHOLDER_INVALID /\
  kind_code K_INVALID_POUND_SIGNS_CATEGORY = c_PLACEHOLDER_INVALID /\
  kind_code K_UNKNOWN_COLUMN_TYPE = c_sidecarUnknownColumn /\
  kind_code K_WRONG_HED_DATA_TYPE = c_wrongHedDataType /\
  kind_code K_BLANK_HED_STRING = c_blankValueString.
Proof. repeat split; reflexivity. Qed.

Lemma reserved_spec : reserved_column_names = [s_HED] /\ reserved_category_values = [s_NA].
Proof. split; reflexivity. Qed.

(* ------------------------------------------------------------------ *)
(* fault detection                                                     *)
Definition not_reserved (name : str) : Prop := mem_str name reserved_column_names = false.

Lemma not_reserved_of_neq name : name <> s_HED -> not_reserved name.
Proof.
  intros Hn. unfold not_reserved. destruct (mem_str name reserved_column_names) eqn:E; [|reflexivity].
  apply mem_str_In in E. destruct E as [E|[]]. exfalso. apply Hn. symmetry. exact E.
Qed.

Section F.
Variable fixed : bool.
Variable V_defs : list str -> list issue.
Variable V_basic : list str -> str -> list issue.
Variable V_defcount : str -> nat.
Variable V_hashes : list str -> str -> nat.
Variable V_full : list str -> str -> list str -> list str -> list issue.

Notation VL := (validate_loaded fixed V_defs V_basic V_defcount V_hashes V_full).

Definition all_good (sc : list (str * json)) : Prop := fixed = true \/ cols_objects sc = true.

Lemma all_good_cols sc : all_good sc -> forall col, In col sc -> good fixed (snd col).
Proof.
  intros [Hf|Ho] col Hc; [left; exact Hf|]. right.
  unfold cols_objects in Ho. rewrite forallb_forall in Ho. apply Ho. exact Hc.
Qed.

(* an error found by the structure or reference screening is in the result *)
Lemma phase1_issue sc i1 i2 k :
  all_good sc -> validate_structure sc = Ok i1 -> validate_refs fixed sc = Ok i2 ->
  In (mk k) (i1 ++ i2) ->
  exists l, VL sc = Ok l /\ In (kind_code k) (error_codes l).
Proof.
  intros Hg H1 H2 Hin. unfold validate_loaded. rewrite H1, H2. cbn [bind].
  assert (Ea : any_error (i1 ++ i2) = true).
  { unfold any_error. apply existsb_exists. exists (mk k). split; [exact Hin | apply mk_is_error]. }
  rewrite Ea. eexists. split; [reflexivity|].
  apply error_codes_in. unfold mk in Hin. rewrite all_kinds_errors in Hin. exact Hin.
Qed.

Lemma structure_fault sc name v l k :
  all_good sc -> In (name, v) sc -> validate_column_structure (name, v) = Ok l -> In (mk k) l ->
  exists out, VL sc = Ok out /\ In (kind_code k) (error_codes out).
Proof.
  intros Hg Hin Hv Hk.
  destruct (validate_structure_total sc) as [i1 H1].
  destruct (validate_refs_total fixed sc (all_good_cols sc Hg)) as [i2 H2].
  apply (phase1_issue sc i1 i2 k Hg H1 H2). apply in_or_app. left.
  unfold validate_structure in H1.
  destruct (mapM validate_column_structure sc) as [l1|] eqn:E1; [|discriminate]. simpl in H1.
  inversion H1; subst i1. destruct (mapM_in _ _ _ E1 _ Hin) as [l' [Hl' Hin']].
  rewrite Hv in Hl'. inversion Hl'; subst l'. apply in_concat. exists l. split; assumption.
Qed.

Lemma refs_fault sc name v iss x k :
  all_good sc -> In (name, v) sc ->
  refs_column fixed (possible_column_refs sc) (name, v) = Ok (iss, x) -> In (mk k) iss ->
  exists out, VL sc = Ok out /\ In (kind_code k) (error_codes out).
Proof.
  intros Hg Hin Hr Hk.
  destruct (validate_structure_total sc) as [i1 H1].
  destruct (validate_refs_total fixed sc (all_good_cols sc Hg)) as [i2 H2].
  apply (phase1_issue sc i1 i2 k Hg H1 H2). apply in_or_app. right.
  unfold validate_refs in H2.
  destruct (mapM (refs_column fixed (possible_column_refs sc)) sc) as [cols|] eqn:E2; [|discriminate].
  simpl in H2. inversion H2; subst i2. apply in_or_app. left.
  destruct (mapM_in _ _ _ E2 _ Hin) as [r [Hr' Hrin]]. rewrite Hr in Hr'. inversion Hr'; subst r.
  apply in_flat_map. exists (iss, x). split; [exact Hrin | exact Hk].
Qed.

(* --- HED used as a column name --- *)
Lemma fault_hed_column sc v :
  all_good sc -> In (s_HED, v) sc ->
  exists out, VL sc = Ok out /\ In (kind_code K_SIDECAR_HED_USED_COLUMN) (error_codes out).
Proof.
  intros Hg Hin. apply (structure_fault sc s_HED v [mk K_SIDECAR_HED_USED_COLUMN] _ Hg Hin).
  - reflexivity.
  - left; reflexivity.
Qed.


(* --- a HED entry that is neither a string nor a map --- *)
Lemma fault_hed_entry_type sc name kvs h :
  all_good sc -> In (name, JObj kvs) sc -> not_reserved name ->
  lookup s_HED kvs = Some h -> is_str h = false -> is_obj h = false ->
  exists out, VL sc = Ok out /\ In (kind_code K_UNKNOWN_COLUMN_TYPE) (error_codes out).
Proof.
  intros Hg Hin Hn El Hs Ho.
  apply (structure_fault sc name (JObj kvs) [mk K_UNKNOWN_COLUMN_TYPE] _ Hg Hin); [|left; reflexivity].
  unfold validate_column_structure. rewrite Hn. unfold detect_column_type.
  rewrite (lookup_some_truthy _ _ El), El. destruct h; try discriminate; reflexivity.
Qed.

(* --- category entries: non-string / empty value, n/a key --- *)
Lemma cat_entry_fault sc name kvs hv key val k :
  all_good sc -> In (name, JObj kvs) sc -> not_reserved name ->
  lookup s_HED kvs = Some (JObj hv) -> In (key, val) hv ->
  In (mk k) (categorical_entry_issues (key, val)) ->
  exists out, VL sc = Ok out /\ In (kind_code k) (error_codes out).
Proof.
  intros Hg Hin Hn El Hkv Hk.
  apply (structure_fault sc name (JObj kvs)
           ((if negb (truthy (JObj hv)) then [mk K_BLANK_HED_STRING] else [])
            ++ flat_map categorical_entry_issues hv) _ Hg Hin).
  - unfold validate_column_structure. rewrite Hn, (detect_obj false _ _ El). simpl.
    unfold validate_categorical_column, subscript, getitem. rewrite El. reflexivity.
  - apply in_or_app. right. apply in_flat_map. exists (key, val). split; assumption.
Qed.

Lemma fault_category_nonstring sc name kvs hv key val :
  all_good sc -> In (name, JObj kvs) sc -> not_reserved name ->
  lookup s_HED kvs = Some (JObj hv) -> In (key, val) hv -> truthy val = true -> is_str val = false ->
  exists out, VL sc = Ok out /\ In (kind_code K_WRONG_HED_DATA_TYPE) (error_codes out).
Proof.
  intros Hg Hin Hn El Hkv Ht Hs. apply (cat_entry_fault sc name kvs hv key val _ Hg Hin Hn El Hkv).
  unfold categorical_entry_issues. rewrite Ht, Hs. left; reflexivity.
Qed.

Lemma fault_category_blank sc name kvs hv key val :
  all_good sc -> In (name, JObj kvs) sc -> not_reserved name ->
  lookup s_HED kvs = Some (JObj hv) -> In (key, val) hv -> truthy val = false ->
  exists out, VL sc = Ok out /\ In (kind_code K_BLANK_HED_STRING) (error_codes out).
Proof.
  intros Hg Hin Hn El Hkv Ht. apply (cat_entry_fault sc name kvs hv key val _ Hg Hin Hn El Hkv).
  unfold categorical_entry_issues. rewrite Ht. left; reflexivity.
Qed.

Lemma fault_na_key sc name kvs hv s :
  all_good sc -> In (name, JObj kvs) sc -> not_reserved name ->
  lookup s_HED kvs = Some (JObj hv) -> In (s_NA, JStr s) hv -> s <> [] ->
  exists out, VL sc = Ok out /\ In (kind_code K_SIDECAR_NA_USED) (error_codes out).
Proof.
  intros Hg Hin Hn El Hkv Hs. apply (cat_entry_fault sc name kvs hv s_NA (JStr s) _ Hg Hin Hn El Hkv).
  unfold categorical_entry_issues. destruct s; [congruence|]. left; reflexivity.
Qed.

(* --- references: the strings screened in a HED-bearing column --- *)
Lemma series_of_dict_strings hv :
  forallb is_str (map snd hv) = true ->
  exists r, series_of_dict hv = Ok r /\
            map snd r = flat_map (fun kv : str * json => match snd kv with JStr s => [s] | _ => [] end) hv.
Proof.
  induction hv as [|[k v] t IH]; cbn [map snd forallb flat_map series_of_dict]; intros H.
  - eexists; split; reflexivity.
  - apply andb_true_iff in H as [H1 H2]. destruct v; try discriminate.
    destruct (IH H2) as [r [Hr Hm]]. rewrite Hr. cbn [bind]. eexists. split; [reflexivity|].
    cbn [map snd app]. rewrite Hm. reflexivity.
Qed.

Lemma hed_bearing_strings v :
  hed_bearing v = true ->
  exists hs, ref_strings_of_column fixed v = Ok hs /\ map snd hs = column_strings v.
Proof.
  unfold hed_bearing. intros H.
  destruct (detect_column_type true v) as [c|] eqn:Ed; [|discriminate].
  rewrite (ref_strings_some fixed v c Ed).
  destruct v; try (simpl in Ed; inversion Ed; subst c; discriminate).
  unfold detect_column_type in Ed. destruct (negb (truthy (JObj kvs))).
  { inversion Ed; subst c; discriminate. }
  destruct (lookup s_HED kvs) as [h|] eqn:El; [|inversion Ed; subst c; discriminate].
  destruct h; try discriminate.
  - destruct (true && negb (has_hash s)); [discriminate|]. inversion Ed; subst c.
    cbn [get_hed_strings hed_dict bind column_strings]. rewrite El. eexists; split; reflexivity.
  - destruct (forallb is_str (map snd kvs0)) eqn:Ef; [|discriminate]. simpl in Ed. inversion Ed; subst c.
    destruct (series_of_dict_strings _ Ef) as [r [Hr Hm]].
    cbn [get_hed_strings hed_dict bind column_strings]. rewrite El. simpl. exists r. split; assumption.
Qed.

Lemma string_fault sc name v s k :
  all_good sc -> In (name, v) sc -> hed_bearing v = true -> In s (column_strings v) ->
  In (mk k) (fst (refs_of_string (possible_column_refs sc) s)) ->
  exists out, VL sc = Ok out /\ In (kind_code k) (error_codes out).
Proof.
  intros Hg Hin Hb Hs Hk.
  destruct (hed_bearing_strings v Hb) as [hs [Hhs Hm]].
  rewrite <- Hm in Hs. apply in_map_iff in Hs as [[k0 s0] [Hs0 Hin0]]. cbn [snd] in Hs0. subst s0.
  eapply (refs_fault sc name v _ _ k Hg Hin).
  - unfold refs_column. rewrite Hhs. cbn [bind]. reflexivity.
  - apply in_or_app. left. apply in_flat_map.
    exists (refs_of_string (possible_column_refs sc) s). split; [|exact Hk].
    apply in_map_iff. exists (k0, s). split; [reflexivity | exact Hin0].
Qed.

Lemma fault_braces sc name v s :
  all_good sc -> In (name, v) sc -> hed_bearing v = true -> In s (column_strings v) ->
  braces_ok s = false ->
  exists out, VL sc = Ok out /\ In (kind_code K_MALFORMED_COLUMN_REF) (error_codes out).
Proof.
  intros Hg Hin Hb Hs Hbr. apply (string_fault sc name v s _ Hg Hin Hb Hs).
  unfold refs_of_string. cbn [fst]. apply in_or_app. left.
  destruct (find_non_matching_braces s) as [|loc rest] eqn:Ef.
  - apply braces_spec in Ef. congruence.
  - left; reflexivity.
Qed.

Lemma fault_unknown_ref sc name v s m :
  all_good sc -> In (name, v) sc -> hed_bearing v = true -> In s (column_strings v) ->
  In m (find_refs s) -> m <> s_HED -> ~ In m (all_hed_columns sc) ->
  exists out, VL sc = Ok out /\ In (kind_code K_INVALID_COLUMN_REF) (error_codes out).
Proof.
  intros Hg Hin Hb Hs Hm Hne Hnot. apply (string_fault sc name v s _ Hg Hin Hb Hs).
  unfold refs_of_string. cbn [fst]. apply in_or_app. right. apply in_flat_map. exists m. split; [exact Hm|].
  destruct (mem_str m (possible_column_refs sc)) eqn:Em; [|left; reflexivity].
  exfalso. apply mem_str_In in Em. unfold possible_column_refs in Em.
  destruct (mem_str s_HED (all_hed_columns sc)); [exact (Hnot Em)|].
  apply in_app_or in Em as [Em|[Em|[]]]; [exact (Hnot Em) | exact (Hne (eq_sym Em))].
Qed.

Lemma fault_self_ref sc name v s :
  all_good sc -> In (name, v) sc -> hed_bearing v = true -> In s (column_strings v) ->
  In name (find_refs s) ->
  exists out, VL sc = Ok out /\ In (kind_code K_SELF_COLUMN_REF) (error_codes out).
Proof.
  intros Hg Hin Hb Hs Hm.
  destruct (hed_bearing_strings v Hb) as [hs [Hhs Hmap]].
  rewrite <- Hmap in Hs. apply in_map_iff in Hs as [[k0 s0] [Hs0 Hin0]]. cbn [snd] in Hs0. subst s0.
  eapply (refs_fault sc name v _ _ K_SELF_COLUMN_REF Hg Hin).
  - unfold refs_column. rewrite Hhs. cbn [bind]. reflexivity.
  - apply in_or_app. right.
    match goal with |- In _ (if mem_str name ?R then _ else _) => assert (Hr : mem_str name R = true) end.
    { apply mem_str_In. apply in_flat_map.
      exists (refs_of_string (possible_column_refs sc) s). split.
      - apply in_map_iff. exists (k0, s). split; [reflexivity | exact Hin0].
      - exact Hm. }
    rewrite Hr. left; reflexivity.
Qed.

Lemma fault_na_key' sc name kvs hv s :
  all_good sc -> In (name, JObj kvs) sc -> name <> s_HED ->
  lookup s_HED kvs = Some (JObj hv) -> In (s_NA, JStr s) hv -> s <> [] ->
  exists out, VL sc = Ok out /\ In c_SIDECAR_INVALID (error_codes out).
Proof. intros Hg Hin Hn. exact (fault_na_key sc name kvs hv s Hg Hin (not_reserved_of_neq name Hn)). Qed.

Lemma fault_hed_entry_type' sc name kvs h :
  all_good sc -> In (name, JObj kvs) sc -> name <> s_HED ->
  lookup s_HED kvs = Some h -> is_str h = false -> is_obj h = false ->
  exists out, VL sc = Ok out /\ In c_sidecarUnknownColumn (error_codes out).
Proof. intros Hg Hin Hn. exact (fault_hed_entry_type sc name kvs h Hg Hin (not_reserved_of_neq name Hn)). Qed.

Lemma fault_category_nonstring' sc name kvs hv key val :
  all_good sc -> In (name, JObj kvs) sc -> name <> s_HED ->
  lookup s_HED kvs = Some (JObj hv) -> In (key, val) hv -> truthy val = true -> is_str val = false ->
  exists out, VL sc = Ok out /\ In c_wrongHedDataType (error_codes out).
Proof.
  intros Hg Hin Hn.
  exact (fault_category_nonstring sc name kvs hv key val Hg Hin (not_reserved_of_neq name Hn)).
Qed.

Lemma fault_category_blank' sc name kvs hv key val :
  all_good sc -> In (name, JObj kvs) sc -> name <> s_HED ->
  lookup s_HED kvs = Some (JObj hv) -> In (key, val) hv -> truthy val = false ->
  exists out, VL sc = Ok out /\ In c_blankValueString (error_codes out).
Proof.
  intros Hg Hin Hn.
  exact (fault_category_blank sc name kvs hv key val Hg Hin (not_reserved_of_neq name Hn)).
Qed.

End F.

(* ------------------------------------------------------------------ *)
(* witnesses                                                           *)
(* {"TaskName": "rest"} *)
Definition w_taskname : json := JObj [([84;97;115;107;78;97;109;101]%N, JStr [114;101;115;116]%N)].
(* [1] *)
Definition w_toplist : json := JArr [JNum 1].
(* {"onset": {"HED": "{col1}"}} *)
Definition w_keyerror : json := JObj [([111;110;115;101;116]%N, JObj [(s_HED, JStr [123;99;111;108;49;125]%N)])].
(* {"a": {"HED": "Label/#, {b}"}, "b": {"HED": {"x": "Red"}}} *)
Definition w_good : json :=
  JObj [([97]%N, JObj [(s_HED, JStr [76;97;98;101;108;47;35;44;32;123;98;125]%N)]); ([98]%N, JObj [(s_HED, JObj [([120]%N, JStr [82;101;100]%N)])])].

Section T.
Variable V_defs : list str -> list issue.
Variable V_basic : list str -> str -> list issue.
Variable V_defcount : str -> nat.
Variable V_hashes : list str -> str -> nat.
Variable V_full : list str -> str -> list str -> list str -> list issue.
Notation VS f := (validate_sidecar f V_defs V_basic V_defcount V_hashes V_full).

Lemma never_raises_fixed kvs : exists l, VS true (JObj kvs) = Ok l.
Proof.
  unfold validate_sidecar. cbn [load bind]. apply validate_loaded_total.
  - intros col _. left. reflexivity.
  - left. reflexivity.
Qed.

Lemma nonobject_refused_fixed j : is_obj j = false -> VS true j = Exn HedFileError.
Proof. destruct j; intros H; try reflexivity. discriminate. Qed.

Lemma never_raises_partial kvs :
  cols_objects kvs = true -> hashless_refs_known kvs = true -> exists l, VS false (JObj kvs) = Ok l.
Proof.
  intros Ho Hk. unfold validate_sidecar. cbn [load bind]. apply validate_loaded_total.
  - intros col Hc. right. unfold cols_objects in Ho. rewrite forallb_forall in Ho. apply Ho. exact Hc.
  - right. exact Hk.
Qed.

Lemma raises_taskname : VS false w_taskname = Exn AttributeError.
Proof. reflexivity. Qed.

Lemma raises_toplist : VS false w_toplist = Exn TypeError.
Proof. reflexivity. Qed.

Lemma raises_keyerror : VS false w_keyerror = Exn KeyError.
Proof.
  unfold validate_sidecar, w_keyerror. cbn [load bind]. unfold validate_loaded.
  vm_compute. destruct (V_defcount _); reflexivity.
Qed.

Lemma witnesses_fixed :
  (exists l, VS true w_taskname = Ok l) /\ VS true w_toplist = Exn HedFileError /\
  (exists l, VS true w_keyerror = Ok l /\ In c_SIDECAR_BRACES_INVALID (error_codes l)).
Proof.
  split; [apply never_raises_fixed|]. split; [reflexivity|].
  eexists. split; [vm_compute; reflexivity | vm_compute; left; reflexivity].
Qed.

End T.

Lemma never_raises_refuted :
  exists j1 j2 j3, forall Vd Vb Vc Vh Vf,
    validate_sidecar false Vd Vb Vc Vh Vf j1 = Exn AttributeError /\
    validate_sidecar false Vd Vb Vc Vh Vf j2 = Exn TypeError /\
    validate_sidecar false Vd Vb Vc Vh Vf j3 = Exn KeyError.
Proof.
  exists w_taskname, w_toplist, w_keyerror. intros. split; [|split].
  - apply raises_taskname. - apply raises_toplist. - apply raises_keyerror.
Qed.

(* non-vacuity: a two-column sidecar with a reference, trivial string validator *)
Definition V0_defs (_ : list str) : list issue := [].
Definition V0_basic (_ : list str) (_ : str) : list issue := [].
Definition V0_defcount (_ : str) : nat := 0.
Definition V0_hashes (_ : list str) (s : str) : nat := count ch_hash s.
Definition V0_full (_ : list str) (_ : str) (_ _ : list str) : list issue := [].

Lemma good_example :
  (exists kvs, w_good = JObj kvs /\ cols_objects kvs = true /\ hashless_refs_known kvs = true) /\
  validate_sidecar false V0_defs V0_basic V0_defcount V0_hashes V0_full w_good = Ok [].
Proof. split; [eexists; split; [reflexivity|split; reflexivity] | reflexivity]. Qed.
